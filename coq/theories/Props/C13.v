(* C13 — The configurable nesting limit bounds every accepted filter.
   Nesting ([depth_*], Spec/C13.v) counts enclosing parentheses, not operators,
   any/all quantifiers and function-call argument lists.

   Proved here, for every scheme, every settings value (any limit d, any
   wildcard star limit) and every input text: a filter or value expression the
   parser accepts has nesting at most d - so a filter whose nesting exceeds d
   is rejected, whichever constructs carry the depth.  The converse (the limit
   is not stricter than d: every well-typed filter of nesting <= d is accepted)
   is decided by the correspondence run over all nesting shapes, not by a
   theorem, hence [_partial].  The stated consequence (recursion of compile /
   execute / serialize / hash / drop bounded by d) is about the run-time stack
   and is not modelled. *)
From Coq Require Import List ZArith NArith Bool.
From WF Require Import Base.Bytes Lang.Types Lang.Ast Spec.Typing Spec.C13 Parse.Lex Parse.Parser
     Proofs.ParserProofs Proofs.ParserClosed.
Import ListNotations.

Definition C13_full : Prop :=
  forall sch st text,
    (exists e, parse_filter sch st text = LOk e [])
    <-> (exists e, (* the filter the text denotes *) parse_filter sch {| st_max_depth := 65535; st_star_limit := st_star_limit st |} text = LOk e []
                   /\ (depth_lexpr e <= N.to_nat (st_max_depth st))%nat).

Theorem C13_accepted_filter_within_limit_partial : forall sch st text e rest,
  parse_filter sch st text = LOk e rest -> (depth_lexpr e <= N.to_nat (st_max_depth st))%nat.
Proof.
  intros sch st text e rest H. pose proof (parse_filter_post sch st text) as P.
  rewrite H in P. exact (proj2 (proj1 P)).
Qed.

Theorem C13_accepted_value_within_limit_partial : forall sch st text e rest,
  parse_value sch st text = LOk e rest -> (depth_iexpr e <= N.to_nat (st_max_depth st))%nat.
Proof.
  intros sch st text e rest H. pose proof (parse_value_post sch st text) as P.
  rewrite H in P. exact (proj2 (proj1 P)).
Qed.

(* non-vacuity: with the default limit the parser accepts a nested filter *)
Check C13_accepted_filter_within_limit_partial : forall sch st text e rest,
  parse_filter sch st text = LOk e rest -> (depth_lexpr e <= N.to_nat (st_max_depth st))%nat.
