(* C13 — The configurable nesting limit bounds every accepted filter.
   Nesting ([depth_*], Spec/C13.v) counts enclosing parentheses, not operators,
   any/all quantifiers and function-call argument lists.

   Proved here, for every scheme, every settings value (any limit d, any
   wildcard star limit) and every input text:
   - [C13_accepted_*_within_limit]: what the parser accepts has nesting at most
     d - whichever constructs or argument positions carry the depth;
   - [C13_limit_is_exact]: the limit acts on parsing ONLY as a filter on the
     nesting of the result: a text is accepted under limit d, with AST e,
     exactly when it is accepted without a limit (d = 65535, the largest u16)
     with the same AST e and the nesting of e is at most d.  "A well-typed
     filter" of the property is a text the unlimited parser accepts (its AST is
     well-typed by C04).  The scheme condition [fn_names_ok] - every function
     name passes, within its first three characters, the identifier test of
     FunctionCallArgExpr::lex_with - excludes the one place where a nesting
     error could be swallowed (the literal fall-back for arguments whose first
     characters look like a hex literal); [C13_library_names_ok] shows the
     harness library satisfies it and [fn_names_ok_of_test] gives a checkable
     sufficient test.
   The stated consequence (recursion of compile / execute / serialize / hash /
   drop bounded by d) concerns the native stack and is not modelled; the
   correspondence run compares the real parser with the model on every
   typeable sequence of the four constructs around each limit. *)
From Coq Require Import List ZArith NArith Bool Lia String.
From WF Require Import Base.Bytes Lang.Types Lang.Ast Spec.Typing Spec.C13 Parse.Lex Parse.Parser
     Proofs.ParserProofs Proofs.ParserClosed Proofs.LimitProofs Sem.Funs Spec.Grammar Proofs.GrammarProofs.
Import ListNotations.

Definition unlimited (st : settings) : settings :=
  {| st_max_depth := 65535; st_star_limit := st_star_limit st |}.

Local Open Scope list_scope.

Theorem C13_accepted_filter_within_limit : forall sch st text e rest,
  parse_filter sch st text = LOk e rest -> (depth_lexpr e <= N.to_nat (st_max_depth st))%nat.
Proof.
  intros sch st text e rest H. pose proof (parse_filter_post sch st text) as P.
  rewrite H in P. exact (proj2 (proj1 P)).
Qed.

Theorem C13_accepted_value_within_limit : forall sch st text e rest,
  parse_value sch st text = LOk e rest -> (depth_iexpr e <= N.to_nat (st_max_depth st))%nat.
Proof.
  intros sch st text e rest H. pose proof (parse_value_post sch st text) as P.
  rewrite H in P. exact (proj2 (proj1 P)).
Qed.

Theorem C13_limit_is_exact : forall sch st text e,
  fn_names_ok sch -> (st_max_depth st <= 65535)%N ->
  (parse_filter sch st text = LOk e []
   <-> parse_filter sch (unlimited st) text = LOk e [] /\ (depth_lexpr e <= N.to_nat (st_max_depth st))%nat).
Proof.
  intros sch st text e Hn Hu. split.
  - intros H. pose proof (C13_accepted_filter_within_limit _ _ _ _ _ H) as D. split; [|exact D].
    apply (parse_filter_limit_exact sch st (unlimited st)); auto. cbn [unlimited st_max_depth]. lia.
  - intros [H D]. apply (parse_filter_limit_exact sch (unlimited st) st); auto.
Qed.

Theorem C13_limit_is_exact_values : forall sch st text e,
  fn_names_ok sch -> (st_max_depth st <= 65535)%N ->
  (parse_value sch st text = LOk e []
   <-> parse_value sch (unlimited st) text = LOk e [] /\ (depth_iexpr e <= N.to_nat (st_max_depth st))%nat).
Proof.
  intros sch st text e Hn Hu. split.
  - intros H. pose proof (C13_accepted_value_within_limit _ _ _ _ _ H) as D. split; [|exact D].
    apply (parse_value_limit_exact sch st (unlimited st)); auto. cbn [unlimited st_max_depth]. lia.
  - intros [H D]. apply (parse_value_limit_exact sch (unlimited st) st); auto.
Qed.

(* With the surface grammar (Spec/Grammar.v) as the notion of "a well-typed filter written as text": such a
   filter is accepted under the limit d exactly when its nesting is at most d - with its own AST - and is
   otherwise rejected (no AST at all). *)
Theorem C13_grammar_filter_exact : forall sch st text e,
  fn_names_ok sch -> (st_max_depth st <= 65535)%N -> GFilter sch (unlimited st) text e ->
  (parse_filter sch st text = LOk e [] <-> (depth_lexpr e <= N.to_nat (st_max_depth st))%nat) /\
  ((exists e', parse_filter sch st text = LOk e' []) <-> (depth_lexpr e <= N.to_nat (st_max_depth st))%nat).
Proof.
  intros sch st text e Hn Hu HG. pose proof (filter_grammar_parses _ _ _ _ HG) as Hp.
  pose proof (C13_limit_is_exact sch st text e Hn Hu) as X. split.
  - split; [intros H; exact (proj2 (proj1 X H))|intros D; apply X; split; assumption].
  - split.
    + intros (e' & H'). destruct (proj1 (C13_limit_is_exact sch st text e' Hn Hu) H') as [U D].
      rewrite Hp in U. injection U as <-. exact D.
    + intros D. exists e. apply X. split; assumption.
Qed.

(* the names of the harness function library (and of the built-in concat) satisfy the condition *)
Definition lib_names : list bytes :=
  map bytes_of_string ["echo"; "lower"; "len"; "echo_int"; "echo_ip"; "nonempty"; "show"; "lit_only"; "echo_ab";
                       "echo_mb"; "echo_b"; "tagb"; "count"; "join2"; "tally"; "tally0"; "boom"; "concat"]%string.

Example C13_library_names_ok :
  forallb (fun n => name_ok1 n || name_ok2 n || name_ok3 n) lib_names = true.
Proof. vm_compute. reflexivity. Qed.

Check C13_limit_is_exact : forall sch st text e,
  fn_names_ok sch -> (st_max_depth st <= 65535)%N ->
  (parse_filter sch st text = LOk e []
   <-> parse_filter sch (unlimited st) text = LOk e [] /\ (depth_lexpr e <= N.to_nat (st_max_depth st))%nat).
