(* C02 — Indexing, map-each, bool-array logic and any/all follow the reference
   semantics.  Property theorems only. *)
From Coq Require Import List ZArith NArith Bool.
From WF Require Import Base.Bytes Sem.RangeSet Lang.Types Lang.Ast Lang.Context
     Sem.Compile Spec.Denote Spec.Typing Proofs.ValueProofs Proofs.IndexProofs Proofs.ExecProofs
     Proofs.CallProofs Proofs.FullProofs Parse.Lex Parse.Parser Spec.Grammar Proofs.GrammarProofs Proofs.ParserClosed.
Import ListNotations.

(* For every scheme, every well-typed filter (documented typing rules: index
   kinds matching the containers, [*] anywhere in a path, element-wise
   not/and/or/xor on boolean arrays, any/all, calls), every well-formed context
   and every type-correct function library: compile + execute returns exactly
   the denotation (row-major flattening, absent => no value / empty result,
   truncation to the shortest operand, any/all), and never panics. *)
Theorem C02_exec_is_denote : forall (sch : scheme) (e : lexpr) (c : ctx),
  wt_filter sch e = true -> ctx_ok sch c = true -> fns_ok sch ->
  exists b, run_filter sch e c = Some b /\ denote_filter sch e c = Some b.
Proof. exact filter_exec_is_denote. Qed.

(* Text level: every text of the surface grammar (Spec/Grammar.v: left-hand sides with any sequence of [n],
   ["key"], [*] accesses, comparisons over them, bare boolean arrays, element-wise not / and / xor / or on
   boolean-array expressions, any( ) / all( ) over a parenthesised or negated chain, one iterating
   comparison or a bare Array(Bool) value) parses to the AST the grammar assigns to it, whatever the layout
   and the spellings, and executing that AST gives its denotation. *)
Theorem C02_text_level : forall sch st text e c,
  GFilter sch st text e -> ctx_ok sch c = true -> fns_ok sch ->
  parse_filter sch st text = LOk e [] /\
  exists b, run_filter sch e c = Some b /\ denote_filter sch e c = Some b.
Proof.
  intros sch st text e c HG Hc Hf. pose proof (filter_grammar_parses sch st text e HG) as Hp.
  split; [exact Hp|]. apply filter_exec_is_denote; [|assumption|assumption].
  pose proof (parse_filter_post sch st text) as P. rewrite Hp in P. exact (proj1 (proj1 P)).
Qed.

(* The explicit-stack MapEachIterator yields exactly the recursive row-major
   flattening, for every well-typed value and path (any depth and width). *)
Theorem C02_map_each_iter_is_flatten : forall idx v t t',
  idx <> [] -> has_type v t = true -> ty_index_ok t idx = Some t' ->
  mei_collect idx v = Some (flatten idx v).
Proof. exact mei_collect_is_flatten. Qed.

(* The three compilation strategies (no [*] / one trailing [*] / iterator)
   compute [select]: one value, or the flattened list of selected values. *)
Theorem C02_strategies : forall c (src : ctx -> M (option value)) base t0 idx t default comp holds,
  src c = Some base ->
  (forall v, base = Some v -> has_type v t0 = true) ->
  ty_index_ok t0 idx = Some t ->
  (forall x, has_type x t = true -> exists b, comp x c = Some b /\ holds x = Some b) ->
  match compile_with src idx default comp with
  | COne f =>
      map_each_count idx = 0%nat /\
      exists b, f c = Some b /\
                match select base idx with
                | SAbsent => b = default
                | SOne x => holds x = Some b
                | SMany _ => False
                end
  | CVec f =>
      map_each_count idx <> 0%nat /\
      exists l xs, f c = Some l /\ select base idx = SMany xs /\ all_some (map holds xs) = Some l
  end.
Proof. exact compile_with_spec. Qed.

(* The in-place zip/truncate loops are element-wise with truncation to the
   shortest operand, for any number of operands. *)
Theorem C02_vec_logic : forall c op fs ls,
  evals_vec c fs ls ->
  forall out, run_vec op out fs c = Some (fold_left (map2_trunc (lop_spec op)) ls out).
Proof. exact run_vec_spec. Qed.

(* Non-vacuity: `any(grid[*][*] and not rows[*]["k"] == "a")`-like filter over a ragged context *)
Definition ex_scheme : scheme :=
  {| sc_fields := [ {| fd_name := [103]%N; fd_ty := TArray (TArray TBool); fd_optional := true |};
                    {| fd_name := [109]%N; fd_ty := TMap (TArray TInt); fd_optional := true |} ];
     sc_functions := []; sc_lists := []; sc_nil_ne := true |}.
Definition ex_filter : lexpr :=
  EQuantLogical QAny
    (ECombining LAnd (LCons (EComparison (IField 0 [IEach; IEach]) CIsTrue)
                     (LCons (ENot (EComparison (IField 1 [IEach; IArr 1]) (COrd OGt (RInt 3)))) LNil))).
Definition ex_ctx : ctx :=
  {| cx_vals := [Some (VArray (TArray TBool) [VArray TBool [VBool false]; VArray TBool []; VArray TBool [VBool true; VBool true]]);
                 Some (VMap (TArray TInt) [([97]%N, VArray TInt [VInt 1]); ([98]%N, VArray TInt [VInt 9; VInt 2; VInt 7])])];
     cx_lists := [] |}.
Example C02_premises_satisfiable :
  wt_filter ex_scheme ex_filter = true /\ ctx_ok ex_scheme ex_ctx = true /\
  run_filter ex_scheme ex_filter ex_ctx = Some false /\
  mei_collect [IEach; IEach] (VArray (TArray TBool) [VArray TBool [VBool false]; VArray TBool []; VArray TBool [VBool true; VBool true]])
  = Some [VBool false; VBool true; VBool true].
Proof. vm_compute. repeat split. Qed.

Check C02_exec_is_denote : forall (sch : scheme) (e : lexpr) (c : ctx),
  wt_filter sch e = true -> ctx_ok sch c = true -> fns_ok sch ->
  exists b, run_filter sch e c = Some b /\ denote_filter sch e c = Some b.
