(* C09 — Set membership `in {...}` is exact for any list of values, ranges and
   CIDRs.  This file contains only the property theorems, closed by [exact]. *)
From Coq Require Import List ZArith NArith Bool Sorted Permutation.
From WF Require Import Base.Bytes Sem.RangeSet Spec.C09 Proofs.RangeSetProofs Proofs.C09Proofs.
Import ListNotations.
Open Scope Z_scope.

(* Integers: for every list of ranges (any length and order, overlapping,
   nested, touching, even reversed) and every probe, present or absent. *)
Theorem C09_int : forall (items : list range) (x : option Z),
  oneof_int items x = Some (spec_in_int items x).
Proof. exact oneof_int_spec. Qed.

(* IP addresses: explicit ranges and CIDR blocks of both families mixed. *)
Theorem C09_ip : forall (items : list ip_item) (x : option ip),
  Forall ip_item_wf items -> oneof_ip items x = Some (spec_in_ip items x).
Proof. exact oneof_ip_spec. Qed.

Theorem C09_bytes : forall (items : list bytes) (x : option bytes),
  oneof_bytes items x = Some (spec_in_bytes items x).
Proof. exact oneof_bytes_spec. Qed.

(* The result does not depend on which (unstable) sort the library uses. *)
Theorem C09_any_sort : forall (l l' : list range) (x : Z),
  Permutation l l' -> StronglySorted by_start l' ->
  rangeset_contains (merge l') x = Some (existsb (in_range x) l).
Proof. exact rangeset_any_sort. Qed.

Theorem C09_cidr_range : forall bits a n v,
  0 <= n <= bits -> a mod 2 ^ (bits - n) = 0 ->
  in_range v (cidr_range bits a n) = in_cidr bits a n v.
Proof. exact cidr_range_spec. Qed.

(* Non-vacuity: a list with a block that has real host bits meets the premise. *)
Example C09_ip_premise_satisfiable :
  Forall ip_item_wf [IpCidr4 167772160 8; IpRange6 5 3; IpCidr6 0 0; IpCidr4 16909060 32].
Proof. repeat constructor; cbn; try discriminate. Qed.

Example C09_int_nontrivial :
  oneof_int [(5, 9); (-9223372036854775808, -9223372036854775808); (7, 20); (21, 21); (3, 1)] (Some 21)
  = Some true.
Proof. vm_compute. reflexivity. Qed.

Check C09_int : forall (items : list range) (x : option Z),
  oneof_int items x = Some (spec_in_int items x).
Check C09_ip : forall (items : list ip_item) (x : option ip),
  Forall ip_item_wf items -> oneof_ip items x = Some (spec_in_ip items x).
Check C09_bytes : forall (items : list bytes) (x : option bytes),
  oneof_bytes items x = Some (spec_in_bytes items x).

Print Assumptions C09_int.
Print Assumptions C09_ip.
Print Assumptions C09_bytes.
Print Assumptions C09_any_sort.
Print Assumptions C09_cidr_range.
