(* C20 — The C API mirrors the Rust API and reports failures via status and
   last-error.  Only the property theorems, closed by [exact].  All statements are
   for operation sequences / call histories of any length (induction in
   Proofs/FfiProofs.v).  The "mirrors the Rust API" half is the correspondence run
   (the harness calls the exported functions next to the Rust API, Run/C20.v). *)
From Coq Require Import List NArith Bool.
From WF Require Import Base.Bytes Sem.CString Sem.FfiProto Spec.C20 Proofs.FfiProofs.
Import ListNotations.
Open Scope N_scope.

(* ---- the string buffer ------------------------------------------------------- *)

(* For EVERY sequence of append / clear on a new CString: the buffer is empty (and
   as_c_str is NULL) exactly when nothing was appended since the last clear;
   otherwise it is the C string (NUL-terminated, no interior NUL) whose content is
   the NUL-substituted concatenation of everything appended since the last clear,
   and that is what a C caller reads through as_c_str. *)
Theorem C20_cstring_inv : forall ops : list cs_op,
  match spec_pending None ops with
  | None => cs_run cs_new ops = [] /\ cs_as_c_str (cs_run cs_new ops) = None
  | Some m =>
      is_c_string (cs_run cs_new ops) (spec_text m) /\
      cs_as_c_str (cs_run cs_new ops) = Some (cs_run cs_new ops) /\
      c_read (cs_run cs_new ops) = Some (spec_text m) /\
      cs_view (cs_run cs_new ops) = VStr (spec_text m)
  end.
Proof. exact cstring_inv. Qed.

(* What append does when called twice without a clear (read from the code: it pops
   the terminator, extends, substitutes NUL in the new bytes only, pushes a new
   terminator): the second call continues the first, from ANY buffer. *)
Theorem C20_cstring_append_twice : forall s a b,
  cs_append (cs_append s a) b = cs_append s (a ++ b).
Proof. exact cs_append_twice. Qed.

Theorem C20_cstring_append_is : forall s buf,
  cs_append s buf = removelast s ++ spec_text buf ++ [0].
Proof. exact cs_append_simpl. Qed.

(* ... and whatever the buffer held before (even an ill-formed vector), a clear
   makes the rest of the sequence behave as on a new CString. *)
Theorem C20_cstring_clear_resets : forall s0 ops1 ops2,
  cs_run s0 (ops1 ++ CsClear :: ops2) = cs_run cs_new ops2.
Proof. exact cstring_clear_resets. Qed.

(* write!(last_error, ..): the fragments of a formatted message are concatenated;
   a message whose text is empty leaves the buffer empty (NULL). *)
Theorem C20_write_fmt : forall msg,
  cs_write_fmt cs_new msg = match concat msg with [] => [] | m => spec_text m ++ [0] end.
Proof. exact cs_write_fmt_new. Qed.

(* ---- the last-error protocol --------------------------------------------------- *)

(* Model = specification for EVERY call history of one thread, from any pair of
   related states (in particular the initial ones): same results, same last-error
   view after every call (never an ill-formed buffer: [view_of] has no VBad), same
   process state, and the final states are related again. *)
Theorem C20_model_is_spec : forall h p st a, rel st a ->
  map abs_obs (fst (fst (run false p st h))) = fst (fst (spec_run p a h)) /\
  snd (fst (run false p st h)) = snd (fst (spec_run p a h)) /\
  rel (snd (run false p st h)) (snd (spec_run p a h)).
Proof. exact run_refines. Qed.

(* The protocol, clause by clause; (1)-(3) hold from ANY thread state, hence after
   every call history:
   (1) after a failing call (whatever the function, the failure site and what the
       buffer held), the call returns its kind's failure value and get_last_error
       returns exactly that call's message, NUL-substituted and NUL-terminated,
       which is what a C caller reads;
   (2) a succeeding call other than clear_last_error leaves the buffer unchanged;
   (3) clear_last_error empties it: get_last_error returns NULL;
   (4) frame: a call on one thread does not touch the other thread's state;
   (5) interleaving independence: with the hook installed and no abort, under every
       schedule that lets both threads finish, each thread's observations (results
       and its own last error after each of its calls) are those of running its
       history alone. *)
Theorem C20_last_error_protocol :
  (forall p st f site msg, p_dead p = false -> concat msg <> [] ->
     exists st',
       step false p st (Call f (Failure site msg)) = (p, st', ret_failure f) /\
       t_enabled st' = t_enabled st /\
       is_c_string (t_err st') (spec_text (concat msg)) /\
       step false p st' (Call F_get_last_error Success)
         = (p, st', RErrPtr (Some (spec_text (concat msg) ++ [0]))) /\
       c_read (spec_text (concat msg) ++ [0]) = Some (spec_text (concat msg))) /\
  (forall coded p st f, f <> F_clear_last_error ->
     t_err (snd (fst (step coded p st (Call f Success)))) = t_err st) /\
  (forall coded p st, p_dead p = false ->
     exists st',
       step coded p st (Call F_clear_last_error Success) = (p, st', RUnit) /\
       t_err st' = [] /\
       step coded p st' (Call F_get_last_error Success) = (p, st', RErrPtr None)) /\
  (forall coded g c,
     g_b (fst (gstep coded g TA c)) = g_b g /\ g_a (fst (gstep coded g TB c)) = g_a g) /\
  (forall sched coded g ha hb oa ob g',
     interleave coded sched g ha hb = (oa, ob, g', [], []) ->
     p_hook (g_p g) = true -> p_dead (g_p g') = false ->
     oa = fst (fst (run coded (g_p g) (g_a g) ha)) /\
     ob = fst (fst (run coded (g_p g) (g_b g) hb))).
Proof.
  exact (conj failing_call_sets_message
        (conj succeeding_call_keeps_message
        (conj clear_empties
        (conj gstep_frame interleave_independent)))).
Qed.

(* ---- panics ------------------------------------------------------------------- *)

(* With the hook installed and the catcher enabled on the calling thread, a panic
   inside parse, compile or match (and uses_list) is returned as the panic status,
   and the last error is the C string of the catcher's text, which contains the
   (NUL-substituted) panic message; in the code as it stands and as intended. *)
Theorem C20_panic_status_spec : forall coded p st f pre payload post,
  p_dead p = false -> p_hook p = true -> t_enabled st = true ->
  f = F_parse_filter \/ f = F_compile_filter \/ f = F_match \/ f = F_filter_uses_list ->
  pre ++ payload ++ post <> [] ->
  exists st',
    step coded p st (Call f (Panicked pre payload post)) = (p, st', RStatus StPanic) /\
    t_enabled st' = true /\
    is_c_string (t_err st') (spec_text pre ++ spec_text payload ++ spec_text post).
Proof. exact panic_status_spec. Qed.

(* The model's explicit outcome for the other case: catcher disabled on the thread,
   or a function that is not wrapped in catch_panic: the panic reaches the
   extern "C" boundary and the process aborts. *)
Theorem C20_panic_uncaught_aborts : forall coded p st f pre payload post,
  p_dead p = false -> catches f = false \/ t_enabled st = false ->
  step coded p st (Call f (Panicked pre payload post)) = (mk_pstate (p_hook p) true, st, RAbort).
Proof. exact panic_uncaught_aborts. Qed.

(* ---- the code as it stood at the pinned commit (finding F8, repaired in /repo by
   the commit "fix: C API bool-returning add functions write the last error on
   failure"; the correspondence now runs against [run false], the intended
   protocol, and the as-coded variant is kept as the record of the defect) ---- *)

(* [run true] mirrors the wrappers before the repair: the bool-returning functions that ended
   in `.is_ok()` returned false without writing the last error.  Clause (1) of the
   protocol is refuted for it, with a NULL and with a stale message: *)
Theorem C20_last_error_protocol_refuted_as_coded :
  (exists f msg, concat msg <> [] /\
     step true (mk_pstate true false) init_tstate (Call f (Failure AtEngine msg))
       = (mk_pstate true false, init_tstate, RBool false) /\
     cs_as_c_str (t_err init_tstate) = None) /\
  (exists h, fst (fst (run true (mk_pstate true false) init_tstate h))
             = [(RStatus StError, [80; 0]); (RBool false, [80; 0])] /\
             fst (fst (run false (mk_pstate true false) init_tstate h))
             = [(RStatus StError, [80; 0]); (RBool false, [73; 0])]).
Proof.
  split.
  - exists F_add_int_value, [[73]]. split; [discriminate|]. split; reflexivity.
  - exists [Call F_parse_filter (Failure AtEngine [[80]]); Call F_add_int_value (Failure AtEngine [[73]])].
    split; reflexivity.
Qed.

(* ... exactly there and nowhere else: the failing call returns false and keeps the
   buffer, and a history without such a failure runs as intended. *)
Theorem C20_as_coded_differs_only_at_is_ok_failures :
  (forall p st f msg, p_dead p = false -> is_ok_fn f = true ->
     step true p st (Call f (Failure AtEngine msg)) = (p, st, RBool false)) /\
  (forall h p st, forallb (fun c => negb (f8_call c)) h = true ->
     run true p st h = run false p st h).
Proof. exact (conj coded_is_ok_failure_keeps_message run_coded_eq). Qed.

(* ---- non-vacuity ---------------------------------------------------------------- *)

(* a sequence with interior NULs, two appends in a row, a clear and an empty append *)
Example C20_cstring_inv_nontrivial :
  cs_run cs_new [CsAppend [65; 0; 66]; CsAppend [0]; CsClear; CsAppend []; CsAppend [0; 67]]
  = [26; 67; 0] /\
  spec_pending None [CsAppend [65; 0; 66]; CsAppend [0]; CsClear; CsAppend []; CsAppend [0; 67]]
  = Some [0; 67] /\
  cs_run cs_new [CsAppend [65; 0; 66]; CsAppend [0]] = [65; 26; 66; 26; 0] /\
  cs_run cs_new [CsAppend [65]; CsClear; CsAppend []] = [0].
Proof. repeat split. Qed.

(* the initial states are related; a history mixing failing, succeeding, clearing
   and panicking calls *)
Example C20_model_is_spec_premise : rel init_tstate init_astate.
Proof. exact init_rel. Qed.

Example C20_protocol_nontrivial :
  map abs_obs (fst (fst (run false (mk_pstate true false) init_tstate
    [Call F_parse_filter (Failure AtEngine [[69; 0]; []; [33]]);
     Call F_add_int_value Success;
     Call F_add_int_value (Failure AtToStr [[85]]);
     Call F_clear_last_error Success;
     Call F_enable_panic_catcher Success;
     Call F_match (Panicked [112] [0] [113]);
     Call F_get_last_error Success])))
  = [(RStatus StError, VStr [69; 26; 33]); (RBool true, VStr [69; 26; 33]); (RBool false, VStr [85]);
     (RUnit, VNull); (RUnit, VNull); (RStatus StPanic, VStr [112; 26; 113]);
     (RErrPtr (Some [112; 26; 113; 0]), VStr [112; 26; 113])].
Proof. reflexivity. Qed.

(* the premises of the interleaving clause are satisfiable with both threads failing *)
Example C20_interleaving_premise :
  exists oa ob g',
    interleave false [TA; TB; TB; TA] (mk_gstate (mk_pstate true false) init_tstate init_tstate)
      [Call F_parse_filter (Failure AtEngine [[65]]); Call F_get_last_error Success]
      [Call F_match (Failure AtEngine [[66]]); Call F_clear_last_error Success]
    = (oa, ob, g', [], []) /\ p_dead (g_p g') = false /\
    oa = [(RStatus StError, [65; 0]); (RErrPtr (Some [65; 0]), [65; 0])] /\
    ob = [(RStatus StError, [66; 0]); (RUnit, [])].
Proof. do 3 eexists. repeat split. Qed.

Example C20_panic_premises :
  exists st', step true (mk_pstate true false) (mk_tstate [88; 0] true)
                (Call F_match (Panicked [112] [98; 111; 111; 109] [113]))
              = (mk_pstate true false, st', RStatus StPanic) /\
              t_err st' = [112; 98; 111; 111; 109; 113; 0].
Proof. eexists. split; reflexivity. Qed.

Check C20_cstring_inv : forall ops : list cs_op,
  match spec_pending None ops with
  | None => cs_run cs_new ops = [] /\ cs_as_c_str (cs_run cs_new ops) = None
  | Some m =>
      is_c_string (cs_run cs_new ops) (spec_text m) /\
      cs_as_c_str (cs_run cs_new ops) = Some (cs_run cs_new ops) /\
      c_read (cs_run cs_new ops) = Some (spec_text m) /\
      cs_view (cs_run cs_new ops) = VStr (spec_text m)
  end.
Check C20_model_is_spec : forall h p st a, rel st a ->
  map abs_obs (fst (fst (run false p st h))) = fst (fst (spec_run p a h)) /\
  snd (fst (run false p st h)) = snd (fst (spec_run p a h)) /\
  rel (snd (run false p st h)) (snd (spec_run p a h)).
Check C20_panic_status_spec : forall coded p st f pre payload post,
  p_dead p = false -> p_hook p = true -> t_enabled st = true ->
  f = F_parse_filter \/ f = F_compile_filter \/ f = F_match \/ f = F_filter_uses_list ->
  pre ++ payload ++ post <> [] ->
  exists st',
    step coded p st (Call f (Panicked pre payload post)) = (p, st', RStatus StPanic) /\
    t_enabled st' = true /\
    is_c_string (t_err st') (spec_text pre ++ spec_text payload ++ spec_text post).

Print Assumptions C20_cstring_inv.
Print Assumptions C20_cstring_append_twice.
Print Assumptions C20_cstring_append_is.
Print Assumptions C20_cstring_clear_resets.
Print Assumptions C20_write_fmt.
Print Assumptions C20_model_is_spec.
Print Assumptions C20_last_error_protocol.
Print Assumptions C20_panic_status_spec.
Print Assumptions C20_panic_uncaught_aborts.
Print Assumptions C20_last_error_protocol_refuted_as_coded.
Print Assumptions C20_as_coded_differs_only_at_is_ok_failures.
