(* C03 — Function calls get the evaluated arguments; map-each and concat as
   specified.  Property theorems only. *)
From Coq Require Import List ZArith NArith Bool String.
From WF Require Import Base.Bytes Sem.RangeSet Lang.Types Lang.Ast Lang.Context Sem.Funs
     Sem.Compile Spec.Denote Spec.Typing Proofs.ExecProofs Proofs.CallProofs Proofs.FullProofs Proofs.FunsProofs
     Parse.Lex Parse.Parser Spec.Grammar Proofs.GrammarProofs Proofs.ParserClosed.
Import ListNotations.

(* Text level: a call written in the surface grammar (Spec/Grammar.v: name ( arg , arg ... ) [index]... where an
   argument is a quoted byte string, a field or nested call with index accesses - [*] only in the first -, or a
   logical expression that begins with `(`, `not` or `!`; arity, kinds and types as the definition demands)
   parses to the call node the grammar assigns to it, arguments in source order, and executing the filter
   gives its denotation (the implementation applied to the evaluated arguments, per element under [*]). *)
Theorem C03_text_level : forall sch st text e c,
  GFilter sch st text e -> ctx_ok sch c = true -> fns_ok sch ->
  parse_filter sch st text = LOk e [] /\
  exists b, run_filter sch e c = Some b /\ denote_filter sch e c = Some b.
Proof.
  intros sch st text e c HG Hc Hf. pose proof (filter_grammar_parses sch st text e HG) as Hp.
  split; [exact Hp|]. apply filter_exec_is_denote; [|assumption|assumption].
  pose proof (parse_filter_post sch st text) as P. rewrite Hp in P. exact (proj1 (proj1 P)).
Qed.

Example C03_text_level_instance :
  GFilter gex2_sch default_settings gex2_text gex2_ast /\ parse_filter gex2_sch default_settings gex2_text = LOk gex2_ast [].
Proof. split; [exact gex2_in_grammar|exact gex2_parses]. Qed.

(* Filters with calls: the implementation is invoked with exactly the evaluated
   arguments in source order followed by the defaults of the omitted optional
   parameters (this is what [denote] says); with [*] in the first argument it is
   applied once per element in order, absent results dropped, the other
   arguments evaluated against the same context whether memoised or not; an
   absent result behaves like an absent field. Never panics. *)
Theorem C03_filter_exec_is_denote : forall (sch : scheme) (e : lexpr) (c : ctx),
  wt_filter sch e = true -> ctx_ok sch c = true -> fns_ok sch ->
  exists b, run_filter sch e c = Some b /\ denote_filter sch e c = Some b.
Proof. exact filter_exec_is_denote. Qed.

(* Value expressions (calls, index paths): the result is the denotation, a value
   of the static type or an absence tagged with it. *)
Theorem C03_value_exec_is_denote : forall sch e c t,
  wt_value sch e = Some t -> ctx_ok sch c = true -> fns_ok sch ->
  exists r, run_value sch e c = Some r /\ denote_value sch e c = Some r /\
            match r with VOk v => has_type v t = true | VAbsent t' => t' = t end.
Proof. exact value_exec_is_denote. Qed.

(* One compiled call, all three closure variants (no extra argument / memoised /
   re-evaluated per element): the same result. *)
Theorem C03_call_eval : forall sch c, ctx_ok sch c = true -> fns_ok sch ->
  forall fn a d ret cvs rs ds idx,
  fn_of sch fn = Some d -> ty_ret sch fn a = Some ret ->
  arity_ok d ret (List.length (args_to_list a)) ->
  Forall2 (fun (cv : cval) r => cv c = Some r) cvs rs ->
  Forall3 (arg_rel' sch) (args_to_list a) rs ds ->
  denote_args sch a c = Some ds ->
  forallb (fun x => Nat.eqb (arg_map_each_count x) 0) (tl (args_to_list a)) = true ->
  (if fn_variadic_same d then Forall (fun x => wt_arg sch x = Some ret) (args_to_list a)
   else Forall2 (fun x kt => wt_arg sch x = Some (snd kt)) (args_to_list a)
                (firstn (List.length (args_to_list a)) (sig_of d))) ->
  let mapped := match args_to_list a with a0 :: _ => Nat.ltb 0 (arg_map_each_count a0) | [] => false end in
  let t0 := if mapped then TArray ret else ret in
  exists call base,
    compile_call_with sch fn a cvs = Some call /\ call c = Some (res_of base t0) /\
    (forall v, base = Some v -> has_type v t0 = true) /\
    denote_ident sch (ICall fn a idx) c = Some (base, t0, idx).
Proof. exact call_eval. Qed.

(* The built-in concat: present arguments joined in order; absent iff all absent. *)
Theorem C03_concat_bytes : forall l,
  Forall (fun r => vres_typed r TBytes = true) l ->
  concat_impl l = Some (match present_bytes l with
                        | [] => None
                        | _ => Some (VBytes (List.concat (present_bytes l)))
                        end).
Proof. exact concat_bytes_args. Qed.

Theorem C03_concat_arrays : forall t l,
  Forall (fun r => vres_typed r (TArray t) = true) l ->
  concat_impl l = Some (match present_arrays l with
                        | [] => None
                        | _ => Some (VArray t (List.concat (present_arrays l)))
                        end).
Proof. exact concat_array_args. Qed.

(* Non-vacuity of [fns_ok]: every function of the harness library (but the
   deliberately panicking `boom`) meets the assumption. *)
Theorem C03_library_ok : forall name d,
  lib_fn name = Some d -> name <> bytes_of_string "boom" -> fn_ok d.
Proof. exact lib_fn_ok. Qed.

Check C03_filter_exec_is_denote : forall (sch : scheme) (e : lexpr) (c : ctx),
  wt_filter sch e = true -> ctx_ok sch c = true -> fns_ok sch ->
  exists b, run_filter sch e c = Some b /\ denote_filter sch e c = Some b.
