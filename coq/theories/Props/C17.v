(* C17 — `in $list` delegates exactly to the context's list matcher.
   Property theorems only; proofs are in Proofs/ListProofs.v and
   Proofs/ListNameProofs.v (and, for the execution part, the general theorem
   of Proofs/FullProofs.v).

   Proved for every scheme, filter, context and history: delegation (a), the
   built-in lists (b), the list-name lexer in both directions, the `in $name`
   branch of ComparisonExpr::lex_with_lhs and, through the whole
   recursive-descent parser, that every accepted filter carries permitted names
   and refers to registered lists (c), the refinement of the abstract matcher
   state by the context's slots, round trip and clear (d).  Not modelled here:
   the JSON text of a serialized context (C14) - a serialized context is an
   abstract document. *)
From Coq Require Import List ZArith NArith Bool.
From WF Require Import Base.Bytes Sem.RangeSet Lang.Types Lang.Ast Lang.Context
     Sem.Compile Spec.Denote Spec.Typing Proofs.CallProofs Proofs.FullProofs
     Parse.Lex Parse.Parser Proofs.ParserProofs Proofs.ParserClosed
     Sem.ListState Spec.C17 Proofs.ListProofs Proofs.ListNameProofs Sem.Funs Proofs.FunsProofs.
Import ListNotations.

(* ---- (a) delegation ---- *)

(* For every scheme, well-formed context and type-correct function library, and
   every well-typed `lhs in $name` (lhs a field, an index path, a map-each path or
   a function call, with any indexes): a list is registered for the type of lhs,
   the context holds a matcher for it, and the compiled comparison evaluates to
   exactly that matcher's answers for (name, value): one answer for the one
   selected value, one per element under [*], false when there is no value. *)
Theorem C17_inlist_delegates : forall sch c lhs li name t,
  ctx_ok sch c = true -> fns_ok sch ->
  wt_lexpr sch (EComparison lhs (CInList li name)) = Some t ->
  exists tl m base t0 ce,
    wt_iexpr sch lhs = Some tl /\ list_ty tl /\ list_index sch tl = Some li /\
    ctx_matcher sch c tl = Some m /\
    denote_ident sch lhs c = Some (base, t0, iexpr_idx lhs) /\
    compile_lexpr sch (EComparison lhs (CInList li name)) = Some ce /\
    runs c ce (in_list_spec (match_value m name) (select base (iexpr_idx lhs))).
Proof. exact inlist_delegates. Qed.

(* as a filter (no [*]): execute() returns the matcher's answer, false when absent *)
Theorem C17_inlist_filter_delegates : forall sch c lhs li name,
  ctx_ok sch c = true -> fns_ok sch ->
  wt_filter sch (EComparison lhs (CInList li name)) = true ->
  exists tl m base t0,
    wt_iexpr sch lhs = Some tl /\ list_ty tl /\ ctx_matcher sch c tl = Some m /\
    denote_ident sch lhs c = Some (base, t0, iexpr_idx lhs) /\
    run_filter sch (EComparison lhs (CInList li name)) c =
    Some (match select base (iexpr_idx lhs) with SOne v => match_value m name v | _ => false end).
Proof. exact inlist_filter_delegates. Qed.

(* inside any filter: execution is the denotation, in which `in $name` means the above *)
Theorem C17_filter_exec_is_denote : forall sch e c,
  wt_filter sch e = true -> ctx_ok sch c = true -> fns_ok sch ->
  exists b, run_filter sch e c = Some b /\ denote_filter sch e c = Some b.
Proof. exact filter_exec_is_denote. Qed.

(* the values the comparison asks its matcher about are exactly the selected ones, in order *)
Theorem C17_queries : forall sch c lhs tl,
  ctx_ok sch c = true -> fns_ok sch -> wt_iexpr sch lhs = Some tl ->
  exists base t0, denote_ident sch lhs c = Some (base, t0, iexpr_idx lhs) /\
    lhs_values sch lhs c = Some (in_list_queries (select base (iexpr_idx lhs))).
Proof. exact lhs_values_spec. Qed.

(* ---- (b) the built-in lists ---- *)
Theorem C17_always_matches_all : forall name v, match_value MAlways name v = true.
Proof. exact always_matches_all. Qed.

Theorem C17_never_matches_none : forall name v, match_value MNever name v = false.
Proof. exact never_matches_none. Qed.

Theorem C17_always_list_exec : forall sch c lhs li name t tl,
  ctx_ok sch c = true -> fns_ok sch ->
  wt_lexpr sch (EComparison lhs (CInList li name)) = Some t ->
  wt_iexpr sch lhs = Some tl -> ctx_matcher sch c tl = Some MAlways ->
  exists base t0 ce,
    denote_ident sch lhs c = Some (base, t0, iexpr_idx lhs) /\
    compile_lexpr sch (EComparison lhs (CInList li name)) = Some ce /\
    runs c ce (match select base (iexpr_idx lhs) with
               | SAbsent => ROne false
               | SOne _ => ROne true
               | SMany l => RVec (map (fun _ => true) l)
               end).
Proof. exact always_list_exec. Qed.

Theorem C17_never_list_exec : forall sch c lhs li name t tl,
  ctx_ok sch c = true -> fns_ok sch ->
  wt_lexpr sch (EComparison lhs (CInList li name)) = Some t ->
  wt_iexpr sch lhs = Some tl -> ctx_matcher sch c tl = Some MNever ->
  exists base t0 ce,
    denote_ident sch lhs c = Some (base, t0, iexpr_idx lhs) /\
    compile_lexpr sch (EComparison lhs (CInList li name)) = Some ce /\
    runs c ce (match select base (iexpr_idx lhs) with
               | SAbsent | SOne _ => ROne false
               | SMany l => RVec (map (fun _ => false) l)
               end).
Proof. exact never_list_exec. Qed.

(* whatever was done to a context, the slot of a built-in list holds the built-in matcher *)
Theorem C17_builtin_lists_fixed : forall sch ops t,
  lists_distinct sch -> all_optional sch -> fns_ok sch -> forallb lop_wf ops = true ->
  (kind_of sch t = Some LkAlways -> ctx_matcher sch (a_view sch (a_after sch ops)) t = Some MAlways) /\
  (kind_of sch t = Some LkNever -> ctx_matcher sch (a_view sch (a_after sch ops)) t = Some MNever).
Proof. exact builtin_lists_fixed. Qed.

(* ---- (c) list names ---- *)

(* ListName::lex on `$`s: the longest run of name characters is read, and it is
   accepted exactly when it is a permitted name (not empty, no dot at either end) *)
Theorem C17_listname_lex_spec : forall s name rest,
  name_split s name rest ->
  lex_list_name (36 :: s)%N =
  if permitted_name name then LOk name rest else LErr EInvalidListName s (List.length s).
Proof. exact lex_list_name_spec. Qed.

Theorem C17_listname_split_exists : forall s, name_split s (name_run s) (skipn (List.length (name_run s)) s).
Proof. exact name_run_split. Qed.

Theorem C17_listname_accepts_iff : forall i name rest,
  lex_list_name i = LOk name rest <->
  exists s, i = (36 :: s)%N /\ name_split s name rest /\ permitted_name name = true.
Proof. exact lex_list_name_accepts. Qed.

Theorem C17_listname_no_dollar : forall i,
  starts_with [36]%N i = None -> lex_list_name i = LErr EExpectedLiteral i (List.length i).
Proof. exact lex_list_name_no_dollar. Qed.

Theorem C17_permitted_name_iff : forall n,
  permitted_name n = true <->
  n <> [] /\ Forall (fun b => name_char b = true) n /\ hd 0%N n <> 46%N /\ last n 0%N <> 46%N.
Proof. exact permitted_name_iff. Qed.

(* ComparisonExpr::lex_with_lhs on `in $...` after a left side of a list type:
   accepted exactly when the name is permitted and a list is registered for the
   type; InvalidListName / UnsupportedOp otherwise *)
Theorem C17_with_lhs_in_list : forall sch st f d input lhs t after_op s name rest,
  ty_iexpr sch lhs = Some t -> list_ty t ->
  lex_alts comparison_ops (skip_space input) = Some (OpIn, after_op) ->
  skip_space after_op = (36 :: s)%N -> name_split s name rest ->
  lex_with_lhs sch st (S f) d input lhs =
  if permitted_name name then
    match list_index sch t with
    | Some li => LOk (EComparison lhs (CInList li name)) rest
    | None => LErr EUnsupportedOp (skip_space input) (span_len (skip_space input) rest)
    end
  else LErr EInvalidListName s (List.length s).
Proof. exact with_lhs_in_list_spec. Qed.

Theorem C17_no_list_rejected : forall sch st f d input lhs t after_op s,
  ty_iexpr sch lhs = Some t -> list_ty t ->
  lex_alts comparison_ops (skip_space input) = Some (OpIn, after_op) ->
  skip_space after_op = (36 :: s)%N ->
  list_index sch t = None ->
  exists k a n, lex_with_lhs sch st (S f) d input lhs = LErr k a n /\ (k = EUnsupportedOp \/ k = EInvalidListName).
Proof. exact no_list_rejected. Qed.

(* through the whole parser: every `in $name` node of an accepted filter, however
   deeply nested (operands, parentheses, any/all, function arguments), carries a
   permitted name *)
Theorem C17_parsed_names_permitted : forall sch st text e rest,
  parse_filter sch st text = LOk e rest -> names_ok_lexpr e = true.
Proof. exact parsed_names_permitted. Qed.

(* ... and (C04) is well-typed, which for `lhs in $name` means: a list is registered for lhs's type *)
Theorem C17_inlist_well_typed_registered : forall sch lhs li name t,
  wt_lexpr sch (EComparison lhs (CInList li name)) = Some t ->
  exists tl, wt_iexpr sch lhs = Some tl /\ list_ty tl /\ list_index sch tl = Some li /\
             t = (if Nat.eqb (map_each_count (iexpr_idx lhs)) 0 then TBool else TArray TBool).
Proof. exact wt_inlist_inv. Qed.

(* through the whole parser: an accepted `lhs in $name` refers to the list registered for lhs's type *)
Theorem C17_parsed_inlist_registered : forall sch st text lhs li name rest,
  parse_filter sch st text = LOk (EComparison lhs (CInList li name)) rest ->
  exists tl, wt_iexpr sch lhs = Some tl /\ list_ty tl /\ list_index sch tl = Some li.
Proof. exact parsed_inlist_registered. Qed.

(* ---- (d) matcher state on a context ---- *)

(* For every scheme with at most one list per type and every history of
   mutate / set value / clear / round trip (with any rotation of "$lists") /
   load / dump / probe / execute: the context's slots produce exactly the
   observations of the abstract, type-keyed state - executions see the current
   state, a round trip changes nothing, clear empties the set lists - and no
   operation panics. *)
Theorem C17_matcher_state_history : forall sch ops,
  lists_distinct sch -> all_optional sch -> fns_ok sch -> forallb lop_wf ops = true ->
  l_run sch ops = a_run sch ops /\ ~ In BPanic (l_run sch ops).
Proof. exact matcher_state_history. Qed.

(* serialize, reorder "$lists" in any rotation, deserialize into a new context: the same context *)
Theorem C17_roundtrip_identity : forall sch a k,
  lists_distinct sch -> a_ok sch a ->
  exists d, serialize sch (a_view sch a) = Some d /\
    deserialize_into sch (new_ctx sch)
      {| cd_fields := cd_fields d; cd_lists := option_map (rotate k) (cd_lists d) |} = Ok (a_view sch a).
Proof. exact roundtrip_identity. Qed.

Theorem C17_clear_empties : forall sch a t,
  match a_match (fst (a_step sch a LClear)) t with
  | Some (MSet s) => s = []
  | Some m => a_match a t = Some m
  | None => a_match a t = None
  end.
Proof. exact clear_empties. Qed.

(* ---- non-vacuity ---- *)
Definition ex_scheme : scheme :=
  {| sc_fields := [ {| fd_name := [110]%N; fd_ty := TInt; fd_optional := true |};
                    {| fd_name := [97]%N; fd_ty := TArray TBytes; fd_optional := true |};
                    {| fd_name := [105]%N; fd_ty := TIp; fd_optional := true |} ];
     sc_functions := [];
     sc_lists := [(TBytes, LkSet); (TInt, LkSet); (TIp, LkAlways)];
     sc_nil_ne := true |}.

Definition ex_ops : list lop :=
  [ LAdd TInt [108; 49]%N (VInt 7);
    LAdd TBytes [108; 49]%N (VBytes [120]%N);
    LSetVal 0 (VInt 7);
    LSetVal 1 (VArray TBytes [VBytes [120]%N; VBytes [121]%N]);
    LExec (EComparison (IField 0 []) (CInList 1 [108; 49]%N));
    LExec (EQuantLogical QAny (EComparison (IField 1 [IEach]) (CInList 0 [108; 49]%N)));
    LRoundTrip 2;
    LExec (EComparison (IField 0 []) (CInList 1 [108; 49]%N));
    LLoad [(TIp, DEmpty); (TBool, DEmpty)];
    LClear;
    LExec (EComparison (IField 0 []) (CInList 1 [108; 49]%N));
    LDump TInt ].

Example C17_history_premises_satisfiable :
  NoDup (map fst (sc_lists ex_scheme)) /\ forallb fd_optional (sc_fields ex_scheme) = true /\
  forallb lop_wf ex_ops = true /\
  map (fun b => match b with BBool x => Some x | _ => None end) (l_run ex_scheme ex_ops) =
  [None; None; None; None; Some true; Some true; None; Some true; None; None; Some false; None] /\
  nth 8 (l_run ex_scheme ex_ops) BOk = BErr ENoList /\
  nth 11 (l_run ex_scheme ex_ops) BOk = BDump (MSet []).
Proof.
  split; [repeat constructor; cbn; intuition discriminate|]. vm_compute. repeat split.
Qed.

Example C17_delegation_premises_satisfiable :
  let c := {| cx_vals := [Some (VInt 7); None; None]; cx_lists := [MSet []; MSet [([108; 49]%N, [VInt 7])]; MAlways] |} in
  ctx_ok ex_scheme c = true /\
  wt_lexpr ex_scheme (EComparison (IField 1 [IEach]) (CInList 0 [108; 49]%N)) = Some (TArray TBool) /\
  wt_filter ex_scheme (EComparison (IField 0 []) (CInList 1 [108; 49]%N)) = true /\
  run_filter ex_scheme (EComparison (IField 0 []) (CInList 1 [108; 49]%N)) c = Some true /\
  run_filter ex_scheme (EComparison (IField 2 []) (CInList 2 [120]%N)) c = Some false.
Proof. vm_compute. repeat split. Qed.

Example C17_parse_premises_satisfiable :
  (* `n in $l1`, `any(a[*] in $a..b)` are accepted; `n in $l1.` and `i in $x` (always-list) / `a in $x` (no list for arrays) *)
  parse_filter ex_scheme default_settings [110; 32; 105; 110; 32; 36; 108; 49]%N
    = LOk (EComparison (IField 0 []) (CInList 1 [108; 49]%N)) [] /\
  parse_filter ex_scheme default_settings [97; 110; 121; 40; 97; 91; 42; 93; 32; 105; 110; 32; 36; 97; 46; 46; 98; 41]%N
    = LOk (EQuantLogical QAny (EComparison (IField 1 [IEach]) (CInList 0 [97; 46; 46; 98]%N))) [] /\
  (exists a n, parse_filter ex_scheme default_settings [110; 32; 105; 110; 32; 36; 108; 49; 46]%N = LErr EInvalidListName a n) /\
  (exists a n, parse_filter ex_scheme default_settings [97; 32; 105; 110; 32; 36; 120]%N = LErr EUnsupportedOp a n).
Proof. vm_compute. repeat split; eauto. Qed.

Example C17_names_premises_satisfiable :
  name_split [97; 46; 46; 98; 95; 49; 59]%N [97; 46; 46; 98; 95; 49]%N [59]%N /\
  permitted_name [97; 46; 46; 98; 95; 49]%N = true /\
  permitted_name [97; 46]%N = false /\ permitted_name [46; 97]%N = false /\ permitted_name [] = false /\
  lex_list_name [36; 97; 46; 88]%N = LErr EInvalidListName [97; 46; 88]%N 3 /\
  lex_list_name [36; 97; 88]%N = LOk [97]%N [88]%N.
Proof. vm_compute. repeat split. Qed.

Check C17_inlist_delegates : forall sch c lhs li name t,
  ctx_ok sch c = true -> fns_ok sch ->
  wt_lexpr sch (EComparison lhs (CInList li name)) = Some t ->
  exists tl m base t0 ce,
    wt_iexpr sch lhs = Some tl /\ list_ty tl /\ list_index sch tl = Some li /\
    ctx_matcher sch c tl = Some m /\
    denote_ident sch lhs c = Some (base, t0, iexpr_idx lhs) /\
    compile_lexpr sch (EComparison lhs (CInList li name)) = Some ce /\
    runs c ce (in_list_spec (match_value m name) (select base (iexpr_idx lhs))).
Check C17_listname_accepts_iff : forall i name rest,
  lex_list_name i = LOk name rest <->
  exists s, i = (36 :: s)%N /\ name_split s name rest /\ permitted_name name = true.
Check C17_matcher_state_history : forall sch ops,
  lists_distinct sch -> all_optional sch -> fns_ok sch -> forallb lop_wf ops = true ->
  l_run sch ops = a_run sch ops /\ ~ In BPanic (l_run sch ops).
Check C17_parsed_names_permitted : forall sch st text e rest,
  parse_filter sch st text = LOk e rest -> names_ok_lexpr e = true.
