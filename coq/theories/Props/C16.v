(* C16 — a scheme is a consistent registry of uniquely named fields, functions
   and lists.  This file contains only the property theorems, closed by [exact]. *)
From Coq Require Import List NArith Bool Arith.
From WF Require Import Base.Bytes Lang.Types Sem.Registry Spec.C16 Proofs.RegistryProofs Sem.RegistryFast Proofs.RegistryFastProofs.
Import ListNotations.
Open Scope N_scope.

(* For EVERY sequence of add_field / add_optional_field / add_function /
   add_list calls: the builder's responses are those of the abstract registry,
   and every public query of the built scheme (none of which can panic: the
   outer [Some]) answers what the abstract registry answers. *)
Theorem C16_registry_refines_map : forall ops : list reg_op,
  fst (run_ops ops) = fst (spec_run_ops ops) /\
  ((forall n, obs_get_field (snd (run_ops ops)) n = Some (spec_get_field (snd (spec_run_ops ops)) n)) /\
   (forall n, obs_get_function (snd (run_ops ops)) n = Some (spec_get_function (snd (spec_run_ops ops)) n)) /\
   (forall t, obs_get_list (snd (run_ops ops)) t = Some (spec_get_list (snd (spec_run_ops ops)) t)) /\
   obs_fields (snd (run_ops ops)) = Some (spec_fields (snd (spec_run_ops ops))) /\
   obs_functions (snd (run_ops ops)) = Some (spec_functions (snd (spec_run_ops ops))) /\
   obs_lists (snd (run_ops ops)) = Some (spec_lists (snd (spec_run_ops ops))) /\
   obs_counts (snd (run_ops ops)) = spec_counts (snd (spec_run_ops ops))).
Proof. exact registry_refines_map_proof. Qed.

(* A failed registration changes nothing, in any state. *)
Theorem C16_failure_changes_nothing : forall (b : builder) (o : reg_op) (e : redef),
  fst (apply_op b o) = AddErr e -> snd (apply_op b o) = b.
Proof. exact failed_add_unchanged. Qed.

(* What each call answers, without reference to any state: it succeeds exactly
   when no earlier call of the history claimed the same name (fields and
   functions share one name space) or the same list type, and otherwise reports
   the kind of the first earlier claim. *)
Theorem C16_response_by_history : forall (ops : list reg_op) (o : reg_op),
  fst (run_ops (ops ++ [o])) = fst (run_ops ops) ++ [expected_response ops o].
Proof. exact response_history. Qed.

(* The registry after a history is the list of first claims, in order ... *)
Theorem C16_registry_is_first_claims : forall ops : list reg_op,
  snd (spec_run_ops ops) = map reg_of_op (first_claims [] ops).
Proof. exact registry_is_first_claims. Qed.

(* ... so fields (functions, lists) are numbered 0, 1, 2, ... in insertion
   order among the successful registrations of their kind. *)
Theorem C16_field_indexes_insertion_order : forall ops : list reg_op,
  obs_fields (snd (run_ops ops)) = Some (numbered (reg_fields (map reg_of_op (first_claims [] ops)))) /\
  obs_functions (snd (run_ops ops)) = Some (numbered (reg_functions (map reg_of_op (first_claims [] ops)))) /\
  obs_lists (snd (run_ops ops)) = Some (numbered (reg_lists (map reg_of_op (first_claims [] ops)))).
Proof. exact field_indexes_insertion_order_proof. Qed.

(* Invariant: the items map and the vectors describe each other. *)
Theorem C16_items_consistent : forall ops : list reg_op,
  let b := snd (run_ops ops) in
  (forall n i, scheme_get b n = Some (IField i) -> exists f, field_at b i = Some f /\ fd_name f = n) /\
  (forall n i, scheme_get b n = Some (IFunction i) -> function_at b i = Some n) /\
  (forall i f, field_at b i = Some f -> scheme_get b (fd_name f) = Some (IField i)) /\
  (forall i n, function_at b i = Some n -> scheme_get b n = Some (IFunction i)) /\
  (forall t i, get_list b t = Some i -> exists k, list_at b i = Some (t, k)) /\
  (forall i t k, list_at b i = Some (t, k) -> get_list b t = Some i).
Proof. exact items_consistent_proof. Qed.

(* No two slots carry the same name (across fields and functions); at most one list per type. *)
Theorem C16_unique_names_one_list_per_type : forall ops : list reg_op,
  let b := snd (run_ops ops) in
  (forall i j f g, field_at b i = Some f -> field_at b j = Some g -> fd_name f = fd_name g -> i = j) /\
  (forall i j n, function_at b i = Some n -> function_at b j = Some n -> i = j) /\
  (forall i j f, field_at b i = Some f -> function_at b j = Some (fd_name f) -> False) /\
  (forall i j t k k', list_at b i = Some (t, k) -> list_at b j = Some (t, k') -> i = j).
Proof. exact unique_slots_proof. Qed.

(* The lexed identifier is the maximal dotted run ... *)
Theorem C16_ident_lex_maximal : forall input : bytes,
  lex_ident input =
  match spec_lex_ident input with
  | Some (name, rest) => LexOk name rest
  | None => LexErr ExpectedName
  end.
Proof. exact lex_ident_spec. Qed.

Theorem C16_ident_lex_shape : forall input name rest,
  lex_ident input = LexOk name rest ->
  input = name ++ rest /\
  forallb is_name_byte name = true /\
  segments_ok false name = true /\
  match rest with [] => True | c :: _ => is_ident_char c = false /\ c <> 46 end.
Proof. exact lex_ident_maximal. Qed.

(* ... and lookup is exact: what is found under a name carries that very
   name, and a name no call of the history mentioned is not found, whatever
   other names (prefixes, extensions, other case) were registered. *)
Theorem C16_lookup_exact : forall (ops : list reg_op) (n : bytes) (i : nat),
  get_field (snd (run_ops ops)) n = Some i ->
  exists f, field_at (snd (run_ops ops)) i = Some f /\ fd_name f = n.
Proof. exact lookup_exact_proof. Qed.

Theorem C16_lookup_exact_function : forall (ops : list reg_op) (n : bytes) (i : nat),
  get_function (snd (run_ops ops)) n = Some i -> function_at (snd (run_ops ops)) i = Some n.
Proof. exact lookup_exact_function_proof. Qed.

Theorem C16_never_added_not_found : forall (ops : list reg_op) (n : bytes),
  ~ In (KName n) (map op_key ops) -> scheme_get (snd (run_ops ops)) n = None.
Proof. exact never_added_not_found. Qed.

(* Identifiers in value expressions and filters resolve through the abstract
   registry only: a field bare, a function called, never the other way round. *)
Theorem C16_ident_in_filters : forall (ops : list reg_op) (text : bytes),
  (spec_probe_value (snd (spec_run_ops ops)) text <> PErr Unmodelled ->
   probe_value (snd (run_ops ops)) text = spec_probe_value (snd (spec_run_ops ops)) text) /\
  (spec_probe_filter (snd (spec_run_ops ops)) text <> PErr Unmodelled ->
   probe_filter (snd (run_ops ops)) text = spec_probe_filter (snd (spec_run_ops ops)) text).
Proof. exact probes_history_proof. Qed.

(* Two schemes are equal exactly when they come from the same build. *)
Theorem C16_scheme_eq_iff_clone : forall (ops : list scheme_op) i j si sj oi oj,
  nth_error (run_scheme_ops ops) i = Some si -> nth_error (run_scheme_ops ops) j = Some sj ->
  nth_error (scheme_origins ops) i = Some oi -> nth_error (scheme_origins ops) j = Some oj ->
  scheme_eqb si sj = Nat.eqb oi oj.
Proof. exact scheme_eq_iff_clone_proof. Qed.

Theorem C16_scheme_worlds_same_length : forall ops : list scheme_op,
  length (run_scheme_ops ops) = length (scheme_origins ops).
Proof. exact scheme_worlds_same_length. Qed.

(* ---- non-vacuity ---- *)
Definition ex_x : bytes := [120].
Definition ex_xy : bytes := [120; 46; 121].
Definition ex_X : bytes := [88].
Definition ex_ops : list reg_op :=
  [OpField ex_xy TInt; OpFn ex_x; OpOField ex_x TBool; OpFn ex_xy; OpList TInt LkAlways; OpList TInt LkNever;
   OpField ex_X TBool].

Example C16_history_nontrivial :
  fst (run_ops ex_ops) = [AddOk; AddOk; AddErr RedefFunction; AddErr RedefField; AddOk; AddErr RedefList; AddOk]
  /\ obs_fields (snd (run_ops ex_ops))
     = Some [(0%nat, {| fd_name := ex_xy; fd_ty := TInt; fd_optional := false |});
             (1%nat, {| fd_name := ex_X; fd_ty := TBool; fd_optional := false |})].
Proof. vm_compute. split; reflexivity. Qed.

Example C16_failure_premise_satisfiable :
  fst (apply_op (snd (run_ops [OpFn ex_x])) (OpField ex_x TInt)) = AddErr RedefFunction.
Proof. vm_compute. reflexivity. Qed.

Example C16_lookup_premise_satisfiable : get_field (snd (run_ops ex_ops)) ex_X = Some 1%nat.
Proof. vm_compute. reflexivity. Qed.

Example C16_lookup_function_premise_satisfiable : get_function (snd (run_ops ex_ops)) ex_x = Some 0%nat.
Proof. vm_compute. reflexivity. Qed.

(* `x.y` and `X` are registered, the prefix `x` of `x.y` is a function: `x.y.z` is never found *)
Example C16_never_added_premise_satisfiable :
  ~ In (KName [120; 46; 121; 46; 122]) (map op_key ex_ops).
Proof. cbn. intros H. repeat (destruct H as [H|H]; [discriminate|]). exact H. Qed.

Example C16_lex_shape_premise_satisfiable :
  lex_ident [120; 46; 121; 40; 41] = LexOk ex_xy [40; 41] /\ lex_ident [120; 46] = LexErr ExpectedName.
Proof. vm_compute. split; reflexivity. Qed.

Example C16_probe_premises_satisfiable :
  spec_probe_value (snd (spec_run_ops ex_ops)) [120; 40; 41] = PCall 0 /\
  spec_probe_filter (snd (spec_run_ops ex_ops)) ex_X = PField 1 /\
  spec_probe_filter (snd (spec_run_ops ex_ops)) ex_xy = PErr ExpectedName /\
  spec_probe_value (snd (spec_run_ops ex_ops)) ex_X <> PErr Unmodelled.
Proof. vm_compute. repeat split; try reflexivity. discriminate. Qed.

Example C16_scheme_world_nontrivial :
  let w := [SBuild ex_ops; SClone 0; SBuild ex_ops] in
  scheme_origins w = [0; 0; 2]%nat /\
  map (fun s => scheme_eqb s (nth 0 (run_scheme_ops w) {| s_id := 9; s_inner := empty_builder |}))
      (run_scheme_ops w) = [true; true; false].
Proof. vm_compute. split; reflexivity. Qed.

(* The runner executes linear-cost arrangements of the model and of the
   specification (vectors newest first beside their lengths, one reversal at
   the end) so that histories of 10^5 registrations stay affordable; they
   compute exactly run_ops and spec_run_ops. *)
Theorem C16_fast_model_runner : forall ops : list reg_op, run_ops_fast ops = run_ops ops.
Proof. exact run_ops_fast_eq. Qed.

Theorem C16_fast_spec_runner : forall ops : list reg_op, spec_run_ops_fast ops = spec_run_ops ops.
Proof. exact spec_run_ops_fast_eq. Qed.

Check C16_registry_refines_map : forall ops : list reg_op,
  fst (run_ops ops) = fst (spec_run_ops ops) /\
  ((forall n, obs_get_field (snd (run_ops ops)) n = Some (spec_get_field (snd (spec_run_ops ops)) n)) /\
   (forall n, obs_get_function (snd (run_ops ops)) n = Some (spec_get_function (snd (spec_run_ops ops)) n)) /\
   (forall t, obs_get_list (snd (run_ops ops)) t = Some (spec_get_list (snd (spec_run_ops ops)) t)) /\
   obs_fields (snd (run_ops ops)) = Some (spec_fields (snd (spec_run_ops ops))) /\
   obs_functions (snd (run_ops ops)) = Some (spec_functions (snd (spec_run_ops ops))) /\
   obs_lists (snd (run_ops ops)) = Some (spec_lists (snd (spec_run_ops ops))) /\
   obs_counts (snd (run_ops ops)) = spec_counts (snd (spec_run_ops ops))).
Check C16_failure_changes_nothing : forall (b : builder) (o : reg_op) (e : redef),
  fst (apply_op b o) = AddErr e -> snd (apply_op b o) = b.
Check C16_response_by_history : forall (ops : list reg_op) (o : reg_op),
  fst (run_ops (ops ++ [o])) = fst (run_ops ops) ++ [expected_response ops o].
Check C16_ident_lex_maximal : forall input : bytes,
  lex_ident input =
  match spec_lex_ident input with
  | Some (name, rest) => LexOk name rest
  | None => LexErr ExpectedName
  end.
Check C16_never_added_not_found : forall (ops : list reg_op) (n : bytes),
  ~ In (KName n) (map op_key ops) -> scheme_get (snd (run_ops ops)) n = None.
Check C16_scheme_eq_iff_clone : forall (ops : list scheme_op) i j si sj oi oj,
  nth_error (run_scheme_ops ops) i = Some si -> nth_error (run_scheme_ops ops) j = Some sj ->
  nth_error (scheme_origins ops) i = Some oi -> nth_error (scheme_origins ops) j = Some oj ->
  scheme_eqb si sj = Nat.eqb oi oj.

Print Assumptions C16_registry_refines_map.
Print Assumptions C16_failure_changes_nothing.
Print Assumptions C16_response_by_history.
Print Assumptions C16_registry_is_first_claims.
Print Assumptions C16_field_indexes_insertion_order.
Print Assumptions C16_items_consistent.
Print Assumptions C16_unique_names_one_list_per_type.
Print Assumptions C16_ident_lex_maximal.
Print Assumptions C16_ident_lex_shape.
Print Assumptions C16_lookup_exact.
Print Assumptions C16_lookup_exact_function.
Print Assumptions C16_never_added_not_found.
Print Assumptions C16_ident_in_filters.
Print Assumptions C16_scheme_eq_iff_clone.
Print Assumptions C16_scheme_worlds_same_length.
Print Assumptions C16_fast_model_runner.
Print Assumptions C16_fast_spec_runner.
