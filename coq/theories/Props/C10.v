(* C10 — `contains` is exact substring search on every code path.
   This file contains only the property theorems, closed by [exact].

   Model: Sem/Searcher.v (a Gallina mirror of the `Contains` arm of
   compile_with_compiler in engine/src/ast/field_expr.rs, of
   engine/src/searcher.rs and of sliceslice-0.4.3's MemchrSearcher,
   vector_search_in_chunk, vector_search_in, Avx2Searcher::with_position and
   Avx2Searcher::inlined_search_in).  Specification: Spec/C10.v.

   Modelled faithfully: the dispatch on the needle length (0 / 1 / 2..=16 as
   `[u8; N]` / longer as `Box<[u8]>` / memmem when AVX2 is off), the anchor
   position, `with_position`'s assertions, the `haystack.len() <= needle.size()`
   shortcut, the choice of the lane width 2/4/8/16/32 from `end`,
   `haystack[..end].chunks_exact(LANES)`, the remainder chunk re-read at
   `end - LANES` with mask `u32::MAX << (LANES - remainder)`, both loads of a
   chunk with their bounds, the candidate mask
   `to_bitmask(lanes_eq(first) & lanes_eq(last)) & mask` as a number, the
   `while eq != 0 { trailing_zeros; memcmp; eq &= eq - 1 }` loop, the
   size-specialised memcmp length.  Every read outside the haystack or the
   needle, every assertion/unreachable!/shift overflow is an explicit [None].
   Abstracted: SIMD registers are lists of lane bytes (the intrinsics are not
   modelled below lane level); memchr::memchr is first-index search;
   memchr::memmem::Finder is [occurs] (third-party, tied by the
   correspondence runs only). *)
From Coq Require Import List NArith Arith Bool.
From WF Require Import Base.Bytes Sem.Compile Spec.Denote Sem.Searcher Spec.C10 Proofs.SearcherProofs.
Import ListNotations.
Open Scope nat_scope.

(* The executable specification decides "p is a contiguous subsequence of h". *)
Theorem C10_spec_is_substring : forall p h : bytes,
  contains_spec p h = true <-> substring p h.
Proof. exact occurs_spec_substring. Qed.

(* vector_search_spec: the chunked SIMD search of sliceslice, for EVERY lane
   width L > 0 (W is the width of the mask word, 32 in the code; L <= W), every
   anchor position (even 0), every needle representation, every haystack that
   reaches it (no bound on lengths): it returns exact substring search and
   never reads out of bounds, never overflows a shift, never runs out of
   fuel.  [L <= end] is what `inlined_search_in` guarantees; without it the
   code reads before the haystack (C10_width_precondition_needed). *)
Theorem C10_vector_search : forall (W L : nat) (size_const : option nat) (needle : bytes) (pos : nat) (hay : bytes),
  0 < L <= W ->
  pos < length needle ->
  (size_const = None \/ size_const = Some (length needle)) ->
  length needle <= length hay ->
  L <= length hay - length needle + 1 ->
  exists s, with_position size_const needle pos = Some s /\
            vector_search_in W s L hay (length hay - length needle + 1)
            = Some (contains_spec needle hay).
Proof. exact vector_search_full. Qed.

(* Avx2Searcher::inlined_search_in: every haystack of any length. *)
Theorem C10_inlined_search : forall (size_const : option nat) (needle : bytes) (pos : nat) (hay : bytes),
  pos < length needle ->
  (size_const = None \/ size_const = Some (length needle)) ->
  exists s, with_position size_const needle pos = Some s /\
            inlined_search_in s hay = Some (contains_spec needle hay).
Proof. exact inlined_search_full. Qed.

(* dispatch_spec: every path of the `Contains` arm equals the specification:
   any needle (empty, one byte, 2..=16, longer), AVX2 on or off, any anchor the
   random number generator can draw, any haystack. *)
Theorem C10_dispatch : forall (avx2 : bool) (anchor : nat) (needle hay : bytes),
  anchor_valid anchor needle ->
  contains_dispatch avx2 anchor needle hay = Some (contains_spec needle hay).
Proof. exact dispatch_full. Qed.

(* the randomly chosen anchor does not matter; hence recompiling the same
   filter gives the same answers *)
Theorem C10_anchor_irrelevant : forall (avx2 : bool) (a1 a2 : nat) (needle hay : bytes),
  anchor_valid a1 needle -> anchor_valid a2 needle ->
  contains_dispatch avx2 a1 needle hay = contains_dispatch avx2 a2 needle hay.
Proof. exact anchor_irrelevant. Qed.

(* WIREFILTER_USE_AVX2 does not matter *)
Theorem C10_avx2_switch_irrelevant : forall (a1 a2 : nat) (needle hay : bytes),
  anchor_valid a1 needle -> anchor_valid a2 needle ->
  contains_dispatch true a1 needle hay = contains_dispatch false a2 needle hay.
Proof. exact avx2_switch_irrelevant. Qed.

Theorem C10_empty_pattern_always : forall (avx2 : bool) (anchor : nat) (hay : bytes),
  contains_dispatch avx2 anchor [] hay = Some true /\ contains_spec [] hay = true.
Proof. exact empty_pattern_always. Qed.

Theorem C10_single_byte : forall (avx2 : bool) (anchor : nat) (b : N) (hay : bytes),
  contains_dispatch avx2 anchor [b] hay = Some (existsb (N.eqb b) hay).
Proof. exact single_byte_spec. Qed.

(* ---- non-vacuity and tightness ---- *)

(* the premises of C10_vector_search are satisfiable with a remainder chunk
   (end = 7, L = 4: one full chunk, remainder 3, mask 0b1110) and a false
   candidate ("aXb" at offset 0) *)
Example C10_vector_search_nontrivial :
  exists s, with_position (Some 3) [97; 98; 99]%N 2 = Some s /\
            vector_search_in 32 s 4 [97; 120; 99; 100; 101; 102; 97; 98; 99]%N 7 = Some true.
Proof. eexists. split; [vm_compute; reflexivity | vm_compute; reflexivity]. Qed.

(* without [L <= end] the remainder chunk would start before the haystack *)
Example C10_width_precondition_needed :
  exists s, with_position None [97; 98]%N 1 = Some s /\
            vector_search_in 32 s 16 [120; 121; 97; 98]%N 3 = None.
Proof. eexists. split; [vm_compute; reflexivity | vm_compute; reflexivity]. Qed.

(* an anchor outside the needle is rejected by with_position's assertion *)
Example C10_anchor_bound_needed :
  contains_dispatch true 2 [97; 98]%N [97; 98; 99]%N = None /\ anchor_valid 1 [97; 98]%N.
Proof. split; [vm_compute; reflexivity | intros _; cbn; auto]. Qed.

Example C10_dispatch_nontrivial :
  contains_dispatch true 16 (repeat 97%N 16 ++ [98]%N) (repeat 97%N 63 ++ [98; 99]%N) = Some true /\
  contains_dispatch true 1 (repeat 97%N 16 ++ [98]%N) (repeat 97%N 63 ++ [99; 98]%N) = Some false.
Proof. split; vm_compute; reflexivity. Qed.

Check C10_spec_is_substring : forall p h : bytes, contains_spec p h = true <-> substring p h.
Check C10_vector_search : forall (W L : nat) (size_const : option nat) (needle : bytes) (pos : nat) (hay : bytes),
  0 < L <= W -> pos < length needle ->
  (size_const = None \/ size_const = Some (length needle)) ->
  length needle <= length hay -> L <= length hay - length needle + 1 ->
  exists s, with_position size_const needle pos = Some s /\
            vector_search_in W s L hay (length hay - length needle + 1) = Some (contains_spec needle hay).
Check C10_dispatch : forall (avx2 : bool) (anchor : nat) (needle hay : bytes),
  anchor_valid anchor needle ->
  contains_dispatch avx2 anchor needle hay = Some (contains_spec needle hay).

Print Assumptions C10_spec_is_substring.
Print Assumptions C10_vector_search.
Print Assumptions C10_inlined_search.
Print Assumptions C10_dispatch.
Print Assumptions C10_anchor_irrelevant.
Print Assumptions C10_avx2_switch_irrelevant.
Print Assumptions C10_empty_pattern_always.
Print Assumptions C10_single_byte.
