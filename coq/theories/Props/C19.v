(* C19 — The panic catcher returns results or panic text and never leaks state.
   Only the property theorems, closed by [exact]; all for programs of any size
   and nesting (induction over program trees in Proofs/PanicProofs.v). *)
From Coq Require Import List NArith Bool.
From WF Require Import Sem.Panic Spec.C19 Proofs.PanicProofs.
Import ListNotations.
Open Scope N_scope.

(* (a) level_balanced: whatever a program does (enable, disable, nested
   catch_panic, panics caught or escaping), the nesting level after it is the
   level before it, on the returning and on the panicking path, from any start
   level and any hook state; only process::abort() is excluded. *)
Theorem C19_level_balanced : forall p g ts ev o ts' g',
  run_prog g ts p = (ev, o, ts', g') -> not_aborted o -> level ts' = level ts.
Proof. exact (proj2 level_balanced_mut). Qed.

Theorem C19_level_balanced_step : forall s g ts ev o ts' g',
  run_step g ts s = (ev, o, ts', g') -> not_aborted o -> level ts' = level ts.
Proof. exact (proj1 level_balanced_mut). Qed.

(* (b) catch_result_spec: with our hook current and catching enabled,
   catch_panic(p) returns Ok when p returns and otherwise Err with exactly the
   message of the panic that escaped p (also the last one recorded), restores
   the level, at any level [level ts] and for any body p. *)
Theorem C19_catch_result_spec : forall p g ts ev o ts2 g2,
  ours g -> enabled ts = true -> level ts < u64_max ->
  run_prog g (set_level ts (level ts + 1)) p = (ev, o, ts2, g2) ->
  match o with
  | Returned =>
      run_step g ts (Catch p) = (EEnter :: ev ++ [EExit ROk], Returned, set_level ts2 (level ts), g2)
  | Unwound m =>
      run_step g ts (Catch p) = (EEnter :: ev ++ [EExit (RErr (Some m))], Returned, set_level ts2 (level ts), g2)
      /\ last ts2 = Some m
  | Aborted w =>
      run_step g ts (Catch p) = (EEnter :: ev, Aborted w, ts2, g2)
  end.
Proof. exact catch_result_enabled. Qed.

(* ... and when catching is disabled at entry catch_panic is transparent: the
   body runs in the same state and its panic propagates. *)
Theorem C19_catch_disabled_transparent : forall p g ts ev o ts2 g2,
  enabled ts = false ->
  run_prog g ts p = (ev, o, ts2, g2) ->
  run_step g ts (Catch p) =
    match o with
    | Returned => (EEnter :: ev ++ [EExit ROk], Returned, ts2, g2)
    | _ => (EEnter :: ev, o, ts2, g2)
    end.
Proof. exact catch_result_disabled. Qed.

(* (c) outside_reaches_previous_hook: after any program that started outside
   catch_panic (level 0) and did not abort, the hook is still installed with
   the previous hook behind it, the level is 0, and a panic with fallback
   Continue is handed to the previous hook and unwinds; nothing is recorded. *)
Theorem C19_outside_reaches_previous_hook : forall p g ts ev o ts' g' m,
  installed g -> level ts = 0 ->
  run_prog g ts p = (ev, o, ts', g') -> not_aborted o ->
  installed g' /\ level ts' = 0 /\
  run_prog g' ts' (PCons (SetFallback Continue) (PCons (Panic m) PNil)) =
    ([EFallback (fb ts'); EPanic m; EPrev m], Unwound m, set_fb ts' Continue, g').
Proof. exact outside_reaches_previous_hook. Qed.

(* Model = specification: for every program, the observations, the way it ends
   and the final state are those of Spec/C19.v, as long as the u64 counter has
   room for the deepest nesting of the program (level + depth <= u64::MAX). *)
Theorem C19_model_is_spec : forall p g ts,
  installed g -> level ts + prog_depth p <= u64_max ->
  forall ev o a', spec_prog (level ts) (abs ts) p = (ev, o, a') ->
  exists ts' g', run_prog g ts p = (ev, conc_outcome o, ts', g') /\ installed g' /\
                 (o <> SAborted -> ts' = conc (level ts) a').
Proof. exact (proj2 model_refines_spec_mut). Qed.

(* The step machine run alone is the interpreter (both designs of the
   installation, any global state). *)
Theorem C19_machine_is_interpreter : forall d n g ts p,
  finished (snd (solo d n g (thread_of ts p))) = true ->
  final_of (run_prog g ts p) (snd (solo d n g (thread_of ts p))) /\
  fst (solo d n g (thread_of ts p)) = snd (run_prog g ts p).
Proof. exact alone_is_run_prog. Qed.

(* (d) thread_frame: a step of one thread leaves the other thread untouched... *)
Theorem C19_thread_frame_step : forall d w g a b g' a' b',
  interleave d [w] g a b = (g', a', b') -> if w then b' = b else a' = a.
Proof. exact thread_frame_step. Qed.

(* ... hence, once the hook is installed (flag set), under any schedule each
   thread is exactly its own solo run and the global state never changes ... *)
Theorem C19_interleaving_independent : forall d sched g a b,
  flag g = true -> plain a -> plain b ->
  exists na nb,
    interleave d sched g a b = (g, snd (solo d na g a), snd (solo d nb g b)) /\
    (na <= ticks true sched)%nat /\ (nb <= ticks false sched)%nat /\
    (crashed (snd (solo d na g a)) || crashed (snd (solo d nb g b)) = false ->
     na = ticks true sched /\ nb = ticks false sched).
Proof. exact interleaving_independent. Qed.

(* ... and a finished thread observed what the interpreter computes for it alone. *)
Theorem C19_interleaving_matches_alone : forall d sched g pa pb tsa tsb g' a' b',
  flag g = true ->
  interleave d sched g (thread_of tsa pa) (thread_of tsb pb) = (g', a', b') ->
  g' = g /\
  (finished a' = true -> final_of (run_prog g tsa pa) a') /\
  (finished b' = true -> final_of (run_prog g tsb pb) b').
Proof. exact interleaving_matches_alone. Qed.

(* The same for any number of threads ([sched] names the thread that moves
   next): every thread that has finished observed what the interpreter computes
   for its program alone, and the global state is untouched.  This is what the
   free-running cases of the correspondence check (k threads released by a
   barrier, no lock-step) are compared against. *)
Theorem C19_any_threads_independent : forall d sched g ts,
  flag g = true -> Forall plain ts ->
  exists ts', interleave_n d sched g ts = (g, ts') /\ Forall2 (solo_image d g) ts ts'.
Proof. exact interleaving_n_independent. Qed.

Theorem C19_any_threads_match_alone : forall d sched g (ps : list (tstate * prog)) g' ts',
  flag g = true ->
  interleave_n d sched g (map (fun tp => thread_of (fst tp) (snd tp)) ps) = (g', ts') ->
  g' = g /\
  forall i t', nth_error ts' i = Some t' -> finished t' = true ->
    exists tsi p, nth_error ps i = Some (tsi, p) /\ final_of (run_prog g tsi p) t'.
Proof. exact interleaving_n_matches_alone. Qed.

(* The exception: the first installation, raced.  The intended statement ... *)
Definition C19_install_race_benign_full : Prop := install_race_benign Racy.

(* ... is FALSE for the code as written (check, take_hook, set_hook+store as
   three steps).  Witness schedules, evaluated by vm_compute: *)
Theorem C19_install_race_refuted : ~ C19_install_race_benign_full.
Proof. exact install_race_refuted. Qed.

Theorem C19_install_race_refuted_unknown_message :
  exists g' a' b',
    interleave Racy race1_sched (g_fresh HPrev)
      (thread_of init_tstate race1_a) (thread_of init_tstate race1_b) = (g', a', b') /\
    finished a' = true /\ finished b' = true /\
    trace a' = [EUnit; EUnit; EEnter; EPanic 1; EDefault 1; EExit (RErr None)] /\
    fst (fst (fst (run_prog (g_fresh HPrev) init_tstate race1_a)))
      = [EUnit; EUnit; EEnter; EPanic 1; EExit (RErr (Some 1))].
Proof. exact install_race_unknown_message. Qed.

Theorem C19_install_race_refuted_stale_message :
  exists g' a' b',
    interleave Racy race1s_sched (g_fresh HPrev)
      (thread_of init_tstate race1s_a) (thread_of init_tstate race1_b) = (g', a', b') /\
    finished a' = true /\ finished b' = true /\
    trace a' = [EUnit; EUnit; EEnter; EPanic 7; EExit (RErr (Some 7));
                EEnter; EPanic 1; EDefault 1; EExit (RErr (Some 7))] /\
    fst (fst (fst (run_prog (g_fresh HPrev) init_tstate race1s_a)))
      = [EUnit; EUnit; EEnter; EPanic 7; EExit (RErr (Some 7)); EEnter; EPanic 1; EExit (RErr (Some 1))].
Proof. exact install_race_stale_message. Qed.

Theorem C19_install_race_refuted_previous_hook_lost :
  exists a' b',
    interleave Racy race2_sched (g_fresh HPrev)
      (thread_of init_tstate race2_a) (thread_of init_tstate race1_b)
      = (mk_gstate true (HOurs HDefault), a', b') /\
    finished a' = true /\ finished b' = true /\
    trace a' = [EUnit; EPanic 1; EDefault 1] /\
    fst (fst (fst (run_prog (g_fresh HPrev) init_tstate race2_a))) = [EUnit; EPanic 1; EPrev 1].
Proof. exact install_race_loses_previous_hook. Qed.

(* The repaired design (installation under std::sync::Once = one indivisible
   step): the intended statement holds for all programs and schedules. *)
Theorem C19_Fixed_install_once_benign : install_race_benign Once.
Proof. exact install_once_benign. Qed.

(* ---- non-vacuity ---- *)

Definition g_inst : gstate := mk_gstate true (HOurs HPrev).

Example C19_premises_satisfiable :
  installed g_inst /\ ours g_inst /\ flag g_inst = true /\
  level init_tstate + prog_depth (PCons (Catch (PCons (Catch PNil) PNil)) PNil) <= u64_max.
Proof. cbn. repeat split; try (eexists; reflexivity). discriminate. Qed.

(* nested catch, inner disabled catch, panic escaping two frames, level restored *)
Example C19_nested_example :
  run_prog g_inst init_tstate
    (PCons Enable (PCons (Catch (PCons QueryLevel (PCons Disable
       (PCons (Catch (PCons (Panic 4) PNil)) (PCons QueryLevel PNil))))) (PCons QueryLevel PNil)))
  = ([EUnit; EEnter; ELevel 1; EUnit; EEnter; EPanic 4; EExit (RErr (Some 4)); ELevel 0],
     Returned, mk_tstate false 0 (Some 4) Continue, g_inst).
Proof. vm_compute. reflexivity. Qed.

(* the overflow abort of the counter is reachable in the model *)
Example C19_overflow_aborts :
  run_prog g_inst (mk_tstate true u64_max None Continue) (PCons (Catch PNil) PNil)
  = ([], Aborted ALevelOverflow, mk_tstate true u64_max None Continue, g_inst).
Proof. vm_compute. reflexivity. Qed.

Example C19_two_threads_example :
  interleave Racy [true; false; true; true; false; true] g_inst
    (thread_of init_tstate (PCons Enable (PCons (Catch (PCons (Panic 1) PNil)) PNil)))
    (thread_of init_tstate (PCons (SetFallback Abort) (PCons QueryLevel PNil)))
  = (g_inst,
     mk_thread (mk_tstate true 0 (Some 1) Continue) [] [EUnit; EEnter; EPanic 1; EExit (RErr (Some 1))] Running,
     mk_thread (mk_tstate false 0 None Abort) [] [EFallback Continue; ELevel 0] Running).
Proof. vm_compute. reflexivity. Qed.

(* three threads panicking inside catch_panic under one schedule: each keeps its own message *)
Example C19_three_threads_example :
  let p k := PCons Enable (PCons (Catch (PCons (Panic k) PNil)) PNil) in
  map (fun t => (trace t, last (tst t)))
      (snd (interleave_n Racy [0; 1; 2; 2; 1; 0; 0; 1; 2; 1; 0; 2; 7]%nat g_inst
              [thread_of init_tstate (p 1); thread_of init_tstate (p 2); thread_of init_tstate (p 3)]))
  = [([EUnit; EEnter; EPanic 1; EExit (RErr (Some 1))], Some 1);
     ([EUnit; EEnter; EPanic 2; EExit (RErr (Some 2))], Some 2);
     ([EUnit; EEnter; EPanic 3; EExit (RErr (Some 3))], Some 3)].
Proof. vm_compute. reflexivity. Qed.

Check C19_level_balanced : forall p g ts ev o ts' g',
  run_prog g ts p = (ev, o, ts', g') -> not_aborted o -> level ts' = level ts.
Check C19_model_is_spec : forall p g ts,
  installed g -> level ts + prog_depth p <= u64_max ->
  forall ev o a', spec_prog (level ts) (abs ts) p = (ev, o, a') ->
  exists ts' g', run_prog g ts p = (ev, conc_outcome o, ts', g') /\ installed g' /\
                 (o <> SAborted -> ts' = conc (level ts) a').
Check C19_install_race_refuted : ~ install_race_benign Racy.
Check C19_Fixed_install_once_benign : install_race_benign Once.

Print Assumptions C19_level_balanced.
Print Assumptions C19_level_balanced_step.
Print Assumptions C19_catch_result_spec.
Print Assumptions C19_catch_disabled_transparent.
Print Assumptions C19_outside_reaches_previous_hook.
Print Assumptions C19_model_is_spec.
Print Assumptions C19_machine_is_interpreter.
Print Assumptions C19_thread_frame_step.
Print Assumptions C19_interleaving_independent.
Print Assumptions C19_interleaving_matches_alone.
Print Assumptions C19_any_threads_independent.
Print Assumptions C19_any_threads_match_alone.
Print Assumptions C19_install_race_refuted.
Print Assumptions C19_install_race_refuted_unknown_message.
Print Assumptions C19_install_race_refuted_stale_message.
Print Assumptions C19_install_race_refuted_previous_hook_lost.
Print Assumptions C19_Fixed_install_once_benign.
