(* C12 — uses() and uses_list() report field usage exactly.

   AST level (every theorem below is for all ASTs, by mutual induction, no size
   bound): the visitor model of FilterAst::uses / uses_list and
   FilterValueAst::uses / uses_list (Sem/Visitor.v: the early-exit flag, the
   walk of every node kind, UsesListVisitor::visit_comparison_expr, name
   resolution first) answers `true` exactly when the field occurs as an
   identifier constituent (resp. inside the left-hand side of an `in $list`
   comparison), and errs exactly on the names that are not fields of the
   scheme (function names included).

   Source level: the parser model builds an identifier node only from an
   identifier it lexed from the text and looked up in the scheme
   ([C12_parser_ident]).  The full source-level statement is [C12_full]; it is
   not proved (see the comment there), so the theorems about the text are
   named [_partial]. *)
From Coq Require Import List Bool Arith NArith.
From WF Require Import Base.Bytes Lang.Types Lang.Ast Parse.Lex Parse.Parser Sem.Visitor Spec.C12
     Proofs.VisitorProofs Proofs.VisitorSource.
Import ListNotations.

(* ---- uses ---- *)
Theorem C12_uses_filter : forall (f : nat) (e : lexpr),
  uv_lexpr f false e = true <-> occurs f (NL e).
Proof. exact uses_filter_spec. Qed.

Theorem C12_uses_value : forall (f : nat) (e : iexpr),
  uv_iexpr f false e = true <-> occurs f (NI e).
Proof. exact uses_value_spec. Qed.

(* ---- uses_list ---- *)
Theorem C12_uses_list_filter : forall (f : nat) (e : lexpr),
  ulv_lexpr f false e = true <-> occurs_in_list_lhs f (NL e).
Proof. exact uses_list_filter_spec. Qed.

Theorem C12_uses_list_value : forall (f : nat) (e : iexpr),
  ulv_iexpr f false e = true <-> occurs_in_list_lhs f (NI e).
Proof. exact uses_list_value_spec. Qed.

(* ---- by name: Some b = Ok(b) for THE field of that name, None = Err(UnknownFieldError) ---- *)
Theorem C12_api_filter : forall (sch : scheme) (e : lexpr) (name : bytes),
  answers sch name (fun i => occurs i (NL e)) (filter_uses sch e name) /\
  answers sch name (fun i => occurs_in_list_lhs i (NL e)) (filter_uses_list sch e name).
Proof. intros sch e name. split; [apply filter_uses_answers|apply filter_uses_list_answers]. Qed.

Theorem C12_api_value : forall (sch : scheme) (e : iexpr) (name : bytes),
  answers sch name (fun i => occurs i (NI e)) (value_uses sch e name) /\
  answers sch name (fun i => occurs_in_list_lhs i (NI e)) (value_uses_list sch e name).
Proof. intros sch e name. split; [apply value_uses_answers|apply value_uses_list_answers]. Qed.

Theorem C12_unknown_name_error : forall (sch : scheme) (name : bytes),
  ~ is_field_name sch name ->
  (forall e, filter_uses sch e name = None /\ filter_uses_list sch e name = None) /\
  (forall e, value_uses sch e name = None /\ value_uses_list sch e name = None).
Proof. exact unknown_name_errors. Qed.

Theorem C12_function_name_error : forall (sch : scheme) (name : bytes) (i : nat),
  scheme_get sch name = Some (IdFn i) -> ~ is_field_name sch name.
Proof. exact function_name_errors. Qed.

(* name resolution: the field found has that name; with unique names every field is found by its name *)
Theorem C12_lookup : forall (sch : scheme) (name : bytes),
  (forall i, get_field sch name = Some i -> names_field sch name i) /\
  (get_field sch name = None <-> ~ is_field_name sch name) /\
  (names_unique sch -> forall i, names_field sch name i -> get_field sch name = Some i).
Proof.
  intros sch name. split; [intros i; apply get_field_some|].
  split; [apply get_field_none|]. intros Hu i. now apply get_field_complete.
Qed.

(* what the specification run of the correspondence check evaluates is the relational specification,
   and it is what the model run evaluates *)
Theorem C12_exec_spec : forall (f : nat) (n : node),
  (occursb f n = true <-> occurs f n) /\ (occurs_in_list_lhsb f n = true <-> occurs_in_list_lhs f n).
Proof. intros f n. split; [apply occursb_iff|apply occurs_in_list_lhsb_iff]. Qed.

Theorem C12_model_is_exec_spec : forall (sch : scheme) (name : bytes),
  (forall e, filter_uses sch e name = spec_uses sch (NL e) name /\
             filter_uses_list sch e name = spec_uses_list sch (NL e) name) /\
  (forall e, value_uses sch e name = spec_uses sch (NI e) name /\
             value_uses_list sch e name = spec_uses_list sch (NI e) name).
Proof.
  intros sch name. split; intros e; split.
  - apply filter_uses_exec_spec.
  - apply filter_uses_list_exec_spec.
  - apply value_uses_exec_spec.
  - apply value_uses_list_exec_spec.
Qed.

(* used in a list comparison => used *)
Theorem C12_uses_list_implies_uses : forall (f : nat) (n : node), occurs_in_list_lhs f n -> occurs f n.
Proof. exact uses_list_implies_uses. Qed.

(* ---- the source text ---- *)

(* every identifier node comes from an identifier lexed at that point of the text *)
Theorem C12_parser_ident : forall sch st fuel d input e rest,
  lex_index_expr sch st fuel d input = LOk e rest ->
  exists name after,
    lex_ident_name input = LOk name after /\
    match e with
    | IField i _ => scheme_get sch name = Some (IdField i)
    | ICall i _ _ => scheme_get sch name = Some (IdFn i)
    end.
Proof. exact lex_index_expr_ident. Qed.

(* uses(name) = true for a parsed filter => the name is written in the text, at a place where the
   identifier lexer reads exactly it *)
Theorem C12_source_sound_partial : forall sch st text e rest i,
  parse_filter sch st text = LOk e rest -> occurs i (NL e) ->
  exists before name after,
    names_field sch name i /\ lex_ident_name (name ++ after) = LOk name after /\
    trim text = before ++ name ++ after.
Proof. exact filter_idents_in_source. Qed.

Theorem C12_source_sound_value_partial : forall sch st text e rest i,
  parse_value sch st text = LOk e rest -> occurs i (NI e) ->
  exists before name after,
    names_field sch name i /\ lex_ident_name (name ++ after) = LOk name after /\
    trim text = before ++ name ++ after.
Proof. exact value_idents_in_source. Qed.

(* The full statement about the source: "the name occurs as an identifier in the source" is made
   precise without a second grammar as "the parse depends on the field being called that": renaming
   the field (to any name that is not written anywhere in the text) changes the result of parsing
   ([source_mentions], Spec/C12.v).  The direction uses = true -> mentioned is proved
   ([C12_source_forward_partial]: a renamed scheme cannot produce the node); the converse needs a
   simulation between the two parser runs and is not proved.  The correspondence check covers it
   with an oracle that knows the generator's tree. *)
Theorem C12_source_forward_partial : forall sch st text e i fd,
  names_unique sch -> parse_filter sch st text = LOk e [] -> nth_error (sc_fields sch) i = Some fd ->
  filter_uses sch e (fd_name fd) = Some true -> source_mentions sch st text i.
Proof. exact uses_true_source_mentions. Qed.

Definition C12_full : Prop :=
  forall sch st text e, names_unique sch -> parse_filter sch st text = LOk e [] ->
  forall i fd, nth_error (sc_fields sch) i = Some fd ->
    (filter_uses sch e (fd_name fd) = Some true <-> source_mentions sch st text i).

(* ---- non-vacuity ---- *)
Definition ex_scheme : scheme :=
  {| sc_fields := [ {| fd_name := [97]; fd_ty := TInt; fd_optional := false |};
                    {| fd_name := [98]; fd_ty := TBytes; fd_optional := false |};
                    {| fd_name := [99]; fd_ty := TInt; fd_optional := true |} ];
     sc_functions := []; sc_lists := [(TInt, LkAlways)]; sc_nil_ne := true |}.

(* `a in $l and b == "x"`:  a is used and used in a list, b is used only outside, c never, "d" unknown *)
Example C12_example_text :
  let text := [97;32;105;110;32;36;108;32;97;110;100;32;98;32;61;61;32;34;120;34]%N in
  match parse_filter ex_scheme default_settings text with
  | LOk e _ =>
      map (fun n => (filter_uses ex_scheme e n, filter_uses_list ex_scheme e n)) [[97]; [98]; [99]; [100]]%N
      = [(Some true, Some true); (Some true, Some false); (Some false, Some false); (None, None)]
  | _ => False
  end.
Proof. vm_compute. reflexivity. Qed.

Example C12_unknown_premise_satisfiable : ~ is_field_name ex_scheme [100]%N.
Proof.
  intros (i & fd & Hn & Hname). destruct i as [|[|[|i]]]; cbn in Hn; try (injection Hn as <-; discriminate).
  destruct i; discriminate.
Qed.

Example C12_unique_premise_satisfiable : names_unique ex_scheme.
Proof. unfold names_unique. cbn. repeat constructor; cbn; intuition discriminate. Qed.

Check C12_uses_filter : forall (f : nat) (e : lexpr), uv_lexpr f false e = true <-> occurs f (NL e).
Check C12_uses_value : forall (f : nat) (e : iexpr), uv_iexpr f false e = true <-> occurs f (NI e).
Check C12_uses_list_filter : forall (f : nat) (e : lexpr),
  ulv_lexpr f false e = true <-> occurs_in_list_lhs f (NL e).
Check C12_uses_list_value : forall (f : nat) (e : iexpr),
  ulv_iexpr f false e = true <-> occurs_in_list_lhs f (NI e).
Check C12_unknown_name_error : forall (sch : scheme) (name : bytes),
  ~ is_field_name sch name ->
  (forall e, filter_uses sch e name = None /\ filter_uses_list sch e name = None) /\
  (forall e, value_uses sch e name = None /\ value_uses_list sch e name = None).
Check C12_api_filter : forall (sch : scheme) (e : lexpr) (name : bytes),
  answers sch name (fun i => occurs i (NL e)) (filter_uses sch e name) /\
  answers sch name (fun i => occurs_in_list_lhs i (NL e)) (filter_uses_list sch e name).

Print Assumptions C12_uses_filter.
Print Assumptions C12_uses_value.
Print Assumptions C12_uses_list_filter.
Print Assumptions C12_uses_list_value.
Print Assumptions C12_api_filter.
Print Assumptions C12_api_value.
Print Assumptions C12_unknown_name_error.
Print Assumptions C12_function_name_error.
Print Assumptions C12_lookup.
Print Assumptions C12_exec_spec.
Print Assumptions C12_model_is_exec_spec.
Print Assumptions C12_uses_list_implies_uses.
Print Assumptions C12_parser_ident.
Print Assumptions C12_source_sound_partial.
Print Assumptions C12_source_sound_value_partial.
Print Assumptions C12_source_forward_partial.
