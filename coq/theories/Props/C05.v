(* C05 — Parsing is total: any input yields an AST or a well-formed error, never
   a crash.

   Proved here for the parser model (Parse/Lex.v, Parse/Parser.v; validated
   against the real parser on ASTs, error kinds and error positions), for every
   scheme, every settings value and every byte string:
     - parsing a filter or a value expression never panics (no slice off a
       character boundary, no unwrap of None, no unreachable!() arm);
     - every error span lies inside the (trimmed) input, so the assertion of
       ParseError::new holds;
     - ParseError::new designates a line of the input, the column range lies
       inside that line, and its usize subtraction cannot underflow.
   Not proved: termination is modelled by fuel (8 * len + 16 recursion steps);
   that this fuel always suffices is checked by the correspondence run (the
   model would answer `fuel`), and stack usage is a run-time matter checked by
   the deep-nesting / long-chain stress cases - hence [_partial]. *)
From Coq Require Import List ZArith NArith Bool.
From WF Require Import Base.Bytes Lang.Types Lang.Ast Spec.Typing Parse.Lex Parse.Parser
     Proofs.ParserProofs Proofs.ParserClosed Run.Lang.
Import ListNotations.

Definition C05_full : Prop :=
  forall sch st text,
    (exists e, parse_filter sch st text = LOk e [])
    \/ (exists k at_ n, parse_filter sch st text = LErr k at_ n /\
          suffix at_ (trim text) /\ (n <= List.length at_)%nat).

Theorem C05_parse_never_panics_partial : forall sch st text,
  parse_filter sch st text <> LPanic /\ parse_value sch st text <> LPanic.
Proof.
  intros sch st text. split; intros H.
  - pose proof (parse_filter_post sch st text) as P. now rewrite H in P.
  - pose proof (parse_value_post sch st text) as P. now rewrite H in P.
Qed.

Theorem C05_error_span_inside_input : forall sch st text k at_ n,
  parse_filter sch st text = LErr k at_ n \/ parse_value sch st text = LErr k at_ n ->
  suffix at_ (trim text) /\ (n <= List.length at_)%nat /\
  (span_abs_start text at_ + n <= List.length text)%nat.
Proof.
  intros sch st text k at_ n [H|H].
  - pose proof (parse_filter_post sch st text) as P. rewrite H in P. destruct P as [P1 P2].
    split; [assumption|]. split; [assumption|]. now apply span_offsets_inside.
  - pose proof (parse_value_post sch st text) as P. rewrite H in P. destruct P as [P1 P2].
    split; [assumption|]. split; [assumption|]. now apply span_offsets_inside.
Qed.

Theorem C05_error_position_well_formed : forall orig abs len,
  (abs + len <= List.length orig)%nat ->
  let '(line, col, len') := parse_error_new orig abs len in
  exists pre l post,
    orig = pre ++ l ++ post /\
    (pre = [] \/ exists p, pre = p ++ [10%N]) /\
    (post = [] \/ exists q, post = 10%N :: q) /\
    nl_free l /\ line = count_nl pre /\
    (col + len' <= List.length l)%nat /\ (len' <= len)%nat /\
    match find_nl (skipn (List.length pre) orig) 0 with Some e => (col <= e)%nat | None => True end.
Proof. exact parse_error_new_spec. Qed.

Check C05_parse_never_panics_partial : forall sch st text,
  parse_filter sch st text <> LPanic /\ parse_value sch st text <> LPanic.
