(* C05 — Parsing is total: any input yields an AST or a well-formed error, never
   a crash.

   Proved here for the parser model (Parse/Lex.v, Parse/Parser.v; validated
   against the real parser on ASTs, error kinds and error positions), for every
   scheme, every settings value and every byte string:
     - parsing a filter or a value expression never panics (no slice off a
       character boundary, no unwrap of None, no unreachable!() arm);
     - every error span lies inside the (trimmed) input, so the assertion of
       ParseError::new holds;
     - ParseError::new designates a line of the input, the column range lies
       inside that line, and its usize subtraction cannot underflow.
     - parsing terminates: the recursion fuel the model hands to the descent
       (8 * length + 16 steps) always suffices, because every recursive call
       works on a strictly shorter input or belongs to a chain of at most five
       calls on the same input (Proofs/FuelProofs.v).
   [C05_total] puts these together: every input yields an AST with the whole
   input consumed, or an error whose span lies inside the input.
   Not expressible in the model: the native stack the real parser uses; it is
   checked by the size-stress run (stack needed must not grow with the input). *)
From Coq Require Import List ZArith NArith Bool.
From WF Require Import Base.Bytes Lang.Types Lang.Ast Spec.Typing Parse.Lex Parse.Parser
     Proofs.ParserProofs Proofs.ParserClosed Proofs.FuelProofs Run.Lang.
Import ListNotations.

Definition total {A} (text : bytes) (r : lres A) : Prop :=
  (exists e, r = LOk e [])
  \/ (exists k at_ n, r = LErr k at_ n /\ suffix at_ (trim text) /\ (n <= List.length at_)%nat /\
                       (span_abs_start text at_ + n <= List.length text)%nat).

Theorem C05_total : forall sch st text,
  total text (parse_filter sch st text) /\ total text (parse_value sch st text).
Proof.
  intros sch st text. split.
  - pose proof (parse_filter_post sch st text) as P. pose proof (parse_filter_terminates sch st text) as T.
    destruct (parse_filter sch st text) as [e rest|k at_ n| |]; cbn in P.
    + left. destruct P as [_ ->]. eauto.
    + right. destruct P as [P1 P2]. exists k, at_, n. repeat split; auto. now apply span_offsets_inside.
    + contradiction.
    + contradiction.
  - pose proof (parse_value_post sch st text) as P. pose proof (parse_value_terminates sch st text) as T.
    destruct (parse_value sch st text) as [e rest|k at_ n| |]; cbn in P.
    + left. destruct P as [_ ->]. eauto.
    + right. destruct P as [P1 P2]. exists k, at_, n. repeat split; auto. now apply span_offsets_inside.
    + contradiction.
    + contradiction.
Qed.

Theorem C05_parse_terminates : forall sch st text,
  parse_filter sch st text <> LFuel /\ parse_value sch st text <> LFuel.
Proof. intros sch st text. split; [apply parse_filter_terminates|apply parse_value_terminates]. Qed.

Theorem C05_parse_never_panics : forall sch st text,
  parse_filter sch st text <> LPanic /\ parse_value sch st text <> LPanic.
Proof.
  intros sch st text. split; intros H.
  - pose proof (parse_filter_post sch st text) as P. now rewrite H in P.
  - pose proof (parse_value_post sch st text) as P. now rewrite H in P.
Qed.

Theorem C05_error_span_inside_input : forall sch st text k at_ n,
  parse_filter sch st text = LErr k at_ n \/ parse_value sch st text = LErr k at_ n ->
  suffix at_ (trim text) /\ (n <= List.length at_)%nat /\
  (span_abs_start text at_ + n <= List.length text)%nat.
Proof.
  intros sch st text k at_ n [H|H].
  - pose proof (parse_filter_post sch st text) as P. rewrite H in P. destruct P as [P1 P2].
    split; [assumption|]. split; [assumption|]. now apply span_offsets_inside.
  - pose proof (parse_value_post sch st text) as P. rewrite H in P. destruct P as [P1 P2].
    split; [assumption|]. split; [assumption|]. now apply span_offsets_inside.
Qed.

Theorem C05_error_position_well_formed : forall orig abs len,
  (abs + len <= List.length orig)%nat ->
  let '(line, col, len') := parse_error_new orig abs len in
  exists pre l post,
    orig = pre ++ l ++ post /\
    (pre = [] \/ exists p, pre = p ++ [10%N]) /\
    (post = [] \/ exists q, post = 10%N :: q) /\
    nl_free l /\ line = count_nl pre /\
    (col + len' <= List.length l)%nat /\ (len' <= len)%nat /\
    match find_nl (skipn (List.length pre) orig) 0 with Some e => (col <= e)%nat | None => True end.
Proof. exact parse_error_new_spec. Qed.

Check C05_parse_never_panics : forall sch st text,
  parse_filter sch st text <> LPanic /\ parse_value sch st text <> LPanic.
