(* C14 — Execution contexts survive serialization and reject bad JSON safely.
   This file contains only the property theorems, closed by [exact], their
   non-vacuity examples and the refutation of the one clause the code does not
   meet (a value tree cannot carry an entry of the "$lists" section).

   Level: JSON trees.  The text layer (Sem/JsonText.v) is serde_json's and is
   tied to the implementation by the correspondence check only. *)
From Coq Require Import List NArith ZArith Bool String.
From WF Require Import Base.Bytes Sem.RangeSet Lang.Types Lang.Ast Lang.Context Spec.Typing Sem.Compile Spec.Denote
     Sem.TypeCodec Sem.CtxSerde Spec.C15 Spec.C14 Proofs.CallProofs Proofs.FullProofs Proofs.CtxSerdeProofs.
Import ListNotations.
Open Scope N_scope.

(* ---- values ---- *)

(* Every Rust value of every type, at any nesting, in either representation of
   byte strings (string / number array) and of maps (object / array of pairs),
   comes back from its JSON form.  [value_rust]: integers are i64, bytes u8,
   addresses u32 / u128 (the model's data types are wider). *)
Theorem C14_value_roundtrip : forall (v : value) (t : ty),
  has_type v t = true -> value_rust v = true -> value_of_json t (value_to_json v) = Ok v.
Proof. exact value_roundtrip. Qed.

(* Whatever the JSON, a value that is accepted has exactly the requested type,
   at every level, with map keys in BTreeMap order. *)
Theorem C14_value_decode_type_safe : forall (t : ty) (j : json) (v : value),
  value_of_json t j = Ok v -> has_type v t = true.
Proof. exact value_of_json_typed. Qed.

(* A value is read the same way from a value tree (keys sorted) as from the
   document, when no object repeats a key. *)
Theorem C14_value_entry_point_independent : forall (t : ty) (j : json) (e : entry),
  no_dup_keys j = true -> value_of_json t (supply e j) = value_of_json t j.
Proof. intros t j e H. destruct e; try reflexivity. exact (value_as_value t j H). Qed.

(* ---- contexts ---- *)

(* For every scheme (distinct field names, none of them "$lists"; one list per
   type) and every well-formed context made of Rust values, including the state
   of its list matchers, reading what was written into a fresh context gives
   the context back. *)
Theorem C14_ctx_roundtrip : forall (sch : scheme) (c : ctx),
  scheme_ok sch = true -> ctx_ok sch c = true -> ctx_rust sch c = true ->
  ctx_of_json sch (ctx_to_json sch c) = Ok c.
Proof. intros sch c Hs Hc Hr. exact (ctx_roundtrip_result sch c Hs (ctx_ok_typed sch c Hc) Hr). Qed.

(* ... also when mandatory fields are still unset *)
Theorem C14_ctx_roundtrip_partial_ctx : forall (sch : scheme) (c : ctx),
  scheme_ok sch = true -> ctx_typed sch c = true -> ctx_rust sch c = true ->
  ctx_of_json sch (ctx_to_json sch c) = Ok c.
Proof. exact ctx_roundtrip_result. Qed.

(* ... through every entry point; through a value tree when the scheme has no list *)
Theorem C14_ctx_roundtrip_every_entry : forall (sch : scheme) (c : ctx) (e : entry),
  scheme_ok sch = true -> ctx_typed sch c = true -> ctx_rust sch c = true ->
  (e = EValue -> sc_lists sch = []) ->
  ctx_of_json sch (supply e (ctx_to_json sch c)) = Ok c.
Proof. exact ctx_roundtrip_every_entry. Qed.

(* Whatever the JSON tree and the scheme: a successful read stores only values
   of the declared type of their field (the slots part of [ctx_ok] without the
   mandatory-set clause) and keeps one matcher per list. *)
Theorem C14_decode_type_safe : forall (sch : scheme) (j : json) (c : ctx),
  ctx_of_json sch j = Ok c -> ctx_typed sch c = true.
Proof. exact decode_type_safe. Qed.

(* The reader has three outcomes - done, refused, panicked (an index out of
   bounds, an unreachable!()) - and the third never happens, for any scheme and
   any JSON tree, deep type descriptors in "$lists" included: the read is total
   and ends in an error or in a well-typed context. *)
Theorem C14_decode_never_panics : forall (sch : scheme) (j : json), ctx_decode sch j <> Panicked.
Proof. exact decode_never_panics. Qed.

Theorem C14_decode_total : forall (sch : scheme) (j : json),
  ctx_of_json sch j = Err \/
  exists c, ctx_of_json sch j = Ok c /\ ctx_decode sch j = Done c /\ ctx_typed sch c = true.
Proof. exact decode_total. Qed.

(* also into a context that already holds values *)
Theorem C14_decode_into_safe : forall (sch : scheme) (c : ctx) (j : json),
  ctx_typed sch c = true ->
  match ctx_decode_into sch c j with
  | Done c' => ctx_typed sch c' = true
  | Refused => True
  | Panicked => False
  end.
Proof. exact decode_into_safe. Qed.

(* a type descriptor deeper than any `Type` (34 layers and more) in the list
   section is refused (the repaired F4) *)
Theorem C14_deep_list_type_refused : forall (sch : scheme) (t : ty) (d : json) (rest : list (bytes * json)) (more : list json),
  (33 < depth t)%nat ->
  ctx_decode sch (JObj [(n_lists, JArr (JObj ((n_type, type_to_json t) :: (n_data, d) :: rest) :: more))]) = Refused.
Proof. exact deep_list_type_refused. Qed.

(* The sequential reader is the state-free specification, for every document:
   every member acceptable on its own, the last member wins for each field and
   the last entry for each list; unknown field, wrong type, malformed list
   entry => error. *)
Theorem C14_ctx_json_exact : forall (sch : scheme) (j : json), ctx_of_json sch j = spec_ctx_of_json sch j.
Proof. exact ctx_of_json_spec. Qed.

(* The four entry points differ only in how the text becomes a tree; a value
   tree sorts the keys of every object and keeps the last of repeated ones.
   For a document without repeated keys and without entries in a list section
   the context read is the same. *)
Theorem C14_entry_point_independent_partial : forall (sch : scheme) (j : json) (e : entry),
  doc_plain j = true -> ctx_of_json sch (supply e j) = ctx_of_json sch j.
Proof. exact entry_point_independent. Qed.

(* The full statement drops the clause about list sections ... *)
Definition C14_entry_point_independent_full : Prop :=
  forall (sch : scheme) (j : json) (e : entry),
    no_dup_keys j = true -> ctx_of_json sch (supply e j) = ctx_of_json sch j.

(* ... and the code does not meet it: an entry {"type": T, "data": D} reaches
   the visitor from a value tree as data, type (BTreeMap order) and the visitor
   insists on "type" first.  Finding F10. *)
Theorem C14_value_tree_refuses_list_entries : forall (sch : scheme) (t d : json),
  ctx_of_json sch (supply EValue (JObj [(n_lists, JArr [JObj [(n_type, t); (n_data, d)]])])) = Err.
Proof. exact value_entry_refuses_list_entries. Qed.

Definition sch_one_list : scheme :=
  {| sc_fields := [ {| fd_name := [110]; fd_ty := TInt; fd_optional := true |} ];
     sc_functions := []; sc_lists := [(TInt, LkAlways)]; sc_nil_ne := true |}.
Definition ctx_one_list : ctx := {| cx_vals := [None]; cx_lists := [MAlways] |}.

Theorem C14_entry_point_independent_refuted : ~ C14_entry_point_independent_full.
Proof.
  intros H. specialize (H sch_one_list (ctx_to_json sch_one_list ctx_one_list) EValue eq_refl).
  vm_compute in H. discriminate H.
Qed.

(* the same witness as a round trip: written, then read through a value tree *)
Theorem C14_ctx_roundtrip_value_entry_refuted :
  exists (sch : scheme) (c : ctx),
    scheme_ok sch = true /\ ctx_ok sch c = true /\ ctx_rust sch c = true /\
    ctx_of_json sch (supply EStr (ctx_to_json sch c)) = Ok c /\
    ctx_of_json sch (supply EValue (ctx_to_json sch c)) = Err.
Proof. exists sch_one_list, ctx_one_list. repeat split; vm_compute; reflexivity. Qed.

(* Equal contexts give equal results for every filter; with the agreement of
   execution and denotation (C02/C03/C04) the context that came back gives, for
   every well-typed filter, the value the language assigns on the original. *)
Theorem C14_filters_agree_after_roundtrip : forall (sch : scheme) (c c' : ctx) (e : lexpr),
  scheme_ok sch = true -> ctx_ok sch c = true -> ctx_rust sch c = true ->
  ctx_of_json sch (ctx_to_json sch c) = Ok c' ->
  run_filter sch e c' = run_filter sch e c.
Proof. intros sch c c' e. exact (filters_agree_after_roundtrip sch c e c'). Qed.

Theorem C14_filters_denote_after_roundtrip : forall (sch : scheme) (c c' : ctx) (e : lexpr),
  scheme_ok sch = true -> ctx_ok sch c = true -> ctx_rust sch c = true ->
  wt_filter sch e = true -> fns_ok sch ->
  ctx_of_json sch (ctx_to_json sch c) = Ok c' ->
  exists b, run_filter sch e c' = Some b /\ denote_filter sch e c = Some b.
Proof.
  intros sch c c' e Hs Hc Hr Hwt Hf H.
  rewrite (filters_agree_after_roundtrip sch c e c' Hs Hc Hr H). exact (filter_exec_is_denote sch e c Hwt Hc Hf).
Qed.

(* ---- non-vacuity ---- *)

(* a map whose keys are not all UTF-8 (array-of-pairs form) holding arrays of
   byte strings in both forms, an i64 extreme, a mapped IPv6 address *)
Definition v_nested : value :=
  VMap (TArray TBytes) [([97], VArray TBytes [VBytes [104; 105]; VBytes [255; 254]]); ([255], VArray TBytes [])].
Definition v_mapped : value := VIp (V6 281473913978881%Z).   (* ::ffff:192.168.0.1 *)

Example C14_value_premises_satisfiable :
  has_type v_nested (TMap (TArray TBytes)) = true /\ value_rust v_nested = true /\
  value_to_json v_nested
  = JArr [JArr [JStr [97]; JArr [JStr [104; 105]; JArr [JNum 255%Z; JNum 254%Z]]]; JArr [JArr [JNum 255%Z]; JArr []]] /\
  value_of_json (TMap (TArray TBytes)) (value_to_json v_nested) = Ok v_nested /\
  value_to_json v_mapped = JStr (bytes_of_string "::ffff:192.168.0.1"%string) /\
  value_of_json TIp (value_to_json v_mapped) = Ok v_mapped /\
  value_of_json TInt (value_to_json (VInt (-9223372036854775808)%Z)) = Ok (VInt (-9223372036854775808)%Z).
Proof. repeat split; vm_compute; reflexivity. Qed.

Definition sch_demo : scheme :=
  {| sc_fields := [ {| fd_name := [110]; fd_ty := TInt; fd_optional := false |};
                    {| fd_name := [104]; fd_ty := TMap TBytes; fd_optional := true |};
                    {| fd_name := [105; 112]; fd_ty := TIp; fd_optional := true |} ];
     sc_functions := [];
     sc_lists := [(TInt, LkSet); (TIp, LkAlways); (TBytes, LkNever)];
     sc_nil_ne := true |}.
Definition ctx_demo : ctx :=
  {| cx_vals := [Some (VInt 9223372036854775807%Z); Some (VMap TBytes [([97], VBytes [255]); ([128], VBytes [])]); None];
     cx_lists := [MSet [([108; 49], [VInt 1%Z; VInt (-1)%Z]); ([108; 50], [])]; MAlways; MNever] |}.

Example C14_ctx_premises_satisfiable :
  scheme_ok sch_demo = true /\ ctx_ok sch_demo ctx_demo = true /\ ctx_rust sch_demo ctx_demo = true /\
  ctx_of_json sch_demo (ctx_to_json sch_demo ctx_demo) = Ok ctx_demo /\
  (exists c, ctx_of_json sch_demo (ctx_to_json sch_demo ctx_demo) = Ok c /\ c <> fresh_ctx sch_demo).
Proof.
  repeat split; try (vm_compute; reflexivity).
  exists ctx_demo. split; [vm_compute; reflexivity|]. vm_compute. discriminate.
Qed.

(* a plain document that is not in key order: the value tree reorders it *)
Definition doc_unsorted : json := JObj [([110], JNum 5%Z); ([104], JObj [([98], JStr [120]); ([97], JStr [121])])].

Example C14_entry_premise_satisfiable :
  doc_plain doc_unsorted = true /\ supply EValue doc_unsorted <> doc_unsorted /\
  exists c, ctx_of_json sch_demo (supply EValue doc_unsorted) = Ok c /\ ctx_of_json sch_demo doc_unsorted = Ok c.
Proof.
  split; [vm_compute; reflexivity|]. split; [vm_compute; discriminate|].
  eexists. split; vm_compute; reflexivity.
Qed.

(* refused documents: unknown field, wrong type, misordered list entry, a
   35-layer type descriptor *)
Example C14_refusals :
  ctx_of_json sch_demo (JObj [([120], JNum 1%Z)]) = Err /\
  ctx_of_json sch_demo (JObj [([110], JStr [49])]) = Err /\
  ctx_of_json sch_demo (JObj [([110], JNum 9223372036854775808%Z)]) = Err /\
  ctx_of_json sch_demo (JObj [(n_lists, JArr [JObj [(n_data, JObj []); (n_type, JStr n_Ip)]])]) = Err /\
  ctx_decode sch_demo (JObj [(n_lists, JArr [JObj [(n_type, type_to_json (Nat.iter 35%nat TArray TInt)); (n_data, JObj [])]])])
  = Refused.
Proof. repeat split; vm_compute; reflexivity. Qed.

Check C14_value_roundtrip : forall (v : value) (t : ty),
  has_type v t = true -> value_rust v = true -> value_of_json t (value_to_json v) = Ok v.
Check C14_ctx_roundtrip : forall (sch : scheme) (c : ctx),
  scheme_ok sch = true -> ctx_ok sch c = true -> ctx_rust sch c = true ->
  ctx_of_json sch (ctx_to_json sch c) = Ok c.
Check C14_decode_type_safe : forall (sch : scheme) (j : json) (c : ctx),
  ctx_of_json sch j = Ok c -> ctx_typed sch c = true.
Check C14_decode_never_panics : forall (sch : scheme) (j : json), ctx_decode sch j <> Panicked.
Check C14_ctx_json_exact : forall (sch : scheme) (j : json), ctx_of_json sch j = spec_ctx_of_json sch j.
Check C14_entry_point_independent_partial : forall (sch : scheme) (j : json) (e : entry),
  doc_plain j = true -> ctx_of_json sch (supply e j) = ctx_of_json sch j.
Check C14_entry_point_independent_refuted : ~ C14_entry_point_independent_full.
Check C14_filters_agree_after_roundtrip : forall (sch : scheme) (c c' : ctx) (e : lexpr),
  scheme_ok sch = true -> ctx_ok sch c = true -> ctx_rust sch c = true ->
  ctx_of_json sch (ctx_to_json sch c) = Ok c' ->
  run_filter sch e c' = run_filter sch e c.
