(* C07 — The AST and its JSON are a canonical image of filter structure.
   This file contains only the property theorems, closed by [exact], their
   non-vacuity examples and the statement pins.

   What is proved, for all filters (any size, any nesting):
   * the serializer model produces exactly the canonical document of the
     structure of the filter (Spec/C07.v: operator names, identifier names, index
     kinds and values, decoded literals, one node per chain, parentheses only as
     nesting), its text is the compact JSON text of that document and the hash
     is FNV-1a-64 of that text, however the text is cut into writes;
   * structurally equal filters (equal up to parenthesis nodes and literal
     notation: quoted / raw; hex pairs only when the value is not UTF-8) have the
     same document, text and hash; conversely, over a scheme with distinct names,
     well-typed filters with the same document -- or the same JSON text -- are
     structurally equal (the text printer is injective on all JSON values, the
     model of std's address Display is injective on 32 / 128 bit values);
   * each alias pair of the property text is one constructor in the operator
     tables of the parser model, and the tables contain no other spelling.
   Partial: invariance of the parsed AST under alias choice and white space is
   proved at the token boundaries of the parser model (each parser function that
   consumes an operator, a parenthesis, an index bracket or the outer trim gives
   a result independent of the spelling and of the white space around it); the
   composition over whole filters is proved for the surface grammar of Spec/Grammar.v
   ([C07_whole_filter_layout_partial]: two texts of the grammar - any white space, any spelling of every
   operator, any literal notation that the AST keeps - that stand for the same structure parse to the same
   AST, hence the same JSON and hash); for the constructs the grammar does not describe yet the
   composition ([C07_full]) is validated by the correspondence check only. *)
From Coq Require Import List ZArith NArith Bool String Lia.
From WF Require Import Base.Bytes Base.Sexp Sem.RangeSet Lang.Types Lang.Ast Sem.TypeCodec Sem.JsonText
     Parse.Lex Sem.Compile Parse.Parser Spec.Typing Sem.AstJson Spec.C07
     Proofs.AstJsonProofs Proofs.LayoutProofs Proofs.JsonPrintProofs Proofs.AstJsonInj Proofs.IpTextInj
     Proofs.LitsTyped Proofs.ParserClosed Proofs.C07Proofs Proofs.IpsProofs Spec.Grammar Proofs.GrammarProofs.
Import ListNotations.
Open Scope N_scope.

(* ---- the full alias / white-space statement (not proved) ---- *)
Definition C07_full : Prop :=
  forall (sch : scheme) (st : settings) (e : lexpr) (lay1 lay2 : layout) (t1 t2 : bytes) (e' : lexpr),
    render sch e lay1 = Some t1 -> render sch e lay2 = Some t2 ->
    parse_filter sch st t1 = LOk e' [] -> parse_filter sch st t2 = LOk e' [].

(* ---- the JSON is the canonical document ---- *)

Theorem C07_json_is_canonical_document : forall sch e,
  json_of_lexpr sch e = canon_doc sch e /\
  filter_json_text sch e = canon_text sch e /\
  filter_hash sch e = canon_hash sch e.
Proof. exact canonical_document. Qed.

(* equal structure (in particular equal ASTs): equal document, text and hash *)
Theorem C07_same_structure_same_json_and_hash : forall sch e1 e2,
  struct_eq e1 e2 ->
  json_of_lexpr sch e1 = json_of_lexpr sch e2 /\
  filter_json_text sch e1 = filter_json_text sch e2 /\
  filter_hash sch e1 = filter_hash sch e2.
Proof. exact same_structure_same_json_and_hash. Qed.

(* the structure of a structure is itself: [erase] is a normal form *)
Theorem C07_structure_is_normal_form : forall e, erase (erase e) = erase e.
Proof. exact (proj1 erase_idem_mut). Qed.

(* ---- structurally different filters serialize differently ---- *)

Theorem C07_document_determines_structure : forall sch e1 e2,
  names_distinct sch -> lits_typed sch e1 -> lits_typed sch e2 ->
  json_of_lexpr sch e1 = json_of_lexpr sch e2 -> struct_eq e1 e2.
Proof. exact document_determines_structure. Qed.


(* the same on the JSON text, for well-typed filters *)
Theorem C07_text_determines_structure : forall sch e1 e2,
  names_distinct sch -> wt_filter sch e1 = true -> wt_filter sch e2 = true -> ips_ok e1 -> ips_ok e2 ->
  filter_json_text sch e1 = filter_json_text sch e2 -> struct_eq e1 e2.
Proof. exact text_determines_structure. Qed.


(* for what the parser model accepts: same JSON text exactly when same structure *)
Theorem C07_parsed_same_text_iff_same_structure : forall sch st t1 t2 e1 e2 r1 r2,
  names_distinct sch -> parse_filter sch st t1 = LOk e1 r1 -> parse_filter sch st t2 = LOk e2 r2 ->
  ips_ok e1 -> ips_ok e2 ->
  (filter_json_text sch e1 = filter_json_text sch e2 <-> struct_eq e1 e2).
Proof. exact parsed_text_determines_structure. Qed.

(* ... and the premise about addresses holds for whatever the parser accepts
   (Proofs/IpsProofs.v: every address literal is a 32 / 128 bit value), so for
   parsed filters the statement is unconditional: *)
Theorem C07_parsed_addresses_in_range : forall sch st text e r,
  parse_filter sch st text = LOk e r -> ips_ok e.
Proof. exact parse_filter_ips_ok. Qed.

Theorem C07_parsed_text_iff_structure : forall sch st t1 t2 e1 e2 r1 r2,
  names_distinct sch -> parse_filter sch st t1 = LOk e1 r1 -> parse_filter sch st t2 = LOk e2 r2 ->
  (filter_json_text sch e1 = filter_json_text sch e2 <-> struct_eq e1 e2).
Proof.
  intros sch st t1 t2 e1 e2 r1 r2 Hn H1 H2.
  exact (parsed_text_determines_structure sch st t1 t2 e1 e2 r1 r2 Hn H1 H2
           (parse_filter_ips_ok _ _ _ _ _ H1) (parse_filter_ips_ok _ _ _ _ _ H2)).
Qed.

(* the typing rules decide the kind of every literal *)
Theorem C07_well_typed_literals_are_typed : forall sch e,
  wt_filter sch e = true -> ips_ok e -> lits_typed sch e.
Proof. exact wt_lits_typed. Qed.

(* the compact JSON writer is injective on all JSON values (both formulations) *)
Theorem C07_json_text_injective : forall j1 j2 : json,
  (jprint j1 = jprint j2 -> j1 = j2) /\ (json_print j1 = json_print j2 -> j1 = j2) /\ jprint j1 = json_print j1.
Proof. exact json_text_injective. Qed.

(* the model of std's Display of addresses *)
Theorem C07_ip_text_injective : forall a c : ip,
  ip_ok a -> ip_ok c -> ip_text a = ip_text c -> a = c.
Proof. exact ip_text_injective. Qed.

(* ---- hash ---- *)

Theorem C07_fnv_is_fold : forall text : bytes, fnv1a64 text = fnv1a_spec text /\ fnv1a_spec text < 2 ^ 64.
Proof. exact fnv_is_fold. Qed.

Theorem C07_hash_chunking_irrelevant : forall (chunks : list bytes) (h : N),
  fnv_write_all h chunks = fnv_write h (List.concat chunks).
Proof. exact fnv_chunking_irrelevant. Qed.


Theorem C07_equal_json_equal_hash : forall sch e1 e2,
  json_of_lexpr sch e1 = json_of_lexpr sch e2 -> filter_hash sch e1 = filter_hash sch e2.
Proof. exact same_json_same_hash. Qed.

(* ---- aliases: one constructor per pair ---- *)

Theorem C07_logical_aliases : forall a1 a2 o r,
  In (a1, a2, o) logical_aliases ->
  lex_alts logical_ops (a1 ++ r) = Some (o, r) /\ lex_alts logical_ops (a2 ++ r) = Some (o, r).
Proof. exact logical_alias_table. Qed.

Theorem C07_unary_aliases : forall a1 a2 r,
  In (a1, a2) unary_aliases ->
  lex_alts unary_ops (a1 ++ r) = Some (tt, r) /\ lex_alts unary_ops (a2 ++ r) = Some (tt, r).
Proof. exact unary_alias_table. Qed.

Theorem C07_comparison_aliases : forall a1 a2 c r,
  In (a1, a2, c) comparison_aliases -> no_eq_follows r ->
  lex_alts comparison_ops (a1 ++ r) = Some (c, r) /\ lex_alts comparison_ops (a2 ++ r) = Some (c, r).
Proof. exact comparison_alias_table. Qed.

Theorem C07_logical_table_has_no_other_spelling : forall t o,
  In (t, o) logical_ops -> exists a1 a2, In (a1, a2, o) logical_aliases /\ (t = a1 \/ t = a2).
Proof. exact logical_table_complete. Qed.

(* ---- white space and aliases at token boundaries (partial: see C07_full) ---- *)

Theorem C07_skip_space_layout_partial : forall ws1 ws2 x,
  layout_ws ws1 -> layout_ws ws2 ->
  skip_space (ws1 ++ x) = skip_space (ws2 ++ x) /\ skip_space (ws1 ++ x) = skip_space x /\
  skip_space (skip_space x) = skip_space x.
Proof.
  intros ws1 ws2 x H1 H2. split; [now apply skip_space_layout|]. split; [now apply skip_space_ws|apply skip_space_idem].
Qed.

Theorem C07_outer_layout_partial : forall sch st ws1 ws2 x,
  layout_ws ws1 -> layout_ws ws2 -> parse_filter sch st (ws1 ++ x ++ ws2) = parse_filter sch st x.
Proof. exact parse_filter_outer_layout. Qed.

Theorem C07_combining_op_layout_partial : forall a1 a2 o ws1 ws2 r,
  In (a1, a2, o) logical_aliases -> layout_ws ws1 -> layout_ws ws2 ->
  lex_combining_op (ws1 ++ a1 ++ ws2 ++ r) = (Some o, skip_space r) /\
  lex_combining_op (ws1 ++ a2 ++ ws2 ++ r) = (Some o, skip_space r).
Proof. exact combining_op_layout. Qed.

Theorem C07_unary_layout_partial : forall sch st f d a1 a2 ws r,
  In (a1, a2) unary_aliases -> layout_ws ws -> d < st_max_depth st ->
  let k := lbind (lex_simple sch st f (d + 1) (skip_space r)) (fun arg rest1 => LOk (ENot arg) rest1) in
  lex_simple sch st (S f) d (a1 ++ ws ++ r) = k /\ lex_simple sch st (S f) d (a2 ++ ws ++ r) = k.
Proof. exact unary_layout. Qed.

Theorem C07_ordering_layout_partial : forall sch st f d lhs lt a1 a2 o ws1 ws2 r,
  In (a1, a2, OpOrd o) comparison_aliases -> ty_iexpr sch lhs = Some lt -> prim3 lt = true ->
  layout_ws ws1 -> layout_ws ws2 -> no_eq_follows (ws2 ++ r) ->
  let k := lbind (lex_rhs lt (skip_space r)) (fun v rest => LOk (EComparison lhs (COrd o v)) rest) in
  lex_with_lhs sch st (S f) d (ws1 ++ a1 ++ ws2 ++ r) lhs = k /\
  lex_with_lhs sch st (S f) d (ws1 ++ a2 ++ ws2 ++ r) lhs = k.
Proof. exact ordering_layout. Qed.

Theorem C07_bitwise_and_layout_partial : forall sch st f d lhs ws1 ws2 r,
  ty_iexpr sch lhs = Some TInt -> layout_ws ws1 -> layout_ws ws2 ->
  let k := lbind (lex_int (skip_space r)) (fun z rest => LOk (EComparison lhs (CBitAnd z)) rest) in
  lex_with_lhs sch st (S f) d (ws1 ++ bs "bitwise_and" ++ ws2 ++ r) lhs = k /\
  lex_with_lhs sch st (S f) d (ws1 ++ bs "&" ++ ws2 ++ r) lhs = k.
Proof. exact bitwise_and_layout. Qed.

Theorem C07_matches_layout_partial : forall sch st f d lhs ws1 ws2 r,
  ty_iexpr sch lhs = Some TBytes -> layout_ws ws1 -> layout_ws ws2 ->
  let k := lbind (lex_regex (skip_space r)) (fun p rest => LOk (EComparison lhs (CMatches (fst p) (snd p))) rest) in
  lex_with_lhs sch st (S f) d (ws1 ++ bs "matches" ++ ws2 ++ r) lhs = k /\
  lex_with_lhs sch st (S f) d (ws1 ++ bs "~" ++ ws2 ++ r) lhs = k.
Proof. exact matches_layout. Qed.

Theorem C07_paren_layout_partial : forall sch st f d ws r,
  layout_ws ws -> d < st_max_depth st ->
  lex_simple sch st (S f) d (40 :: ws ++ r) = lex_simple sch st (S f) d (40 :: r).
Proof. exact paren_layout. Qed.

(* ---- whole filters: layout and spelling are invisible (for the texts of Spec/Grammar.v) ---- *)
Theorem C07_whole_filter_layout_partial : forall sch st t1 t2 e,
  GFilter sch st t1 e -> GFilter sch st t2 e ->
  parse_filter sch st t1 = LOk e [] /\ parse_filter sch st t2 = LOk e [].
Proof.
  intros sch st t1 t2 e H1 H2.
  split; [exact (filter_grammar_parses sch st t1 e H1)|exact (filter_grammar_parses sch st t2 e H2)].
Qed.
(* the JSON text and the hash are functions of the AST (C07_json_is_canonical_document), so they agree too *)

(* ---- non-vacuity ---- *)

Definition ex_sch : scheme :=
  {| sc_fields := [ {| fd_name := bs "num"; fd_ty := TInt; fd_optional := false |};
                    {| fd_name := bs "str"; fd_ty := TBytes; fd_optional := false |};
                    {| fd_name := bs "ip"; fd_ty := TIp; fd_optional := true |};
                    {| fd_name := bs "tt"; fd_ty := TBool; fd_optional := false |};
                    {| fd_name := bs "nums"; fd_ty := TArray TInt; fd_optional := true |} ];
     sc_functions := []; sc_lists := []; sc_nil_ne := true |}.

(* not (num >= 5 and tt) or str in {"a" ff:fe} or ip in {10.0.0.0/8 ::1} or any(nums[*] == -1) *)
Definition ex_ast : lexpr :=
  ECombining LOr
    (LCons (ENot (EParen (ECombining LAnd
              (LCons (EComparison (IField 0 []) (COrd OGe (RInt 5)))
              (LCons (EComparison (IField 3 []) CIsTrue) LNil)))))
    (LCons (EComparison (IField 1 []) (COneOfBytes [([97], FQuoted); ([255; 254], FByte)]))
    (LCons (EComparison (IField 2 []) (COneOfIp [IpCidr4 167772160 8; IpCidr6 1 128]))
    (LCons (EQuantLogical QAny (EComparison (IField 4 [IEach]) (COrd OEq (RInt (-1))))) LNil)))).

Definition ex_text1 : bytes :=
  bs "not (num ge 5 and tt) or str in {""a"" ff:fe} or ip in {10.0.0.0/8 ::1} or any(nums[*] eq -1)".
Definition ex_text2 : bytes :=
  [32; 10] ++ bs "!( num>=5&&tt )||str in { ""a""" ++ [13; 10] ++ bs "ff:fe }" ++ [10]
  ++ bs "|| ip in {10.0.0.0/8  ::1}||any ( nums[ * ]==-1 )" ++ [10].

(* two layouts, one AST, one JSON text, one hash *)
Example C07_two_layouts_one_ast :
  parse_filter ex_sch default_settings ex_text1 = LOk ex_ast [] /\
  parse_filter ex_sch default_settings ex_text2 = LOk ex_ast [] /\
  filter_json_text ex_sch ex_ast =
    bs "{""op"":""Or"",""items"":[{""op"":""Not"",""arg"":{""op"":""And"",""items"":[{""lhs"":""num"",""op"":""GreaterThanEqual"",""rhs"":5},{""lhs"":""tt"",""op"":""IsTrue""}]}},{""lhs"":""str"",""op"":""OneOf"",""rhs"":[""a"",[255,254]]},{""lhs"":""ip"",""op"":""OneOf"",""rhs"":[""10.0.0.0/8"",""::1""]},{""op"":""Any"",""arg"":{""kind"":""SimpleExpr"",""value"":{""lhs"":[""nums"",{""kind"":""MapEach""}],""op"":""Equal"",""rhs"":-1}}}]}".
Proof. vm_compute. repeat split. Qed.

(* the premises of the injectivity theorems are satisfiable *)
Example C07_premises_satisfiable :
  names_distinct ex_sch /\ wt_filter ex_sch ex_ast = true /\ ips_ok ex_ast /\ lits_typed ex_sch ex_ast.
Proof.
  split; [|split; [vm_compute; reflexivity|split]].
  - unfold names_distinct. cbn. repeat constructor; cbn; intuition discriminate.
  - cbn. repeat split; try (repeat constructor; cbn; lia).
  - apply wt_lits_typed; [vm_compute; reflexivity|]. cbn. repeat split; try (repeat constructor; cbn; lia).
Qed.

(* one operator changed: another document *)
Example C07_distinct_filters_distinct_text :
  let e2 := ECombining LOr (LCons (EComparison (IField 0 []) (COrd OGt (RInt 5))) (LCons (EComparison (IField 3 []) CIsTrue) LNil)) in
  let e1 := ECombining LOr (LCons (EComparison (IField 0 []) (COrd OGe (RInt 5))) (LCons (EComparison (IField 3 []) CIsTrue) LNil)) in
  filter_json_text ex_sch e1 <> filter_json_text ex_sch e2.
Proof. vm_compute. discriminate. Qed.

(* the hash of {"lhs":"num","op":"Equal","rhs":1} is the value the C API returns *)
Example C07_known_hash :
  filter_hash ex_sch (EParen (EComparison (IField 0 []) (COrd OEq (RInt 1)))) = 9537394349879843409.
Proof. vm_compute. reflexivity. Qed.

(* the renderer of C07_full produces the expected texts *)
Example C07_render_example :
  let e := ECombining LAnd (LCons (EComparison (IField 0 []) (COrd OGe (RInt 5))) (LCons (ENot (EComparison (IField 3 []) CIsTrue)) LNil)) in
  render ex_sch e [(false, []); (true, []); (true, []); (false, [32]); (false, [10]); (false, [32]); (false, [])]
    = Some (bs "num>=5 and" ++ [10] ++ bs "not tt") /\
  render ex_sch e [(false, [32]); (false, [32]); (false, [32]); (true, []); (true, []); (true, []); (false, [])]
    = Some (bs " num ge 5&&!tt") /\
  parse_filter ex_sch default_settings (bs "num>=5 and" ++ [10] ++ bs "not tt") = LOk e [] /\
  parse_filter ex_sch default_settings (bs " num ge 5&&!tt") = LOk e [].
Proof. vm_compute. repeat split. Qed.

(* ---- pins ---- *)
Check C07_json_is_canonical_document : forall sch e,
  json_of_lexpr sch e = canon_doc sch e /\ filter_json_text sch e = canon_text sch e /\
  filter_hash sch e = canon_hash sch e.
Check C07_same_structure_same_json_and_hash : forall sch e1 e2,
  struct_eq e1 e2 ->
  json_of_lexpr sch e1 = json_of_lexpr sch e2 /\ filter_json_text sch e1 = filter_json_text sch e2 /\
  filter_hash sch e1 = filter_hash sch e2.
Check C07_document_determines_structure : forall sch e1 e2,
  names_distinct sch -> lits_typed sch e1 -> lits_typed sch e2 ->
  json_of_lexpr sch e1 = json_of_lexpr sch e2 -> struct_eq e1 e2.
Check C07_text_determines_structure : forall sch e1 e2,
  names_distinct sch -> wt_filter sch e1 = true -> wt_filter sch e2 = true -> ips_ok e1 -> ips_ok e2 ->
  filter_json_text sch e1 = filter_json_text sch e2 -> struct_eq e1 e2.
Check C07_json_text_injective : forall j1 j2 : json,
  (jprint j1 = jprint j2 -> j1 = j2) /\ (json_print j1 = json_print j2 -> j1 = j2) /\ jprint j1 = json_print j1.
Check C07_fnv_is_fold : forall text : bytes, fnv1a64 text = fnv1a_spec text /\ fnv1a_spec text < 2 ^ 64.
Check C07_logical_aliases : forall a1 a2 o r,
  In (a1, a2, o) logical_aliases ->
  lex_alts logical_ops (a1 ++ r) = Some (o, r) /\ lex_alts logical_ops (a2 ++ r) = Some (o, r).
Check C07_comparison_aliases : forall a1 a2 c r,
  In (a1, a2, c) comparison_aliases -> no_eq_follows r ->
  lex_alts comparison_ops (a1 ++ r) = Some (c, r) /\ lex_alts comparison_ops (a2 ++ r) = Some (c, r).
