(* C15 — Type and scheme encodings round-trip; over-deep or duplicate input is
   refused.  This file contains only the property theorems, closed by [exact]. *)
From Coq Require Import List NArith ZArith Bool Permutation Sorted.
From WF Require Import Base.Bytes Lang.Types Sem.TypeCodec Spec.C15 Proofs.TypeCodecProofs.
Import ListNotations.
Open Scope N_scope.

(* ---- recursive form <-> packed form ---- *)

(* Every type with at most 32 container layers flattens (no panic) to a
   well-formed packed value that unfolds to the same type. *)
Theorem C15_from_into_type_inverse : forall t : ty,
  (depth t <= 32)%nat -> exists c, from_type t = Some c /\ into_type c = t /\ ct_wf c.
Proof. exact from_into_type_inverse. Qed.

(* Conversely every well-formed packed value is the flattening of its unfolding. *)
Theorem C15_into_from_type_inverse : forall c : ctype,
  ct_wf c -> from_type (into_type c) = Some c.
Proof. exact from_into_type. Qed.

(* The packed value is exactly the specified one: len = number of layers, bit i
   from the least significant end = the i-th layer from the outside is a map;
   more than 32 layers cannot be flattened (from_type panics). *)
Theorem C15_compound_is_spec : forall t : ty, from_type t = spec_pack t.
Proof. exact from_type_spec. Qed.

Theorem C15_packed_bit_order : forall (t : ty) (c : ctype) (i : nat) (l : layer),
  from_type t = Some c -> nth_error (layers_of t) i = Some l ->
  N.testbit (ct_layers c) (N.of_nat i) = is_map l.
Proof. exact packed_bit_order. Qed.

Theorem C15_unpack_is_spec : forall c : ctype, ct_len c < 256 ->
  into_type c = spec_unpack (ct_layers c) (N.to_nat (ct_len c)) (ct_prim c).
Proof. exact into_type_spec. Qed.

(* the specification itself is coherent *)
Theorem C15_spec_pack_unpack : forall c : ctype, ct_wf c ->
  spec_pack (spec_unpack (ct_layers c) (N.to_nat (ct_len c)) (ct_prim c)) = Some c.
Proof. exact spec_pack_unpack. Qed.

(* ---- the C API form agrees with the engine's ---- *)

Theorem C15_ctype_matches_compound : forall (t : ty) (c : ctype),
  from_type t = Some c ->
  cty_of_type t = Some (cty_of_compound c) /\ type_of_cty (cty_of_compound c) = Some t.
Proof. exact ctype_matches_compound. Qed.

Theorem C15_ctype_roundtrip : forall y : cty,
  cy_wf y ->
  exists t, type_of_cty y = Some t /\ cty_of_type t = Some y /\ depth t = N.to_nat (cy_len y).
Proof. exact ctype_roundtrip. Qed.

(* ---- JSON form of a type ---- *)

(* every `Type` value (at most 33 layers: one layer around a packed element)
   comes back from its JSON form *)
Theorem C15_type_json_roundtrip : forall t : ty,
  (depth t <= 33)%nat -> type_of_json (type_to_json t) = Ok t.
Proof. exact type_json_roundtrip. Qed.

(* for every JSON value the reader is the specified one ... *)
Theorem C15_type_json_exact : forall j : json, type_of_json j = spec_type_of_json j.
Proof. exact type_of_json_spec. Qed.

(* ... so a too deep type is an error (INTENDED behaviour: the code panics,
   finding F4) ... *)
Theorem C15_too_deep_rejected_not_panic : forall t : ty,
  (33 < depth t)%nat -> type_of_json (type_to_json t) = Err.
Proof. exact too_deep_rejected. Qed.

(* ... and never accepted as a different type *)
Theorem C15_type_json_never_another_type : forall (j : json) (t : ty),
  type_of_json j = Ok t -> json_type j = Some t /\ (depth t <= 33)%nat.
Proof. exact type_of_json_sound. Qed.

(* ---- schemes ---- *)

(* names, order, types and optionality survive, however the JSON is supplied
   (INTENDED behaviour: the code fails for reader / value / escaped keys,
   finding F5); a value tree hands the fields back ordered by name *)
Theorem C15_scheme_roundtrip : forall (e : entry) (fs : list field_def),
  Forall depth_ok fs -> distinctb (names fs) = true ->
  scheme_of_json (supply e (scheme_to_json fs)) = Ok (supplied_order e fs).
Proof. exact scheme_roundtrip. Qed.

Theorem C15_scheme_roundtrip_from_builder : forall (e : entry) (fs : list field_def),
  Forall depth_ok fs ->
  match sb_add_fields fs [] with
  | Ok fs' => scheme_of_json (supply e (scheme_to_json fs'))
  | Err => Err
  end = spec_scheme_roundtrip e fs.
Proof. exact scheme_roundtrip_spec. Qed.

Theorem C15_by_name_same_fields : forall fs : list field_def,
  NoDup (names fs) -> Permutation fs (fields_by_name fs).
Proof. exact fields_by_name_perm. Qed.

Theorem C15_by_name_sorted : forall fs : list field_def, Sorted name_lt (fields_by_name fs).
Proof. exact fields_by_name_sorted. Qed.

Theorem C15_scheme_json_exact : forall j : json, scheme_of_json j = spec_scheme_of_json j.
Proof. exact scheme_of_json_spec. Qed.

Theorem C15_duplicate_rejected : forall es : list (bytes * json),
  ~ NoDup (map fst es) -> scheme_of_json (JObj es) = Err.
Proof. exact duplicate_rejected. Qed.

Theorem C15_scheme_names_in_order : forall (es : list (bytes * json)) (fs : list field_def),
  scheme_of_json (JObj es) = Ok fs -> NoDup (map fst es) /\ map fd_name fs = map fst es.
Proof. exact scheme_of_json_names. Qed.

Theorem C15_builder_duplicate_rejected : forall fs : list field_def,
  sb_add_fields fs [] = if distinctb (map fd_name fs) then Ok fs else Err.
Proof. exact builder_spec. Qed.

(* ---- observation outside the property's domain ----
   A `Type` may have 33 layers.  The C API form of such a type has len = 33 and
   has lost its innermost layer (u32 shift), so converting back gives another
   type: ffi CType::push has no bound check. *)
Definition t33 : ty :=
  Nat.iter 32 TArray (TMap TInt).

Theorem C15_ctype_beyond_32_lossy :
  rust_type_exists t33 = true /\
  exists y t', cty_of_type t33 = Some y /\ cy_len y = 33 /\ type_of_cty y = Some t' /\ t' <> t33.
Proof.
  split; [vm_compute; reflexivity|].
  eexists; eexists. split; [vm_compute; reflexivity|]. split; [reflexivity|].
  split; [vm_compute; reflexivity|]. vm_compute. discriminate.
Qed.

(* ---- non-vacuity ---- *)

Definition t32 : ty := Nat.iter 16 (fun t => TArray (TMap t)) TBytes.

Example C15_premise_32_layers : (depth t32 <= 32)%nat /\ depth t32 = 32%nat.
Proof. vm_compute. split; [repeat constructor|reflexivity]. Qed.

Example C15_roundtrip_32_layers_nontrivial :
  from_type t32 = Some (mk_ctype 2863311530 32 PBytes) /\
  into_type (mk_ctype 2863311530 32 PBytes) = t32.
Proof. split; vm_compute; reflexivity. Qed.

Example C15_wf_satisfiable : ct_wf (mk_ctype 4294967295 32 PIp) /\ cy_wf (mk_cty 5 3 2).
Proof. unfold ct_wf, cy_wf; cbn. repeat split; try reflexivity; discriminate. Qed.

Example C15_too_deep_premise : (33 < depth (TMap t33))%nat /\ type_of_json (type_to_json (TMap t33)) = Err.
Proof. split; [vm_compute; repeat constructor|vm_compute; reflexivity]. Qed.

Definition two_fields : list field_def :=
  [ {| fd_name := [98]; fd_ty := TArray TIp; fd_optional := true |};
    {| fd_name := [97; 46; 34]; fd_ty := TInt; fd_optional := false |} ].

Example C15_scheme_premise_satisfiable :
  Forall depth_ok two_fields /\ distinctb (names two_fields) = true /\
  supplied_order EValue two_fields = rev two_fields /\
  scheme_of_json (supply EValue (scheme_to_json two_fields)) = Ok (rev two_fields).
Proof.
  split; [repeat constructor; unfold depth_ok; vm_compute; repeat constructor|].
  split; [reflexivity|]. split; vm_compute; reflexivity.
Qed.

Example C15_duplicate_premise_satisfiable :
  ~ NoDup (map fst [([97], JNull); ([97], JNull)]).
Proof. intros H. inversion H as [|x l Hin _]; subst. apply Hin. now left. Qed.

Check C15_from_into_type_inverse : forall t : ty,
  (depth t <= 32)%nat -> exists c, from_type t = Some c /\ into_type c = t /\ ct_wf c.
Check C15_into_from_type_inverse : forall c : ctype, ct_wf c -> from_type (into_type c) = Some c.
Check C15_ctype_matches_compound : forall (t : ty) (c : ctype),
  from_type t = Some c ->
  cty_of_type t = Some (cty_of_compound c) /\ type_of_cty (cty_of_compound c) = Some t.
Check C15_type_json_roundtrip : forall t : ty,
  (depth t <= 33)%nat -> type_of_json (type_to_json t) = Ok t.
Check C15_too_deep_rejected_not_panic : forall t : ty,
  (33 < depth t)%nat -> type_of_json (type_to_json t) = Err.
Check C15_scheme_roundtrip : forall (e : entry) (fs : list field_def),
  Forall depth_ok fs -> distinctb (names fs) = true ->
  scheme_of_json (supply e (scheme_to_json fs)) = Ok (supplied_order e fs).
Check C15_duplicate_rejected : forall es : list (bytes * json),
  ~ NoDup (map fst es) -> scheme_of_json (JObj es) = Err.
