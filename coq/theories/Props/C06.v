(* C06 — Every literal form denotes its documented value; malformed forms are
   rejected.  Printers and side conditions: Spec/C06.v; lexers: Parse/Lex.v.
   This file contains only the property theorems, closed by [exact]. *)
From Coq Require Import List ZArith NArith Bool Lia.
From WF Require Import Base.Bytes Sem.RangeSet Lang.Ast Parse.Lex Spec.C06 Proofs.LexProofs.
Import ListNotations.
Open Scope Z_scope.

(* ---------------- integers ---------------- *)
Theorem C06_int_dec_roundtrip : forall v rest, in_i64 v -> int_follow_ok rest ->
  lex_int (print_dec v ++ rest) = LOk v rest.
Proof. exact int_dec_roundtrip. Qed.

Theorem C06_int_hex_roundtrip : forall upper pad v rest, 0 <= v <= i64_max -> int_follow_ok rest ->
  lex_int (print_int (IHex upper pad) v ++ rest) = LOk v rest.
Proof. exact int_hex_roundtrip. Qed.

Theorem C06_int_oct_roundtrip : forall pad v rest, 0 <= v <= i64_max -> int_follow_ok rest ->
  lex_int (print_int (IOct pad) v ++ rest) = LOk v rest.
Proof. exact int_oct_roundtrip. Qed.

Theorem C06_int_out_of_range_rejected : forall f v rest, ~ in_i64 v -> int_form_ok f v -> int_follow_ok rest ->
  exists at_ len, lex_int (print_int f v ++ rest) = LErr EParseInt at_ len.
Proof. exact int_out_of_range_rejected. Qed.

Theorem C06_int_range_roundtrip : forall f1 f2 a b rest,
  in_i64 a -> in_i64 b -> int_form_ok f1 a -> int_form_ok f2 b -> a <= b -> int_follow_ok rest ->
  lex_int_range (print_int_range f1 f2 a b ++ rest) = LOk (a, b) rest.
Proof. exact int_range_roundtrip. Qed.

Theorem C06_reversed_range_rejected : forall f1 f2 a b rest,
  in_i64 a -> in_i64 b -> int_form_ok f1 a -> int_form_ok f2 b -> b < a -> int_follow_ok rest ->
  lex_int_range (print_int_range f1 f2 a b ++ rest) =
  LErr EIncompatibleRangeBounds (print_int_range f1 f2 a b ++ rest) (length (print_int_range f1 f2 a b)).
Proof. exact reversed_range_rejected. Qed.

Theorem C06_int_single_in_list : forall f v rest,
  in_i64 v -> int_form_ok f v -> int_follow_ok rest -> no_dotdot_next rest ->
  lex_int_range (print_int f v ++ rest) = LOk (v, v) rest.
Proof. exact int_single_as_range. Qed.

(* ---------------- byte strings ---------------- *)
(* every byte string, every escape form per byte *)
Theorem C06_quoted_roundtrip : forall l rest, styles_ok l ->
  lex_bytes (print_quoted l ++ rest) = LOk (map snd l, FQuoted) rest.
Proof. exact quoted_roundtrip. Qed.

Theorem C06_bad_escape_rejected : forall l r, styles_ok l -> ~ good_escape r ->
  exists k at_ len, lex_bytes (34%N :: print_qbody l ++ 92%N :: r) = LErr k at_ len.
Proof. exact bad_escape_rejected. Qed.

Theorem C06_unterminated_rejected : forall l, styles_ok l ->
  lex_bytes (34%N :: print_qbody l) = LErr EMissingEndingQuote (print_qbody l) (length (print_qbody l)).
Proof. exact unterminated_rejected. Qed.

Theorem C06_raw_roundtrip : forall n body rest, (n <= 255)%nat -> utf8_chars body -> no_early_close n body ->
  lex_bytes (print_raw n body ++ rest) = LOk (body, FRaw (N.of_nat n)) rest.
Proof. exact raw_roundtrip. Qed.

(* the same for what the model's from_utf8 automaton accepts *)
Theorem C06_raw_roundtrip_utf8 : forall n body rest,
  (n <= 255)%nat -> utf8_valid body = true -> no_early_close n body ->
  lex_bytes (print_raw n body ++ rest) = LOk (body, FRaw (N.of_nat n)) rest.
Proof. exact raw_roundtrip_utf8. Qed.

Theorem C06_raw_256_rejected : forall n s, (255 < n)%nat ->
  lex_bytes (114%N :: hashes n ++ 34%N :: s) =
  LErr EInvalidRawStringHashCount (hashes n ++ 34%N :: s) (length (hashes n ++ 34%N :: s)).
Proof. exact raw_256_rejected. Qed.

Theorem C06_hexpairs_roundtrip : forall u1 u2 b0 l rest,
  (b0 < 256)%N -> hextail_ok l -> l <> [] -> hexpairs_follow_ok rest ->
  lex_bytes (print_hexpairs u1 u2 b0 l ++ rest) = LOk (b0 :: map snd l, FByte) rest.
Proof. exact hexpairs_roundtrip. Qed.

(* ---------------- IP addresses ---------------- *)
Theorem C06_ipv4_roundtrip : forall a b c d rest, octet a -> octet b -> octet c -> octet d -> ip_follow_ok rest ->
  lex_ip (print_v4 a b c d ++ rest) = LOk (V4 (v4_of a b c d)) rest.
Proof. exact ipv4_roundtrip. Qed.

Theorem C06_ipv6_full_roundtrip : forall upper gs rest,
  length gs = 8%nat -> Forall group16 gs -> ip_follow_ok rest ->
  lex_ip (print_v6_full upper gs ++ rest) = LOk (V6 (v6_of gs 0)) rest.
Proof. exact ipv6_full_roundtrip. Qed.

(* all prefix lengths, both families *)
Theorem C06_cidr_roundtrip : forall t a n rest, addr_text t a -> 0 <= n <= ip_bits a ->
  ip_num a mod 2 ^ (ip_bits a - n) = 0 -> ip_follow_ok rest ->
  lex_ip_range (t ++ 47%N :: print_dec n ++ rest) = LOk (cidr_item a n) rest.
Proof. exact cidr_roundtrip. Qed.

Theorem C06_host_bits_rejected : forall t a n rest, addr_text t a -> 0 <= n <= ip_bits a ->
  ip_num a mod 2 ^ (ip_bits a - n) <> 0 -> ip_follow_ok rest ->
  lex_ip_range (t ++ 47%N :: print_dec n ++ rest) =
  LErr EParseNetwork (t ++ 47%N :: print_dec n ++ rest) (length t).
Proof. exact host_bits_rejected. Qed.

Theorem C06_prefix_too_long_rejected : forall t a n rest, addr_text t a -> ip_bits a < n < 256 ->
  ip_follow_ok rest ->
  lex_ip_range (t ++ 47%N :: print_dec n ++ rest) =
  LErr EParseNetwork (t ++ 47%N :: print_dec n ++ rest) (length (t ++ 47%N :: print_dec n)).
Proof. exact prefix_too_long_rejected. Qed.

Theorem C06_host_in_list : forall t a rest, addr_text t a -> ip_follow_ok rest ->
  lex_ip_range (t ++ rest) = LOk (cidr_item a (ip_bits a)) rest.
Proof. exact host_in_list. Qed.

Theorem C06_ip_range_roundtrip : forall t1 t2 a b rest, addr_text t1 a -> addr_text t2 b ->
  same_family a b = true -> ip_num a <= ip_num b -> ip_follow_ok rest ->
  lex_ip_range (t1 ++ [46%N; 46%N] ++ t2 ++ rest) = LOk (range_item a b) rest.
Proof. exact ip_range_roundtrip. Qed.

Theorem C06_mixed_family_rejected : forall t1 t2 a b rest, addr_text t1 a -> addr_text t2 b ->
  same_family a b = false -> ip_follow_ok rest ->
  lex_ip_range (t1 ++ [46%N; 46%N] ++ t2 ++ rest) =
  LErr EIncompatibleRangeBounds (t1 ++ [46%N; 46%N] ++ t2 ++ rest) (length (t1 ++ [46%N; 46%N] ++ t2)).
Proof. exact mixed_family_rejected. Qed.

Theorem C06_reversed_ip_range_rejected : forall t1 t2 a b rest, addr_text t1 a -> addr_text t2 b ->
  ip_num b < ip_num a -> ip_follow_ok rest ->
  lex_ip_range (t1 ++ [46%N; 46%N] ++ t2 ++ rest) =
  LErr EIncompatibleRangeBounds (t1 ++ [46%N; 46%N] ++ t2 ++ rest) (length (t1 ++ [46%N; 46%N] ++ t2)).
Proof. exact reversed_ip_range_rejected. Qed.

(* ---------------- indexes, map keys ---------------- *)
Theorem C06_index_roundtrip : forall f n rest, 0 <= n < 4294967296 -> int_form_ok f n -> int_follow_ok rest ->
  lex_field_index (print_int f n ++ rest) = LOk (RIArr (Z.to_N n)) rest.
Proof. exact index_roundtrip. Qed.

Theorem C06_neg_or_oversized_index_rejected : forall f n rest,
  n < 0 \/ 4294967296 <= n -> int_form_ok f n -> int_follow_ok rest ->
  lex_field_index (print_int f n ++ rest) =
  LErr EExpectedLiteral (print_int f n ++ rest) (length (print_int f n ++ rest)).
Proof. exact neg_or_oversized_index_rejected. Qed.

Theorem C06_map_key_utf8_only : forall l rest, styles_ok l ->
  lex_field_index (print_quoted l ++ rest) =
  if utf8_valid (map snd l) then LOk (RIKey (map snd l)) rest
  else LErr EExpectedLiteral (print_quoted l ++ rest) (length (print_quoted l ++ rest)).
Proof. exact map_key_utf8_only. Qed.

(* ---------------- list names ---------------- *)
Theorem C06_list_name_spec : forall input,
  (exists v rest, lex_list_name input = LOk v rest) <->
  (exists name rest, input = 36%N :: name ++ rest /\ good_list_name name /\ listname_follow_ok rest).
Proof. exact list_name_spec. Qed.

Theorem C06_list_name_value : forall name rest, good_list_name name -> listname_follow_ok rest ->
  lex_list_name (36%N :: name ++ rest) = LOk name rest.
Proof. exact list_name_accept. Qed.

Theorem C06_list_name_rejected : forall name rest,
  Forall (fun b => listname_byte b = true) name -> listname_follow_ok rest -> ~ good_list_name name ->
  lex_list_name (36%N :: name ++ rest) = LErr EInvalidListName (name ++ rest) (length (name ++ rest)).
Proof. exact list_name_reject. Qed.

(* ---------------- totality (the termination argument of C05 for the lexers): no lexer ever
   answers LPanic or LFuel, on any input (safe r := r <> LPanic /\ r <> LFuel) ---------------- *)
Theorem C06_lex_no_panic_no_fuel : forall input,
  safe (lex_int input) /\ safe (lex_int_range input) /\ safe (lex_bytes input) /\
  safe (lex_quoted_string_as_vec input) /\ safe (lex_raw_string_as_str input) /\ safe (lex_byte_string input) /\
  safe (lex_quoted_or_raw_string input) /\ safe (lex_ip input) /\ safe (lex_ip_range input) /\
  safe (lex_list_name input) /\ safe (lex_ident_name input) /\ safe (lex_field_index input).
Proof. exact lex_no_panic_no_fuel. Qed.

(* ---------------- IPv6 compressed and embedded-IPv4 texts ---------------- *)
Theorem C06_ipv6_compressed_roundtrip : forall upper hs ts rest,
  (length hs + length ts <= 7)%nat -> Forall group16 hs -> Forall group16 ts -> ip_follow_ok rest ->
  lex_ip (print_v6_compressed upper hs ts ++ rest) =
  LOk (V6 (v6_of (hs ++ repeat 0 (8 - (length hs + length ts)) ++ ts) 0)) rest.
Proof. exact ipv6_compressed_roundtrip. Qed.

Theorem C06_ipv6_embedded_roundtrip : forall upper gs a b c d rest,
  length gs = 6%nat -> Forall group16 gs -> octet a -> octet b -> octet c -> octet d -> ip_follow_ok rest ->
  lex_ip (print_v6_embedded upper gs a b c d ++ rest) =
  LOk (V6 (v6_of (gs ++ [a * 256 + b; c * 256 + d]) 0)) rest.
Proof. exact ipv6_embedded_roundtrip. Qed.

(* `::` and a dotted IPv4 tail in the same text: ::ffff:1.2.3.4, 64:ff9b::192.0.2.33, ::1.2.3.4 *)
Theorem C06_ipv6_compressed_embedded_roundtrip : forall upper hs ts a b c d rest,
  (length hs + length ts <= 5)%nat -> Forall group16 hs -> Forall group16 ts ->
  octet a -> octet b -> octet c -> octet d -> ip_follow_ok rest ->
  lex_ip (print_v6_compressed_embedded upper hs ts a b c d ++ rest) =
  LOk (V6 (v6_of (hs ++ repeat 0 (6 - (length hs + length ts)) ++ ts ++ [a * 256 + b; c * 256 + d]) 0)) rest.
Proof. exact ipv6_compressed_embedded_roundtrip. Qed.

(* every canonical text (addr_text: dotted IPv4; IPv6 full, `::`, dotted tail, both) is accepted by the
   CIDR and range theorems above.  Not covered by a theorem: non-canonical spellings of a group
   (leading zeros such as 0001, mixed case inside one group); they are exercised by the correspondence only. *)
Example C06_ipv6_mapped_instance :
  print_v6_compressed_embedded false [] [65535] 1 2 3 4 =
    [58%N; 58%N; 102%N; 102%N; 102%N; 102%N; 58%N; 49%N; 46%N; 50%N; 46%N; 51%N; 46%N; 52%N].
Proof. vm_compute. reflexivity. Qed.

(* non-vacuity and concrete instances *)
Example C06_ex_int : lex_int (print_dec (-9223372036854775808) ++ [32%N]) = LOk (-9223372036854775808) [32%N].
Proof. vm_compute. reflexivity. Qed.
Example C06_ex_quoted_styles :
  styles_ok [(SLit, 97%N); (SBackslash, 34%N); (SHex true false, 255%N); (SOct, 0%N); (SHex false false, 10%N)].
Proof. repeat constructor; cbn; try lia; auto. Qed.
Example C06_ex_raw_premise : utf8_chars [97%N; 34%N; 35%N; 98%N] /\ no_early_close 2 [97%N; 34%N; 35%N; 98%N].
Proof.
  split; [repeat (constructor; try (cbv; reflexivity))|].
  intros p q E. destruct p as [|x0 [|x1 [|x2 [|x3 [|x4 p]]]]]; inversion E; subst; cbn; auto.
  all: try (destruct p; discriminate).
Qed.
Example C06_ex_cidr_premise : addr_text (print_v4 10 0 0 0) (V4 (v4_of 10 0 0 0)) /\ v4_of 10 0 0 0 mod 2 ^ (32 - 8) = 0.
Proof. split; [constructor; unfold octet; lia|reflexivity]. Qed.
Example C06_ex_list_name : good_list_name [97%N; 46%N; 98%N; 95%N; 49%N].
Proof. repeat split; try discriminate. repeat constructor. Qed.

(* statements pinned *)
Check C06_int_dec_roundtrip : forall v rest, in_i64 v -> int_follow_ok rest ->
  lex_int (print_dec v ++ rest) = LOk v rest.
Check C06_quoted_roundtrip : forall l rest, styles_ok l ->
  lex_bytes (print_quoted l ++ rest) = LOk (map snd l, FQuoted) rest.
Check C06_bad_escape_rejected : forall l r, styles_ok l -> ~ good_escape r ->
  exists k at_ len, lex_bytes (34%N :: print_qbody l ++ 92%N :: r) = LErr k at_ len.
Check C06_raw_roundtrip : forall n body rest, (n <= 255)%nat -> utf8_chars body -> no_early_close n body ->
  lex_bytes (print_raw n body ++ rest) = LOk (body, FRaw (N.of_nat n)) rest.
Check C06_hexpairs_roundtrip : forall u1 u2 b0 l rest,
  (b0 < 256)%N -> hextail_ok l -> l <> [] -> hexpairs_follow_ok rest ->
  lex_bytes (print_hexpairs u1 u2 b0 l ++ rest) = LOk (b0 :: map snd l, FByte) rest.
Check C06_cidr_roundtrip : forall t a n rest, addr_text t a -> 0 <= n <= ip_bits a ->
  ip_num a mod 2 ^ (ip_bits a - n) = 0 -> ip_follow_ok rest ->
  lex_ip_range (t ++ 47%N :: print_dec n ++ rest) = LOk (cidr_item a n) rest.
Check C06_index_roundtrip : forall f n rest, 0 <= n < 4294967296 -> int_form_ok f n -> int_follow_ok rest ->
  lex_field_index (print_int f n ++ rest) = LOk (RIArr (Z.to_N n)) rest.
Check C06_list_name_spec : forall input,
  (exists v rest, lex_list_name input = LOk v rest) <->
  (exists name rest, input = 36%N :: name ++ rest /\ good_list_name name /\ listname_follow_ok rest).

Print Assumptions C06_int_dec_roundtrip.
Print Assumptions C06_int_hex_roundtrip.
Print Assumptions C06_int_oct_roundtrip.
Print Assumptions C06_int_out_of_range_rejected.
Print Assumptions C06_int_range_roundtrip.
Print Assumptions C06_reversed_range_rejected.
Print Assumptions C06_int_single_in_list.
Print Assumptions C06_quoted_roundtrip.
Print Assumptions C06_bad_escape_rejected.
Print Assumptions C06_unterminated_rejected.
Print Assumptions C06_raw_roundtrip.
Print Assumptions C06_raw_roundtrip_utf8.
Print Assumptions C06_raw_256_rejected.
Print Assumptions C06_hexpairs_roundtrip.
Print Assumptions C06_ipv4_roundtrip.
Print Assumptions C06_ipv6_full_roundtrip.
Print Assumptions C06_cidr_roundtrip.
Print Assumptions C06_host_bits_rejected.
Print Assumptions C06_prefix_too_long_rejected.
Print Assumptions C06_host_in_list.
Print Assumptions C06_ip_range_roundtrip.
Print Assumptions C06_mixed_family_rejected.
Print Assumptions C06_reversed_ip_range_rejected.
Print Assumptions C06_index_roundtrip.
Print Assumptions C06_neg_or_oversized_index_rejected.
Print Assumptions C06_map_key_utf8_only.
Print Assumptions C06_list_name_spec.
Print Assumptions C06_list_name_value.
Print Assumptions C06_list_name_rejected.
Print Assumptions C06_lex_no_panic_no_fuel.
Print Assumptions C06_ipv6_compressed_roundtrip.
Print Assumptions C06_ipv6_embedded_roundtrip.
Print Assumptions C06_ipv6_compressed_embedded_roundtrip.
