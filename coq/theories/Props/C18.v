(* C18 - Compiled filters are deterministic and safe to execute concurrently.
   Property theorems only.  PARTIAL: the theorems decide the logic of sharing
   for the model; thread interleavings of the real machine code, data races,
   Send/Sync and the memory model are explored by harness/src/c18.rs
   (barrier-released threads, fresh-process first-use races), not proved.

   INVENTORY of shared or global mutable state reachable from
   FilterAst::compile / Filter::execute (grep of /repo/engine/src for static,
   LazyLock/OnceLock/OnceCell/lazy_static, thread_local!, Cell/RefCell/Mutex/
   RwLock/atomics, Pool, unsafe impl Send/Sync; and of the crates called):

   engine/src
   | what                                         | caches / holds                 | initialised                    | can it influence a result?                       |
   | static USE_AVX2: LazyLock<bool>              | env WIREFILTER_USE_AVX2 + CPU  | first compile of `contains`    | selects Avx2Searcher vs memmem: both = substring  |
   |   (ast/field_expr.rs:29)                     | feature bit                    | with a needle >= 2 bytes       | search (C10 avx2_switch_irrelevant); cell G1 here |
   | static USE_SIMD128 (wasm32 only)             | same for wasm                  | same                           | not compiled on x86_64                            |
   | rand::rng() in the Contains arm              | thread_local ThreadRng         | first draw on each thread,     | anchor position of the AVX2 searcher, a new draw  |
   |   (field_expr.rs:610)                        | (Rc<UnsafeCell<ReseedingRng>>) | seeded from the OS             | per compile: irrelevant (C10 anchor_irrelevant);  |
   |                                              |                                |                                | knob K here                                       |
   | verif::ANCHOR_OVERRIDE (thread_local Cell)   | hook, cfg(wirefilter_verif)    | const                          | only forces the anchor on the calling thread      |
   | panic.rs: 4 thread_local Cell/RefCell,       | panic catcher state            | const / Once                   | not touched by compile/execute (C19's subject)    |
   |   static PANIC_CATCHER_HOOK_ONCE: Once       |                                |                                |                                                   |
   | functions/concat.rs static CONCAT_FN (test), | immutable values               | const                          | no                                                |
   |   LazyLock<Scheme> in #[cfg(test)] modules   |                                |                                |                                                   |
   | Scheme = Arc<SchemeBuilder> (FnvBuildHasher) | immutable after build();       | -                              | no (compared by pointer in execute)               |
   | Filter / CompiledExpr                        | Box<dyn Fn + Sync + Send>      | compile                        | closures capture owned immutable data only; no    |
   |                                              |                                |                                | Cell/RefCell/Mutex/atomic/unsafe impl in engine   |
   | ExecutionContext                             | values, Box<dyn ListMatcher>   | caller                         | execute takes &ctx; ListMatcher: Send + Sync,     |
   |                                              |                                |                                | match_value(&self)                                |
   | ffi LAST_ERROR (thread_local RefCell)        | C API error text               | const                          | per thread (C20's subject)                        |
   third-party code behind the API
   | regex_automata::meta::Regex.pool: Pool<Cache>| PikeVM/backtrack/lazy-DFA      | per compiled regex; first      | scratch + memo of pure transitions: must not;     |
   |   (util/pool.rs: owner AtomicUsize, sharded  | scratch, one per concurrent    | is_match makes the calling     | pools P here (take / run / put, validity          |
   |   Mutex<Vec<Box<Cache>>>, unsafe impl Sync,  | caller                         | thread the owner (CAS)         | invariant); the real pool is only explored        |
   |   static COUNTER, thread_local THREAD_ID)    |                                |                                |                                                   |
   | memchr: static FN: AtomicPtr (ifunc) per     | chosen avx2/sse2/fallback      | first call, racy by design     | all implementations compute the same function;    |
   |   search routine; memmem::Finder prefilter   | routine                        | (every racer stores the same   | cell G2 here                                      |
   | std_detect cache (is_x86_feature_detected!)  | CPUID bits (atomics)           | pointer / bits)                | same                                              |
   | sliceslice Avx2Searcher, wildcard::Wildcard  | immutable after construction   | compile / parse                | no                                                |

   The theorems:
   (a) C18_schedule_independent_partial: for EVERY engine whose hidden state
       satisfies [engine_ok] (deterministic initialisers, scratch validity
       invariant, knob-independent results) and EVERY schedule (any number of
       threads, any number of steps, arbitrary interleaving of the atomic
       steps: look at a cell / publish a value / take a scratch and run / put
       it back), each thread's log is the sequential log of what it completed;
       after a complete run the globals are the single-threaded values.
       Instances: whole compiled filters (closures produced by ONE
       compile_lexpr each, shared by all threads) and the leaf matchers with
       USE_AVX2 latch, memchr function pointer, random anchor and regex cache
       made explicit.
   (b) compile is a function: recompilations agree (theorems C18_recompilation_agrees, C18_leaf_recompilation_agrees).
   (c) the hypotheses are needed: with a thread-dependent initialiser or a
       cache shared between patterns some schedule changes an observation
       (vm_compute witnesses).  These are NOT findings about wirefilter: they
       are the two designs the mutation tests plant in the real code. *)
From Coq Require Import List NArith Arith Bool.
From WF Require Import Base.Bytes Lang.Types Lang.Ast Lang.Context Sem.Matchers Sem.Compile Sem.Searcher
     Spec.Denote Spec.Typing Proofs.CallProofs Sem.Shared Spec.C18 Proofs.SharedProofs.
Import ListNotations.
Open Scope nat_scope.

(* ---- (a) every schedule ---- *)

Theorem C18_schedule_independent_partial :
  forall (F C K Sc R V : Type) (E : engine F C K Sc R V) (seq_result : F -> C -> R)
         (v0 : nat -> V) (Inv : nat -> Sc -> Prop),
    engine_ok E seq_result v0 Inv ->
    forall (progs : nat -> list op) (ks : nat -> list K) (sched : list nat),
      let m := run_sched E sched (start progs ks) in
      observes_sequential E seq_result progs m /\
      (finished m ->
       (forall t, log (threads m t) = seq_log E seq_result (progs t)) /\
       cells_final E v0 progs m).
Proof. exact (@machine_schedule_independent). Qed.

Theorem C18_two_schedules_agree_partial :
  forall (F C K Sc R V : Type) (E : engine F C K Sc R V) (seq_result : F -> C -> R)
         (v0 : nat -> V) (Inv : nat -> Sc -> Prop),
    engine_ok E seq_result v0 Inv ->
    forall progs ks1 ks2 s1 s2,
      let m1 := run_sched E s1 (start progs ks1) in
      let m2 := run_sched E s2 (start progs ks2) in
      finished m1 -> finished m2 ->
      (forall t, log (threads m1 t) = log (threads m2 t)) /\
      (forall c, cells (glob m1) c = cells (glob m2) c).
Proof. exact (@machine_two_schedules). Qed.

(* whole filters: compiled once, shared, executed and recompiled by any
   number of threads on shared or distinct contexts *)
Theorem C18_filters_schedule_independent_partial : forall sch es cs,
  schedule_independent (filter_engine sch es cs) closure_run (fun _ => tt).
Proof. exact filters_schedule_independent. Qed.

(* ... and what every call returns is run_filter, i.e. for a well-typed filter
   on a well-formed context the denotation of the language *)
Theorem C18_filter_calls_return_denotation : forall sch es cs o e c,
  nth_error es (op_fid o) = Some e -> nth_error cs (op_cid o) = Some c ->
  wt_filter sch e = true -> ctx_ok sch c = true -> fns_ok sch ->
  exists b, seq_obs (filter_engine sch es cs) closure_run o = Some (Some b) /\
            denote_filter sch e c = Some b.
Proof. exact filter_engine_obs_denote. Qed.

(* leaf matchers with their hidden state explicit *)
Theorem C18_leaf_engine_ok : forall env fs hs,
  engine_ok (leaf_engine env fs hs) leaf_seq (leaf_v0 env) (leaf_inv fs).
Proof. exact leaf_engine_ok. Qed.

Theorem C18_leaves_schedule_independent_partial : forall env fs hs,
  schedule_independent (leaf_engine env fs hs) leaf_seq (leaf_v0 env).
Proof. exact leaves_schedule_independent. Qed.

(* ---- (b) recompilation ---- *)

Theorem C18_recompilation_agrees : forall sch e f1 f2,
  f1 = compile_lexpr sch e -> f2 = compile_lexpr sch e ->
  forall c, closure_run f1 c = closure_run f2 c /\ closure_run f1 c = run_filter sch e c.
Proof. exact recompilation_agrees. Qed.

Theorem C18_leaf_recompilation_agrees : forall f hay view1 view2 k1 k2 s1 s2,
  (forall r, f = LMatches r -> cache_valid r s1 /\ cache_valid r s2) ->
  fst (leaf_run view1 k1 s1 f hay) = fst (leaf_run view2 k2 s2 f hay).
Proof. exact leaf_recompilation_agrees. Qed.

(* ---- the full statement and why it is out of reach ---- *)

Definition C18_full : Prop := Spec.C18.C18_full.

(* sequential correctness alone does not give the property *)
Theorem C18_sequential_correctness_is_not_enough_refuted : ~ C18_full.
Proof. exact full_refuted. Qed.

(* ---- (c) the excluded designs ---- *)

Theorem C18_thread_dependent_initialiser_refuted :
  exists (progs : nat -> list op) (s1 s2 : list nat),
    let m1 := run_sched bad_init_engine s1 (start progs (fun _ => [])) in
    let m2 := run_sched bad_init_engine s2 (start progs (fun _ => [])) in
    finished m1 /\ finished m2 /\ log (threads m1 0) <> log (threads m2 0).
Proof.
  exists bad_init_progs, bad_init_sched_race, bad_init_sched_seq.
  destruct bad_init_race_observed as [F1 L1]. destruct bad_init_seq_observed as [F2 L2].
  split; [exact F1|]. split; [exact F2|]. rewrite L1, L2. discriminate.
Qed.

Theorem C18_cache_shared_between_patterns_refuted :
  sequentially_correct bad_cache_E leaf_seq /\
  let m1 := run_sched bad_cache_E sched_0_then_1 (start bad_cache_progs (fun _ => [])) in
  let m2 := run_sched bad_cache_E sched_1_then_0 (start bad_cache_progs (fun _ => [])) in
  finished m1 /\ finished m2 /\
  log (threads m1 1) <> log (threads m2 1) /\ log (threads m1 0) <> log (threads m2 0).
Proof.
  split; [exact bad_cache_sequentially_correct|].
  destruct bad_cache_observed as (F1 & F2 & A & B & C & D & _).
  split; [exact F1|]. split; [exact F2|]. rewrite A, B, C, D. split; discriminate.
Qed.

(* ---- non-vacuity ---- *)

(* both threads find the USE_AVX2 cell empty and compute it; thread 1
   publishes, thread 0's value is dropped *)
Example C18_race_is_exercised :
  let m := run_sched (demo_E true) [0; 0; 1; 1] (start demo_progs (fun t => [t + 5])) in
  ph (threads m 0) = PPublish CELL_AVX2 1 [CELL_MEMCHR] /\
  ph (threads m 1) = PPublish CELL_AVX2 1 [CELL_MEMCHR] /\
  cells (glob m) CELL_AVX2 = None /\
  cells (glob (step (demo_E true) (step (demo_E true) m 1) 0)) CELL_AVX2 = Some 1.
Proof. vm_compute. repeat split. Qed.

(* the complete run: contains through the AVX2 searcher with two anchors,
   a cached regex used by both threads, memchr; everything as sequentially *)
Example C18_demo_complete :
  let m := run_sched (demo_E true) demo_sched (start demo_progs (fun t => [t + 5])) in
  finished m /\
  log (threads m 0) = [(Exec 0 0, Some (Some true)); (Exec 1 0, Some (Some true));
                       (Recompile 0 1, Some (Some false)); (Exec 2 0, Some (Some true))] /\
  log (threads m 1) = [(Exec 0 0, Some (Some true)); (Exec 1 0, Some (Some true));
                       (Recompile 0 0, Some (Some true)); (Exec 1 1, Some (Some false))] /\
  length (pools (glob m) 1) = 2.
Proof.
  split; [intros [|[|t]]; vm_compute; reflexivity|]. vm_compute. repeat split.
Qed.

(* a process without AVX2 observes the same *)
Example C18_demo_other_process :
  let m1 := run_sched (demo_E true) demo_sched (start demo_progs (fun t => [t + 5])) in
  let m2 := run_sched (demo_E false) (sequential (demo_E false) 2 demo_progs) (start demo_progs (fun _ => [])) in
  log (threads m1 0) = log (threads m2 0) /\ log (threads m1 1) = log (threads m2 1) /\
  cells (glob m1) CELL_AVX2 = Some 1 /\ cells (glob m2) CELL_AVX2 = Some 0.
Proof. vm_compute. repeat split. Qed.

Example C18_engine_ok_satisfiable :
  engine_ok (demo_E true) leaf_seq (leaf_v0 {| env_avx2 := true; env_memchr := 2 |})
            (leaf_inv [(LContains [108; 108; 111]%N, 0); (LMatches (RSeq (RLit 108) (RLit 111)), 0);
                       (LContains [111]%N, 0)]).
Proof. apply leaf_engine_ok. Qed.

(* ---- pins ---- *)
Check C18_schedule_independent_partial :
  forall (F C K Sc R V : Type) (E : engine F C K Sc R V) (seq_result : F -> C -> R)
         (v0 : nat -> V) (Inv : nat -> Sc -> Prop),
    engine_ok E seq_result v0 Inv ->
    forall (progs : nat -> list op) (ks : nat -> list K) (sched : list nat),
      let m := run_sched E sched (start progs ks) in
      observes_sequential E seq_result progs m /\
      (finished m ->
       (forall t, log (threads m t) = seq_log E seq_result (progs t)) /\
       cells_final E v0 progs m).
Check C18_filters_schedule_independent_partial : forall sch es cs,
  schedule_independent (filter_engine sch es cs) closure_run (fun _ => tt).
Check C18_leaves_schedule_independent_partial : forall env fs hs,
  schedule_independent (leaf_engine env fs hs) leaf_seq (leaf_v0 env).
Check C18_recompilation_agrees : forall sch e f1 f2,
  f1 = compile_lexpr sch e -> f2 = compile_lexpr sch e ->
  forall c, closure_run f1 c = closure_run f2 c /\ closure_run f1 c = run_filter sch e c.
Check C18_sequential_correctness_is_not_enough_refuted : ~ C18_full.
