(* C08 — Execution contexts are typed field maps bound to one scheme.
   This file contains only the property theorems, closed by [exact]. *)
From Coq Require Import List ZArith NArith Bool Arith.
From WF Require Import Base.Bytes Sem.RangeSet Lang.Types Lang.Context Spec.Typing Sem.CtxApi Spec.C08
     Proofs.CtxApiProofs.
Import ListNotations.
Open Scope nat_scope.

(* For EVERY operation sequence (set by field, set by name, get, clear,
   clone_with, borrow_with .. drop, take_with, new, execute; any length, any
   nesting of borrows, any slots, handles and field indices, valid or not)
   from the initial world, the observations of the model of the API equal those
   of the abstract typed map.  The only premise: the values offered were built
   by the checked constructors (C08_containers_homogeneous: nothing else can
   be built). *)
Theorem C08_ctx_refines_typed_map : forall (cf : config) (ops : list op),
  forallb op_wf ops = true -> run cf ops = a_run cf ops.
Proof. exact ctx_refines_typed_map_proof. Qed.

(* A failed set (type mismatch, scheme mismatch, unknown field) leaves the
   whole world unchanged; from any world, invariant or not. *)
Theorem C08_failed_set_changes_nothing : forall cf w o err,
  snd (step cf w o) = ObErr err -> fst (step cf w o) = w.
Proof. exact failed_set_changes_nothing. Qed.

(* A successful set returns what a read just before would have returned, and
   a read just after returns the value set. *)
Theorem C08_set_returns_previous : forall cf w c h f v w1 old,
  inv cf w -> step cf w (OSetByField c h f v) = (w1, ObPrev old) ->
  snd (step cf w (OGet c h f)) = ObVal old /\ snd (step cf w1 (OGet c h f)) = ObVal (Some v).
Proof. exact set_returns_previous. Qed.

(* the invariant used above holds in every reachable world *)
Theorem C08_inv_reachable : forall cf ops, inv cf (fst (run_from cf (init cf) ops)).
Proof. intros cf ops. apply inv_run. apply inv_init. Qed.

(* Over all histories: every context the program can name has one slot per
   field and every stored value has the declared FULL nested type, although
   the API only compares the outer type tags. *)
Theorem C08_ctx_inv_well_typed : forall cf ops,
  forallb op_wf ops = true ->
  forall c e, cur (fst (run_from cf (init cf) ops)) c = Some e ->
    length (ec_vals e) = length (cf_fields cf) /\
    forall f v, nth_error (ec_vals e) f = Some (Some v) ->
      exists fd, nth_error (cf_fields cf) f = Some fd /\ has_type v (fd_ty fd) = true.
Proof. exact ctx_inv_well_typed_proof. Qed.

(* ... which is Spec/Typing.v's [slots_ok] once the mandatory fields are set. *)
Theorem C08_visible_slots_ok : forall cf ops,
  forallb op_wf ops = true ->
  forall c e, cur (fst (run_from cf (init cf) ops)) c = Some e ->
    (forall f fd, nth_error (cf_fields cf) f = Some fd -> nth_error (ec_vals e) f = Some None ->
                  fd_optional fd = true) ->
    slots_ok (cf_fields cf) (ec_vals e) = true.
Proof. exact ctx_visible_slots_ok_proof. Qed.

Theorem C08_clone_independent : forall cf w src dst w1,
  inv cf w -> step cf w (OCloneWith src dst) = (w1, ObOk) -> src <> dst ->
  (exists e, cur w src = Some e /\ cur w1 src = Some e /\ cur w1 dst = Some e) /\
  forall c ops, c = src \/ c = dst ->
    forallb (fun o => negb (writes o c)) ops = true ->
    cur (fst (run_from cf w1 ops)) c = cur w1 c.
Proof. exact clone_independent_proof. Qed.

Theorem C08_guard_writes_through : forall cf w, inv cf w ->
  (forall c w1, step cf w (OBorrowBegin c) = (w1, ObOk) ->
     exists e, cur w c = Some e /\
       (forall c', cur w1 c' = cur w c') /\
       map fst (w_guards w1) = c :: map fst (w_guards w) /\
       cur_in (tl (w_guards w1)) (w_ctxs w1) c = Some {| ec_tok := ec_tok e; ec_vals := [] |}) /\
  (forall w1, step cf w OBorrowEnd = (w1, ObOk) ->
     (forall c', cur w1 c' = cur w c') /\ map fst (w_guards w1) = tl (map fst (w_guards w))).
Proof. exact guard_writes_through_proof. Qed.

Theorem C08_containers_homogeneous :
  (forall t l, array_new t l = spec_array t l) /\
  (forall t kvs, map_new t kvs = spec_map t kvs) /\
  (forall t l v, array_new t l = Some v <-> (Forall (fun x => type_of x = t) l /\ v = VArray t l)) /\
  (forall t l v, array_new t l = Some v -> forallb value_wf l = true -> has_type v (TArray t) = true) /\
  (forall t kvs v, map_new t kvs = Some v <->
                   (Forall (fun kv => type_of (snd kv) = t) kvs /\ v = VMap t (map_of_pairs kvs))) /\
  (forall t kvs v, map_new t kvs = Some v <->
                   (Forall (fun kv => type_of (snd kv) = t) kvs /\
                    exists content, v = VMap t content /\ is_map_of kvs content)) /\
  (forall t kvs v, map_new t kvs = Some v -> forallb (fun kv => value_wf (snd kv)) kvs = true ->
                   has_type v (TMap t) = true).
Proof. exact containers_homogeneous_proof. Qed.

Theorem C08_execute_only_same_scheme : forall cf w c h,
  fst (step cf w (OExecute c h)) = w /\
  (snd (step cf w (OExecute c h)) = ObExecuted <->
     exists e, cur w c = Some e /\ nth_error (cf_idents cf) h = Some (ec_tok e)) /\
  (forall e tok, cur w c = Some e -> nth_error (cf_idents cf) h = Some tok -> tok <> ec_tok e ->
     snd (step cf w (OExecute c h)) = ObSchemeMismatch).
Proof. exact execute_only_same_scheme_proof. Qed.

(* ---- non-vacuity ---- *)

Definition ex_cf : config :=
  {| cf_fields := [ {| fd_name := [110%N]; fd_ty := TInt; fd_optional := true |};
                    {| fd_name := [97%N]; fd_ty := TArray (TArray TInt); fd_optional := true |} ];
     cf_idents := [0; 0; 1];
     cf_init := [Some 0; Some 2; None; None] |}.

(* an empty array tagged Array(Int) is accepted for the Array(Array(Int)) field,
   the same shape tagged Bytes is not; the guard's write is what the original
   shows after the drop; the clone keeps the old value; scheme B's field and
   filter are refused on a context of A (and of A's clone handle accepted). *)
Definition ex_ops : list op :=
  [ OSetByField 0 1 1 (VArray (TArray TInt) [VArray TInt []]);
    OSetByField 0 0 1 (VArray (TArray TBytes) []);
    OSetByField 0 2 0 (VInt 1);
    OCloneWith 0 2;
    OBorrowBegin 0; OSetByName 0 [110%N] (VInt 7); OBorrowEnd;
    OGet 0 0 0; OGet 2 0 0; OGet 2 0 1;
    OExecute 0 1; OExecute 0 2; OExecute 1 2; OClear 0; OGet 0 0 1; OTakeWith 2 3; OGet 2 0 0; OGet 3 1 1 ].

Example C08_refinement_premise_satisfiable : forallb op_wf ex_ops = true.
Proof. vm_compute. reflexivity. Qed.

Example C08_history_nontrivial :
  run ex_cf ex_ops =
  [ ObPrev None; ObErr TypeMismatch; ObErr SchemeMismatch; ObOk; ObOk; ObPrev None; ObOk;
    ObVal (Some (VInt 7)); ObVal None; ObVal (Some (VArray (TArray TInt) [VArray TInt []]));
    ObExecuted; ObSchemeMismatch; ObExecuted; ObOk; ObVal None; ObOk; ObNoCtx;
    ObVal (Some (VArray (TArray TInt) [VArray TInt []])) ].
Proof. vm_compute. reflexivity. Qed.

Example C08_set_premise_satisfiable :
  exists w1, step ex_cf (init ex_cf) (OSetByField 0 0 0 (VInt 3)) = (w1, ObPrev None).
Proof. eexists. vm_compute. reflexivity. Qed.

Example C08_clone_premise_satisfiable :
  exists w1, step ex_cf (init ex_cf) (OCloneWith 0 2) = (w1, ObOk) /\ 0 <> 2.
Proof. eexists. split; [vm_compute; reflexivity|discriminate]. Qed.

Example C08_guard_premises_satisfiable :
  exists w1 w2, step ex_cf (init ex_cf) (OBorrowBegin 0) = (w1, ObOk) /\ step ex_cf w1 OBorrowEnd = (w2, ObOk).
Proof. eexists. eexists. split; vm_compute; reflexivity. Qed.

Example C08_constructors_nontrivial :
  array_new TInt [VInt 1; VBytes [1%N]] = None /\
  array_new (TArray TInt) [VArray TInt []; VArray TBytes []] = None /\
  map_new TInt [([2%N], VInt 1); ([1%N], VInt 2); ([2%N], VInt 3)] = Some (VMap TInt [([1%N], VInt 2); ([2%N], VInt 3)]).
Proof. vm_compute. repeat split. Qed.

Check C08_ctx_refines_typed_map : forall (cf : config) (ops : list op),
  forallb op_wf ops = true -> run cf ops = a_run cf ops.
Check C08_ctx_inv_well_typed : forall cf ops,
  forallb op_wf ops = true ->
  forall c e, cur (fst (run_from cf (init cf) ops)) c = Some e ->
    length (ec_vals e) = length (cf_fields cf) /\
    forall f v, nth_error (ec_vals e) f = Some (Some v) ->
      exists fd, nth_error (cf_fields cf) f = Some fd /\ has_type v (fd_ty fd) = true.

Print Assumptions C08_ctx_refines_typed_map.
Print Assumptions C08_failed_set_changes_nothing.
Print Assumptions C08_set_returns_previous.
Print Assumptions C08_inv_reachable.
Print Assumptions C08_ctx_inv_well_typed.
Print Assumptions C08_visible_slots_ok.
Print Assumptions C08_clone_independent.
Print Assumptions C08_guard_writes_through.
Print Assumptions C08_containers_homogeneous.
Print Assumptions C08_execute_only_same_scheme.
