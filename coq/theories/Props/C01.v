(* C01 — Scalar comparisons and boolean logic evaluate per the reference
   semantics.  Property theorems only. *)
From Coq Require Import List ZArith NArith Bool.
From WF Require Import Base.Bytes Sem.RangeSet Lang.Types Lang.Ast Lang.Context
     Sem.Compile Spec.Denote Spec.Typing Proofs.ScalarProofs Parse.Climb
     Parse.Lex Parse.Parser Spec.Grammar Proofs.ClimbText Proofs.GrammarProofs Proofs.CallProofs Proofs.FullProofs Proofs.ParserClosed.
Import ListNotations.

(* Compiling and executing a scalar filter (comparisons of Int / Bytes / Ip /
   Bool fields with literals, bitwise-and test, in {..}, in $list, bare boolean
   fields, joined by not / and / xor / or / parentheses) returns exactly the
   denotation, and never panics, for every scheme, every such filter (any size
   and depth) and every well-formed context (optional fields present or
   absent, both nil-not-equal settings). *)
Theorem C01_exec_is_denote : forall (sch : scheme) (e : lexpr) (c : ctx),
  scalar sch e = true -> ctx_ok sch c = true ->
  exists b, run_filter sch e c = Some b /\ denote_filter sch e c = Some b.
Proof. exact scalar_exec_is_denote. Qed.

(* The operator tables: Rust's comparison operators on i64 and [u8] and the
   OrderingOp bit masks on IpAddr implement <, <=, >, >=, ==, != on a total
   order, and only != on incomparable (v4/v6) pairs. *)
Theorem C01_int_ops : forall o a z, int_op o a z = ord_holds o (Some (a ?= z)%Z).
Proof. exact int_op_spec. Qed.
Theorem C01_bytes_ops : forall o a b, bytes_op o a b = ord_holds o (Some (bytes_compare a b)).
Proof. exact bytes_op_spec. Qed.
Theorem C01_ip_ops : forall o x a, ord_matches_opt o (ip_strict_cmp x a) = ord_holds o (ip_compare x a).
Proof. exact ip_op_spec. Qed.

(* Binding strength: the precedence-climbing loop with look-ahead builds the
   stratified tree (or-list of xor-lists of and-lists, same-operator runs
   flattened) for chains of any length and operator mix. *)
Theorem C01_climb_is_stratified : forall (A : Type) (x : @orl A),
  simple_orl x -> More (first_or x) None (rest_or x) (build_or x, []).
Proof. exact (@climb_is_stratified). Qed.

(* The parser model's climbing functions refine that loop: on a text that reads as a chain of simple
   expressions and operators, lex_more / lex_inner (the mirror of lex_more_with_precedence) return what
   More / Inner return (LFuel apart).  ChainRep: Proofs/ClimbText.v. *)
Theorem C01_parser_climb_refines_loop : forall sch st d cls,
  (forall a b, cls a = true -> cls b = true -> types_combinable a b = true) ->
  (forall lhs minp c res, More lhs minp c res -> P_more sch st d cls lhs minp c res) /\
  (forall rhs o c res, Inner rhs o c res -> P_inner sch st d cls rhs o c res).
Proof. exact climb_sim. Qed.

(* Text level: every text of the surface grammar (Spec/Grammar.v: comparisons of a field - possibly indexed
   with [n] / ["key"] / [*] - with a literal in any literal form, `in {..}` lists of values, ranges and CIDRs,
   `in $list`, contains, bare boolean fields, not / ! , parentheses, and / xor / or in either spelling, any
   white-space layout) is parsed to the AST the grammar assigns to it - binding strength not > and > xor >
   or - and executing that AST on any well-formed context gives its denotation. *)
Theorem C01_text_level : forall sch st text e c,
  GFilter sch st text e -> ctx_ok sch c = true -> fns_ok sch ->
  parse_filter sch st text = LOk e [] /\
  exists b, run_filter sch e c = Some b /\ denote_filter sch e c = Some b.
Proof.
  intros sch st text e c HG Hc Hf. pose proof (filter_grammar_parses sch st text e HG) as Hp.
  split; [exact Hp|]. apply filter_exec_is_denote; [|assumption|assumption].
  pose proof (parse_filter_post sch st text) as P. rewrite Hp in P. exact (proj1 (proj1 P)).
Qed.

(* the grammar is inhabited: a mixed filter with both spellings, a dotted name, a line break *)
Example C01_text_level_instance :
  GFilter gex_sch default_settings gex_text (interp (build_or gex_x)) /\
  parse_filter gex_sch default_settings gex_text =
    LOk (ECombining LOr (LCons (ECombining LAnd (LCons gex_a1 (LCons gex_a2 LNil))) (LCons gex_a3 (LCons gex_a4 LNil)))) [].
Proof. split; [exact gex_in_grammar|exact gex_parses]. Qed.

(* Non-vacuity: a concrete mixed filter over a concrete context. *)
Definition ex_scheme : scheme :=
  {| sc_fields := [ {| fd_name := [110]%N; fd_ty := TInt; fd_optional := false |};
                    {| fd_name := [115]%N; fd_ty := TBytes; fd_optional := true |};
                    {| fd_name := [105]%N; fd_ty := TIp; fd_optional := true |} ];
     sc_functions := []; sc_lists := []; sc_nil_ne := true |}.
Definition ex_filter : lexpr :=
  ECombining LOr (LCons (ECombining LAnd (LCons (EComparison (IField 0 []) (COrd OLt (RInt 5)))
                                           (LCons (ENot (EComparison (IField 1 []) (COrd ONe (RBytes [97]%N FQuoted)))) LNil)))
                 (LCons (EParen (EComparison (IField 2 []) (COrd ONe (RIp (V6 1))))) LNil)).
Definition ex_ctx : ctx := {| cx_vals := [Some (VInt (-9223372036854775808)); None; Some (VIp (V4 1))]; cx_lists := [] |}.
Example C01_premises_satisfiable :
  scalar ex_scheme ex_filter = true /\ ctx_ok ex_scheme ex_ctx = true /\
  run_filter ex_scheme ex_filter ex_ctx = Some true.
Proof. vm_compute. repeat split. Qed.

Check C01_exec_is_denote : forall (sch : scheme) (e : lexpr) (c : ctx),
  scalar sch e = true -> ctx_ok sch c = true ->
  exists b, run_filter sch e c = Some b /\ denote_filter sch e c = Some b.
Check C01_text_level : forall sch st text e c,
  GFilter sch st text e -> ctx_ok sch c = true -> fns_ok sch ->
  parse_filter sch st text = LOk e [] /\
  exists b, run_filter sch e c = Some b /\ denote_filter sch e c = Some b.
