(* C04 — Parsing accepts exactly the well-typed filters; accepted ones never
   fail later.  What is proved here is the second half on the AST: every filter
   or value expression that satisfies the documented typing rules
   ([wt_filter] / [wt_value], Spec/Typing.v) compiles and executes without
   panicking on every context whose mandatory fields are set and whose values
   have their declared types, and a value expression yields a value of its
   static type or an absence tagged with it.  For the first half, soundness is
   proved on the parser model: whatever parse_filter / parse_value accept
   satisfies the typing rules (so it never fails later); completeness (every
   well-typed candidate is accepted) is validated by correspondence on
   exhaustive matrices and random well-/ill-typed candidates, hence [_partial]. *)
From Coq Require Import List ZArith NArith Bool.
From WF Require Import Base.Bytes Sem.RangeSet Lang.Types Lang.Ast Lang.Context
     Sem.Compile Spec.Denote Spec.Typing Proofs.ExecProofs Proofs.CallProofs Proofs.FullProofs
     Parse.Lex Parse.Parser Proofs.ParserProofs Proofs.ParserClosed Spec.Grammar Proofs.GrammarProofs.
Import ListNotations.

Definition C04_full : Prop :=
  forall (parse : scheme -> bytes -> option lexpr) (render : scheme -> lexpr -> bytes),
    forall sch e, wt_filter sch e = true <-> parse sch (render sch e) = Some e.

Lemma accepted_never_panics sch e c :
  wt_filter sch e = true -> ctx_ok sch c = true -> fns_ok sch -> run_filter sch e c <> None.
Proof.
  intros H1 H2 H3. destruct (filter_exec_is_denote sch e c H1 H2 H3) as (b & Hb & _). congruence.
Qed.

Theorem C04_accepted_never_panics_partial : forall sch e c,
  wt_filter sch e = true -> ctx_ok sch c = true -> fns_ok sch -> run_filter sch e c <> None.
Proof. exact accepted_never_panics. Qed.

Theorem C04_value_expr_result_typed : forall sch e c t,
  wt_value sch e = Some t -> ctx_ok sch c = true -> fns_ok sch ->
  exists r, run_value sch e c = Some r /\ denote_value sch e c = Some r /\
            match r with VOk v => has_type v t = true | VAbsent t' => t' = t end.
Proof. exact value_exec_is_denote. Qed.

(* the static type the model's GetType computes is the specification's *)
Theorem C04_static_types_agree : forall sch c, ctx_ok sch c = true -> fns_ok sch ->
  forall e t, wt_lexpr sch e = Some t -> ty_lexpr sch e = Some t.
Proof.
  intros sch c Hc Hf e t H. destruct (full_correct_mut sch c Hc Hf) as (P & _). exact (proj1 (P e t H)).
Qed.

(* ---- the parser accepts only well-typed filters / value expressions ---- *)
Theorem C04_parser_accepts_only_well_typed : forall sch st text e rest,
  parse_filter sch st text = LOk e rest -> wt_filter sch e = true.
Proof.
  intros sch st text e rest H. pose proof (parse_filter_post sch st text) as P.
  rewrite H in P. exact (proj1 (proj1 P)).
Qed.

Theorem C04_parser_accepts_only_well_typed_values : forall sch st text e rest,
  parse_value sch st text = LOk e rest -> exists t, wt_value sch e = Some t.
Proof.
  intros sch st text e rest H. pose proof (parse_value_post sch st text) as P.
  rewrite H in P. exact (proj1 (proj1 P)).
Qed.

(* ---- completeness on the surface grammar: every text of Spec/Grammar.v (a well-typed filter written in any
   layout, spelling and literal form; constructs covered: see that file) is accepted, with the intended AST.
   Partial with respect to C04_full: the grammar does not yet describe every construct of the language; for
   the rest, completeness is decided by the exhaustive matrices of the correspondence check. ---- *)
Theorem C04_grammar_is_accepted_partial : forall sch st text e,
  GFilter sch st text e -> parse_filter sch st text = LOk e [] /\ wt_filter sch e = true.
Proof.
  intros sch st text e HG. pose proof (filter_grammar_parses sch st text e HG) as Hp.
  split; [exact Hp|]. eapply C04_parser_accepts_only_well_typed; exact Hp.
Qed.

(* the same for value expressions: a field with index accesses that does not iterate *)
Theorem C04_grammar_value_is_accepted_partial : forall sch st text e,
  GValue sch text e -> parse_value sch st text = LOk e [] /\ exists t, wt_value sch e = Some t.
Proof.
  intros sch st text e HG. pose proof (value_grammar_parses sch st text e HG) as Hp.
  split; [exact Hp|]. eapply C04_parser_accepts_only_well_typed_values; exact Hp.
Qed.

(* text to execution: an accepted filter runs without panicking on every well-formed context *)
Theorem C04_parsed_filter_never_panics : forall sch st text e rest c,
  parse_filter sch st text = LOk e rest -> ctx_ok sch c = true -> fns_ok sch -> run_filter sch e c <> None.
Proof.
  intros sch st text e rest c H. apply accepted_never_panics.
  eapply C04_parser_accepts_only_well_typed; eauto.
Qed.

Theorem C04_parsed_value_result_typed : forall sch st text e rest c,
  parse_value sch st text = LOk e rest -> ctx_ok sch c = true -> fns_ok sch ->
  exists t r, wt_value sch e = Some t /\ run_value sch e c = Some r /\
              match r with VOk v => has_type v t = true | VAbsent t' => t' = t end.
Proof.
  intros sch st text e rest c H Hc Hf.
  destruct (C04_parser_accepts_only_well_typed_values _ _ _ _ _ H) as (t & Ht).
  destruct (value_exec_is_denote sch e c t Ht Hc Hf) as (r & Hr & _ & Hty). eauto.
Qed.

Check C04_accepted_never_panics_partial : forall sch e c,
  wt_filter sch e = true -> ctx_ok sch c = true -> fns_ok sch -> run_filter sch e c <> None.
