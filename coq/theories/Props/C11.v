(* C11 -- Regex and wildcard operators match with the documented semantics.
   This file contains only the property theorems, closed by [exact].

   Model: Sem/Matchers.v -- regex_scan_go / regex_scan_literal (a mirror of the
   loop of lex_regex_from_literal in engine/src/rhs_types/regex/mod.rs),
   regex_lex_pattern (impl LexWith for Regex; raw strings through
   Parse/Lex.v's lex_raw_string_as_str), wparse / star_count /
   has_double_star / wildcard_new / wildcard_compile / wildcard_lex
   (Wildcard::new, validate_wildcard, impl LexWith for Wildcard), wmatch and
   sym_eq (crate wildcard 0.3 with `?` disabled and
   case_insensitive(!STRICT): u8::eq_ignore_ascii_case), and, for `matches`,
   regex_parse (regex-syntax 0.8 restricted to a subset), regex_run (a
   derivative-based reference matcher, structurally recursive, no fuel).
   Specification: Spec/C11.v.

   What is proved: the scanner, the wildcard validation and the wildcard
   matcher equal their specifications for ALL inputs; the reference regex
   matcher decides the inductive matching relation for EVERY syntax tree and
   EVERY haystack.
   What is NOT proved (C11 is partial there): that regex-automata and the
   wildcard crate -- third-party code -- compute the same function as the
   reference matchers, and that regex_parse reads pattern text like
   regex-syntax.  Those two links are carried only by the correspondence runs
   (tools/props/c11.py), as for every third-party crate in this framework. *)
From Coq Require Import List NArith Arith Bool.
From WF Require Import Base.Bytes Lang.Ast Parse.Lex Sem.Matchers Spec.C11 Proofs.MatchersProofs.
Import ListNotations.
Open Scope N_scope.

(* ---- the quoted-literal scanner ---- *)

(* the scanner computes exactly the relation of the specification *)
Theorem C11_scanner_spec : forall (ic : bool) (s p rest : bytes),
  regex_scan_go s ic = Some (p, rest) <-> scan_spec ic s p rest.
Proof. exact scan_go_spec. Qed.

(* a literal without \<quote> outside a class, without a lone trailing
   backslash and ending outside a class reaches the engine unchanged *)
Theorem C11_scanner_identity_without_quotes : forall body rest : bytes,
  scan_clean false body -> regex_scan_literal (body ++ 34 :: rest) = LOk body rest.
Proof. exact scanner_identity. Qed.

Theorem C11_scanner_unescapes_quote_outside_class : forall s : bytes,
  regex_scan_go (92 :: 34 :: s) false = map_pat (cons 34) (regex_scan_go s false).
Proof. exact scanner_unescapes_quote_outside_class. Qed.

(* inside a class the pair \<quote> is kept, and a bare quote is a member, not the end *)
Theorem C11_scanner_keeps_escape_inside_class : forall (c : N) (s : bytes),
  regex_scan_go (92 :: c :: s) true = map_pat (fun p => 92 :: c :: p) (regex_scan_go s true) /\
  regex_scan_go (34 :: s) true = map_pat (cons 34) (regex_scan_go s true).
Proof. exact scanner_keeps_escape_inside_class. Qed.

Theorem C11_scanner_keeps_other_escapes : forall (c : N) (s : bytes),
  c <> 34 -> regex_scan_go (92 :: c :: s) false = map_pat (fun p => 92 :: c :: p) (regex_scan_go s false).
Proof. exact scanner_keeps_other_escapes. Qed.

(* r#..#<quote>body<quote>#..#: the body is delivered verbatim (ASCII bodies in
   which no quote is followed by n hashes; n <= 255) *)
Theorem C11_raw_verbatim : forall (n : nat) (body rest : bytes),
  (n <= 255)%nat ->
  Forall (fun b => b < 128) body ->
  raw_body_ok n body ->
  lex_raw_string_as_str (repeat 35 n ++ 34 :: body ++ 34 :: repeat 35 n ++ rest) = LOk (body, N.of_nat n) rest.
Proof. exact raw_string_verbatim. Qed.

Theorem C11_raw_regex_untouched : forall (input body rest : bytes) (n : N),
  lex_raw_string_as_str input = LOk (body, n) rest ->
  regex_lex_pattern (114 :: input) = LOk (body, Some n) rest.
Proof. exact regex_raw_verbatim. Qed.

(* ---- wildcards ---- *)

(* executable matcher <-> inductive specification, all token lists and values *)
Theorem C11_wildcard_match_spec : forall (strict : bool) (t : list wtok) (v : bytes),
  wmatch strict t v = true <-> wmatch_spec strict t v.
Proof. exact wmatch_is_spec. Qed.

(* the same at the level of pattern text *)
Theorem C11_wildcard_text_match_spec : forall (strict : bool) (p v : bytes),
  wildcard_match strict p v = Some true <-> exists t, wtokens p t /\ wmatch_spec strict t v.
Proof. exact wildcard_match_spec. Qed.

(* the whole value is matched: the literals consume one byte each; without a
   star the lengths are equal and the comparison is byte for byte *)
Theorem C11_wildcard_whole_value : forall (strict : bool) (t : list wtok) (v : bytes),
  wmatch strict t v = true ->
  (lits t <= length v)%nat /\ (stars t = 0%nat -> length v = lits t).
Proof. exact wildcard_whole_value. Qed.

Theorem C11_wildcard_literal_pattern : forall (strict : bool) (l v : bytes),
  wmatch strict (map WLit l) v = true <-> Forall2 (sym_spec strict) l v.
Proof. exact wildcard_literal_pattern. Qed.

(* strict = exact bytes; non-strict = ASCII case-insensitive, i.e. the strict
   matcher on the ASCII-lowercased pattern and value *)
Theorem C11_wildcard_case_rule :
  (forall a b, sym_eq true a b = true <-> a = b) /\
  (forall a b, sym_eq false a b = true <-> ascii_case_eq a b) /\
  (forall t v, wmatch true t v = true -> wmatch false t v = true) /\
  (forall t v, wmatch false t v = wmatch true (map fold_tok t) (map ascii_lower v)).
Proof. exact wildcard_case_rule. Qed.

(* acceptance at parse time = the specification *)
Theorem C11_wildcard_accept_spec : forall (limit : option N) (p : bytes) (t : list wtok),
  wildcard_compile limit p = Some t <-> wildcard_accept_spec limit p t.
Proof. exact wildcard_compile_spec. Qed.

Theorem C11_wildcard_reject_rules :
  (forall limit p t, wtokens p t -> double_star t -> wildcard_compile limit p = None) /\
  (forall limit p t c q, wtokens p t -> c <> 42 -> c <> 92 ->
     wildcard_compile limit (p ++ 92 :: c :: q) = None /\ wildcard_compile limit (p ++ [92]) = None) /\
  (forall l p t, wtokens p t -> l < N.of_nat (stars t) -> wildcard_compile (Some l) p = None) /\
  (forall limit p, wildcard_compile limit p = None <->
     ~ (exists t, wtokens p t /\ ~ double_star t /\ (forall l, limit = Some l -> N.of_nat (stars t) <= l))) /\
  (forall r, wparse (63 :: r) = option_map (cons (WLit 63)) (wparse r)) /\
  (forall strict x, sym_eq strict 63 x = true <-> x = 63).
Proof. exact wildcard_reject_rules. Qed.

(* the two operators agree: a wildcard is the anchored regex ^...$ with
   (any byte)* for a star *)
Theorem C11_wildcard_is_anchored_regex : forall (strict : bool) (t : list wtok) (v : bytes),
  wmatch strict t v = regex_run (wild_regex strict t) v.
Proof. exact wildcard_is_anchored_regex. Qed.

(* ---- regular expressions ---- *)

(* the reference matcher decides "some substring of the haystack matches", for
   every syntax tree of the subset and every haystack; no fuel, no bound *)
Theorem C11_regex_ref_matcher_sound_complete : forall (r : regex_ast) (h : bytes),
  regex_run r h = true <-> regex_search_spec r h.
Proof. exact regex_run_spec. Qed.

(* Partiality, stated formally: "every pattern text is modelled" is false.
   The model covers a subset of regex-syntax (see regex_parse); for the rest
   (counted repetition, flags, Unicode classes, word boundaries, nested
   classes, non-ASCII text, ...) it answers RxOutside and nothing is claimed. *)
Definition C11_regex_full : Prop := forall pat : bytes, regex_parse pat <> RxOutside.

Theorem C11_regex_full_refuted : exists pat : bytes, regex_parse pat = RxOutside.
Proof. exists [97; 123; 50; 125]. vm_compute. reflexivity. Qed.

(* ---- non-vacuity ---- *)

(* "[a-z<quote>\]]+\d\<quote>" : a quote and an escaped bracket inside a class, \<quote> outside *)
Example C11_scanner_nontrivial :
  regex_scan_literal [91; 97; 45; 122; 34; 92; 93; 93; 43; 92; 100; 92; 34; 34; 59]
  = LOk [91; 97; 45; 122; 34; 92; 93; 93; 43; 92; 100; 34] [59].
Proof. vm_compute. reflexivity. Qed.

Example C11_scan_clean_satisfiable : scan_clean false [91; 34; 92; 34; 93; 92; 92; 97].
Proof.
  apply CleanOpen. apply CleanQuoteInside. apply CleanEscape; [left; reflexivity|].
  apply CleanClose. apply CleanEscape; [right; discriminate|].
  apply CleanPlain; try discriminate. constructor.
Qed.

(* the raw string r# <q>a<q>b<q> # with one hash on each side *)
Example C11_raw_premise_satisfiable :
  raw_body_ok 1 [97; 34; 98] /\
  lex_raw_string_as_str [35; 34; 97; 34; 98; 34; 35; 59] = LOk ([97; 34; 98], 1) [59].
Proof.
  split; [|vm_compute; reflexivity].
  intros a b H. destruct a as [|x [|y [|z a]]]; cbn in H; try discriminate H.
  - injection H as _ Hb. subst b. cbn. apply Nat.lt_0_1.
  - destruct a; discriminate H.
Qed.

Example C11_wildcard_nontrivial :
  wildcard_compile (Some 2) [42; 97; 92; 42; 63; 42] = Some [WStar; WLit 97; WLit 42; WLit 63; WStar] /\
  wmatch false [WStar; WLit 97; WLit 42; WLit 63; WStar] [255; 65; 42; 63] = true /\
  wmatch true [WStar; WLit 97; WLit 42; WLit 63; WStar] [255; 65; 42; 63] = false /\
  wildcard_compile (Some 1) [42; 97; 92; 42; 63; 42] = None /\
  wildcard_compile None [97; 42; 42] = None /\
  wildcard_compile None [97; 92; 63] = None.
Proof. repeat split; vm_compute; reflexivity. Qed.

(* ^(a|[^b-c])+\x41$ on "axA" and on "abA" *)
Example C11_regex_nontrivial :
  exists r, regex_compile [94; 40; 97; 124; 91; 94; 98; 45; 99; 93; 41; 43; 92; 120; 52; 49; 36] = Some r /\
            regex_run r [97; 120; 65] = true /\ regex_run r [97; 98; 65] = false /\
            regex_search_spec r [97; 120; 65].
Proof.
  eexists. split; [vm_compute; reflexivity|]. split; [vm_compute; reflexivity|].
  split; [vm_compute; reflexivity|]. apply regex_run_spec. vm_compute. reflexivity.
Qed.

Check C11_scanner_identity_without_quotes : forall body rest : bytes,
  scan_clean false body -> regex_scan_literal (body ++ 34 :: rest) = LOk body rest.
Check C11_wildcard_match_spec : forall (strict : bool) (t : list wtok) (v : bytes),
  wmatch strict t v = true <-> wmatch_spec strict t v.
Check C11_wildcard_accept_spec : forall (limit : option N) (p : bytes) (t : list wtok),
  wildcard_compile limit p = Some t <-> wildcard_accept_spec limit p t.
Check C11_regex_ref_matcher_sound_complete : forall (r : regex_ast) (h : bytes),
  regex_run r h = true <-> regex_search_spec r h.

Print Assumptions C11_scanner_spec.
Print Assumptions C11_scanner_identity_without_quotes.
Print Assumptions C11_scanner_unescapes_quote_outside_class.
Print Assumptions C11_scanner_keeps_escape_inside_class.
Print Assumptions C11_raw_verbatim.
Print Assumptions C11_wildcard_match_spec.
Print Assumptions C11_wildcard_whole_value.
Print Assumptions C11_wildcard_case_rule.
Print Assumptions C11_wildcard_accept_spec.
Print Assumptions C11_wildcard_reject_rules.
Print Assumptions C11_wildcard_is_anchored_regex.
Print Assumptions C11_regex_ref_matcher_sound_complete.
