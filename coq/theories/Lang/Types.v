(* Types, values and schemes of the filter language (engine/src/types.rs,
   lhs_types/*.rs, scheme.rs).  Values carry their element type like the Rust
   Array / Map do; maps are association lists sorted by key (BTreeMap). *)
From Coq Require Import List ZArith NArith Bool.
From WF Require Import Base.Bytes Sem.RangeSet.
Import ListNotations.

Inductive ty := TBool | TBytes | TInt | TIp | TArray (t : ty) | TMap (t : ty).

Fixpoint ty_eqb (a b : ty) : bool :=
  match a, b with
  | TBool, TBool | TBytes, TBytes | TInt, TInt | TIp, TIp => true
  | TArray x, TArray y => ty_eqb x y
  | TMap x, TMap y => ty_eqb x y
  | _, _ => false
  end.

(* Type::next *)
Definition ty_next (t : ty) : option ty :=
  match t with TArray x | TMap x => Some x | _ => None end.

Inductive value :=
| VBool (b : bool)
| VBytes (b : bytes)
| VInt (z : Z)
| VIp (a : ip)
| VArray (elt : ty) (l : list value)
| VMap (elt : ty) (l : list (bytes * value)).

(* LhsValue::get_type *)
Definition type_of (v : value) : ty :=
  match v with
  | VBool _ => TBool
  | VBytes _ => TBytes
  | VInt _ => TInt
  | VIp _ => TIp
  | VArray t _ => TArray t
  | VMap t _ => TMap t
  end.

(* Full nested well-typedness: every element has the declared element type,
   map keys strictly ascending (the BTreeMap invariant). *)
Fixpoint keys_ascending (l : list (bytes * value)) : bool :=
  match l with
  | [] => true
  | (k1, _) :: rest =>
      match rest with
      | [] => true
      | (k2, _) :: _ =>
          match bytes_compare k1 k2 with Lt => keys_ascending rest | _ => false end
      end
  end.

Fixpoint value_wf (v : value) : bool :=
  match v with
  | VArray t l => forallb (fun x => ty_eqb (type_of x) t && value_wf x) l
  | VMap t l =>
      forallb (fun kv => ty_eqb (type_of (snd kv)) t && value_wf (snd kv)) l && keys_ascending l
  | _ => true
  end.

Definition has_type (v : value) (t : ty) : bool := ty_eqb (type_of v) t && value_wf v.

Definition ip_eqb (a b : ip) : bool :=
  match a, b with
  | V4 x, V4 y => Z.eqb x y
  | V6 x, V6 y => Z.eqb x y
  | _, _ => false
  end.

Fixpoint value_eqb (a b : value) : bool :=
  match a, b with
  | VBool x, VBool y => Bool.eqb x y
  | VBytes x, VBytes y => bytes_eqb x y
  | VInt x, VInt y => Z.eqb x y
  | VIp x, VIp y => ip_eqb x y
  | VArray t l, VArray t' l' =>
      ty_eqb t t' &&
      (fix go (l l' : list value) : bool :=
         match l, l' with
         | [], [] => true
         | x :: r, y :: r' => value_eqb x y && go r r'
         | _, _ => false
         end) l l'
  | VMap t l, VMap t' l' =>
      ty_eqb t t' &&
      (fix go (l l' : list (bytes * value)) : bool :=
         match l, l' with
         | [], [] => true
         | (k, x) :: r, (k', y) :: r' => bytes_eqb k k' && value_eqb x y && go r r'
         | _, _ => false
         end) l l'
  | _, _ => false
  end.

(* CompiledValueResult = Result<LhsValue, Type>: a value or a typed absence. *)
Inductive vres := VOk (v : value) | VAbsent (t : ty).

(* ---- schemes ---- *)

Inductive arg_kind := KLiteral | KField | KBoth.

(* Behaviour of a registered function.  The implementation receives the
   evaluated arguments in order (defaults already appended) and returns a value
   or nothing; it is user code, hence a parameter of the model. *)
Record fn_def := {
  fn_params : list (arg_kind * ty);
  fn_opt_params : list (arg_kind * value);
  fn_ret : ty;
  (* outer None: the implementation panics; inner None: it returns no value *)
  fn_impl : list vres -> option (option value);
  (* ConcatFunction-like definition: at least two arguments, all of the type of
     the first (an array type or Bytes), result of that type, no defaults *)
  fn_variadic_same : bool;
}.

Inductive list_kind := LkAlways | LkNever | LkSet.

Record field_def := { fd_name : bytes; fd_ty : ty; fd_optional : bool }.

Record scheme := {
  sc_fields : list field_def;
  sc_functions : list (bytes * fn_def);
  sc_lists : list (ty * list_kind);
  sc_nil_ne : bool;      (* nil_not_equal_behavior(): true by default *)
}.

Definition field_ty (s : scheme) (f : nat) : option ty :=
  option_map fd_ty (nth_error (sc_fields s) f).
Definition field_optional (s : scheme) (f : nat) : option bool :=
  option_map fd_optional (nth_error (sc_fields s) f).
Definition fn_of (s : scheme) (f : nat) : option fn_def :=
  option_map snd (nth_error (sc_functions s) f).

(* Scheme::get_list(ty): index of the list registered for the type *)
Fixpoint list_index_from (l : list (ty * list_kind)) (t : ty) (i : nat) : option nat :=
  match l with
  | [] => None
  | (t', _) :: r => if ty_eqb t t' then Some i else list_index_from r t (S i)
  end.
Definition list_index (s : scheme) (t : ty) : option nat := list_index_from (sc_lists s) t 0.
