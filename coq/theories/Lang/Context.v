(* Execution contexts as the evaluator sees them: one optional value per field
   and one matcher per registered list (engine/src/execution_context.rs,
   list_matcher.rs).  C08 models the mutation API separately. *)
From Coq Require Import List ZArith NArith Bool.
From WF Require Import Base.Bytes Sem.RangeSet Lang.Types.
Import ListNotations.

(* State of a list matcher.  [MSet] is the harness-defined matcher holding
   named sets of values; the two others are the built-in matchers. *)
Inductive matcher :=
| MAlways
| MNever
| MSet (sets : list (bytes * list value)).

Record ctx := {
  cx_vals : list (option value);
  cx_lists : list matcher;
}.

Fixpoint assoc_bytes {A} (k : bytes) (l : list (bytes * A)) : option A :=
  match l with
  | [] => None
  | (k', v) :: r => if bytes_eqb k k' then Some v else assoc_bytes k r
  end.

(* ListMatcher::match_value *)
Definition match_value (m : matcher) (name : bytes) (v : value) : bool :=
  match m with
  | MAlways => true
  | MNever => false
  | MSet sets =>
      match assoc_bytes name sets with
      | Some vs => existsb (value_eqb v) vs
      | None => false
      end
  end.
