(* The AST produced by the parser (engine/src/ast/*.rs).  The mutual block uses
   its own list types so that structural recursion and the generated mutual
   induction scheme work without nested fixpoints. *)
From Coq Require Import List ZArith NArith Bool.
From WF Require Import Base.Bytes Sem.RangeSet Lang.Types.
Import ListNotations.

Inductive index := IArr (n : N) | IKey (k : bytes) | IEach.

Definition index_is_each (i : index) : bool := match i with IEach => true | _ => false end.
Definition map_each_count (idx : list index) : nat := length (filter index_is_each idx).

Inductive ordop := OEq | ONe | OGe | OLe | OGt | OLt.
Inductive logop := LOr | LXor | LAnd.
Inductive quant := QAny | QAll.

(* RhsValue (the inhabited variants) *)
(* BytesFormat: how a byte-string literal was written (part of AST equality and of its JSON form) *)
Inductive bytes_format := FQuoted | FRaw (hashes : N) | FByte.

Inductive rhs := RInt (z : Z) | RBytes (b : bytes) (f : bytes_format) | RIp (a : ip).

Definition rhs_ty (r : rhs) : ty := match r with RInt _ => TInt | RBytes _ _ => TBytes | RIp _ => TIp end.
Definition rhs_value (r : rhs) : value :=
  match r with RInt z => VInt z | RBytes b _ => VBytes b | RIp a => VIp a end.

(* ComparisonOpExpr *)
Inductive cmpop :=
| CIsTrue
| COrd (op : ordop) (r : rhs)
| CBitAnd (z : Z)
| CContains (p : bytes) (f : bytes_format)
| CMatches (pat : bytes) (raw : option N)          (* Regex: pattern text, RegexFormat *)
| CWildcard (strict : bool) (pat : bytes) (f : bytes_format)
| COneOfInt (l : list range)
| COneOfIp (l : list ip_item)
| COneOfBytes (l : list (bytes * bytes_format))
| CInList (li : nat) (name : bytes).   (* List { index } of the scheme + ListName *)

Inductive lexpr :=
| ECombining (op : logop) (items : lexprs)
| EComparison (lhs : iexpr) (op : cmpop)
| EParen (e : lexpr)
| ENot (e : lexpr)
| EQuantIndex (q : quant) (a : iexpr)
| EQuantLogical (q : quant) (a : lexpr)
with lexprs := LNil | LCons (e : lexpr) (r : lexprs)
(* IndexExpr: identifier (field or call) + indexes *)
with iexpr :=
| IField (f : nat) (idx : list index)
| ICall (fn : nat) (a : args) (idx : list index)
with args := ANil | ACons (a : arg) (r : args)
with arg :=
| AIndex (e : iexpr)
| ALit (r : rhs)
| ALogical (e : lexpr).

Scheme lexpr_mind := Induction for lexpr Sort Prop
  with lexprs_mind := Induction for lexprs Sort Prop
  with iexpr_mind := Induction for iexpr Sort Prop
  with args_mind := Induction for args Sort Prop
  with arg_mind := Induction for arg Sort Prop.
Combined Scheme ast_mutind from lexpr_mind, lexprs_mind, iexpr_mind, args_mind, arg_mind.

Fixpoint lexprs_to_list (l : lexprs) : list lexpr :=
  match l with LNil => [] | LCons e r => e :: lexprs_to_list r end.
Fixpoint lexprs_of_list (l : list lexpr) : lexprs :=
  match l with [] => LNil | e :: r => LCons e (lexprs_of_list r) end.
Fixpoint args_to_list (l : args) : list arg :=
  match l with ANil => [] | ACons a r => a :: args_to_list r end.
Fixpoint args_of_list (l : list arg) : args :=
  match l with [] => ANil | a :: r => ACons a (args_of_list r) end.

Definition iexpr_idx (e : iexpr) : list index :=
  match e with IField _ idx => idx | ICall _ _ idx => idx end.

(* FunctionCallArgExpr::map_each_count *)
Definition arg_map_each_count (a : arg) : nat :=
  match a with AIndex e => map_each_count (iexpr_idx e) | _ => 0 end.
