(* Field-usage queries: FilterAst::uses / uses_list, FilterValueAst::uses /
   uses_list (engine/src/ast/mod.rs), the two visitors UsesVisitor and
   UsesListVisitor (engine/src/ast/visitor.rs) and the walk impls of
   LogicalExpr / QuantifierArgExpr (ast/logical_expr.rs), ComparisonExpr
   (ast/field_expr.rs), IndexExpr (ast/index_expr.rs), FunctionCallExpr /
   FunctionCallArgExpr (ast/function_expr.rs).

   A visitor is a record { field, uses : bool }; every visit_* / walk method
   takes `&mut self`.  The model threads the flag: each function receives the
   current value [u] of `self.uses` and returns its value afterwards.  A
   `visit_x` method whose body is `if !self.uses { node.walk(self) }` followed
   by the node's `walk` is one Gallina function (guard, then the walk inlined)
   because a structural fixpoint cannot call a sibling on the same node.
   No proofs here. *)
From Coq Require Import List Bool Arith.
From WF Require Import Base.Bytes Lang.Types Lang.Ast Parse.Parser.
Import ListNotations.

(* `if let ComparisonOpExpr::InList { .. } = comparison_expr.op` *)
Definition is_in_list (op : cmpop) : bool :=
  match op with CInList _ _ => true | _ => false end.

(* ---- UsesVisitor ----
     fn visit_expr(&mut self, node: &impl Expr)            { if !self.uses { node.walk(self) } }
     fn visit_value_expr(&mut self, node: &impl ValueExpr) { if !self.uses { node.walk(self) } }
     fn visit_field(&mut self, f: &Field) { if self.field == *f { self.uses = true; } }
   all other visit_* are the trait defaults:
     visit_logical_expr, visit_comparison_expr                      -> visit_expr
     visit_index_expr, visit_function_call_expr, visit_function_call_arg_expr -> visit_value_expr
     visit_function                                                 -> nothing *)
Fixpoint uv_lexpr (f : nat) (u : bool) (e : lexpr) {struct e} : bool :=
  (* visit_logical_expr -> visit_expr *)
  if u then u
  else
    (* LogicalExpr::walk *)
    match e with
    | EComparison lhs _ =>
        (* visitor.visit_comparison_expr(node) -> visit_expr(node): guard, then
           ComparisonExpr::walk: visitor.visit_index_expr(&self.lhs) *)
        if u then u else uv_iexpr f u lhs
    | EParen e' => uv_lexpr f u e'                 (* visitor.visit_logical_expr(&node.expr) *)
    | ENot e' => uv_lexpr f u e'                   (* visitor.visit_logical_expr(arg) *)
    (* Quantifier { arg, .. } => arg.walk(visitor): QuantifierArgExpr::walk, no guard of its own *)
    | EQuantIndex _ a => uv_iexpr f u a            (* visitor.visit_index_expr(index_expr) *)
    | EQuantLogical _ a => uv_lexpr f u a          (* visitor.visit_logical_expr(logical_expr) *)
    | ECombining _ items => uv_lexprs f u items    (* items.iter().for_each(|node| visitor.visit_logical_expr(node)) *)
    end
with uv_lexprs (f : nat) (u : bool) (l : lexprs) {struct l} : bool :=
  match l with
  | LNil => u
  | LCons e r => uv_lexprs f (uv_lexpr f u e) r
  end
with uv_iexpr (f : nat) (u : bool) (e : iexpr) {struct e} : bool :=
  (* visit_index_expr -> visit_value_expr *)
  if u then u
  else
    (* IndexExpr::walk: only the identifier, the indexes hold no identifiers *)
    match e with
    | IField g _ => if Nat.eqb f g then true else u      (* visitor.visit_field(field) *)
    | ICall _ a _ =>
        (* visitor.visit_function_call_expr(call) -> visit_value_expr(call): guard, then
           FunctionCallExpr::walk: every argument in order, then visit_function (nothing) *)
        if u then u else uv_args f u a
    end
with uv_args (f : nat) (u : bool) (a : args) {struct a} : bool :=
  match a with
  | ANil => u
  | ACons x r => uv_args f (uv_arg f u x) r
  end
with uv_arg (f : nat) (u : bool) (a : arg) {struct a} : bool :=
  (* visit_function_call_arg_expr -> visit_value_expr *)
  if u then u
  else
    (* FunctionCallArgExpr::walk *)
    match a with
    | AIndex e => uv_iexpr f u e          (* visitor.visit_index_expr(index_expr) *)
    | ALit _ => u                         (* Literal(_) => {} *)
    | ALogical e => uv_lexpr f u e        (* visitor.visit_logical_expr(logical_expr) *)
    end.

(* UsesVisitor::visit_comparison_expr (trait default) called directly on a comparison node *)
Definition uv_comparison (f : nat) (u : bool) (lhs : iexpr) : bool :=
  if u then u else uv_iexpr f u lhs.

(* ---- UsesListVisitor ----
     visit_expr / visit_value_expr: the same guards;
     fn visit_comparison_expr(&mut self, comparison_expr: &ComparisonExpr) {
         if let ComparisonOpExpr::InList { .. } = comparison_expr.op {
             let mut visitor = UsesVisitor::new(self.field);
             visitor.visit_comparison_expr(comparison_expr);
             if visitor.uses { self.uses = true; }
         }
         if !self.uses { comparison_expr.walk(self) }
     }
   visit_field is the trait default (nothing). *)
Fixpoint ulv_lexpr (f : nat) (u : bool) (e : lexpr) {struct e} : bool :=
  if u then u
  else
    match e with
    | EComparison lhs op =>
        let u1 := if is_in_list op then (if uv_comparison f false lhs then true else u) else u in
        if u1 then u1 else ulv_iexpr f u1 lhs
    | EParen e' => ulv_lexpr f u e'
    | ENot e' => ulv_lexpr f u e'
    | EQuantIndex _ a => ulv_iexpr f u a
    | EQuantLogical _ a => ulv_lexpr f u a
    | ECombining _ items => ulv_lexprs f u items
    end
with ulv_lexprs (f : nat) (u : bool) (l : lexprs) {struct l} : bool :=
  match l with
  | LNil => u
  | LCons e r => ulv_lexprs f (ulv_lexpr f u e) r
  end
with ulv_iexpr (f : nat) (u : bool) (e : iexpr) {struct e} : bool :=
  if u then u
  else
    match e with
    | IField _ _ => u                                   (* visit_field: nothing *)
    | ICall _ a _ => if u then u else ulv_args f u a
    end
with ulv_args (f : nat) (u : bool) (a : args) {struct a} : bool :=
  match a with
  | ANil => u
  | ACons x r => ulv_args f (ulv_arg f u x) r
  end
with ulv_arg (f : nat) (u : bool) (a : arg) {struct a} : bool :=
  if u then u
  else
    match a with
    | AIndex e => ulv_iexpr f u e
    | ALit _ => u
    | ALogical e => ulv_lexpr f u e
    end.

(* Scheme::get_field: `match self.get(name) { Some(Identifier::Field(f)) => Ok(f), _ => Err(UnknownFieldError) }`
   (a function name is not a field) *)
Definition get_field (sch : scheme) (name : bytes) : option nat :=
  match scheme_get sch name with
  | Some (IdField i) => Some i
  | _ => None
  end.

(* FilterAst::uses / uses_list: get_field(name).map(|field| { new visitor; self.walk(&mut visitor); visitor.uses() });
   FilterAst::walk = visitor.visit_logical_expr(&self.op).  None = Err(UnknownFieldError). *)
Definition filter_uses (sch : scheme) (e : lexpr) (name : bytes) : option bool :=
  option_map (fun f => uv_lexpr f false e) (get_field sch name).
Definition filter_uses_list (sch : scheme) (e : lexpr) (name : bytes) : option bool :=
  option_map (fun f => ulv_lexpr f false e) (get_field sch name).

(* FilterValueAst::uses / uses_list; FilterValueAst::walk = visitor.visit_index_expr(&self.op) *)
Definition value_uses (sch : scheme) (e : iexpr) (name : bytes) : option bool :=
  option_map (fun f => uv_iexpr f false e) (get_field sch name).
Definition value_uses_list (sch : scheme) (e : iexpr) (name : bytes) : option bool :=
  option_map (fun f => ulv_iexpr f false e) (get_field sch name).
