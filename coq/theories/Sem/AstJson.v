(* The JSON form of a filter AST and its C-API hash: a Gallina mirror of the
   serde `Serialize` impls of engine/src/ast/{logical_expr,field_expr,index_expr,
   function_expr,mod}.rs, engine/src/lex.rs (lex_enum! derives Serialize: a unit
   variant is its name), engine/src/scheme.rs (Field / Function serialize as their
   name, FieldIndex is adjacently tagged), engine/src/rhs_types/{bytes,int,ip,list,
   regex,wildcard}.rs, of serde_json's compact writer, and of
   ffi/src/lib.rs wirefilter_serialize_filter_to_json / wirefilter_get_filter_hash
   (FNV-1a, 64 bit, fed with the JSON text as serde_json writes it).

   Third-party behaviour modelled here and validated by the correspondence
   only: Display of Ipv4Addr / Ipv6Addr (std), Display of cidr::IpCidr, serde's
   RangeInclusive form {start,end}, serde_json's CompactFormatter, itoa.
   No proofs in this file. *)
From Coq Require Import List ZArith NArith Bool String.
From WF Require Import Base.Bytes Base.Sexp Sem.RangeSet Lang.Types Lang.Ast Sem.TypeCodec Sem.JsonText Parse.Lex.
Import ListNotations.
Open Scope N_scope.

Definition jkey (x : string) : bytes := bytes_of_string x.
Definition jstr (x : string) : json := JStr (bytes_of_string x).

(* ---- serde mechanisms ---- *)

(* #[serde(tag = "kind", content = "value")]: a unit variant has no content *)
Definition adj_tagged (kind : string) (content : option json) : json :=
  JObj ((jkey "kind", jstr kind) :: match content with Some c => [(jkey "value", c)] | None => [] end).

(* a struct is a map of its fields in declaration order; #[serde(flatten)]
   splices the fields of the inner value in place *)
Definition ser_struct (fields : list (bytes * json)) : json := JObj fields.

(* Vec<u8> / Box<[u8]>: a sequence of numbers *)
Definition json_u8_seq (b : bytes) : json := JArr (map (fun x => JNum (Z.of_N x)) b).

(* ---- operators (lex_enum!: #[derive(Serialize)] on unit variants) ---- *)
Definition logop_name (o : logop) : string :=
  match o with LOr => "Or" | LXor => "Xor" | LAnd => "And" end.
Definition ordop_name (o : ordop) : string :=
  match o with
  | OEq => "Equal" | ONe => "NotEqual" | OGe => "GreaterThanEqual"
  | OLe => "LessThanEqual" | OGt => "GreaterThan" | OLt => "LessThan"
  end.
Definition quant_name (q : quant) : string := match q with QAny => "Any" | QAll => "All" end.

(* ---- addresses: std::net Display ---- *)

(* Ipv4Addr: four decimal octets *)
Definition v4_octets (n : N) : list N :=
  [n / 16777216; (n / 65536) mod 256; (n / 256) mod 256; n mod 256].
Fixpoint join_sep (sep : N) (gs : list bytes) : bytes :=
  match gs with
  | [] => []
  | [g] => g
  | g :: r => g ++ sep :: join_sep sep r
  end.
Definition v4_text (a : Z) : bytes := join_sep 46 (map print_N (v4_octets (Z.to_N a))).

(* {:x} of a u16 *)
Definition hex_text (n : N) : bytes :=
  if n <? 16 then [hex_digit n]
  else if n <? 256 then [hex_digit (n / 16); hex_digit (n mod 16)]
  else if n <? 4096 then [hex_digit (n / 256); hex_digit ((n / 16) mod 16); hex_digit (n mod 16)]
  else [hex_digit (n / 4096); hex_digit ((n / 256) mod 16); hex_digit ((n / 16) mod 16); hex_digit (n mod 16)].

(* Ipv6Addr::segments *)
Definition v6_segments (a : Z) : list N :=
  let n := Z.to_N a in
  map (fun i => (n / 2 ^ (16 * i)) mod 65536) [7; 6; 5; 4; 3; 2; 1; 0].

(* the `zeroes` block of Ipv6Addr's Display: the first longest run of zero
   segments as (start, len); [cur] is the run being scanned *)
Fixpoint longest_zero_run (segs : list N) (i : nat) (cur best : nat * nat) : nat * nat :=
  match segs with
  | [] => best
  | x :: r =>
      if x =? 0 then
        let cur' := ((if Nat.eqb (snd cur) 0 then i else fst cur), S (snd cur)) in
        let best' := if Nat.ltb (snd best) (snd cur') then cur' else best in
        longest_zero_run r (S i) cur' best'
      else longest_zero_run r (S i) (O, O) best
  end.

(* fmt_subslice: segments in hex joined by ':' *)
Definition fmt_subslice (l : list N) : bytes := join_sep 58 (map hex_text l).

(* to_ipv4_mapped: ::ffff:a.b.c.d *)
Definition v4_mapped (segs : list N) : option N :=
  match segs with
  | [a; b; c; d; e; f; g; h] =>
      if (a =? 0) && (b =? 0) && (c =? 0) && (d =? 0) && (e =? 0) && (f =? 65535)
      then Some (g * 65536 + h) else None
  | _ => None
  end.

Definition v6_text (a : Z) : bytes :=
  let segs := v6_segments a in
  match v4_mapped segs with
  | Some v => bytes_of_string "::ffff:" ++ v4_text (Z.of_N v)
  | None =>
      let z := longest_zero_run segs 0 (O, O) (O, O) in
      if Nat.ltb 1 (snd z)
      then fmt_subslice (firstn (fst z) segs) ++ [58; 58] ++ fmt_subslice (skipn (fst z + snd z) segs)
      else fmt_subslice segs
  end.

Definition ip_text (a : ip) : bytes := match a with V4 x => v4_text x | V6 x => v6_text x end.

(* cidr: Display of Ipv4Cidr / Ipv6Cidr: a host block prints as the bare address *)
Definition cidr_text (addr : bytes) (len max : Z) : bytes :=
  if (len =? max)%Z then addr else addr ++ 47 :: print_Z len.

(* ---- literals ---- *)

(* BytesExpr::serialize: a string when the literal was written as a string and
   is valid UTF-8, otherwise the bytes as numbers *)
Definition json_bytes_expr (b : bytes) (f : bytes_format) : json :=
  match f with
  | FByte => json_u8_seq b
  | FQuoted | FRaw _ => if utf8_valid b then JStr b else json_u8_seq b
  end.

Definition json_ip (a : ip) : json := JStr (ip_text a).

(* RhsValue: #[serde(untagged)] *)
Definition json_rhs (r : rhs) : json :=
  match r with
  | RInt z => JNum z
  | RBytes b f => json_bytes_expr b f
  | RIp a => json_ip a
  end.

(* RangeInclusive<T>: struct { start, end } *)
Definition json_range_incl (a b : json) : json := ser_struct [(jkey "start", a); (jkey "end", b)].

(* IntRange: #[serde(transparent)] over RangeInclusive<i64> *)
Definition json_int_range (r : range) : json := json_range_incl (JNum (fst r)) (JNum (snd r)).

(* IpRange / ExplicitIpRange: untagged; IpCidr: its Display as a string *)
Definition json_ip_item (it : ip_item) : json :=
  match it with
  | IpRange4 a b => json_range_incl (JStr (v4_text a)) (JStr (v4_text b))
  | IpRange6 a b => json_range_incl (JStr (v6_text a)) (JStr (v6_text b))
  | IpCidr4 a n => JStr (cidr_text (v4_text a) n 32)
  | IpCidr6 a n => JStr (cidr_text (v6_text a) n 128)
  end.

(* FieldIndex: #[serde(tag = "kind", content = "value")] *)
Definition json_index (i : index) : json :=
  match i with
  | IArr n => adj_tagged "ArrayIndex" (Some (JNum (Z.of_N n)))
  | IKey k => adj_tagged "MapKey" (Some (JStr k))
  | IEach => adj_tagged "MapEach" None
  end.

(* serialize_op_rhs / serialize_is_true: the fields spliced into ComparisonExpr *)
Definition op_rhs (op : string) (rhs : json) : list (bytes * json) :=
  [(jkey "op", jstr op); (jkey "rhs", rhs)].

Definition json_cmpop_fields (op : cmpop) : list (bytes * json) :=
  match op with
  | CIsTrue => [(jkey "op", jstr "IsTrue")]
  | COrd o r => op_rhs (ordop_name o) (json_rhs r)
  | CBitAnd z => op_rhs "BitwiseAnd" (JNum z)
  | CContains p f => op_rhs "Contains" (json_bytes_expr p f)
  | CMatches pat _ => op_rhs "Matches" (JStr pat)
  | CWildcard strict p f => op_rhs (if strict then "Strict Wildcard" else "Wildcard") (json_bytes_expr p f)
  | COneOfInt l => op_rhs "OneOf" (JArr (map json_int_range l))
  | COneOfIp l => op_rhs "OneOf" (JArr (map json_ip_item l))
  | COneOfBytes l => op_rhs "OneOf" (JArr (map (fun p => json_bytes_expr (fst p) (snd p)) l))
  | CInList _ name => op_rhs "InList" (JStr name)
  end.

(* ---- identifiers: Field / Function serialize as their name ----
   A Rust Field / Function owns its scheme, so the index is always in range;
   the default below is unreachable for the ASTs of the parser. *)
Definition field_name (sch : scheme) (f : nat) : bytes :=
  match nth_error (sc_fields sch) f with Some d => fd_name d | None => [] end.
Definition fn_name (sch : scheme) (f : nat) : bytes :=
  match nth_error (sc_functions sch) f with Some d => fst d | None => [] end.

(* IndexExpr::serialize: the identifier alone, or a sequence identifier :: indexes *)
Definition with_indexes (ident : json) (idx : list index) : json :=
  match idx with
  | [] => ident
  | _ => JArr (ident :: map json_index idx)
  end.

(* ---- expressions ---- *)
Fixpoint json_of_lexpr (sch : scheme) (e : lexpr) {struct e} : json :=
  match e with
  (* LogicalExpr: #[serde(untagged)] *)
  | ECombining op items =>
      ser_struct [(jkey "op", jstr (logop_name op)); (jkey "items", JArr (json_of_lexprs sch items))]
  (* ComparisonExpr { lhs, #[serde(flatten)] op } *)
  | EComparison lhs op => ser_struct ((jkey "lhs", json_of_iexpr sch lhs) :: json_cmpop_fields op)
  (* ParenthesizedExpr: #[serde(transparent)] *)
  | EParen e' => json_of_lexpr sch e'
  | ENot e' => ser_struct [(jkey "op", jstr "Not"); (jkey "arg", json_of_lexpr sch e')]
  (* Quantifier { op, arg }, QuantifierArgExpr adjacently tagged *)
  | EQuantIndex q a =>
      ser_struct [(jkey "op", jstr (quant_name q));
                  (jkey "arg", adj_tagged "IndexExpr" (Some (json_of_iexpr sch a)))]
  | EQuantLogical q a =>
      ser_struct [(jkey "op", jstr (quant_name q));
                  (jkey "arg", adj_tagged "SimpleExpr" (Some (json_of_lexpr sch a)))]
  end
with json_of_lexprs (sch : scheme) (l : lexprs) {struct l} : list json :=
  match l with
  | LNil => []
  | LCons e r => json_of_lexpr sch e :: json_of_lexprs sch r
  end
with json_of_iexpr (sch : scheme) (e : iexpr) {struct e} : json :=
  match e with
  | IField f idx => with_indexes (JStr (field_name sch f)) idx
  (* FunctionCallExpr { #[serde(rename = "name")] function, args, #[serde(skip)] context } *)
  | ICall fn a idx =>
      with_indexes (ser_struct [(jkey "name", JStr (fn_name sch fn)); (jkey "args", JArr (json_of_args sch a))]) idx
  end
with json_of_args (sch : scheme) (a : args) {struct a} : list json :=
  match a with
  | ANil => []
  | ACons x r => json_of_arg sch x :: json_of_args sch r
  end
(* FunctionCallArgExpr: #[serde(tag = "kind", content = "value")] *)
with json_of_arg (sch : scheme) (a : arg) {struct a} : json :=
  match a with
  | AIndex e => adj_tagged "IndexExpr" (Some (json_of_iexpr sch e))
  | ALit r => adj_tagged "Literal" (Some (json_rhs r))
  | ALogical e => adj_tagged "SimpleExpr" (Some (json_of_lexpr sch e))
  end.

(* ---- serde_json::to_string: CompactFormatter ---- *)
Definition jprint_member (k v : bytes) : bytes := print_jstr k ++ 58 :: v.

Fixpoint jprint (j : json) : bytes :=
  match j with
  | JNull => lit_null
  | JBool true => lit_true
  | JBool false => lit_false
  | JNum z => print_Z z
  | JStr x => print_jstr x
  | JArr l => 91 :: join_sep 44 (map jprint l) ++ [93]
  | JObj l => 123 :: join_sep 44 (map (fun kv => match kv with (k, v) => jprint_member k (jprint v) end) l) ++ [125]
  end.

(* FilterAst: #[serde(transparent)] over the expression *)
Definition filter_json_text (sch : scheme) (e : lexpr) : bytes := jprint (json_of_lexpr sch e).

(* ---- fnv::FnvHasher ---- *)
Definition FNV_OFFSET : N := 14695981039346656037.   (* 0xcbf29ce484222325 *)
Definition FNV_PRIME : N := 1099511628211.           (* 0x100000001b3 *)
Definition U64_MASK : N := 18446744073709551615.     (* u64::MAX *)

(* Hasher::write: for byte in bytes { hash ^= byte; hash = hash.wrapping_mul(PRIME) }
   (wrapping_mul keeps the low 64 bits; the prime is the left factor because binary
   multiplication walks over the bits of its left operand and the prime has few) *)
Fixpoint fnv_write (h : N) (buf : bytes) : N :=
  match buf with
  | [] => h
  | b :: r => fnv_write (N.land (FNV_PRIME * N.lxor h b) U64_MASK) r
  end.

(* HasherWrite: serde_json::to_writer hands the text over in pieces *)
Fixpoint fnv_write_all (h : N) (chunks : list bytes) : N :=
  match chunks with
  | [] => h
  | c :: r => fnv_write_all (fnv_write h c) r
  end.

Definition fnv1a64 (buf : bytes) : N := fnv_write FNV_OFFSET buf.

(* wirefilter_get_filter_hash *)
Definition filter_hash (sch : scheme) (e : lexpr) : N := fnv1a64 (filter_json_text sch e).
