(* Reference matchers for the `wildcard` / `strict wildcard` and `matches`
   operators (third-party crates `wildcard` and `regex-automata`, modelled by
   their documented behaviour and validated by correspondence; see C11). *)
From Coq Require Import List ZArith NArith Bool.
From WF Require Import Base.Bytes.
Import ListNotations.
Open Scope N_scope.

(* ---- wildcard (crate wildcard 0.3, `?` disabled, escapes \* and \\ only) ---- *)
Inductive wtok := WLit (c : N) | WStar.

(* validate_syntax + tokenisation: None = syntax error (invalid or incomplete escape) *)
Fixpoint wparse (p : bytes) : option (list wtok) :=
  match p with
  | [] => Some []
  | 92 :: r =>
      match r with
      | 42 :: r' => option_map (cons (WLit 42)) (wparse r')
      | 92 :: r' => option_map (cons (WLit 92)) (wparse r')
      | _ => None
      end
  | 42 :: r => option_map (cons WStar) (wparse r)
  | c :: r => option_map (cons (WLit c)) (wparse r)
  end.

Definition star_count (t : list wtok) : nat :=
  length (filter (fun x => match x with WStar => true | _ => false end) t).

Fixpoint has_double_star (t : list wtok) : bool :=
  match t with
  | WStar :: ((WStar :: _) as r) => true
  | _ :: r => has_double_star r
  | [] => false
  end.

Definition ascii_lower (b : N) : N := if (65 <=? b) && (b <=? 90) then b + 32 else b.
Definition sym_eq (strict : bool) (a b : N) : bool :=
  if strict then a =? b else ascii_lower a =? ascii_lower b.

(* whole-value match; `*` matches any (possibly empty) byte sequence *)
Fixpoint wmatch (strict : bool) (t : list wtok) (v : bytes) {struct t} : bool :=
  match t with
  | [] => match v with [] => true | _ => false end
  | WLit c :: r => match v with x :: v' => sym_eq strict c x && wmatch strict r v' | [] => false end
  | WStar :: r =>
      (fix try (v : bytes) : bool :=
         wmatch strict r v || match v with [] => false | _ :: v' => try v' end) v
  end.

(* Wildcard::new + validate_wildcard: the star limit is a parser setting; None = unlimited *)
Definition wildcard_compile (limit : option N) (p : bytes) : option (list wtok) :=
  match wparse p with
  | None => None
  | Some t =>
      if match limit with Some l => N.ltb l (N.of_nat (star_count t)) | None => false end then None
      else if has_double_star t then None
      else Some t
  end.

Definition wildcard_match (strict : bool) (p v : bytes) : option bool :=
  option_map (fun t => wmatch strict t v) (wparse p).

(* ---- regex (placeholder until the subset matcher of C11 lands): no pattern is
   in the modelled subset ---- *)
Definition regex_ast := unit.
Definition regex_compile (pat : bytes) : option regex_ast := None.
Definition regex_run (r : regex_ast) (v : bytes) : bool := false.
