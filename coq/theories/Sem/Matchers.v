(* Reference matchers for the `wildcard` / `strict wildcard` and `matches`
   operators (third-party crates `wildcard` and `regex-automata`, modelled by
   their documented behaviour and validated by correspondence; see C11). *)
From Coq Require Import List ZArith NArith Bool.
From WF Require Import Base.Bytes Lang.Ast Parse.Lex.
Import ListNotations.
Open Scope N_scope.

(* ---- wildcard (crate wildcard 0.3, `?` disabled, escapes \* and \\ only) ---- *)
Inductive wtok := WLit (c : N) | WStar.

(* validate_syntax + tokenisation: None = syntax error (invalid or incomplete escape) *)
Fixpoint wparse (p : bytes) : option (list wtok) :=
  match p with
  | [] => Some []
  | 92 :: r =>
      match r with
      | 42 :: r' => option_map (cons (WLit 42)) (wparse r')
      | 92 :: r' => option_map (cons (WLit 92)) (wparse r')
      | _ => None
      end
  | 42 :: r => option_map (cons WStar) (wparse r)
  | c :: r => option_map (cons (WLit c)) (wparse r)
  end.

Definition star_count (t : list wtok) : nat :=
  length (filter (fun x => match x with WStar => true | _ => false end) t).

Fixpoint has_double_star (t : list wtok) : bool :=
  match t with
  | WStar :: ((WStar :: _) as r) => true
  | _ :: r => has_double_star r
  | [] => false
  end.

Definition ascii_lower (b : N) : N := if (65 <=? b) && (b <=? 90) then b + 32 else b.
Definition sym_eq (strict : bool) (a b : N) : bool :=
  if strict then a =? b else ascii_lower a =? ascii_lower b.

(* whole-value match; `*` matches any (possibly empty) byte sequence *)
Fixpoint wmatch (strict : bool) (t : list wtok) (v : bytes) {struct t} : bool :=
  match t with
  | [] => match v with [] => true | _ => false end
  | WLit c :: r => match v with x :: v' => sym_eq strict c x && wmatch strict r v' | [] => false end
  | WStar :: r =>
      (fix try (v : bytes) : bool :=
         wmatch strict r v || match v with [] => false | _ :: v' => try v' end) v
  end.

(* Wildcard::new + validate_wildcard: the star limit is a parser setting; None = unlimited *)
Definition wildcard_compile (limit : option N) (p : bytes) : option (list wtok) :=
  match wparse p with
  | None => None
  | Some t =>
      if match limit with Some l => N.ltb l (N.of_nat (star_count t)) | None => false end then None
      else if has_double_star t then None
      else Some t
  end.

Definition wildcard_match (strict : bool) (p v : bytes) : option bool :=
  option_map (fun t => wmatch strict t v) (wparse p).

(* Wildcard::new with the reason of a rejection (WildcardError variant):
   InvalidWildcard (syntax error of the wildcard crate) is found first, then
   TooManyStarMetacharacters, then DoubleStar (validate_wildcard). *)
Inductive wild_err := WeInvalid | WeTooManyStars | WeDoubleStar.

Definition wildcard_new (limit : option N) (p : bytes) : list wtok + wild_err :=
  match wparse p with
  | None => inr WeInvalid
  | Some t =>
      if match limit with Some l => N.ltb l (N.of_nat (star_count t)) | None => false end then inr WeTooManyStars
      else if has_double_star t then inr WeDoubleStar
      else inl t
  end.

(* impl LexWith for Wildcard<STRICT>: lex_quoted_or_raw_string, then Wildcard::new;
   the error span of a rejected pattern is the whole input *)
Definition wildcard_lex (limit : option N) (input : bytes) : lres (list wtok * (bytes * bytes_format)) :=
  lbind (lex_quoted_or_raw_string input) (fun pf rest =>
    match wildcard_new limit (fst pf) with
    | inl t => LOk (t, pf) rest
    | inr _ => LErr EParseWildcard input (length input)
    end).

(* ---- regex: the quoted-literal scanner (rhs_types/regex/mod.rs) ---- *)

(* lex_regex_from_literal, the loop.  [s] is the text after the opening quote,
   [in_class] the flag `in_char_class`.  Result: the text pushed to `regex_buf`
   and the input after the closing quote; None = the iterator ran dry
   (MissingEndingQuote).
     '\\' => if let Some(c) = iter.next() { if in_char_class || c != '<q>' { push('\\') } push(c) }
             (a backslash at the very end pushes nothing; the next iteration fails)
     '<q>' if !in_char_class => break
     '[' if !in_char_class => in_char_class = true; push
     ']' if in_char_class => in_char_class = false; push
     c => push
   The code iterates over chars; the model over bytes.  On valid UTF-8 (the
   input is a &str) both agree: the bytes of a multi-byte character are >= 128,
   so none of them is one of the four special characters, and a character
   pushed after a backslash is pushed byte by byte. *)
Fixpoint regex_scan_go (s : bytes) (in_class : bool) : option (bytes * bytes) :=
  match s with
  | [] => None
  | c :: s1 =>
      if c =? 92 then
        match s1 with
        | [] => None
        | c2 :: s2 =>
            match regex_scan_go s2 in_class with
            | Some (p, rest) => Some (if in_class || negb (c2 =? 34) then 92 :: c2 :: p else c2 :: p, rest)
            | None => None
            end
        end
      else if (c =? 34) && negb in_class then Some ([], s1)
      else
        let ic := if (c =? 91) && negb in_class then true
                  else if (c =? 93) && in_class then false else in_class in
        match regex_scan_go s1 ic with
        | Some (p, rest) => Some (c :: p, rest)
        | None => None
        end
  end.

(* [input]: the text after the opening quote; the error span is that text *)
Definition regex_scan_literal (input : bytes) : lres bytes :=
  match regex_scan_go input false with
  | Some (p, rest) => LOk p rest
  | None => LErr EMissingEndingQuote input (length input)
  end.

(* impl LexWith for Regex, up to the call of Regex::new: the pattern text that
   reaches the engine, its RegexFormat (None = Literal, Some n = Raw(n)) and the
   rest of the input.  A raw string is passed verbatim. *)
Definition regex_lex_pattern (input : bytes) : lres (bytes * option N) :=
  match input with
  | 34 :: r => lmap (fun p => (p, None)) (regex_scan_literal r)
  | 114 :: r => lmap (fun p => (fst p, Some (snd p))) (lex_raw_string_as_str r)
  | _ :: _ => LErr EExpectedName input (length input)
  | [] => LErr EEOF input 0%nat
  end.

(* ---- regex: abstract syntax of the modelled subset ----
   Byte-oriented (syntax::Config::new().unicode(false).utf8(false)), default
   flags (no multi-line, no dot-matches-newline, case sensitive).
     RSet neg rs : one byte that is (neg = false) / is not (neg = true) in one
                   of the inclusive ranges rs   (literal, `.`, [..], \d \w \s ..)
     REps        : the empty string           (empty group / alternative, `x?`)
     RStart/REnd : `^` / `$` = start / end of the haystack
     x? = RAlt x REps,  x+ = RSeq x (RStar x); laziness is irrelevant to is_match. *)
Inductive regex_ast :=
| RSet (neg : bool) (rs : list (N * N))
| REps
| RStart
| REnd
| RSeq (a b : regex_ast)
| RAlt (a b : regex_ast)
| RStar (a : regex_ast).

Definition RFail : regex_ast := RSet false [].
Definition RLit (c : N) : regex_ast := RSet false [(c, c)].
Definition RDot : regex_ast := RSet true [(10, 10)].      (* any byte except \n *)
Definition ROpt (x : regex_ast) : regex_ast := RAlt x REps.
Definition RPlus (x : regex_ast) : regex_ast := RSeq x (RStar x).

Definition in_range (c : N) (p : N * N) : bool := (fst p <=? c) && (c <=? snd p).
Definition set_mem (neg : bool) (rs : list (N * N)) (c : N) : bool :=
  xorb neg (existsb (in_range c) rs).

(* ---- regex: reference matcher (derivatives with an at-start / at-end context) ---- *)

(* does [r] match the empty string where [s] = <q>nothing precedes<q> and
   [e] = <q>nothing follows<q> in the haystack *)
Fixpoint rx_nullable (s e : bool) (r : regex_ast) : bool :=
  match r with
  | RSet _ _ => false
  | REps => true
  | RStart => s
  | REnd => e
  | RSeq a b => rx_nullable s e a && rx_nullable s e b
  | RAlt a b => rx_nullable s e a || rx_nullable s e b
  | RStar _ => true
  end.

Definition rx_is_fail (r : regex_ast) : bool :=
  match r with RSet false [] => true | _ => false end.

Fixpoint rx_eqb (a b : regex_ast) : bool :=
  match a, b with
  | RSet n1 r1, RSet n2 r2 =>
      Bool.eqb n1 n2 && list_eqb (fun p q => (fst p =? fst q) && (snd p =? snd q)) r1 r2
  | REps, REps | RStart, RStart | REnd, REnd => true
  | RSeq a1 b1, RSeq a2 b2 | RAlt a1 b1, RAlt a2 b2 => rx_eqb a1 a2 && rx_eqb b1 b2
  | RStar a1, RStar a2 => rx_eqb a1 a2
  | _, _ => false
  end.

(* smart constructors: they only prune (keep the derivatives small) *)
Definition rx_seq (a b : regex_ast) : regex_ast :=
  if rx_is_fail a then RFail
  else match a with REps => b | _ => RSeq a b end.
Definition rx_alt (a b : regex_ast) : regex_ast :=
  if rx_is_fail a then b else if rx_is_fail b then a
  else if rx_eqb a b then a else RAlt a b.

(* the residual of [r] after the byte [c]; [s] = <q>nothing precedes c<q> *)
Fixpoint rx_deriv (s : bool) (c : N) (r : regex_ast) : regex_ast :=
  match r with
  | RSet neg rs => if set_mem neg rs c then REps else RFail
  | REps | RStart | REnd => RFail
  | RSeq a b =>
      rx_alt (rx_seq (rx_deriv s c a) b)
             (if rx_nullable s false a then rx_deriv s c b else RFail)
  | RAlt a b => rx_alt (rx_deriv s c a) (rx_deriv s c b)
  | RStar a => rx_seq (rx_deriv s c a) (RStar a)
  end.

(* some prefix of [rest] matches [r]; [s] = <q>rest is the whole haystack<q> *)
Fixpoint rx_prefix (s : bool) (r : regex_ast) (rest : bytes) : bool :=
  rx_nullable s (match rest with [] => true | _ => false end) r
  || match rest with
     | [] => false
     | c :: rest' => rx_prefix false (rx_deriv s c r) rest'
     end.

(* some substring of the haystack matches: try every start position *)
Fixpoint rx_search (s : bool) (r : regex_ast) (rest : bytes) : bool :=
  rx_prefix s r rest
  || match rest with
     | [] => false
     | _ :: rest' => rx_search false r rest'
     end.

(* meta::Regex::is_match: unanchored search over the raw bytes *)
Definition regex_run (r : regex_ast) (v : bytes) : bool := rx_search true r v.

(* ---- regex: parser of the subset (a model of regex-syntax 0.8's ast::parse
   followed by hir::translate for the constructs below; everything else is
   <q>outside the subset<q>).

   Inside: ASCII pattern text; literals (every character that is not one of
   \ . + * ? ( ) | [ { ^ $ ; note that ] and } are literals outside a class);
   `.`; `^` `$`; groups `( )` and `(?: )`; alternation; `? * +` with an
   optional lazy `?`; bracket classes `[..]`, `[^..]` with single members,
   ranges a-z, a leading `]`, leading `-`s, a `-` before the closing bracket,
   escaped members; escapes \xHH, \a \f \t \n \r \v, \d \s \w \D \S \W, a
   backslash before any ASCII punctuation except < >.
   Invalid (regex-syntax reports an error): unbalanced ( ) [, a repetition
   operator with nothing to repeat, a backslash at the end, \0..\9, a
   backslash before an unassigned letter, \x without two hex digits, a
   reversed range, a class escape as a range endpoint.
   Outside: non-ASCII text, `{`, `(?` other than `(?:`, \A \z \b \B \< \> \p \P
   \u \U \x{..}, nested classes / [:name:] / && -- ~~ inside a class, patterns
   longer than 200 bytes (nest limit). *)
Inductive rx_outcome := RxOk (r : regex_ast) | RxInvalid | RxOutside.

Inductive rx_esc := EscLit (b : N) (n : nat) | EscSet (rs : list (N * N)) (n : nat) | EscInvalid | EscOutside.

Definition is_alpha (c : N) : bool := ((65 <=? c) && (c <=? 90)) || ((97 <=? c) && (c <=? 122)).

Definition perl_d : list (N * N) := [(48, 57)].
Definition perl_s : list (N * N) := [(9, 13); (32, 32)].
Definition perl_w : list (N * N) := [(48, 57); (65, 90); (95, 95); (97, 122)].
Definition perl_D : list (N * N) := [(0, 47); (58, 255)].
Definition perl_S : list (N * N) := [(0, 8); (14, 31); (33, 255)].
Definition perl_W : list (N * N) := [(0, 47); (58, 64); (91, 94); (96, 96); (123, 255)].

(* parse_escape: [s] is the text after the backslash; n = characters consumed after it *)
Definition rx_escape (s : bytes) : rx_esc :=
  match s with
  | [] => EscInvalid
  | c :: r =>
      if 128 <=? c then EscOutside
      else if is_digit c then EscInvalid
      else if c =? 120 then                                   (* x *)
        match r with
        | [] => EscInvalid
        | h1 :: r1 =>
            if h1 =? 123 then EscOutside
            else if negb (is_hexdigit h1) then EscInvalid
            else match r1 with
                 | [] => EscInvalid
                 | h2 :: _ => if is_hexdigit h2 then EscLit (16 * hexval h1 + hexval h2) 3 else EscInvalid
                 end
        end
      else if (c =? 117) || (c =? 85) || (c =? 112) || (c =? 80) then EscOutside     (* u U p P *)
      else if c =? 100 then EscSet perl_d 1
      else if c =? 115 then EscSet perl_s 1
      else if c =? 119 then EscSet perl_w 1
      else if c =? 68 then EscSet perl_D 1
      else if c =? 83 then EscSet perl_S 1
      else if c =? 87 then EscSet perl_W 1
      else if (c =? 60) || (c =? 62) then EscOutside                                  (* < > *)
      else if negb (is_alpha c) then EscLit c 1              (* meta or escapeable punctuation *)
      else if c =? 97 then EscLit 7 1
      else if c =? 102 then EscLit 12 1
      else if c =? 116 then EscLit 9 1
      else if c =? 110 then EscLit 10 1
      else if c =? 114 then EscLit 13 1
      else if c =? 118 then EscLit 11 1
      else if (c =? 65) || (c =? 122) || (c =? 98) || (c =? 66) then EscOutside       (* A z b B *)
      else EscInvalid
  end.

(* parse_set_class_item: [c] is the current character, [r] what follows;
   n = characters consumed including c *)
Definition class_prim (c : N) (r : bytes) : rx_esc :=
  if c =? 92 then
    match rx_escape r with
    | EscLit b n => EscLit b (S n)
    | EscSet rs n => EscSet rs (S n)
    | e => e
    end
  else EscLit c 1.

Inductive cls_res := ClsOk (rs : list (N * N)) (consumed : nat) | ClsInvalid | ClsOutside.

Definition next_is (c : N) (r : bytes) : bool := match r with x :: _ => x =? c | [] => false end.

(* the loop of parse_set_class after the opening: [skip] characters still
   belong to the previous item, [n] counts the characters consumed so far *)
Fixpoint rx_class_items (s : bytes) (skip n : nat) (acc : list (N * N)) : cls_res :=
  match s with
  | [] => ClsInvalid                                          (* ClassUnclosed *)
  | c :: r =>
      match skip with
      | S k => rx_class_items r k (S n) acc
      | O =>
          if c =? 93 then ClsOk acc (S n)
          else if c =? 91 then ClsOutside
          else if ((c =? 38) && next_is 38 r) || ((c =? 45) && next_is 45 r) || ((c =? 126) && next_is 126 r)
          then ClsOutside
          else
            match class_prim c r with
            | EscInvalid => ClsInvalid
            | EscOutside => ClsOutside
            | EscLit b1 l1 =>
                match skipn (l1 - 1) r with
                | [] => ClsInvalid
                | 45 :: after =>
                    match after with
                    | [] => ClsInvalid
                    | c2 :: r2 =>
                        if (c2 =? 93) || (c2 =? 45) then rx_class_items r (l1 - 1) (S n) ((b1, b1) :: acc)
                        else
                          match class_prim c2 r2 with
                          | EscLit b2 l2 =>
                              if b1 <=? b2 then rx_class_items r (l1 + l2) (S n) ((b1, b2) :: acc)
                              else ClsInvalid                 (* ClassRangeInvalid *)
                          | EscSet _ _ => ClsInvalid          (* ClassRangeLiteral *)
                          | EscInvalid => ClsInvalid
                          | EscOutside => ClsOutside
                          end
                    end
                | _ => rx_class_items r (l1 - 1) (S n) ((b1, b1) :: acc)
                end
            | EscSet rs l1 =>
                match skipn (l1 - 1) r with
                | [] => ClsInvalid
                | 45 :: after =>
                    match after with
                    | [] => ClsInvalid
                    | c2 :: _ =>
                        if (c2 =? 93) || (c2 =? 45) then rx_class_items r (l1 - 1) (S n) (rs ++ acc)
                        else ClsInvalid                       (* ClassRangeLiteral *)
                    end
                | _ => rx_class_items r (l1 - 1) (S n) (rs ++ acc)
                end
            end
      end
  end.

Fixpoint count_leading (c : N) (s : bytes) : nat :=
  match s with x :: r => if x =? c then S (count_leading c r) else O | [] => O end.

(* parse_set_class_open + parse_set_class: [s] is the text after `[`.
   Result: negation, ranges, characters consumed after `[` (closing bracket included). *)
Definition rx_class (s : bytes) : bool * cls_res :=
  let neg := next_is 94 s in
  let s1 := if neg then skipn 1 s else s in
  let n1 := if neg then 1%nat else 0%nat in
  let k := count_leading 45 s1 in                             (* any number of leading `-` *)
  let s2 := skipn k s1 in
  let acc := match k with O => [] | _ => [(45, 45)] end in
  match k, s2 with
  | O, 93 :: s3 => (neg, rx_class_items s3 0 (n1 + 1) [(93, 93)])   (* a first `]` is a literal *)
  | _, _ => (neg, rx_class_items s2 0 (n1 + k) acc)
  end.

(* one open group (or the top level): finished alternatives and the items of
   the current concatenation, both reversed *)
Record rx_frame := { fr_alts : list regex_ast; fr_items : list regex_ast }.
Definition rx_frame0 : rx_frame := {| fr_alts := []; fr_items := [] |}.

Fixpoint rx_concat (l : list regex_ast) : regex_ast :=
  match l with
  | [] => REps
  | [x] => x
  | x :: r => RSeq x (rx_concat r)
  end.
Fixpoint rx_alts (l : list regex_ast) : regex_ast :=
  match l with
  | [] => REps
  | [x] => x
  | x :: r => RAlt x (rx_alts r)
  end.
Definition rx_close (f : rx_frame) : regex_ast :=
  rx_alts (rev (rx_concat (rev (fr_items f)) :: fr_alts f)).
Definition rx_push (x : regex_ast) (f : rx_frame) : rx_frame :=
  {| fr_alts := fr_alts f; fr_items := x :: fr_items f |}.

Inductive rx_step_res := StOk (cur : rx_frame) (stack : list rx_frame) (skip : nat) | StInvalid | StOutside.

(* one iteration of the loop of parse_with_comments at character [c] *)
Definition rx_step (c : N) (rest : bytes) (cur : rx_frame) (stack : list rx_frame) : rx_step_res :=
  if c =? 40 then                                             (* ( *)
    match rest with
    | 63 :: 58 :: _ => StOk rx_frame0 (cur :: stack) 2        (* (?: *)
    | 63 :: _ => StOutside
    | _ => StOk rx_frame0 (cur :: stack) 0
    end
  else if c =? 41 then                                        (* ) *)
    match stack with
    | [] => StInvalid                                         (* GroupUnopened *)
    | parent :: stack' => StOk (rx_push (rx_close cur) parent) stack' 0
    end
  else if c =? 124 then                                       (* | *)
    StOk {| fr_alts := rx_concat (rev (fr_items cur)) :: fr_alts cur; fr_items := [] |} stack 0
  else if (c =? 42) || (c =? 43) || (c =? 63) then            (* * + ? *)
    match fr_items cur with
    | [] => StInvalid                                         (* RepetitionMissing *)
    | x :: items =>
        let q := if c =? 42 then RStar x else if c =? 43 then RPlus x else ROpt x in
        StOk {| fr_alts := fr_alts cur; fr_items := q :: items |} stack
             (if next_is 63 rest then 1%nat else 0%nat)       (* lazy marker *)
    end
  else if c =? 123 then StOutside                             (* { *)
  else if c =? 91 then                                        (* [ *)
    match rx_class rest with
    | (neg, ClsOk rs n) => StOk (rx_push (RSet neg rs) cur) stack n
    | (_, ClsOutside) => StOutside
    | _ => StInvalid
    end
  else if c =? 46 then StOk (rx_push RDot cur) stack 0
  else if c =? 94 then StOk (rx_push RStart cur) stack 0
  else if c =? 36 then StOk (rx_push REnd cur) stack 0
  else if c =? 92 then
    match rx_escape rest with
    | EscLit b n => StOk (rx_push (RLit b) cur) stack n
    | EscSet rs n => StOk (rx_push (RSet false rs) cur) stack n
    | EscInvalid => StInvalid
    | EscOutside => StOutside
    end
  else StOk (rx_push (RLit c) cur) stack 0.

Fixpoint rx_loop (p : bytes) (skip : nat) (cur : rx_frame) (stack : list rx_frame) : rx_outcome :=
  match p with
  | [] => match stack with [] => RxOk (rx_close cur) | _ => RxInvalid end   (* GroupUnclosed *)
  | c :: rest =>
      match skip with
      | S k => rx_loop rest k cur stack
      | O =>
          match rx_step c rest cur stack with
          | StOk cur' stack' skip' => rx_loop rest skip' cur' stack'
          | StInvalid => RxInvalid
          | StOutside => RxOutside
          end
      end
  end.

Definition regex_parse (pat : bytes) : rx_outcome :=
  if existsb (fun b => 128 <=? b) pat || Nat.ltb 200 (length pat) then RxOutside
  else rx_loop pat 0 rx_frame0 [].

Definition regex_compile (pat : bytes) : option regex_ast :=
  match regex_parse pat with RxOk r => Some r | _ => None end.

(* ---- regex: the size limit (meta::Config nfa_size_limit = dfa_size_limit =
   ParserSettings::regex_compiled_size_limit) ----
   The compiled size is a property of regex-automata's NFA compiler, which is
   not modelled.  What the model states (and the correspondence validates):
   patterns of the subset (at most 200 bytes, no counted repetition) fit in
   2^20 bytes; with a limit of at most 16 bytes every pattern for which an NFA
   is built is rejected (CompiledTooBig).  meta::strategy::new builds no NFA
   when the pattern is equivalent to a finite set of literals without
   look-around and capture groups (Pre::from_prefixes); a pattern with an
   anchor (and no dead part that could make the anchor disappear) certainly
   gets an NFA; for the others either answer is possible. *)
Inductive size_verdict := SzFits | SzTooBig | SzEither | SzUnmodelled.

Fixpoint rx_has_anchor (r : regex_ast) : bool :=
  match r with
  | RStart | REnd => true
  | RSet _ _ | REps => false
  | RSeq a b | RAlt a b => rx_has_anchor a || rx_has_anchor b
  | RStar a => rx_has_anchor a
  end.

Definition all_bytes : bytes := map N.of_nat (seq 0 256).

Fixpoint rx_has_empty_set (r : regex_ast) : bool :=
  match r with
  | RSet neg rs => negb (existsb (set_mem neg rs) all_bytes)
  | REps | RStart | REnd => false
  | RSeq a b | RAlt a b => rx_has_empty_set a || rx_has_empty_set b
  | RStar a => rx_has_empty_set a
  end.

Definition regex_size_verdict (limit : option N) (r : regex_ast) : size_verdict :=
  match limit with
  | None => SzFits                                            (* default: 10 MiB *)
  | Some l =>
      if 1048576 <=? l then SzFits
      else if l <=? 16 then (if rx_has_anchor r && negb (rx_has_empty_set r) then SzTooBig else SzEither)
      else SzUnmodelled
  end.
