(* Model of the three encodings of a type and of the JSON form of a scheme
   (engine/src/types.rs:901-1038, ffi/src/lib.rs:38-131 and 248-265,
   engine/src/scheme.rs:645-671 and 785-851).  One definition per Rust
   function; the Rust source is quoted in the comments.  No proofs here.

   The recursive form is [ty] (Lang/Types.v).  In Rust `Type::Array(c)` /
   `Type::Map(c)` hold the *flattened* element type `c : CompoundType`, so a
   Rust `Type` exists only when its element type could be flattened
   ([rust_type_exists]); a [ty] is the unfolding of such a value. *)
From Coq Require Import List NArith ZArith Bool String.
From WF Require Import Base.Bytes Lang.Types.
Import ListNotations.
Open Scope N_scope.

(* enum PrimitiveType { Bool, Bytes, Int, Ip } *)
Inductive prim := PBool | PBytes | PInt | PIp.
(* enum Layer { Array, Map } *)
Inductive layer := LArray | LMap.

(* pub struct CompoundType { layers: u32, len: u8, primitive: PrimitiveType } *)
Record ctype := mk_ctype { ct_layers : N; ct_len : N; ct_prim : prim }.

Definition U32 : N := 4294967296.

(* let layer = match layer { Layer::Array => 0, Layer::Map => 1 }; *)
Definition layer_bit (l : layer) : N := match l with LArray => 0 | LMap => 1 end.

Definition prim_ty (p : prim) : ty :=
  match p with PBool => TBool | PBytes => TBytes | PInt => TInt | PIp => TIp end.
Definition wrap_layer (l : layer) (t : ty) : ty :=
  match l with LArray => TArray t | LMap => TMap t end.

(* const fn new(ty: PrimitiveType) -> Self { Self { layers: 0, len: 0, primitive: ty } } *)
Definition ct_new (p : prim) : ctype := mk_ctype 0 0 p.

(* const fn push(mut self, layer: Layer) -> Option<Self> {
       if self.len >= 32 { None } else {
           self.layers = (self.layers << 1) | layer;      // u32: the shift drops bit 31
           self.len += 1;
           Some(self) } } *)
Definition ct_push (c : ctype) (l : layer) : option ctype :=
  if 32 <=? ct_len c then None
  else Some (mk_ctype (N.lor (N.shiftl (ct_layers c) 1 mod U32) (layer_bit l))
                      (ct_len c + 1) (ct_prim c)).

(* const fn pop(mut self) -> (Self, Option<Layer>) {
       if self.len > 0 {
           let is_array = (self.layers & 1) == 0;
           self.layers >>= 1;
           self.len -= 1;
           if is_array { (self, Some(Layer::Array)) } else { (self, Some(Layer::Map)) }
       } else { (self, None) } } *)
Definition ct_pop (c : ctype) : ctype * option layer :=
  if 0 <? ct_len c then
    let is_array := N.land (ct_layers c) 1 =? 0 in
    (mk_ctype (N.shiftr (ct_layers c) 1) (ct_len c - 1) (ct_prim c),
     Some (if is_array then LArray else LMap))
  else (c, None).

(* pub const fn from_type(ty: Type) -> Self {
       match match ty {
           Type::Bool => Some(Self::new(PrimitiveType::Bool)), ...
           Type::Array(ty) => ty.push(Layer::Array),
           Type::Map(ty) => ty.push(Layer::Map),
       } { Some(ty) => ty, None => panic!("Could not convert type to compound type") } }
   [None] is the panic.  The element of `Type::Array(ty)` is itself the result
   of [from_type] on the element type (`Type::array(t)` = `Array(t.into())`). *)
Fixpoint from_type (t : ty) : option ctype :=
  match t with
  | TBool => Some (ct_new PBool)
  | TBytes => Some (ct_new PBytes)
  | TInt => Some (ct_new PInt)
  | TIp => Some (ct_new PIp)
  | TArray x => match from_type x with Some c => ct_push c LArray | None => None end
  | TMap x => match from_type x with Some c => ct_push c LMap | None => None end
  end.

(* A Rust `Type` value with this unfolding can be constructed at all. *)
Definition rust_type_exists (t : ty) : bool :=
  match t with
  | TArray x | TMap x => match from_type x with Some _ => true | None => false end
  | _ => true
  end.

(* pub const fn into_type(self) -> Type {
       let (ty, layer) = self.pop();
       match layer {
           Some(Layer::Array) => Type::Array(ty),
           Some(Layer::Map) => Type::Map(ty),
           None => match ty.primitive { PrimitiveType::Bool => Type::Bool, ... } } }
   One Rust call is one step; the recursion is the unfolding of the element.
   [len] is a u8, so 256 steps always reach [len = 0]. *)
Fixpoint into_type_fuel (fuel : nat) (c : ctype) : ty :=
  match fuel with
  | O => prim_ty (ct_prim c)
  | S f =>
      match ct_pop c with
      | (c', Some l) => wrap_layer l (into_type_fuel f c')
      | (c', None) => prim_ty (ct_prim c')
      end
  end.
Definition into_type (c : ctype) : ty := into_type_fuel 256 c.

(* ---- the C API (ffi/src/lib.rs) ---- *)

(* #[repr(C)] pub struct CType { pub layers: u32, pub len: u8, pub primitive: u8 } *)
Record cty := mk_cty { cy_layers : N; cy_len : N; cy_prim : N }.

(* #[repr(u8)] pub enum CPrimitiveType { Ip = 1, Bytes = 2, Int = 3, Bool = 4 } *)
Definition prim_code (p : prim) : N :=
  match p with PIp => 1 | PBytes => 2 | PInt => 3 | PBool => 4 end.
(* CPrimitiveType::try_from(cty.primitive) *)
Definition prim_of_code (n : N) : option prim :=
  if n =? 1 then Some PIp else if n =? 2 then Some PBytes
  else if n =? 3 then Some PInt else if n =? 4 then Some PBool else None.

(* const fn push(mut self, layer: Layer) -> CType {
       self.layers = (self.layers << 1) | layer;
       self.len += 1;          // no bound: u8 overflow panics in a debug build
       self }
   [None]: the overflow panic at len = 255. *)
Definition cy_push (c : cty) (l : layer) : option cty :=
  if cy_len c =? 255 then None
  else Some (mk_cty (N.lor (N.shiftl (cy_layers c) 1 mod U32) (layer_bit l))
                    (cy_len c + 1) (cy_prim c)).

(* const fn pop(mut self) -> (Self, Option<Layer>): same code as CompoundType::pop *)
Definition cy_pop (c : cty) : cty * option layer :=
  if 0 <? cy_len c then
    let is_array := N.land (cy_layers c) 1 =? 0 in
    (mk_cty (N.shiftr (cy_layers c) 1) (cy_len c - 1) (cy_prim c),
     Some (if is_array then LArray else LMap))
  else (c, None).

(* wirefilter_create_primitive_type / _array_type / _map_type *)
Definition cy_primitive (p : prim) : cty := mk_cty 0 0 (prim_code p).
Definition cy_create_array (c : cty) : option cty := cy_push c LArray.
Definition cy_create_map (c : cty) : option cty := cy_push c LMap.

(* impl From<CType> for Type {
     fn from(cty: CType) -> Self {
       let (ty, layer) = cty.pop();
       match layer {
         Some(Layer::Array) => Type::Array(Type::from(ty).into()),
         Some(Layer::Map) => Type::Map(Type::from(ty).into()),
         None => match CPrimitiveType::try_from(cty.primitive).unwrap() { ... } } } }
   [None] is a panic: `.into()` is CompoundType::from_type, `unwrap` fails on
   a code outside 1..4.  Any [len] above 33 ends in one of the two, so running
   out of the 256 steps (impossible for a u8 [len]) is reported the same way. *)
Fixpoint type_of_cty_fuel (fuel : nat) (c : cty) : option ty :=
  match fuel with
  | O => None
  | S f =>
      match cy_pop c with
      | (c', Some l) =>
          match type_of_cty_fuel f c' with
          | Some t =>
              match from_type t with
              | Some k => Some (wrap_layer l (into_type k))
              | None => None
              end
          | None => None
          end
      | (_, None) => option_map prim_ty (prim_of_code (cy_prim c))
      end
  end.
Definition type_of_cty (c : cty) : option ty := type_of_cty_fuel 256 c.

(* impl From<Type> for CType {
     fn from(ty: Type) -> Self {
       match ty {
         Type::Ip => CType { len: 0, layers: 0, primitive: CPrimitiveType::Ip.into() }, ...
         Type::Array(arr) => Self::from(Type::from(arr)).push(Layer::Array),
         Type::Map(map) => Self::from(Type::from(map)).push(Layer::Map) } } } *)
Fixpoint cty_of_type (t : ty) : option cty :=
  match t with
  | TBool => Some (cy_primitive PBool)
  | TBytes => Some (cy_primitive PBytes)
  | TInt => Some (cy_primitive PInt)
  | TIp => Some (cy_primitive PIp)
  | TArray x => match cty_of_type x with Some c => cy_push c LArray | None => None end
  | TMap x => match cty_of_type x with Some c => cy_push c LMap | None => None end
  end.

(* ---- JSON ---- *)

Inductive json :=
| JNull
| JBool (b : bool)
| JNum (z : Z)
| JStr (s : bytes)
| JArr (l : list json)
| JObj (l : list (bytes * json)).

Inductive result (A : Type) := Ok (a : A) | Err.
Arguments Ok {A} a.
Arguments Err {A}.

Definition n_Bool := bytes_of_string "Bool".
Definition n_Bytes := bytes_of_string "Bytes".
Definition n_Int := bytes_of_string "Int".
Definition n_Ip := bytes_of_string "Ip".
Definition n_Array := bytes_of_string "Array".
Definition n_Map := bytes_of_string "Map".
Definition n_type := bytes_of_string "type".
Definition n_optional := bytes_of_string "optional".

Definition prim_name (p : prim) : bytes :=
  match p with PBool => n_Bool | PBytes => n_Bytes | PInt => n_Int | PIp => n_Ip end.

(* #[derive(Serialize)] enum Type: a unit variant is its name, a newtype
   variant is {"Name": inner}; CompoundType serializes as its Type. *)
Fixpoint type_to_json (t : ty) : json :=
  match t with
  | TBool => JStr n_Bool
  | TBytes => JStr n_Bytes
  | TInt => JStr n_Int
  | TIp => JStr n_Ip
  | TArray x => JObj [(n_Array, type_to_json x)]
  | TMap x => JObj [(n_Map, type_to_json x)]
  end.

Inductive variant := VPrim (p : prim) | VArrayV | VMapV.

(* the derived variant identifier visitor (visit_str) *)
Definition variant_of (s : bytes) : option variant :=
  if bytes_eqb s n_Bool then Some (VPrim PBool)
  else if bytes_eqb s n_Int then Some (VPrim PInt)
  else if bytes_eqb s n_Ip then Some (VPrim PIp)
  else if bytes_eqb s n_Bytes then Some (VPrim PBytes)
  else if bytes_eqb s n_Array then Some VArrayV
  else if bytes_eqb s n_Map then Some VMapV
  else None.

(* CompoundType::deserialize = Type::deserialize(d).map(Self::from), wrapped
   into the variant again.  `Self::from` is [from_type]: the code panics when
   the element has more than 32 layers; the INTENDED outcome is an error. *)
Definition wrap_compound (l : layer) (r : result ty) : result ty :=
  match r with
  | Ok t =>
      match from_type t with
      | Some c => Ok (wrap_layer l (into_type c))
      | None => Err
      end
  | Err => Err
  end.

(* #[derive(Deserialize)] enum Type through serde_json's deserialize_enum: a
   string is a unit variant; an object must have exactly one key, the variant;
   the content of a unit variant given that way must be null. *)
Fixpoint type_of_json (j : json) : result ty :=
  match j with
  | JStr s =>
      match variant_of s with
      | Some (VPrim p) => Ok (prim_ty p)
      | _ => Err
      end
  | JObj [(k, v)] =>
      match variant_of k with
      | Some (VPrim p) => match v with JNull => Ok (prim_ty p) | _ => Err end
      | Some VArrayV => wrap_compound LArray (type_of_json v)
      | Some VMapV => wrap_compound LMap (type_of_json v)
      | None => Err
      end
  | _ => Err
  end.

(* ---- scheme ---- *)

(* #[derive(Deserialize, Serialize)]
   struct SerdeField { #[serde(rename = "type")] ty: Type, optional: bool } *)
Definition field_to_json (t : ty) (o : bool) : json :=
  JObj [(n_type, type_to_json t); (n_optional, JBool o)].

(* derived visit_map: duplicate key => error, unknown keys ignored, both keys
   required *)
Fixpoint field_of_entries (es : list (bytes * json)) (t : option ty) (o : option bool)
  : result (ty * bool) :=
  match es with
  | [] => match t, o with Some t', Some o' => Ok (t', o') | _, _ => Err end
  | (k, v) :: r =>
      if bytes_eqb k n_type then
        match t with
        | Some _ => Err
        | None => match type_of_json v with Ok t' => field_of_entries r (Some t') o | Err => Err end
        end
      else if bytes_eqb k n_optional then
        match o with
        | Some _ => Err
        | None => match v with JBool b => field_of_entries r t (Some b) | _ => Err end
        end
      else field_of_entries r t o
  end.

(* derived visit_seq: exactly [type, optional] *)
Definition field_of_json (j : json) : result (ty * bool) :=
  match j with
  | JObj es => field_of_entries es None None
  | JArr [t; JBool b] => match type_of_json t with Ok t' => Ok (t', b) | Err => Err end
  | _ => Err
  end.

(* SchemeBuilder::add_field_full: Entry::Occupied => Err(redefinition),
   Entry::Vacant => fields.push(FieldDefinition { name, ty, optional }) *)
Definition sb_add_field (acc : list field_def) (f : field_def) : result (list field_def) :=
  if existsb (fun g => bytes_eqb (fd_name g) (fd_name f)) acc then Err else Ok (acc ++ [f]).

Fixpoint sb_add_fields (fs : list field_def) (acc : list field_def) : result (list field_def) :=
  match fs with
  | [] => Ok acc
  | f :: r => match sb_add_field acc f with Ok acc' => sb_add_fields r acc' | Err => Err end
  end.

(* impl Serialize for Scheme: serialize_map, one entry per field in
   declaration order: name => SerdeField { ty, optional } *)
Definition scheme_to_json (fs : list field_def) : json :=
  JObj (map (fun f => (fd_name f, field_to_json (fd_ty f) (fd_optional f))) fs).

(* FieldMapVisitor::visit_map:
     while let Some((name, SerdeField { ty, optional })) = map.next_entry::<&str, SerdeField>()? {
         builder.add_field_full(name.into(), ty, optional).map_err(A::Error::custom)?; }
   INTENDED: the key is read however the JSON is supplied (the code asks for a
   borrowed &str, which only from_str/from_slice with an unescaped key give). *)
Fixpoint scheme_add_entries (es : list (bytes * json)) (acc : list field_def)
  : result (list field_def) :=
  match es with
  | [] => Ok acc
  | (k, v) :: r =>
      match field_of_json v with
      | Ok (t, o) =>
          match sb_add_field acc {| fd_name := k; fd_ty := t; fd_optional := o |} with
          | Ok acc' => scheme_add_entries r acc'
          | Err => Err
          end
      | Err => Err
      end
  end.

(* deserializer.deserialize_map(FieldMapVisitor).map(|builder| builder.build()) *)
Definition scheme_of_json (j : json) : result (list field_def) :=
  match j with
  | JObj es => scheme_add_entries es []
  | _ => Err
  end.

(* ---- how the JSON is supplied ---- *)

Inductive entry := EStr | ESlice | EReader | EValue.

(* serde_json::Value (no preserve_order feature): an object is a
   BTreeMap<String, Value>: keys in byte order, a repeated key keeps the last
   value. *)
Fixpoint bt_insert {A} (k : bytes) (v : A) (m : list (bytes * A)) : list (bytes * A) :=
  match m with
  | [] => [(k, v)]
  | (k', v') :: r =>
      match bytes_compare k k' with
      | Lt => (k, v) :: m
      | Eq => (k, v) :: r
      | Gt => (k', v') :: bt_insert k v r
      end
  end.

Definition bt_of_list {A} (es : list (bytes * A)) : list (bytes * A) :=
  fold_left (fun m kv => bt_insert (fst kv) (snd kv) m) es [].

Fixpoint json_as_value (j : json) : json :=
  match j with
  | JArr l => JArr (map json_as_value l)
  | JObj es => JObj (bt_of_list (map (fun kv : bytes * json => let (k, v) := kv in (k, json_as_value v)) es))
  | _ => j
  end.

(* from_str / from_slice / from_reader see the document itself,
   from_value(from_str::<Value>(..)) sees the Value tree *)
Definition supply (e : entry) (j : json) : json :=
  match e with EValue => json_as_value j | _ => j end.
