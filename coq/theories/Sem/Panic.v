(* Model of engine/src/panic.rs (the panic catcher).  No proofs in this file.

   Two executable semantics of the same code:
   1. a big-step interpreter over program trees ([run_step]/[run_prog]), one
      thread, where `panic_catcher_set_hook` runs without interruption;
   2. a step-granularity machine ([tstep]) whose control stack is a flat list of
      items, used to interleave two threads ([interleave]).  In this machine
      `panic_catcher_set_hook` is NOT atomic ([Racy]): the flag test, `take_hook`
      and `set_hook`+store are three separate steps, as in the Rust code.  The
      repaired design ([Once]) performs them as one step.
   Proofs/PanicProofs.v shows that the machine run alone computes what the
   interpreter computes. *)
From Coq Require Import List NArith Bool.
Import ListNotations.
Open Scope N_scope.

(* A panic message.  The harness renders message k as a unique text and reports
   which of these texts occur in a returned string. *)
Definition msg := N.

(* pub enum PanicCatcherFallbackMode { Continue, Abort } *)
Inductive fallback := Continue | Abort.

(* Programs: what a thread does with the public API.  [Catch p] is
   `catch_panic(|| p)`; the steps of [p] may panic. *)
Inductive step :=
| Enable                      (* panic_catcher_enable() *)
| Disable                     (* panic_catcher_disable() *)
| InstallHook                 (* panic_catcher_set_hook() *)
| SetFallback (f : fallback)  (* panic_catcher_set_fallback_mode(f) *)
| QueryBacktrace              (* panic_catcher_get_backtrace() *)
| QueryLevel                  (* verif hook: PANIC_CATCHER_LEVEL *)
| Panic (m : msg)             (* panic!("{m}") *)
| Catch (p : prog)            (* catch_panic(|| p) *)
with prog :=
| PNil
| PCons (s : step) (p : prog).

Fixpoint prog_of_list (l : list step) : prog :=
  match l with [] => PNil | s :: l' => PCons s (prog_of_list l') end.

(* thread_local! { PANIC_CATCHER_BACKTRACE, PANIC_CATCHER_LEVEL,
                   PANIC_CATCHER_FALLBACK_MODE, PANIC_CATCHER_ENABLED } *)
Record tstate := mk_tstate {
  enabled : bool;          (* PANIC_CATCHER_ENABLED, initially false *)
  level : N;               (* PANIC_CATCHER_LEVEL : u64, initially 0 *)
  last : option msg;       (* PANIC_CATCHER_BACKTRACE: None = empty string, Some m = text containing m *)
  fb : fallback            (* PANIC_CATCHER_FALLBACK_MODE, initially Continue *)
}.

Definition init_tstate : tstate := mk_tstate false 0 None Continue.

Definition set_enabled (ts : tstate) (b : bool) := mk_tstate b (level ts) (last ts) (fb ts).
Definition set_level (ts : tstate) (n : N) := mk_tstate (enabled ts) n (last ts) (fb ts).
Definition set_last (ts : tstate) (m : option msg) := mk_tstate (enabled ts) (level ts) m (fb ts).
Definition set_fb (ts : tstate) (f : fallback) := mk_tstate (enabled ts) (level ts) (last ts) f.

(* The process-wide panic hook (std::panic::set_hook / take_hook).
   [HDefault]: std's default hook (prints to stderr);
   [HPrev]: the hook the application had installed before the catcher's (the
            harness' sentinel);
   [HOurs next]: the closure built by panic_catcher_set_hook, which captured
            `next = take_hook()`. *)
Inductive hook := HDefault | HPrev | HOurs (next : hook).

(* static PANIC_CATCHER_HOOK_SET: AtomicBool, and the current hook. *)
Record gstate := mk_gstate { flag : bool; cur : hook }.

Definition u64_max : N := 18446744073709551615.

Inductive catch_result := ROk | RErr (m : option msg).
(* RErr (Some m): the returned text contains message m (and only m);
   RErr None: the "thread '<unknown>' panicked at '<unknown>'..." text. *)

(* What a thread can observe, in program order. *)
Inductive event :=
| EUnit                         (* enable / disable / set_hook returned *)
| EFallback (prev : fallback)   (* set_fallback_mode returned the previous mode *)
| EBacktrace (m : option msg)   (* get_backtrace() *)
| ELevel (n : N)                (* the nesting level *)
| EPanic (m : msg)              (* the program raises panic m *)
| EPrev (m : msg)               (* the previous hook was called with m *)
| EDefault (m : msg)            (* std's default hook was called with m *)
| EEnter                        (* the closure of catch_panic starts *)
| EExit (r : catch_result).     (* catch_panic returned r *)

Inductive abort_reason := AFallback | ALevelOverflow | ALevelUnderflow.

(* How running a piece of program ends. *)
Inductive outcome :=
| Returned
| Unwound (m : msg)             (* panic m is propagating out of it *)
| Aborted (why : abort_reason). (* process::abort() *)

(* fn panic_catcher_start_catching() -> bool {
     if ENABLED.get() { let Some(level) = LEVEL.get().checked_add(1) else { abort() }; LEVEL.set(level); true }
     else { false } }
   None = abort. *)
Definition start_catching (ts : tstate) : option (bool * tstate) :=
  if enabled ts then
    if level ts <? u64_max then Some (true, set_level ts (level ts + 1)) else None
  else Some (false, ts).

(* fn panic_catcher_stop_catching() {
     let Some(level) = LEVEL.get().checked_sub(1) else { abort() }; LEVEL.set(level) } *)
Definition stop_catching (ts : tstate) : option tstate :=
  if level ts =? 0 then None else Some (set_level ts (level ts - 1)).

(* The hook, called by the panic machinery on the panicking thread, before
   unwinding starts:
     move |info| {
       if LEVEL.get() > 0 { BACKTRACE.with(|bt| record_backtrace(info, bt)); return; }   // bt.clear(); write
       match FALLBACK_MODE.get() { Continue => next(info), Abort => { ...; abort() } } }
   Result: events, and the new thread state or None for abort. *)
Fixpoint run_hook (h : hook) (ts : tstate) (m : msg) : list event * option tstate :=
  match h with
  | HDefault => ([EDefault m], Some ts)
  | HPrev => ([EPrev m], Some ts)
  | HOurs next =>
      if 0 <? level ts then ([], Some (set_last ts (Some m)))
      else match fb ts with
           | Continue => run_hook next ts m
           | Abort => ([], None)
           end
  end.

(* pub fn panic_catcher_set_hook() {
     if HOOK_SET.load() { return; }
     let next = take_hook();           // the default hook becomes current
     set_hook(Box::new(move |info| ...next...));
     HOOK_SET.store(true) }
   executed without interruption. *)
Definition install_hook (g : gstate) : gstate :=
  if flag g then g else mk_gstate true (HOurs (cur g)).

Definition result := (list event * outcome * tstate * gstate)%type.

(* pub fn catch_panic(f) -> Result<T, String> {
     if panic_catcher_start_catching() {
         let result = catch_unwind(f);
         panic_catcher_stop_catching();
         match result { Ok(res) => Ok(res),
                        Err(_) => Err(panic_catcher_get_backtrace().unwrap_or_else(|| "<unknown>...")) }
     } else { Ok(f()) } } *)
Definition finish_catch (catching : bool) (r : result) : result :=
  let '(ev, o, ts, g) := r in
  if catching then
    match o with
    | Aborted w => (EEnter :: ev, Aborted w, ts, g)
    | _ =>
        match stop_catching ts with
        | None => (EEnter :: ev, Aborted ALevelUnderflow, ts, g)
        | Some ts' =>
            (EEnter :: ev ++ [EExit (match o with Returned => ROk | _ => RErr (last ts') end)],
             Returned, ts', g)
        end
    end
  else
    match o with
    | Returned => (EEnter :: ev ++ [EExit ROk], Returned, ts, g)
    | _ => (EEnter :: ev, o, ts, g)
    end.

Definition do_panic (g : gstate) (ts : tstate) (m : msg) : result :=
  match run_hook (cur g) ts m with
  | (ev, Some ts') => (EPanic m :: ev, Unwound m, ts', g)
  | (ev, None) => (EPanic m :: ev, Aborted AFallback, ts, g)
  end.

Fixpoint run_step (g : gstate) (ts : tstate) (s : step) {struct s} : result :=
  match s with
  | Enable => ([EUnit], Returned, set_enabled ts true, g)
  | Disable => ([EUnit], Returned, set_enabled ts false, g)
  | InstallHook => ([EUnit], Returned, ts, install_hook g)
  | SetFallback f => ([EFallback (fb ts)], Returned, set_fb ts f, g)
  | QueryBacktrace => ([EBacktrace (last ts)], Returned, ts, g)
  | QueryLevel => ([ELevel (level ts)], Returned, ts, g)
  | Panic m => do_panic g ts m
  | Catch p =>
      match start_catching ts with
      | None => ([], Aborted ALevelOverflow, ts, g)
      | Some (catching, ts1) => finish_catch catching (run_prog g ts1 p)
      end
  end
with run_prog (g : gstate) (ts : tstate) (p : prog) {struct p} : result :=
  match p with
  | PNil => ([], Returned, ts, g)
  | PCons s p' =>
      let '(ev, o, ts1, g1) := run_step g ts s in
      match o with
      | Returned =>
          let '(ev2, o2, ts2, g2) := run_prog g1 ts1 p' in (ev ++ ev2, o2, ts2, g2)
      | _ => (ev, o, ts1, g1)
      end
  end.

(* ------------------------------------------------------------------------ *)
(* Step-granularity machine, for interleavings. *)

(* The remaining work of a thread, innermost first.  [IExit c] marks the end of
   the closure of a catch_panic entered with start_catching() = c.  [ITake] and
   [ISet next] are the second and third part of panic_catcher_set_hook. *)
Inductive item :=
| IStep (s : step)
| IExit (catching : bool)
| ITake
| ISet (next : hook).

Inductive status :=
| Running                  (* finished normally when [code] is empty *)
| Dead (m : msg)           (* panic m unwound the whole thread *)
| Crashed (why : abort_reason).

Record thread := mk_thread {
  tst : tstate;
  code : list item;
  trace : list event;
  st : status
}.

Fixpoint items_of (p : prog) : list item :=
  match p with PNil => [] | PCons s p' => IStep s :: items_of p' end.

Definition thread_of (ts : tstate) (p : prog) : thread := mk_thread ts (items_of p) [] Running.

(* Unwinding: frames are popped until a catch_unwind is found, i.e. the closure
   of a catch_panic that was entered while catching was enabled; there
   stop_catching runs and catch_panic returns Err(get_backtrace()). *)
Fixpoint unwind (m : msg) (ts : tstate) (k : list item) (tr : list event) : thread :=
  match k with
  | [] => mk_thread ts [] tr (Dead m)
  | IExit true :: k' =>
      match stop_catching ts with
      | None => mk_thread ts k' tr (Crashed ALevelUnderflow)
      | Some ts' => mk_thread ts' k' (tr ++ [EExit (RErr (last ts'))]) Running
      end
  | _ :: k' => unwind m ts k' tr
  end.

Inductive design := Racy | Once.

(* One atomic step of a thread.  The global state is read and possibly written. *)
Definition tstep (d : design) (g : gstate) (t : thread) : gstate * thread :=
  match st t with
  | Running =>
      let ts := tst t in
      let tr := trace t in
      match code t with
      | [] => (g, t)
      | IStep s :: k =>
          match s with
          | Enable => (g, mk_thread (set_enabled ts true) k (tr ++ [EUnit]) Running)
          | Disable => (g, mk_thread (set_enabled ts false) k (tr ++ [EUnit]) Running)
          | InstallHook =>
              match d with
              | Once => (install_hook g, mk_thread ts k (tr ++ [EUnit]) Running)
              | Racy =>
                  (* if HOOK_SET.load() { return; } *)
                  if flag g then (g, mk_thread ts k (tr ++ [EUnit]) Running)
                  else (g, mk_thread ts (ITake :: k) tr Running)
              end
          | SetFallback f => (g, mk_thread (set_fb ts f) k (tr ++ [EFallback (fb ts)]) Running)
          | QueryBacktrace => (g, mk_thread ts k (tr ++ [EBacktrace (last ts)]) Running)
          | QueryLevel => (g, mk_thread ts k (tr ++ [ELevel (level ts)]) Running)
          | Panic m =>
              match run_hook (cur g) ts m with
              | (ev, Some ts') => (g, unwind m ts' k (tr ++ EPanic m :: ev))
              | (ev, None) => (g, mk_thread ts k (tr ++ EPanic m :: ev) (Crashed AFallback))
              end
          | Catch p =>
              match start_catching ts with
              | None => (g, mk_thread ts k tr (Crashed ALevelOverflow))
              | Some (c, ts1) => (g, mk_thread ts1 (items_of p ++ IExit c :: k) (tr ++ [EEnter]) Running)
              end
          end
      | IExit true :: k =>
          match stop_catching ts with
          | None => (g, mk_thread ts k tr (Crashed ALevelUnderflow))
          | Some ts' => (g, mk_thread ts' k (tr ++ [EExit ROk]) Running)
          end
      | IExit false :: k => (g, mk_thread ts k (tr ++ [EExit ROk]) Running)
      | ITake :: k =>
          (* let next = std::panic::take_hook(); *)
          (mk_gstate (flag g) HDefault, mk_thread ts (ISet (cur g) :: k) tr Running)
      | ISet next :: k =>
          (* std::panic::set_hook(Box::new(move |info| ...)); HOOK_SET.store(true) *)
          (mk_gstate true (HOurs next), mk_thread ts k (tr ++ [EUnit]) Running)
      end
  | _ => (g, t)
  end.

Definition crashed (t : thread) : bool :=
  match st t with Crashed _ => true | _ => false end.

Definition finished (t : thread) : bool :=
  match st t with
  | Running => match code t with [] => true | _ => false end
  | _ => true
  end.

(* A thread alone, n steps. *)
Fixpoint solo (d : design) (n : nat) (g : gstate) (t : thread) : gstate * thread :=
  match n with
  | O => (g, t)
  | S n' => let '(g', t') := tstep d g t in solo d n' g' t'
  end.

(* Two threads under a schedule ([true] = thread A moves).  process::abort()
   on either thread ends the process: nothing moves afterwards. *)
Fixpoint interleave (d : design) (sched : list bool) (g : gstate) (a b : thread)
  : gstate * thread * thread :=
  match sched with
  | [] => (g, a, b)
  | w :: sched' =>
      if crashed a || crashed b then (g, a, b)
      else if w then let '(g', a') := tstep d g a in interleave d sched' g' a' b
      else let '(g', b') := tstep d g b in interleave d sched' g' a b'
  end.

(* Upper bound on the number of steps a piece of code can take. *)
Fixpoint step_size (s : step) : nat :=
  match s with
  | Catch p => S (S (prog_size p))
  | InstallHook => 3%nat
  | _ => 1%nat
  end
with prog_size (p : prog) : nat :=
  match p with PNil => 0%nat | PCons s p' => (step_size s + prog_size p')%nat end.

Definition item_size (i : item) : nat :=
  match i with IStep s => step_size s | IExit _ => 1%nat | ITake => 2%nat | ISet _ => 1%nat end.

Definition code_size (k : list item) : nat := fold_right (fun i n => (item_size i + n)%nat) 0%nat k.
