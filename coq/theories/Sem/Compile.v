(* The model of compilation and execution: a Gallina mirror of
   IndexExpr::compile_with / compile_one_with / compile_vec_with /
   compile_iter_with, MapEachIterator, ComparisonExpr::compile_with_compiler,
   LogicalExpr::compile_with_compiler, FunctionCallExpr::compile_with_compiler
   and FunctionCallArgExpr::compile_with_compiler.

   [option] is the panic monad: [None] is a Rust panic (unwrap on None/Err,
   unreachable!, assert!, slice index out of range) or exhausted fuel.
   Compilation produces Coq closures, as the Rust code produces boxed closures:
   a compile-time panic is a [None] from [compile_*], a run-time panic a [None]
   from the closure. *)
From Coq Require Import List ZArith NArith Bool.
From WF Require Import Base.Bytes Sem.RangeSet Sem.Matchers Lang.Types Lang.Ast Lang.Context.
Import ListNotations.

Definition M (A : Type) := option A.
Notation "x <- a ;; b" := (match a with Some x => b | None => None end)
  (at level 61, a at next level, right associativity).

(* ---- values: LhsValue::get / get_nested / extract / iter ---- *)

Fixpoint nth_N {A} (l : list A) (n : N) : option A :=
  match l with
  | [] => None
  | x :: r => if (n =? 0)%N then Some x else nth_N r (N.pred n)
  end.

(* Ok(None) = no such element; None = IndexAccessError unwrapped = panic *)
Definition v_get (v : value) (i : index) : M (option value) :=
  match i, v with
  | IArr n, VArray _ l => Some (nth_N l n)
  | IKey k, VMap _ l => Some (assoc_bytes k l)
  | _, _ => None
  end.

Fixpoint get_nested (v : value) (idx : list index) : M (option value) :=
  match idx with
  | [] => Some (Some v)
  | i :: r =>
      o <- v_get v i ;;
      match o with
      | None => Some None
      | Some v' => get_nested v' r
      end
  end.

(* LhsValue::iter().unwrap() *)
Definition v_iter (v : value) : M (list value) :=
  match v with
  | VArray _ l => Some l
  | VMap _ l => Some (map snd l)
  | _ => None
  end.

(* simplify_indexes: drop a trailing [*] *)
Fixpoint simplify_indexes (idx : list index) : list index :=
  match idx with
  | [] => []
  | [IEach] => []
  | i :: r => i :: simplify_indexes r
  end.

Fixpoint last_is_each (idx : list index) : bool :=
  match idx with
  | [] => false
  | [i] => index_is_each i
  | _ :: r => last_is_each r
  end.

(* ---- MapEachIterator: explicit stack machine ---- *)

Inductive fiter :=
| FArr (o : option (list value * N))
| FKey (o : option (list (bytes * value) * bytes))
| FEach (rest : list value).

(* FieldIndexIterator::new(val, idx).unwrap() *)
Definition fiter_new (v : value) (i : index) : M fiter :=
  match i, v with
  | IArr n, VArray _ l => Some (FArr (Some (l, n)))
  | IKey k, VMap _ l => Some (FKey (Some (l, k)))
  | IEach, VArray _ l => Some (FEach l)
  | IEach, VMap _ l => Some (FEach (map snd l))
  | _, _ => None
  end.

Definition fiter_next (it : fiter) : option value * fiter :=
  match it with
  | FArr (Some (l, n)) => (nth_N l n, FArr None)
  | FArr None => (None, FArr None)
  | FKey (Some (l, k)) => (assoc_bytes k l, FKey None)
  | FKey None => (None, FKey None)
  | FEach [] => (None, FEach [])
  | FEach (x :: r) => (Some x, FEach r)
  end.

(* All successive MapEachIterator::next() calls fused in one loop; the stack's
   top is the head of the list.  [acc] collects the yielded values, reversed. *)
Fixpoint mei_run (fuel : nat) (idx : list index) (stack : list fiter) (acc : list value)
  : M (list value) :=
  match fuel with
  | O => None
  | S fuel' =>
      match stack with
      | [] => Some (rev acc)
      | top :: below =>
          if Nat.ltb (length idx) (length stack) then None (* assert!(stack.len() <= indexes.len()) *)
          else
            let (o, top') := fiter_next top in
            match o with
            | Some nxt =>
                if Nat.eqb (length stack) (length idx)
                then mei_run fuel' idx (top' :: below) (nxt :: acc)
                else
                  match nth_error idx (length stack) with
                  | None => None
                  | Some i =>
                      it <- fiter_new nxt i ;;
                      mei_run fuel' idx (it :: top' :: below) acc
                  end
            | None => mei_run fuel' idx below acc
            end
      end
  end.

(* number of loop iterations needed by an iterator with pending values [vals]
   at a level after which the indexes [r] remain *)
Definition step_vals (v : value) (i : index) : list value :=
  match i, v with
  | IArr n, VArray _ l => match nth_N l n with Some x => [x] | None => [] end
  | IKey k, VMap _ l => match assoc_bytes k l with Some x => [x] | None => [] end
  | IEach, VArray _ l => l
  | IEach, VMap _ l => map snd l
  | _, _ => []
  end.

Fixpoint mei_cost (r : list index) (vals : list value) : nat :=
  S (fold_right (fun x acc =>
       (S (match r with [] => O | i :: r' => mei_cost r' (step_vals x i) end) + acc)%nat) O vals).

(* MapEachIterator::from_indexes(idx) + reset(v) + collect *)
Definition mei_collect (idx : list index) (v : value) : M (list value) :=
  match idx with
  | [] => None                      (* indexes.first().unwrap() *)
  | i :: r =>
      it <- fiter_new v i ;;
      mei_run (S (mei_cost r (step_vals v i))) idx [it] []
  end.

(* ---- comparisons: the Compare implementations ---- *)

Definition cast_bool (v : value) : M bool := match v with VBool b => Some b | _ => None end.
Definition cast_int (v : value) : M Z := match v with VInt z => Some z | _ => None end.
Definition cast_bytes (v : value) : M bytes := match v with VBytes b => Some b | _ => None end.
Definition cast_ip (v : value) : M ip := match v with VIp a => Some a | _ => None end.

(* OrderingOp discriminants: LESS = 0b001, GREATER = 0b010, EQUAL = 0b100 *)
Definition ord_mask (op : ordop) : N :=
  match op with
  | OEq => 4 | ONe => 3 | OGe => 6 | OLe => 5 | OGt => 2 | OLt => 1
  end%N.
Definition ord_flag (c : comparison) : N := match c with Lt => 1 | Gt => 2 | Eq => 4 end%N.
Definition ord_matches (op : ordop) (c : comparison) : bool :=
  negb (N.land (ord_mask op) (ord_flag c) =? 0)%N.
Definition ord_matches_opt (op : ordop) (o : option comparison) : bool :=
  match o with
  | Some c => ord_matches op c
  | None => match op with ONe => true | _ => false end
  end.

(* StrictPartialOrd for IpAddr *)
Definition ip_strict_cmp (a b : ip) : option comparison :=
  match a, b with
  | V4 x, V4 y => Some (x ?= y)%Z
  | V6 x, V6 y => Some (x ?= y)%Z
  | _, _ => None
  end.

(* the Rust operators on i64 and on [u8] *)
Definition int_op (op : ordop) (a b : Z) : bool :=
  match op with
  | OEq => (a =? b) | ONe => negb (a =? b) | OGe => (a >=? b) | OLe => (a <=? b)
  | OGt => (a >? b) | OLt => (a <? b)
  end%Z.
Definition bytes_op (op : ordop) (a b : bytes) : bool :=
  match op, bytes_compare a b with
  | OEq, Eq | ONe, Lt | ONe, Gt | OGe, Gt | OGe, Eq | OLe, Lt | OLe, Eq | OGt, Gt | OLt, Lt => true
  | _, _ => false
  end.

(* `contains`: the result of every searcher is proved equal to this in C10 *)
Fixpoint is_prefix (p s : bytes) : bool :=
  match p, s with
  | [], _ => true
  | x :: p', y :: s' => (x =? y)%N && is_prefix p' s'
  | _ :: _, [] => false
  end.
Fixpoint occurs (p h : bytes) : bool :=
  is_prefix p h || match h with [] => false | _ :: h' => occurs p h' end.

Definition comparer := value -> ctx -> M bool.

(* the Compare impl chosen for an operator; [default] is compile_with's flag *)
Definition cmp_fn (sch : scheme) (op : cmpop) : comparer * bool :=
  match op with
  | CIsTrue => (fun v _ => cast_bool v, false)
  | COrd o (RBytes b _) => (fun v _ => x <- cast_bytes v ;; Some (bytes_op o x b),
                          match o with ONe => sc_nil_ne sch | _ => false end)
  | COrd o (RInt z) => (fun v _ => x <- cast_int v ;; Some (int_op o x z),
                        match o with ONe => sc_nil_ne sch | _ => false end)
  | COrd o (RIp a) => (fun v _ => x <- cast_ip v ;; Some (ord_matches_opt o (ip_strict_cmp x a)),
                       match o with ONe => sc_nil_ne sch | _ => false end)
  | CBitAnd z => (fun v _ => x <- cast_int v ;; Some (negb (Z.land x z =? 0)%Z), false)
  | CContains p _ => (fun v _ => x <- cast_bytes v ;; Some (occurs p x), false)
  | CMatches pat _ =>
      match regex_compile pat with
      | Some r => (fun v _ => x <- cast_bytes v ;; Some (regex_run r x), false)
      | None => (fun _ _ => None, false)           (* pattern outside the modelled subset *)
      end
  | CWildcard strict pat _ =>
      match wparse pat with
      | Some t => (fun v _ => x <- cast_bytes v ;; Some (wmatch strict t x), false)
      | None => (fun _ _ => None, false)           (* never constructed: Wildcard::new fails at parse time *)
      end
  | COneOfInt l =>
      let set := rangeset_from l in
      (fun v _ => x <- cast_int v ;; rangeset_contains set x, false)
  | COneOfIp l =>
      let sets := split_ip_items l in
      let v4 := rangeset_from (fst sets) in
      let v6 := rangeset_from (snd sets) in
      (fun v _ => x <- cast_ip v ;;
                  match x with V4 a => rangeset_contains v4 a | V6 a => rangeset_contains v6 a end, false)
  | COneOfBytes l => (fun v _ => x <- cast_bytes v ;; Some (existsb (bytes_eqb x) (map fst l)), false)
  | CInList li name =>
      (fun v c => m <- nth_error (cx_lists c) li ;; Some (match_value m name v), false)
  end.

(* ---- types of AST nodes (GetType impls; None = unreachable!/index panic) ---- *)

Fixpoint ty_index (t : ty) (idx : list index) {struct idx} : M ty :=
  match idx with
  | [] => Some t
  | i :: r =>
      match t, i with
      | TArray s, IArr _ | TArray s, IEach | TMap s, IKey _ | TMap s, IEach => ty_index s r
      | _, _ => None
      end
  end.


(* ComparisonExpr::get_type, given the type of the left side *)
Definition ty_cmp_of (lhs_idx : list index) (lhs_ty : M ty) (op : cmpop) : M ty :=
  if Nat.ltb 0 (map_each_count lhs_idx) then Some (TArray TBool)
  else match op with
       | CIsTrue =>
           t <- lhs_ty ;;
           match t with TBool => Some TBool | _ => Some (TArray TBool) end
       | _ => Some TBool
       end.

(* FunctionCallExpr::return_type / get_type, given the type of the first argument *)
Definition ty_call_of (sch : scheme) (fn : nat) (a : args) (first_ty : M ty) : M ty :=
  d <- fn_of sch fn ;;
  ret <- (if fn_variadic_same d then first_ty else Some (fn_ret d)) ;;
  match a with
  | ACons a0 _ => if Nat.ltb 0 (arg_map_each_count a0) then Some (TArray ret) else Some ret
  | ANil => Some ret
  end.

Fixpoint ty_lexpr (sch : scheme) (e : lexpr) {struct e} : M ty :=
  match e with
  | ECombining _ items => match items with LCons e0 _ => ty_lexpr sch e0 | LNil => None end
  | EComparison lhs op => ty_cmp_of (iexpr_idx lhs) (ty_iexpr sch lhs) op
  | EParen e' => ty_lexpr sch e'
  | ENot e' => ty_lexpr sch e'
  | EQuantIndex _ _ | EQuantLogical _ _ => Some TBool
  end
(* IndexExpr::get_type *)
with ty_iexpr (sch : scheme) (e : iexpr) {struct e} : M ty :=
  match e with
  | IField f idx => t <- field_ty sch f ;; ty_index t idx
  | ICall fn a idx => t <- ty_call_of sch fn a (ty_args_first sch a) ;; ty_index t idx
  end
(* type of the first argument (ConcatFunction::return_type: params.next().unwrap()) *)
with ty_args_first (sch : scheme) (a : args) {struct a} : M ty :=
  match a with
  | ANil => None
  | ACons x _ => ty_arg sch x
  end
with ty_arg (sch : scheme) (a : arg) {struct a} : M ty :=
  match a with
  | AIndex e => ty_iexpr sch e
  | ALit r => Some (rhs_ty r)
  | ALogical e => ty_lexpr sch e
  end.

Definition ty_ret (sch : scheme) (fn : nat) (a : args) : M ty :=
  d <- fn_of sch fn ;;
  if fn_variadic_same d then ty_args_first sch a else Some (fn_ret d).
Definition ty_call (sch : scheme) (fn : nat) (a : args) : M ty := ty_call_of sch fn a (ty_args_first sch a).
Definition ty_cmp (sch : scheme) (lhs : iexpr) (op : cmpop) : M ty := ty_cmp_of (iexpr_idx lhs) (ty_iexpr sch lhs) op.

(* ---- compiled closures ---- *)

Definition cone := ctx -> M bool.
Definition cvec := ctx -> M (list bool).
Definition cval := ctx -> M vres.
Inductive cexpr := COne (f : cone) | CVec (f : cvec).

(* ExecutionContext::get_field_value_unchecked *)
Definition field_value (sch : scheme) (f : nat) (c : ctx) : M (option value) :=
  match nth_error (cx_vals c) f with
  | None => None
  | Some (Some v) => Some (Some v)
  | Some None =>
      match field_optional sch f with
      | Some true => Some None
      | _ => None          (* "registered as mandatory but not given a value" *)
      end
  end.

Definition vres_opt (r : vres) : option value := match r with VOk v => Some v | VAbsent _ => None end.

(* The value source of an identifier: a field read or a compiled call. *)
Definition src_field (sch : scheme) (f : nat) : ctx -> M (option value) := field_value sch f.
Definition src_call (call : cval) : ctx -> M (option value) :=
  fun c => r <- call c ;; Some (vres_opt r).

Fixpoint mapM {A B} (f : A -> M B) (l : list A) : M (list B) :=
  match l with
  | [] => Some []
  | x :: r => y <- f x ;; ys <- mapM f r ;; Some (y :: ys)
  end.

(* IndexExpr::compile_one_with *)
Definition compile_one_with (src : ctx -> M (option value)) (idx : list index)
           (default : bool) (comp : comparer) : cone :=
  let idx' := simplify_indexes idx in
  fun c =>
    o <- src c ;;
    match o with
    | None => Some default
    | Some v =>
        o' <- get_nested v idx' ;;
        match o' with
        | None => Some default
        | Some x => comp x c
        end
    end.

(* IndexExpr::compile_vec_with *)
Definition compile_vec_with (src : ctx -> M (option value)) (idx : list index) (comp : comparer) : cvec :=
  let idx' := simplify_indexes idx in
  fun c =>
    o <- src c ;;
    match o with
    | None => Some []
    | Some v =>
        o' <- get_nested v idx' ;;
        match o' with
        | None => Some []
        | Some x => items <- v_iter x ;; mapM (fun it => comp it c) items
        end
    end.

(* IndexExpr::compile_iter_with *)
Definition compile_iter_with (src : ctx -> M (option value)) (idx : list index) (comp : comparer) : cvec :=
  fun c =>
    o <- src c ;;
    match o with
    | None => Some []
    | Some v => items <- mei_collect idx v ;; mapM (fun it => comp it c) items
    end.

(* IndexExpr::compile_with *)
Definition compile_with (src : ctx -> M (option value)) (idx : list index)
           (default : bool) (comp : comparer) : cexpr :=
  match map_each_count idx with
  | O => COne (compile_one_with src idx default comp)
  | S O => if last_is_each idx then CVec (compile_vec_with src idx comp)
           else CVec (compile_iter_with src idx comp)
  | _ => CVec (compile_iter_with src idx comp)
  end.

(* Array::try_from_iter(ty, iter).unwrap(): every element must have type ty *)
Definition array_of (t : ty) (l : list value) : M value :=
  if forallb (fun x => ty_eqb (type_of x) t) l then Some (VArray t l) else None.

(* IndexExpr as ValueExpr: compile_with_compiler.  [t0] = identifier's type. *)
Definition compile_index_value (is_call : bool) (src_res : cval) (t0 : ty) (idx : list index) : M cval :=
  t <- ty_index t0 idx ;;
  let n := map_each_count idx in
  let plain (last : nat) (t : ty) : cval :=
      if Nat.eqb last 0 then
        (if is_call then src_res
         else fun c => r <- src_res c ;; Some (match r with VOk v => VOk v | VAbsent _ => VAbsent t end))
      else
        fun c =>
          r <- src_res c ;;
          match r with
          | VAbsent _ => Some (VAbsent t)
          | VOk v =>
              o <- get_nested v (firstn last idx) ;;
              Some (match o with Some x => VOk x | None => VAbsent t end)
          end in
  match n with
  | O => Some (plain (length idx) t)
  | S O =>
      if last_is_each idx then Some (plain (length idx - 1)%nat (TArray t))
      else Some (fun c =>
                   r <- src_res c ;;
                   match r with
                   | VAbsent _ => Some (VAbsent (TArray t))
                   | VOk v => items <- mei_collect idx v ;; a <- array_of t items ;; Some (VOk a)
                   end)
  | _ => Some (fun c =>
                 r <- src_res c ;;
                 match r with
                 | VAbsent _ => Some (VAbsent (TArray t))
                 | VOk v => items <- mei_collect idx v ;; a <- array_of t items ;; Some (VOk a)
                 end)
  end.

(* the field as a value source with typed absence *)
Definition field_res (sch : scheme) (f : nat) (t : ty) : cval :=
  fun c => o <- field_value sch f c ;; Some (match o with Some v => VOk v | None => VAbsent t end).

(* ---- logical expressions ---- *)

Definition reduce (q : quant) (l : list bool) : bool :=
  match q with QAny => existsb (fun b => b) l | QAll => forallb (fun b => b) l end.

Definition lop (op : logop) (a b : bool) : bool :=
  match op with LAnd => a && b | LOr => a || b | LXor => xorb a b end.

(* output.iter_mut().zip(values.iter()).for_each(..); truncate if shorter *)
Fixpoint zip_trunc (op : logop) (out vals : list bool) : list bool :=
  match out, vals with
  | o :: out', v :: vals' => lop op o v :: zip_trunc op out' vals'
  | _, _ => []
  end.

Fixpoint all_one (l : list cexpr) : M (list cone) :=
  match l with
  | [] => Some []
  | COne f :: r => fs <- all_one r ;; Some (f :: fs)
  | CVec _ :: _ => None
  end.
Fixpoint all_vec (l : list cexpr) : M (list cvec) :=
  match l with
  | [] => Some []
  | CVec f :: r => fs <- all_vec r ;; Some (f :: fs)
  | COne _ :: _ => None
  end.

(* first && items.all(..) / first || items.any(..) / fold with ^ *)
Fixpoint run_and (l : list cone) (c : ctx) : M bool :=
  match l with
  | [] => Some true
  | f :: r => b <- f c ;; if b then run_and r c else Some false
  end.
Fixpoint run_or (l : list cone) (c : ctx) : M bool :=
  match l with
  | [] => Some false
  | f :: r => b <- f c ;; if b then Some true else run_or r c
  end.
Fixpoint run_xor (acc : bool) (l : list cone) (c : ctx) : M bool :=
  match l with
  | [] => Some acc
  | f :: r => b <- f c ;; run_xor (xorb acc b) r c
  end.

Definition combine_one (op : logop) (first : cone) (rest : list cone) : cone :=
  match op with
  | LAnd => fun c => b <- first c ;; if b then run_and rest c else Some false
  | LOr => fun c => b <- first c ;; if b then Some true else run_or rest c
  | LXor => fun c => b <- first c ;; run_xor b rest c
  end.

(* `items.iter().map(|item| item.execute(ctx))` is lazy: each operand is
   executed when the for loop reaches it, after [first]. *)
Fixpoint run_vec (op : logop) (out : list bool) (rest : list cvec) (c : ctx) : M (list bool) :=
  match rest with
  | [] => Some out
  | f :: r => vals <- f c ;; run_vec op (zip_trunc op out vals) r c
  end.
Definition combine_vec (op : logop) (first : cvec) (rest : list cvec) : cvec :=
  fun c => out <- first c ;; run_vec op out rest c.

(* ---- function calls ---- *)

(* SimpleFunctionDefinition::compile: defaults of the omitted optional params *)
Definition compile_simple (d : fn_def) (params_count : nat) : M (list vres -> M (option value)) :=
  if fn_variadic_same d then Some (fn_impl d)                   (* ConcatFunction::compile: Box::new(concat_impl) *)
  else
  if Nat.ltb params_count (length (fn_params d)) then None       (* slice start underflow *)
  else
    let k := (params_count - length (fn_params d))%nat in
    if Nat.ltb (length (fn_opt_params d)) k then None            (* slice start out of range *)
    else
      let defaults := map (fun p => VOk (snd p)) (skipn k (fn_opt_params d)) in
      Some (fun a =>
              if Nat.eqb params_count (length a)                   (* assert_eq!(params_count, args.len()) *)
              then fn_impl d (a ++ defaults) else None).

(* Array::filter_map_to / try_from_iter_with_capacity(..).unwrap() over call results *)
Fixpoint filter_map_call (ret : ty) (call : list vres -> M (option value))
         (extra : value -> M (list vres)) (elems : list value) : M (list value) :=
  match elems with
  | [] => Some []
  | e :: r =>
      ex <- extra e ;;
      o <- call (VOk e :: ex) ;;
      match o with
      | Some x =>
          if ty_eqb (type_of x) ret then (xs <- filter_map_call ret call extra r ;; Some (x :: xs))
          else None                                              (* assert!(elem.get_type() == val_type) *)
      | None => filter_map_call ret call extra r
      end
  end.

(* `compute` of FunctionCallExpr::compile_with_compiler *)
Definition compute (first : vres) (ret : ty) (call : list vres -> M (option value))
           (extra : value -> M (list vres)) : M vres :=
  match first with
  | VAbsent _ => Some (VAbsent (TArray ret))
  | VOk (VMap _ l) => xs <- filter_map_call ret call extra (map snd l) ;; Some (VOk (VArray ret xs))
  | VOk (VArray _ l) => xs <- filter_map_call ret call extra l ;; Some (VOk (VArray ret xs))
  | VOk _ => None
  end.

(* FunctionCallArgExpr::is_expensive_to_reevaluate *)
Definition arg_expensive (a : arg) : bool :=
  match a with
  | ALit _ => false
  | ALogical _ => true
  | AIndex (ICall _ _ _) => true
  | AIndex (IField _ _) => false
  end.

(* FunctionCallExpr::compile_with_compiler, given the compiled arguments *)
Definition compile_call_with (sch : scheme) (fn : nat) (a : args) (cargs : list cval) : M cval :=
  d <- fn_of sch fn ;;
  ret <- ty_ret sch fn a ;;
  let al := args_to_list a in
  let mec := match al with a0 :: _ => arg_map_each_count a0 | [] => O end in
  call <- compile_simple d (length al) ;;
  if Nat.ltb 0 mec then
    match cargs with
    | [] => None
    | first :: rest =>
        let memo := existsb arg_expensive (tl al) in
        match rest with
        | [] => Some (fun c => f <- first c ;; compute f ret call (fun _ => Some []))
        | _ =>
            if memo then
              Some (fun c =>
                      ex <- mapM (fun g => g c) rest ;;
                      f <- first c ;;
                      compute f ret call (fun _ => Some ex))
            else
              Some (fun c =>
                      f <- first c ;;
                      compute f ret call (fun _ => mapM (fun g => g c) rest))
        end
    end
  else
    Some (fun c =>
            vs <- mapM (fun g => g c) cargs ;;
            o <- call vs ;;
            match o with
            | Some v => if ty_eqb (type_of v) ret then Some (VOk v) else None  (* debug_assert! *)
            | None => Some (VAbsent ret)
            end).

Fixpoint compile_lexpr (sch : scheme) (e : lexpr) {struct e} : M cexpr :=
  match e with
  | EComparison lhs op =>
      let (comp, default) := cmp_fn sch op in
      match lhs with
      | IField f idx =>
          match op with
          | CIsTrue =>
              t <- ty_iexpr sch lhs ;;
              match t with
              | TBool => Some (compile_with (src_field sch f) idx false comp)
              | TArray TBool | TMap TBool => Some (CVec (compile_vec_with (src_field sch f) idx comp))
              | _ => None
              end
          | _ => Some (compile_with (src_field sch f) idx default comp)
          end
      | ICall fn a idx =>
          cargs <- compile_args sch a ;;
          call <- compile_call_with sch fn a cargs ;;
          match op with
          | CIsTrue =>
              t <- ty_iexpr sch lhs ;;
              match t with
              | TBool => Some (compile_with (src_call call) idx false comp)
              | TArray TBool | TMap TBool => Some (CVec (compile_vec_with (src_call call) idx comp))
              | _ => None
              end
          | _ => Some (compile_with (src_call call) idx default comp)
          end
      end
  | EParen e' => compile_lexpr sch e'
  | ENot e' =>
      a <- compile_lexpr sch e' ;;
      match a with
      | COne f => Some (COne (fun c => b <- f c ;; Some (negb b)))
      | CVec f => Some (CVec (fun c => l <- f c ;; Some (map negb l)))
      end
  | EQuantIndex q a =>
      v <- compile_iexpr_value sch a ;;
      Some (COne (fun c =>
                    r <- v c ;;
                    match r with
                    | VOk (VArray _ l) => bs <- mapM cast_bool l ;; Some (reduce q bs)
                    | VAbsent _ => Some false
                    | VOk _ => None
                    end))
  | EQuantLogical q a =>
      x <- compile_lexpr sch a ;;
      match x with
      | COne _ => None
      | CVec f => Some (COne (fun c => l <- f c ;; Some (reduce q l)))
      end
  | ECombining op items =>
      cs <- compile_lexprs sch items ;;
      match cs with
      | [] => None                                                (* items.next().unwrap() *)
      | COne first :: rest => fs <- all_one rest ;; Some (COne (combine_one op first fs))
      | CVec first :: rest => fs <- all_vec rest ;; Some (CVec (combine_vec op first fs))
      end
  end
with compile_lexprs (sch : scheme) (l : lexprs) {struct l} : M (list cexpr) :=
  match l with
  | LNil => Some []
  | LCons e r => c <- compile_lexpr sch e ;; cs <- compile_lexprs sch r ;; Some (c :: cs)
  end
with compile_iexpr_value (sch : scheme) (e : iexpr) {struct e} : M cval :=
  match e with
  | IField f idx =>
      t0 <- field_ty sch f ;;
      t <- ty_index t0 idx ;;
      compile_index_value false (field_res sch f t) t0 idx
  | ICall fn a idx =>
      t0 <- ty_call sch fn a ;;
      cargs <- compile_args sch a ;;
      call <- compile_call_with sch fn a cargs ;;
      compile_index_value true call t0 idx
  end
with compile_args (sch : scheme) (a : args) {struct a} : M (list cval) :=
  match a with
  | ANil => Some []
  | ACons x r => c <- compile_arg sch x ;; cs <- compile_args sch r ;; Some (c :: cs)
  end
with compile_arg (sch : scheme) (a : arg) {struct a} : M cval :=
  match a with
  | AIndex e => compile_iexpr_value sch e
  | ALit r => Some (fun _ => Some (VOk (rhs_value r)))
  | ALogical e =>
      x <- compile_lexpr sch e ;;
      match x with
      | COne f => Some (fun c => b <- f c ;; Some (VOk (VBool b)))
      | CVec f => Some (fun c => l <- f c ;; Some (VOk (VArray TBool (map VBool l))))
      end
  end.

(* FilterAst::compile + Filter::execute (the scheme-identity check is C08's) *)
Definition run_filter (sch : scheme) (e : lexpr) (c : ctx) : M bool :=
  x <- compile_lexpr sch e ;;
  match x with
  | COne f => f c
  | CVec _ => None
  end.

(* FilterValueAst::compile + FilterValue::execute *)
Definition run_value (sch : scheme) (e : iexpr) (c : ctx) : M vres :=
  f <- compile_iexpr_value sch e ;; f c.

