(* Model of the C API's failure-reporting protocol (ffi/src/lib.rs, ffi/src/panic.rs).

   Every exported `wirefilter_*` function is a constructor of [fn].  What the
   wrapped engine call does is abstracted to an [outcome]; what the wrapper makes
   of it (returned status / bool / pointer, the thread-local last error, the
   panic status, an abort when a panic reaches the `extern "C"` boundary) is the
   model.  No proofs in this file.

     thread_local! { pub static LAST_ERROR: RefCell<CString> = ... }
     macro_rules! write_last_error { (ARGS) => {
         LAST_ERROR.with_borrow_mut(|last_error| { last_error.clear(); write!(last_error, ARGS).unwrap(); }) } }
     pub extern "C" fn wirefilter_get_last_error() -> *const c_char { LAST_ERROR.with_borrow(|e| e.as_c_str()) }
     pub extern "C" fn wirefilter_clear_last_error() { LAST_ERROR.with_borrow_mut(|e| { e.clear(); }) }

   [coded = false] is the INTENDED protocol (every failure writes the last error);
   [coded = true] is the code as it stands: the bool-returning wrappers whose body
   ends in `.is_ok()` drop the engine's error without writing it (finding F8). *)
From Coq Require Import List NArith Bool.
From WF Require Import Base.Bytes Sem.CString.
Import ListNotations.
Open Scope N_scope.

Inductive fn :=
| F_get_last_error | F_clear_last_error
| F_create_scheme_builder | F_free_scheme_builder
| F_create_primitive_type | F_create_map_type | F_create_array_type
| F_add_type_field_to_scheme | F_add_always_list_to_scheme | F_add_never_list_to_scheme
| F_build_scheme | F_free_scheme | F_free_string
| F_parse_filter | F_free_parsed_filter
| F_get_filter_hash | F_serialize_filter_to_json | F_serialize_scheme_to_json | F_serialize_type_to_json
| F_create_execution_context | F_serialize_execution_context_to_json
| F_deserialize_json_to_execution_context | F_free_execution_context
| F_add_json_value | F_add_int_value | F_add_bytes_value | F_add_ipv6_value | F_add_ipv4_value | F_add_bool_value
| F_compile_filter | F_match | F_free_compiled_filter
| F_filter_uses | F_filter_uses_list
| F_get_version
| F_set_panic_catcher_hook | F_set_panic_catcher_fallback_mode | F_enable_panic_catcher | F_disable_panic_catcher.

(* #[repr(C)] pub enum Status { Success = 0, Error, Panic } *)
Inductive status := StSuccess | StError | StPanic.

(* how a function reports: a result struct with a status, a bool, a pointer that
   is never NULL, a plain value (CType, static string), nothing, or the error pointer *)
Inductive kind := KStatus | KBool | KPtr | KValue | KUnit | KErrPtr.

Definition kind_of (f : fn) : kind :=
  match f with
  | F_get_last_error => KErrPtr
  | F_parse_filter | F_get_filter_hash | F_serialize_filter_to_json | F_serialize_scheme_to_json
  | F_serialize_type_to_json | F_serialize_execution_context_to_json | F_compile_filter | F_match
  | F_filter_uses | F_filter_uses_list => KStatus
  | F_add_type_field_to_scheme | F_add_always_list_to_scheme | F_add_never_list_to_scheme
  | F_deserialize_json_to_execution_context | F_add_json_value | F_add_int_value | F_add_bytes_value
  | F_add_ipv6_value | F_add_ipv4_value | F_add_bool_value | F_set_panic_catcher_fallback_mode => KBool
  | F_create_scheme_builder | F_build_scheme | F_create_execution_context => KPtr
  | F_create_primitive_type | F_create_map_type | F_create_array_type | F_get_version => KValue
  | F_clear_last_error | F_free_scheme_builder | F_free_scheme | F_free_string | F_free_parsed_filter
  | F_free_execution_context | F_free_compiled_filter | F_set_panic_catcher_hook
  | F_enable_panic_catcher | F_disable_panic_catcher => KUnit
  end.

(* `match catch_panic(AssertUnwindSafe(|| ...))`: the wrappers that run engine code
   which may call user-supplied functions *)
Definition catches (f : fn) : bool :=
  match f with
  | F_parse_filter | F_compile_filter | F_match | F_filter_uses | F_filter_uses_list => true
  | _ => false
  end.

(* The status stored for the `Err(err)` arm of catch_panic.
     impl UsingResult { const PANIC: Self = Self { status: Status::Error, used: false }; }
   is what wirefilter_filter_uses returns (observed; `uses` runs no user code and is
   not in the property's list parse / compile / match, so this arm is unreachable). *)
Definition panic_status (f : fn) : status :=
  match f with
  | F_filter_uses => StError
  | _ => StPanic
  end.

(* where a call fails: in `to_str!` (the incoming name / text is not UTF-8: the macro
   itself calls write_last_error!) or in the engine call behind the wrapper *)
Inductive fail_site := AtToStr | AtEngine.

(* `let name = to_str!(ptr, len);` is the first statement of these wrappers *)
Definition takes_str (f : fn) : bool :=
  match f with
  | F_add_type_field_to_scheme | F_parse_filter | F_add_json_value | F_add_int_value | F_add_bytes_value
  | F_add_ipv6_value | F_add_ipv4_value | F_add_bool_value | F_filter_uses | F_filter_uses_list => true
  | _ => false
  end.

(* the engine call behind the wrapper returns a Result (or the wrapper validates its argument) *)
Definition engine_can_fail (f : fn) : bool :=
  match f with
  | F_add_type_field_to_scheme | F_add_always_list_to_scheme | F_add_never_list_to_scheme
  | F_parse_filter | F_get_filter_hash | F_serialize_filter_to_json | F_serialize_scheme_to_json
  | F_serialize_type_to_json | F_serialize_execution_context_to_json
  | F_deserialize_json_to_execution_context | F_add_json_value | F_add_int_value | F_add_bytes_value
  | F_add_ipv6_value | F_add_ipv4_value | F_add_bool_value | F_match | F_filter_uses | F_filter_uses_list
  | F_set_panic_catcher_fallback_mode => true
  | _ => false
  end.

(* F8: `builder.add_field(name, ty.into()).is_ok()`, `builder.add_list(..).is_ok()`,
   `exec_context.set_field_value_from_name(name, value).is_ok()` *)
Definition is_ok_fn (f : fn) : bool :=
  match f with
  | F_add_type_field_to_scheme | F_add_always_list_to_scheme | F_add_never_list_to_scheme
  | F_add_int_value | F_add_bytes_value | F_add_ipv6_value | F_add_ipv4_value | F_add_bool_value => true
  | _ => false
  end.

(* A formatted message is the list of fragments its Display implementation writes. *)
Definition message := list bytes.

Inductive outcome :=
| Success
| Failure (site : fail_site) (msg : message)
| Panicked (pre payload post : bytes).   (* the catcher's text is pre ++ payload ++ post *)

Inductive call := Call (f : fn) (o : outcome).

(* Outcomes that can happen at all for a function. *)
Definition admissible (c : call) : bool :=
  match c with
  | Call f Success => true
  | Call f (Failure AtToStr _) => takes_str f
  | Call f (Failure AtEngine _) => engine_can_fail f
  | Call f (Panicked _ _ _) => true
  end.

(* what the caller gets back *)
Inductive ret :=
| RStatus (s : status)
| RBool (b : bool)
| RPtr                       (* non-NULL *)
| RValue
| RUnit
| RErrPtr (p : option (list N))   (* wirefilter_get_last_error: NULL or the buffer *)
| RAbort                     (* the panic reached the extern "C" boundary: the process dies *)
| RNotRun.                   (* after an abort nothing runs any more *)

Definition ret_success (f : fn) : ret :=
  match kind_of f with
  | KStatus => RStatus StSuccess
  | KBool => RBool true
  | KPtr => RPtr
  | KValue => RValue
  | KUnit => RUnit
  | KErrPtr => RUnit
  end.

Definition ret_failure (f : fn) : ret :=
  match kind_of f with
  | KStatus => RStatus StError
  | KBool => RBool false
  | KPtr => RPtr
  | KValue => RValue
  | KUnit => RUnit
  | KErrPtr => RUnit
  end.

(* per-thread state: LAST_ERROR and (engine/src/panic.rs) PANIC_CATCHER_ENABLED *)
Record tstate := mk_tstate { t_err : cstring; t_enabled : bool }.

Definition init_tstate : tstate := mk_tstate cs_new false.

(* write_last_error!: clear, then one append per fragment *)
Definition write_last_error (st : tstate) (msg : message) : tstate :=
  mk_tstate (cs_write_fmt (cs_clear (t_err st)) msg) (t_enabled st).

(* does this failure path write the last error? *)
Definition writes (coded : bool) (f : fn) (site : fail_site) : bool :=
  match site with
  | AtToStr => true
  | AtEngine => negb (coded && is_ok_fn f)
  end.

(* catch_panic's Err text.  With the hook installed it is the recorded backtrace
   ("thread '..' panicked at '<payload>' in file ..."), otherwise the fixed text. *)
Definition unknown_panic_text : bytes :=
  [116;104;114;101;97;100;32;39;60;117;110;107;110;111;119;110;62;39;32;112;97;110;105;99;107;101;100].

Definition panic_text (hook : bool) (pre payload post : bytes) : message :=
  if hook then [pre ++ payload ++ post] else [unknown_panic_text].

(* process-wide state: the panic hook (Once), whether the process is still alive *)
Record pstate := mk_pstate { p_hook : bool; p_dead : bool }.

(* One call on one thread. *)
Definition step (coded : bool) (p : pstate) (st : tstate) (c : call) : pstate * tstate * ret :=
  if p_dead p then (p, st, RNotRun) else
  match c with
  | Call f o =>
      match o with
      | Panicked pre payload post =>
          if catches f && t_enabled st
          then (p, write_last_error st (panic_text (p_hook p) pre payload post), RStatus (panic_status f))
          else (mk_pstate (p_hook p) true, st, RAbort)
      | Failure site msg =>
          (p, (if writes coded f site then write_last_error st msg else st), ret_failure f)
      | Success =>
          match f with
          | F_get_last_error => (p, st, RErrPtr (cs_as_c_str (t_err st)))
          | F_clear_last_error => (p, mk_tstate (cs_clear (t_err st)) (t_enabled st), RUnit)
          | F_enable_panic_catcher => (p, mk_tstate (t_err st) true, RUnit)
          | F_disable_panic_catcher => (p, mk_tstate (t_err st) false, RUnit)
          | F_set_panic_catcher_hook => (mk_pstate true (p_dead p), st, RUnit)
          | _ => (p, st, ret_success f)
          end
      end
  end.

(* an observation: what the call returned and the caller's own last-error buffer
   right after the call *)
Definition obs := (ret * cstring)%type.

Fixpoint run (coded : bool) (p : pstate) (st : tstate) (h : list call) : list obs * pstate * tstate :=
  match h with
  | [] => ([], p, st)
  | c :: h' =>
      let '(p1, st1, r) := step coded p st c in
      let '(os, p2, st2) := run coded p1 st1 h' in
      ((r, t_err st1) :: os, p2, st2)
  end.

(* ---- two threads ---- *)

Inductive tid := TA | TB.

Record gstate := mk_gstate { g_p : pstate; g_a : tstate; g_b : tstate }.

Definition g_thread (g : gstate) (t : tid) : tstate :=
  match t with TA => g_a g | TB => g_b g end.

Definition gstep (coded : bool) (g : gstate) (t : tid) (c : call) : gstate * ret :=
  let '(p1, st1, r) := step coded (g_p g) (g_thread g t) c in
  (match t with
   | TA => mk_gstate p1 st1 (g_b g)
   | TB => mk_gstate p1 (g_a g) st1
   end, r).

(* An interleaving: the schedule says whose next call runs; a thread whose history
   is exhausted is skipped.  Observations are collected per thread. *)
Fixpoint interleave (coded : bool) (sched : list tid) (g : gstate) (ha hb : list call)
  : list obs * list obs * gstate * list call * list call :=
  match sched with
  | [] => ([], [], g, ha, hb)
  | TA :: sched' =>
      match ha with
      | [] => interleave coded sched' g ha hb
      | c :: ha' =>
          let '(g1, r) := gstep coded g TA c in
          let '(oa, ob, g2, ra, rb) := interleave coded sched' g1 ha' hb in
          ((r, t_err (g_a g1)) :: oa, ob, g2, ra, rb)
      end
  | TB :: sched' =>
      match hb with
      | [] => interleave coded sched' g ha hb
      | c :: hb' =>
          let '(g1, r) := gstep coded g TB c in
          let '(oa, ob, g2, ra, rb) := interleave coded sched' g1 ha hb' in
          (oa, (r, t_err (g_b g1)) :: ob, g2, ra, rb)
      end
  end.
