(* The registry model and the registry specification once more, arranged so that
   a history of n registrations costs O(n) list cells instead of O(n^2): vectors
   are kept newest first with their length beside them, responses are collected
   newest first, and everything is turned round once at the end.  These are the
   functions the extracted runner executes on long histories; Proofs/
   RegistryFastProofs.v shows that they compute exactly run_ops / spec_run_ops.
   No proofs here. *)
From Coq Require Import List NArith Bool Arith.
From WF Require Import Base.Bytes Lang.Types Sem.Registry Spec.C16.
Import ListNotations.

(* ---- model ---- *)
Record fbuilder := {
  f_fields : list field_def;          (* newest first *)
  f_nfields : nat;
  f_functions : list bytes;           (* newest first *)
  f_nfunctions : nat;
  f_items : list (bytes * item);
  f_list_types : list (ty * nat);
  f_lists : list (ty * list_kind);    (* newest first *)
  f_nlists : nat;
}.

Definition empty_fbuilder : fbuilder :=
  {| f_fields := []; f_nfields := 0; f_functions := []; f_nfunctions := 0; f_items := [];
     f_list_types := []; f_lists := []; f_nlists := 0 |}.

Definition to_builder (f : fbuilder) : builder :=
  {| b_fields := rev' (f_fields f);
     b_functions := rev' (f_functions f);
     b_items := f_items f;
     b_list_types := f_list_types f;
     b_lists := rev' (f_lists f) |}.

Definition fadd_field_full (f : fbuilder) (name : bytes) (t : ty) (optional : bool) : add_result * fbuilder :=
  match map_get bytes_eqb name (f_items f) with
  | Some (IField _) => (AddErr RedefField, f)
  | Some (IFunction _) => (AddErr RedefFunction, f)
  | None =>
      (AddOk,
       {| f_fields := {| fd_name := name; fd_ty := t; fd_optional := optional |} :: f_fields f;
          f_nfields := S (f_nfields f);
          f_functions := f_functions f; f_nfunctions := f_nfunctions f;
          f_items := map_insert_vacant name (IField (f_nfields f)) (f_items f);
          f_list_types := f_list_types f; f_lists := f_lists f; f_nlists := f_nlists f |})
  end.

Definition fadd_function (f : fbuilder) (name : bytes) : add_result * fbuilder :=
  match map_get bytes_eqb name (f_items f) with
  | Some (IField _) => (AddErr RedefField, f)
  | Some (IFunction _) => (AddErr RedefFunction, f)
  | None =>
      (AddOk,
       {| f_fields := f_fields f; f_nfields := f_nfields f;
          f_functions := name :: f_functions f; f_nfunctions := S (f_nfunctions f);
          f_items := map_insert_vacant name (IFunction (f_nfunctions f)) (f_items f);
          f_list_types := f_list_types f; f_lists := f_lists f; f_nlists := f_nlists f |})
  end.

Definition fadd_list (f : fbuilder) (t : ty) (k : list_kind) : add_result * fbuilder :=
  match map_get ty_eqb t (f_list_types f) with
  | Some _ => (AddErr RedefList, f)
  | None =>
      (AddOk,
       {| f_fields := f_fields f; f_nfields := f_nfields f;
          f_functions := f_functions f; f_nfunctions := f_nfunctions f;
          f_items := f_items f;
          f_list_types := map_insert_vacant t (f_nlists f) (f_list_types f);
          f_lists := (t, k) :: f_lists f; f_nlists := S (f_nlists f) |})
  end.

Definition fapply_op (f : fbuilder) (o : reg_op) : add_result * fbuilder :=
  match o with
  | OpField n t => fadd_field_full f n t false
  | OpOField n t => fadd_field_full f n t true
  | OpFn n => fadd_function f n
  | OpList t k => fadd_list f t k
  end.

(* responses so far, newest first *)
Definition fstep (st : list add_result * fbuilder) (o : reg_op) : list add_result * fbuilder :=
  let r := fapply_op (snd st) o in (fst r :: fst st, snd r).

Definition run_ops_fast (ops : list reg_op) : list add_result * builder :=
  let st := fold_left fstep ops ([], empty_fbuilder) in (rev' (fst st), to_builder (snd st)).

(* ---- specification: the registry newest first ---- *)

(* which kind of registration, if any, holds name n: the oldest one that bears it
   (walking from the newest, a later find overrides an earlier one) *)
Definition kind_of_reg (n : bytes) (r : registration) : option bool :=
  match r with
  | RegField m _ _ => if bytes_eqb n m then Some true else None
  | RegFunction m => if bytes_eqb n m then Some false else None
  | RegList _ _ => None
  end.

Definition oldest_kind (lr : registry) (n : bytes) : option bool :=
  fold_left (fun acc r => match kind_of_reg n r with Some k => Some k | None => acc end) lr None.

Definition has_list_rev (lr : registry) (t : ty) : bool :=
  existsb (fun r => match r with RegList t' _ => ty_eqb t t' | _ => false end) lr.

Definition fspec_add_named (lr : registry) (n : bytes) (r : registration) : add_result * registry :=
  match oldest_kind lr n with
  | Some true => (AddErr RedefField, lr)
  | Some false => (AddErr RedefFunction, lr)
  | None => (AddOk, r :: lr)
  end.

Definition fspec_apply (lr : registry) (o : reg_op) : add_result * registry :=
  match o with
  | OpField n t => fspec_add_named lr n (RegField n t false)
  | OpOField n t => fspec_add_named lr n (RegField n t true)
  | OpFn n => fspec_add_named lr n (RegFunction n)
  | OpList t k => if has_list_rev lr t then (AddErr RedefList, lr) else (AddOk, RegList t k :: lr)
  end.

Definition fspec_step (st : list add_result * registry) (o : reg_op) : list add_result * registry :=
  let r := fspec_apply (snd st) o in (fst r :: fst st, snd r).

Definition spec_run_ops_fast (ops : list reg_op) : list add_result * registry :=
  let st := fold_left fspec_step ops ([], []) in (rev' (fst st), rev' (snd st)).
