(* Model of the JSON form of execution contexts, on JSON trees
   (engine/src/execution_context.rs:293-535, types.rs:780-828,
   lhs_types/bytes.rs:250-346, lhs_types/array.rs:386-440,
   lhs_types/map.rs:334-487, and the serde impls of std / serde they reach).
   One definition per Rust function; the Rust source is quoted in the
   comments.  No proofs here.

   The JSON tree, the [result] type, the type descriptors ([type_to_json],
   [type_of_json]) and the way a document reaches the deserializer ([supply])
   come from Sem/TypeCodec.v (C15); the text layer is Sem/JsonText.v.

   Numbers: a [JNum z] is an integer literal.  serde_json reads an integer
   literal as u64 / i64 when it fits and as f64 otherwise, and none of the
   targets below (i64, u8) accepts an f64: "fits the target" is the only rule.
   ("-0" and literals with a fraction or an exponent are f64 as well; the text
   layer reports them as syntax errors, which is the same answer here.) *)
From Coq Require Import List NArith ZArith Bool String.
From WF Require Import Base.Bytes Base.Sexp Sem.RangeSet Lang.Types Lang.Context Sem.TypeCodec Parse.Lex.
Import ListNotations.
Open Scope N_scope.

(* ------------------------------------------------------------------ *)
(* std: str::from_utf8, Display of addresses                            *)

(* core::str::from_utf8(bytes).is_ok() is [utf8_valid] of Parse/Lex.v: well-formed
   UTF-8 (no overlong form, no surrogate, nothing above U+10FFFF) *)

(* impl Display for Ipv4Addr: four decimal octets *)
Definition octet (a : Z) (i : Z) : N := Z.to_N ((a / 256 ^ i) mod 256).
Definition show_v4 (a : Z) : bytes :=
  print_N (octet a 3) ++ [46] ++ print_N (octet a 2) ++ [46] ++ print_N (octet a 1) ++ [46] ++ print_N (octet a 0).

(* Ipv6Addr::segments *)
Definition group (a : Z) (i : Z) : Z := (a / 65536 ^ i) mod 65536.
Definition groups_of (a : Z) : list Z :=
  [group a 7; group a 6; group a 5; group a 4; group a 3; group a 2; group a 1; group a 0].

(* write!(f, "{:x}", segment) for a u16 *)
Definition show_hex16 (g : Z) : bytes :=
  let n := Z.to_N g in
  let d3 := n / 4096 in
  let d2 := (n / 256) mod 16 in
  let d1 := (n / 16) mod 16 in
  let d0 := n mod 16 in
  if 0 <? d3 then [hex_digit d3; hex_digit d2; hex_digit d1; hex_digit d0]
  else if 0 <? d2 then [hex_digit d2; hex_digit d1; hex_digit d0]
  else if 0 <? d1 then [hex_digit d1; hex_digit d0]
  else [hex_digit d0].

(* fn fmt_subslice(f, chunk: &[u16]): the groups separated by ':' *)
Fixpoint join_colon (l : list bytes) : bytes :=
  match l with
  | [] => []
  | [x] => x
  | x :: r => x ++ 58 :: join_colon r
  end.

(* let zeroes = { let mut longest = Span::default(); let mut current = Span::default();
     for (i, &segment) in segments.iter().enumerate() {
         if segment == 0 {
             if current.len == 0 { current.start = i; }
             current.len += 1;
             if current.len > longest.len { longest = current; }
         } else { current = Span::default(); } }
     longest };
   a span is (start, len) *)
Fixpoint zero_span (gs : list Z) (i : nat) (cur longest : nat * nat) : nat * nat :=
  match gs with
  | [] => longest
  | g :: r =>
      if (g =? 0)%Z then
        let cur' := (if Nat.eqb (snd cur) 0 then i else fst cur, S (snd cur)) in
        let longest' := if Nat.ltb (snd longest) (snd cur') then cur' else longest in
        zero_span r (S i) cur' longest'
      else zero_span r (S i) (O, O) longest
  end.

(* impl Display for Ipv6Addr (no width / precision):
     if let Some(ipv4) = self.to_ipv4_mapped() { write!(f, "::ffff:{}", ipv4) }
     else { ... if zeroes.len > 1 {
                   fmt_subslice(f, &segments[..zeroes.start])?; f.write_str("::")?;
                   fmt_subslice(f, &segments[zeroes.start + zeroes.len..])
               } else { fmt_subslice(f, &segments) } } *)
Definition n_v4mapped : bytes := bytes_of_string "::ffff:".
(* Ipv6Addr::to_ipv4_mapped: match self.octets() { [0, 0, 0, 0, 0, 0, 0, 0, 0, 0, 0xff, 0xff, a, b, c, d] => Some(..) } *)
Definition is_v4_mapped (a : Z) : bool :=
  (group a 7 =? 0)%Z && (group a 6 =? 0)%Z && (group a 5 =? 0)%Z && (group a 4 =? 0)%Z && (group a 3 =? 0)%Z
  && (group a 2 =? 65535)%Z.
Definition show_v6 (a : Z) : bytes :=
  let gs := groups_of a in
  if is_v4_mapped a then n_v4mapped ++ show_v4 (group a 1 * 65536 + group a 0)
  else
    let (start, len) := zero_span gs 0 (O, O) (O, O) in
    if Nat.ltb 1 len then
      join_colon (map show_hex16 (firstn start gs)) ++ [58; 58]
      ++ join_colon (map show_hex16 (skipn (start + len) gs))
    else join_colon (map show_hex16 gs).

(* impl Serialize for IpAddr (human readable): the Display text *)
Definition show_ip (a : ip) : bytes :=
  match a with V4 x => show_v4 x | V6 x => show_v6 x end.

(* ------------------------------------------------------------------ *)
(* primitives                                                           *)

Definition I64_LO : Z := -9223372036854775808.
Definition I64_HI : Z := 9223372036854775807.

(* i64::deserialize: visit_i64 / visit_u64 with a range check; a float, a
   string, ... is an invalid type *)
Definition int_of_json (j : json) : result Z :=
  match j with
  | JNum z => if (I64_LO <=? z)%Z && (z <=? I64_HI)%Z then Ok z else Err
  | _ => Err
  end.

(* u8::deserialize *)
Definition u8_of_json (j : json) : result N :=
  match j with
  | JNum z => if (0 <=? z)%Z && (z <? 256)%Z then Ok (Z.to_N z) else Err
  | _ => Err
  end.

(* bool::deserialize: the literals true / false only *)
Definition bool_of_json (j : json) : result bool :=
  match j with JBool b => Ok b | _ => Err end.

(* IpAddr::deserialize (human readable): deserialize_str + FromStr *)
Definition ip_of_json (j : json) : result ip :=
  match j with
  | JStr s => match parse_addr s with Some a => Ok a | None => Err end
  | _ => Err
  end.

Fixpoint all_ok {A B} (f : A -> result B) (l : list A) : result (list B) :=
  match l with
  | [] => Ok []
  | x :: r =>
      match f x with
      | Ok y => match all_ok f r with Ok ys => Ok (y :: ys) | Err => Err end
      | Err => Err
      end
  end.

Definition nums (b : bytes) : json := JArr (map (fun x => JNum (Z.of_N x)) b).

(* impl Serialize for LhsValue, arm Bytes (and impl Serialize for Bytes):
     if let Ok(s) = std::str::from_utf8(bytes) { serializer.serialize_str(s) }
     else { serializer.serialize_bytes(bytes) }          // serde_json: an array of numbers *)
Definition bytes_to_json (b : bytes) : json :=
  if utf8_valid b then JStr b else nums b.

(* Bytes::deserialize = deserializer.deserialize_bytes(BytesVisitor):
   serde_json hands a string to visit_(borrowed_)bytes / visit_str and an array
   to visit_seq, anything else is an invalid type;
     visit_seq: while let Some(val) = seq.next_element()? { vec.push(val) }   // val: u8 *)
Definition bytes_of_json (j : json) : result bytes :=
  match j with
  | JStr s => Ok s
  | JArr l => all_ok u8_of_json l
  | _ => Err
  end.

(* ------------------------------------------------------------------ *)
(* values                                                               *)

(* impl Serialize for LhsValue / Array / Map.
   Array: serialize_seq of the elements.
   Map:  let to_map = self.data.iter().all(|(key, _)| std::str::from_utf8(key).is_ok());
         if to_map { serialize_map: (from_utf8(k).unwrap(), v) for each entry }
         else { keys.sort(); serialize_seq: &[&LhsValue::Bytes(key.into()), self.data.get(key).unwrap()] }
   The entries of the BTreeMap are the association list, in ascending key
   order, so the sort changes nothing. *)
Fixpoint value_to_json (v : value) : json :=
  match v with
  | VBool b => JBool b
  | VBytes b => bytes_to_json b
  | VInt z => JNum z
  | VIp a => JStr (show_ip a)
  | VArray _ l => JArr (map value_to_json l)
  | VMap _ l =>
      if forallb (fun kv : bytes * value => utf8_valid (fst kv)) l
      then JObj (map (fun kv : bytes * value => (fst kv, value_to_json (snd kv))) l)
      else JArr (map (fun kv : bytes * value => JArr [bytes_to_json (fst kv); value_to_json (snd kv)]) l)
  end.

(* impl DeserializeSeed for LhsValueSeed<'_>: directed by the type.
     Type::Ip => IpAddr::deserialize, Type::Int => i64::deserialize,
     Type::Bool => bool::deserialize, Type::Bytes => Bytes::deserialize,
     Type::Array(ty) => { let mut arr = Array::new( *ty); arr.deserialize(deserializer)?; arr }
     Type::Map(ty) => { let mut map = Map::new( *ty); map.deserialize(deserializer)?; map }
   Array (deserialize_seq, ArrayVisitor::visit_seq):
     while let Some(elem) = seq.next_element_seed(LhsValueSeed(&value_type))? {
         if value_type != elem.get_type() { return Err(..) }  vec.push(elem) }
   Map (deserialize_struct("", &[], MapVisitor): an object or an array):
     visit_map: while let Some(key) = access.next_key::<Cow<str>>()? {
                    let value = access.next_value_seed(LhsValueSeed(&value_type))?;
                    if value.get_type() != value_type { return Err(..) }
                    map.insert(key.into_owned().into_bytes().into(), value) }
     visit_seq: while let Some((key, value)) = seq.next_element_seed(MapEntrySeed(&value_type))? {
                    if value.get_type() != value_type { return Err(..) }
                    map.insert(key.into_owned(), value) }
     MapEntrySeed (deserialize_seq): key = next_element::<Bytes>() or invalid_length(0),
                    value = next_element_seed(LhsValueSeed) or invalid_length(1);
                    a third element is "trailing characters" / invalid length.
   BTreeMap::insert: a repeated key keeps the last value ([bt_insert]). *)
Definition elem_checked (t : ty) (r : result value) : result value :=
  match r with
  | Ok v => if ty_eqb (type_of v) t then Ok v else Err
  | Err => Err
  end.

Fixpoint value_of_json (t : ty) (j : json) {struct j} : result value :=
  match t with
  | TBool => match bool_of_json j with Ok b => Ok (VBool b) | Err => Err end
  | TInt => match int_of_json j with Ok z => Ok (VInt z) | Err => Err end
  | TBytes => match bytes_of_json j with Ok b => Ok (VBytes b) | Err => Err end
  | TIp => match ip_of_json j with Ok a => Ok (VIp a) | Err => Err end
  | TArray e =>
      match j with
      | JArr l =>
          match (fix go (l : list json) : result (list value) :=
                   match l with
                   | [] => Ok []
                   | x :: r =>
                       match elem_checked e (value_of_json e x) with
                       | Ok v => match go r with Ok vs => Ok (v :: vs) | Err => Err end
                       | Err => Err
                       end
                   end) l with
          | Ok vs => Ok (VArray e vs)
          | Err => Err
          end
      | _ => Err
      end
  | TMap e =>
      match j with
      | JObj es =>
          match (fix go (es : list (bytes * json)) (m : list (bytes * value)) : result (list (bytes * value)) :=
                   match es with
                   | [] => Ok m
                   | (k, x) :: r =>
                       match elem_checked e (value_of_json e x) with
                       | Ok v => go r (bt_insert k v m)
                       | Err => Err
                       end
                   end) es [] with
          | Ok m => Ok (VMap e m)
          | Err => Err
          end
      | JArr ps =>
          match (fix go (ps : list json) (m : list (bytes * value)) : result (list (bytes * value)) :=
                   match ps with
                   | [] => Ok m
                   | JArr [jk; x] :: r =>
                       match bytes_of_json jk with
                       | Ok k =>
                           match elem_checked e (value_of_json e x) with
                           | Ok v => go r (bt_insert k v m)
                           | Err => Err
                           end
                       | Err => Err
                       end
                   | _ :: _ => Err
                   end) ps [] with
          | Ok m => Ok (VMap e m)
          | Err => Err
          end
      | _ => Err
      end
  end.

(* ------------------------------------------------------------------ *)
(* list matchers                                                        *)

Definition n_lists := bytes_of_string "$lists".
Definition n_data := bytes_of_string "data".
Definition n_sets := bytes_of_string "sets".
Definition n_I := bytes_of_string "I".
Definition n_B := bytes_of_string "B".

(* harness/src/lang.rs:
     #[derive(Serialize, Deserialize)] pub enum SetVal { I(i64), B(Vec<u8>), Ip(IpAddr) }
     #[derive(Serialize, Deserialize)] pub struct SetMatcher { pub sets: BTreeMap<String, Vec<SetVal>> }
   SetVal::of gives None for a Bool / Array / Map: such a set is not a matcher state. *)
Definition setval_to_json (v : value) : json :=
  match v with
  | VInt z => JObj [(n_I, JNum z)]
  | VBytes b => JObj [(n_B, nums b)]
  | VIp a => JObj [(n_Ip, JStr (show_ip a))]
  | _ => JNull
  end.

(* #[derive(Serialize)] struct AlwaysListMatcher {} / NeverListMatcher {}: "{}" *)
Definition matcher_to_json (m : matcher) : json :=
  match m with
  | MAlways | MNever => JObj []
  | MSet sets =>
      JObj [(n_sets, JObj (map (fun s : bytes * list value => (fst s, JArr (map setval_to_json (snd s)))) sets))]
  end.

(* derived Deserialize of an externally tagged enum through serde_json's
   deserialize_enum: an object with exactly one key, the variant; a string would
   be a unit variant, and there is none *)
Definition setval_of_json (j : json) : result value :=
  match j with
  | JObj [(k, x)] =>
      if bytes_eqb k n_I then match int_of_json x with Ok z => Ok (VInt z) | Err => Err end
      else if bytes_eqb k n_B then
        (* Vec<u8>::deserialize: a sequence only *)
        match x with
        | JArr l => match all_ok u8_of_json l with Ok b => Ok (VBytes b) | Err => Err end
        | _ => Err
        end
      else if bytes_eqb k n_Ip then match ip_of_json x with Ok a => Ok (VIp a) | Err => Err end
      else Err
  | _ => Err
  end.

(* BTreeMap<String, Vec<SetVal>>::deserialize: an object; a repeated key keeps the last value *)
Fixpoint sets_of_entries (es : list (bytes * json)) (m : list (bytes * list value))
  : result (list (bytes * list value)) :=
  match es with
  | [] => Ok m
  | (k, x) :: r =>
      match x with
      | JArr l =>
          match all_ok setval_of_json l with
          | Ok vs => sets_of_entries r (bt_insert k vs m)
          | Err => Err
          end
      | _ => Err
      end
  end.

Definition sets_of_json (j : json) : result (list (bytes * list value)) :=
  match j with
  | JObj es => sets_of_entries es []
  | _ => Err
  end.

(* derived visit_map of SetMatcher: "sets" at most once (duplicate field), other
   keys ignored, "sets" required *)
Fixpoint setmatcher_of_entries (es : list (bytes * json)) (acc : option (list (bytes * list value)))
  : result matcher :=
  match es with
  | [] => match acc with Some s => Ok (MSet s) | None => Err end
  | (k, x) :: r =>
      if bytes_eqb k n_sets then
        match acc with
        | Some _ => Err
        | None => match sets_of_json x with Ok s => setmatcher_of_entries r (Some s) | Err => Err end
        end
      else setmatcher_of_entries r acc
  end.

(* ListDefinition::deserialize_matcher of the three definitions
   (erased_serde::deserialize::<M>): a derived struct is read from an object
   (visit_map) or from an array of its fields in order (visit_seq; a left-over
   element is an error).  A struct without fields accepts any object and []. *)
Definition matcher_of_json (k : list_kind) (j : json) : result matcher :=
  match k with
  | LkAlways => match j with JObj _ | JArr [] => Ok MAlways | _ => Err end
  | LkNever => match j with JObj _ | JArr [] => Ok MNever | _ => Err end
  | LkSet =>
      match j with
      | JObj es => setmatcher_of_entries es None
      | JArr [x] => match sets_of_json x with Ok s => Ok (MSet s) | Err => Err end
      | _ => Err
      end
  end.

(* ListDefinition::new_matcher *)
Definition new_matcher (k : list_kind) : matcher :=
  match k with LkAlways => MAlways | LkNever => MNever | LkSet => MSet [] end.

(* ------------------------------------------------------------------ *)
(* contexts                                                             *)

(* three outcomes of the code that indexes slices: done, refused, panicked *)
Inductive outcome (A : Type) := Done (a : A) | Refused | Panicked.
Arguments Done {A} a.
Arguments Refused {A}.
Arguments Panicked {A}.

(* slice[i] = x: out of bounds is a panic *)
Fixpoint store {A} (l : list A) (n : nat) (x : A) : option (list A) :=
  match l, n with
  | [], _ => None
  | _ :: r, O => Some (x :: r)
  | y :: r, S n' => match store r n' x with Some r' => Some (y :: r') | None => None end
  end.

(* impl Serialize for ExecutionContext:
     let mut map = serializer.serialize_map(Some(self.values.len()))?;
     for field in self.scheme().fields() {
         if let Some(Some(value)) = self.values.get(field.index()) { map.serialize_entry(field.name(), value)?; } }
     if !self.list_matchers.is_empty() { map.serialize_entry("$lists", &ListMatcherSlice(..))?; }
   ListMatcherSlice: for list in self.0.lists() {
         seq.serialize_element(&TypedListMatcher { ty: list.get_type(), data: &*self.1[list.index()] })?; }
   TypedListMatcher is a derived struct: {"type": .., "data": ..} in that order. *)
Fixpoint field_entries (fds : list field_def) (vals : list (option value)) : list (bytes * json) :=
  match fds, vals with
  | fd :: fds', Some v :: vals' => (fd_name fd, value_to_json v) :: field_entries fds' vals'
  | _ :: fds', None :: vals' => field_entries fds' vals'
  | _, _ => []
  end.

Definition list_entry (t : ty) (m : matcher) : json :=
  JObj [(n_type, type_to_json t); (n_data, matcher_to_json m)].

Fixpoint list_entries (ls : list (ty * list_kind)) (ms : list matcher) : list json :=
  match ls, ms with
  | (t, _) :: ls', m :: ms' => list_entry t m :: list_entries ls' ms'
  | _, _ => []
  end.

Definition ctx_to_json (sch : scheme) (c : ctx) : json :=
  JObj (field_entries (sc_fields sch) (cx_vals c)
        ++ match cx_lists c with
           | [] => []
           | _ => [(n_lists, JArr (list_entries (sc_lists sch) (cx_lists c)))]
           end).

(* ExecutionContext::new: vec![None; scheme.field_count()], one new_matcher per list *)
Definition fresh_ctx (sch : scheme) : ctx :=
  {| cx_vals := map (fun _ => None) (sc_fields sch);
     cx_lists := map (fun l => new_matcher (snd l)) (sc_lists sch) |}.

(* Scheme::get_field(name): the field registered under the name, with its index *)
Fixpoint lookup_field_from (fds : list field_def) (name : bytes) (i : nat) : option (nat * field_def) :=
  match fds with
  | [] => None
  | fd :: r => if bytes_eqb name (fd_name fd) then Some (i, fd) else lookup_field_from r name (S i)
  end.
Definition lookup_field (sch : scheme) (name : bytes) : option (nat * field_def) :=
  lookup_field_from (sc_fields sch) name 0.

(* ListMatcherEntryVisitor::visit_map:
     let Some(key) = access.next_key::<Cow<str>>()? else { return Err(missing_field("type")) };
     if key != "type" { return Err(unknown_field(..)) }
     let ty = access.next_value::<Type>()?;
     let Some(list) = self.0.get_list(&ty) else { return Err("no list defined for type") };
     let Some(key) = access.next_key::<Cow<str>>()? else { return Err(missing_field("data")) };
     if key != "data" { return Err(unknown_field(..)) }
     let matcher = access.next_value_seed(ListMatcherData(list))?;
     self.1[list.index()] = matcher;
     Ok(())
   reached through deserialize_struct: only an object is visited (visit_seq is
   not implemented), and serde_json refuses members left unread after
   visit_map returns ("trailing characters" / invalid length). *)
Definition list_entry_of_json (sch : scheme) (j : json) (ms : list matcher) : outcome (list matcher) :=
  match j with
  | JObj ((k1, tj) :: rest) =>
      if bytes_eqb k1 n_type then
        match type_of_json tj with
        | Ok t =>
            match list_index sch t with
            | Some i =>
                match rest with
                | (k2, dj) :: rest' =>
                    if bytes_eqb k2 n_data then
                      match nth_error (sc_lists sch) i with
                      | Some (_, kind) =>
                          match matcher_of_json kind dj with
                          | Ok m =>
                              match store ms i m with
                              | Some ms' => match rest' with [] => Done ms' | _ => Refused end
                              | None => Panicked
                              end
                          | Err => Refused
                          end
                      | None => Panicked
                      end
                    else Refused
                | [] => Refused
                end
            | None => Refused
            end
        | Err => Refused
        end
      else Refused
  | _ => Refused
  end.

(* ListMatcherSliceVisitor::visit_seq (deserialize_seq: an array only):
     while let Some(()) = access.next_element_seed(ListMatcherEntry(self.0, self.1))? {} *)
Fixpoint list_entries_of_json (sch : scheme) (l : list json) (ms : list matcher) : outcome (list matcher) :=
  match l with
  | [] => Done ms
  | x :: r =>
      match list_entry_of_json sch x ms with
      | Done ms' => list_entries_of_json sch r ms'
      | Refused => Refused
      | Panicked => Panicked
      end
  end.

Definition lists_of_json (sch : scheme) (j : json) (ms : list matcher) : outcome (list matcher) :=
  match j with
  | JArr l => list_entries_of_json sch l ms
  | _ => Refused
  end.

(* ExecutionContextVisitor::visit_map:
     while let Some(key) = access.next_key::<Cow<str>>()? {
         if key == "$lists" {
             access.next_value_seed(ListMatcherSlice(&self.0.scheme, &mut self.0.list_matchers))?;
         } else {
             let field = self.0.scheme.get_field(&key).map_err(|_| custom("unknown field"))?;
             let value = access.next_value_seed(LhsValueSeed(&field.get_type()))?;
             self.0.set_field_value_from_name(&key, value).map_err(..)?;   // SchemeMismatch => unreachable!()
         } }
   set_field_value_from_name: get_field again, then
     if field_type == value_type { Ok(self.values[field.index()].replace(value)) } else { Err(TypeMismatch) } *)
Definition ctx_entry_of_json (sch : scheme) (k : bytes) (x : json) (c : ctx) : outcome ctx :=
  if bytes_eqb k n_lists then
    match lists_of_json sch x (cx_lists c) with
    | Done ms => Done {| cx_vals := cx_vals c; cx_lists := ms |}
    | Refused => Refused
    | Panicked => Panicked
    end
  else
    match lookup_field sch k with
    | Some (i, fd) =>
        match value_of_json (fd_ty fd) x with
        | Ok v =>
            if ty_eqb (fd_ty fd) (type_of v) then
              match store (cx_vals c) i (Some v) with
              | Some vals => Done {| cx_vals := vals; cx_lists := cx_lists c |}
              | None => Panicked
              end
            else Refused
        | Err => Refused
        end
    | None => Refused
    end.

Fixpoint ctx_entries_of_json (sch : scheme) (es : list (bytes * json)) (c : ctx) : outcome ctx :=
  match es with
  | [] => Done c
  | (k, x) :: r =>
      match ctx_entry_of_json sch k x c with
      | Done c' => ctx_entries_of_json sch r c'
      | Refused => Refused
      | Panicked => Panicked
      end
  end.

(* impl DeserializeSeed for &mut ExecutionContext: deserializer.deserialize_map(visitor),
   into the context [c] *)
Definition ctx_decode_into (sch : scheme) (c : ctx) (j : json) : outcome ctx :=
  match j with
  | JObj es => ctx_entries_of_json sch es c
  | _ => Refused
  end.

(* ... into a context fresh from ExecutionContext::new *)
Definition ctx_decode (sch : scheme) (j : json) : outcome ctx := ctx_decode_into sch (fresh_ctx sch) j.

(* the caller's view: Result<(), Error> (a panic would not be a result at all;
   C14_decode_never_panics shows there is none) *)
Definition ctx_of_json (sch : scheme) (j : json) : result ctx :=
  match ctx_decode sch j with Done c => Ok c | _ => Err end.
