(* The function library of the correspondence harness (harness/src/lang.rs
   defines the same functions against the real FunctionDefinition API).
   These are user code, i.e. fixtures: the theorems quantify over arbitrary
   type-correct implementations; these definitions only make cases runnable. *)
From Coq Require Import List ZArith NArith Bool String.
From WF Require Import Base.Bytes Base.Sexp Sem.RangeSet Lang.Types.
Import ListNotations.
Open Scope string_scope.
Open Scope list_scope.

Definition lower_byte (b : N) : N := if ((65 <=? b) && (b <=? 90))%N then (b + 32)%N else b.

Fixpoint ty_tag (t : ty) : bytes :=
  match t with
  | TBool => [98]%N | TBytes => [115]%N | TInt => [105]%N | TIp => [112]%N
  | TArray x => (97 :: ty_tag x)%N | TMap x => (109 :: ty_tag x)%N
  end.

(* a printable rendering of one received argument *)
Definition show_vres (r : vres) : bytes :=
  match r with
  | VOk (VBytes b) => (66 :: b ++ [59])%N
  | VOk (VInt z) => (73 :: print_Z z ++ [59])%N
  | VOk (VBool b) => (if b then [84; 59] else [70; 59])%N
  | VOk _ => [63; 59]%N
  | VAbsent t => (65 :: ty_tag t ++ [59])%N
  end.

(* ConcatFunction: concat_impl / concat_array / concat_bytes *)
Fixpoint concat_bytes (acc : bytes) (l : list vres) : bytes :=
  match l with
  | [] => acc
  | VOk (VBytes b) :: r => concat_bytes (acc ++ b) r
  | _ :: r => concat_bytes acc r
  end.
Fixpoint concat_array (acc : list value) (l : list vres) : option (list value) :=
  match l with
  | [] => Some acc
  | VOk (VArray _ x) :: r => concat_array (acc ++ x) r
  | VOk _ :: _ => None                     (* unreachable!() *)
  | VAbsent _ :: r => concat_array acc r
  end.
Fixpoint concat_impl (l : list vres) : option (option value) :=
  match l with
  | [] => Some None
  | VOk (VArray t x) :: r =>
      match concat_array x r with
      | Some all =>
          (* Array::try_from_vec(val_type, vec).unwrap() *)
          if forallb (fun v => ty_eqb (type_of v) t) all then Some (Some (VArray t all)) else None
      | None => None
      end
  | VOk (VBytes b) :: r => Some (Some (VBytes (concat_bytes b r)))
  | VAbsent _ :: r => concat_impl r
  | VOk _ :: _ => None
  end.

Definition simple (params : list (arg_kind * ty)) (opts : list (arg_kind * value)) (ret : ty)
           (impl : list vres -> option (option value)) : fn_def :=
  {| fn_params := params; fn_opt_params := opts; fn_ret := ret; fn_impl := impl;
     fn_variadic_same := false |}.

Definition first_ok (l : list vres) : option (option value) :=
  match l with
  | VOk v :: _ => Some (Some v)
  | _ => Some None
  end.

Definition lib_fn (name : bytes) : option fn_def :=
  let is s := bytes_eqb name (bytes_of_string s) in
  if is "echo" then Some (simple [(KField, TBytes)] [] TBytes first_ok)
  else if is "lower" then
    Some (simple [(KField, TBytes)] [] TBytes
            (fun l => match l with VOk (VBytes b) :: _ => Some (Some (VBytes (map lower_byte b))) | _ => Some None end))
  else if is "len" then
    Some (simple [(KField, TBytes)] [] TInt
            (fun l => match l with VOk (VBytes b) :: _ => Some (Some (VInt (Z.of_nat (List.length b)))) | _ => Some None end))
  else if is "echo_int" then Some (simple [(KBoth, TInt)] [] TInt first_ok)
  else if is "echo_ip" then Some (simple [(KBoth, TIp)] [] TIp first_ok)
  else if is "nonempty" then
    Some (simple [(KField, TBytes)] [] TBytes
            (fun l => match l with VOk (VBytes (x :: b)) :: _ => Some (Some (VBytes (x :: b))) | _ => Some None end))
  else if is "show" then
    Some (simple [(KField, TBytes)] [(KLiteral, VInt 10); (KBoth, VBytes [100]%N)] TBytes
            (fun l => Some (Some (VBytes (flat_map show_vres l)))))
  else if is "lit_only" then Some (simple [(KLiteral, TInt)] [] TInt first_ok)
  else if is "echo_ab" then Some (simple [(KField, TArray TBool)] [] (TArray TBool) first_ok)
  else if is "echo_mb" then Some (simple [(KField, TMap TBool)] [] (TMap TBool) first_ok)
  else if is "echo_b" then Some (simple [(KField, TBool)] [] TBool first_ok)
  else if is "tagb" then
    (* a Bool parameter (so the argument may be a whole comparison) and a Bytes result
       (so the call can stand on the left of `in $list`, `contains`, ...) *)
    Some (simple [(KField, TBool)] [] TBytes
            (fun l => match l with
                      | VOk (VBool true) :: _ => Some (Some (VBytes [84]%N))
                      | VOk (VBool false) :: _ => Some (Some (VBytes [70]%N))
                      | _ => Some None
                      end))
  else if is "count" then
    Some (simple [(KField, TArray TBytes)] [] TInt
            (fun l => match l with VOk (VArray _ x) :: _ => Some (Some (VInt (Z.of_nat (List.length x)))) | _ => Some None end))
  else if is "join2" then
    Some (simple [(KField, TBytes); (KBoth, TBytes)] [] TBytes
            (fun l => match l with
                      | VOk (VBytes a) :: VOk (VBytes b) :: _ => Some (Some (VBytes (a ++ b)))
                      | VOk (VBytes a) :: _ => Some (Some (VBytes a))
                      | _ => Some None
                      end))
  else if is "tally" then
    (* a definition with a per-call context: what was recorded while the two
       arguments were checked reaches the compiled function *)
    Some (simple [(KField, TBytes); (KBoth, TInt)] [] TBytes
            (fun l => match l with
                      | VOk (VBytes a) :: _ => Some (Some (VBytes (bytes_of_string "tally:0=Bytes;1=Int|" ++ a)))
                      | _ => Some None
                      end))
  else if is "tally0" then
    (* the same definition without parameters: the (empty) record still reaches the compiled function *)
    Some (simple [] [] TBytes (fun _ => Some (Some (VBytes (bytes_of_string "tally:|")))))
  else if is "boom" then
    Some (simple [(KField, TBytes)] [] TBytes
            (fun l => match l with
                      | VOk (VBytes b) :: _ => if bytes_eqb b (bytes_of_string "boom") then None else Some (Some (VBytes b))
                      | _ => Some None
                      end))
  else if is "concat" then
    Some {| fn_params := []; fn_opt_params := []; fn_ret := TBytes; fn_impl := concat_impl;
            fn_variadic_same := true |}
  else None.
