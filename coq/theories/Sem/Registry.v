(* Model of the scheme registry of engine/src/scheme.rs: SchemeBuilder
   (add_field_full, add_field, add_optional_field, add_function, add_list,
   build), the queries of Scheme (get, get_field, get_function, get_list,
   fields(), functions(), lists(), the counts, PartialEq), Identifier::lex_with,
   and what IdentifierExpr / IndexExpr / ComparisonExpr / FilterAst do with a
   lexed identifier when the text is `name` or `name()`.

   Vec = list (push at the end), HashMap = association list with exact keys
   (only `get` and the Entry API are used; iteration order is never observed),
   usize indexes = nat, Arc identity = an allocation number.  No proofs here. *)
From Coq Require Import List NArith Bool Arith.
From WF Require Import Base.Bytes Lang.Types.
Import ListNotations.
Open Scope N_scope.

(* ---- HashMap<K, V>: get / entry().insert on a vacant entry ---- *)
Fixpoint map_get {K V} (eqb : K -> K -> bool) (k : K) (m : list (K * V)) : option V :=
  match m with
  | [] => None
  | (k', v) :: m' => if eqb k k' then Some v else map_get eqb k m'
  end.
Definition map_insert_vacant {K V} (k : K) (v : V) (m : list (K * V)) : list (K * V) := (k, v) :: m.

(* enum SchemeItem { Field(usize), Function(usize) } *)
Inductive item := IField (i : nat) | IFunction (i : nat).

(* struct SchemeBuilder { fields, functions, items, list_types, lists, .. };
   a function definition is represented by its name only (the fixture is the
   same zero-parameter Bool function everywhere). *)
Record builder := {
  b_fields : list field_def;
  b_functions : list bytes;
  b_items : list (bytes * item);
  b_list_types : list (ty * nat);
  b_lists : list (ty * list_kind);
}.

Definition empty_builder : builder :=
  {| b_fields := []; b_functions := []; b_items := []; b_list_types := []; b_lists := [] |}.

(* IdentifierRedefinitionError::{Field, Function}, ListRedefinitionError *)
Inductive redef := RedefField | RedefFunction | RedefList.
Inductive add_result := AddOk | AddErr (e : redef).

(* fn add_field_full(&mut self, name, ty, optional):
     match self.items.entry(name) {
       Occupied(e) => match e.get() { Field(_) => Err(Field(..)), Function(_) => Err(Function(..)) },
       Vacant(e) => { let index = self.fields.len(); self.fields.push(..); e.insert(Field(index)); Ok(()) } } *)
Definition add_field_full (b : builder) (name : bytes) (t : ty) (optional : bool) : add_result * builder :=
  match map_get bytes_eqb name (b_items b) with
  | Some (IField _) => (AddErr RedefField, b)
  | Some (IFunction _) => (AddErr RedefFunction, b)
  | None =>
      let index := length (b_fields b) in
      (AddOk,
       {| b_fields := b_fields b ++ [{| fd_name := name; fd_ty := t; fd_optional := optional |}];
          b_functions := b_functions b;
          b_items := map_insert_vacant name (IField index) (b_items b);
          b_list_types := b_list_types b;
          b_lists := b_lists b |})
  end.

Definition add_field (b : builder) (name : bytes) (t : ty) := add_field_full b name t false.
Definition add_optional_field (b : builder) (name : bytes) (t : ty) := add_field_full b name t true.

(* fn add_function: the same Entry dance on the same `items` map, pushing to `functions`. *)
Definition add_function (b : builder) (name : bytes) : add_result * builder :=
  match map_get bytes_eqb name (b_items b) with
  | Some (IField _) => (AddErr RedefField, b)
  | Some (IFunction _) => (AddErr RedefFunction, b)
  | None =>
      let index := length (b_functions b) in
      (AddOk,
       {| b_fields := b_fields b;
          b_functions := b_functions b ++ [name];
          b_items := map_insert_vacant name (IFunction index) (b_items b);
          b_list_types := b_list_types b;
          b_lists := b_lists b |})
  end.

(* fn add_list(&mut self, ty, definition):
     match self.list_types.entry(ty) { Occupied(e) => Err(ListRedefinitionError(..)),
       Vacant(e) => { let index = self.lists.len(); self.lists.push((ty, def)); e.insert(index); Ok(()) } } *)
Definition add_list (b : builder) (t : ty) (k : list_kind) : add_result * builder :=
  match map_get ty_eqb t (b_list_types b) with
  | Some _ => (AddErr RedefList, b)
  | None =>
      let index := length (b_lists b) in
      (AddOk,
       {| b_fields := b_fields b;
          b_functions := b_functions b;
          b_items := b_items b;
          b_list_types := map_insert_vacant t index (b_list_types b);
          b_lists := b_lists b ++ [(t, k)] |})
  end.

(* ---- histories ---- *)
Inductive reg_op :=
| OpField (name : bytes) (t : ty)
| OpOField (name : bytes) (t : ty)
| OpFn (name : bytes)
| OpList (t : ty) (k : list_kind).

Definition apply_op (b : builder) (o : reg_op) : add_result * builder :=
  match o with
  | OpField n t => add_field b n t
  | OpOField n t => add_optional_field b n t
  | OpFn n => add_function b n
  | OpList t k => add_list b t k
  end.

(* responses so far (oldest first) and the current builder *)
Definition step (st : list add_result * builder) (o : reg_op) : list add_result * builder :=
  (fst st ++ [fst (apply_op (snd st) o)], snd (apply_op (snd st) o)).

Definition run_ops (ops : list reg_op) : list add_result * builder :=
  fold_left step ops ([], empty_builder).

(* ---- Scheme: queries (the scheme's content is the builder it was built from) ---- *)

(* Scheme::get: self.inner.items.get(name) *)
Definition scheme_get (b : builder) (name : bytes) : option item := map_get bytes_eqb name (b_items b).

Definition get_field (b : builder) (name : bytes) : option nat :=
  match scheme_get b name with Some (IField i) => Some i | _ => None end.

Definition get_function (b : builder) (name : bytes) : option nat :=
  match scheme_get b name with Some (IFunction i) => Some i | _ => None end.

(* Scheme::get_list: self.inner.list_types.get(ty) *)
Definition get_list (b : builder) (t : ty) : option nat := map_get ty_eqb t (b_list_types b).

(* FieldRef::name / get_type / optional: self.scheme.inner.fields[self.index];
   [None] is the slice-index panic. *)
Definition field_at (b : builder) (i : nat) : option field_def := nth_error (b_fields b) i.
Definition function_at (b : builder) (i : nat) : option bytes := nth_error (b_functions b) i.
Definition list_at (b : builder) (i : nat) : option (ty * list_kind) := nth_error (b_lists b) i.

(* fields(): (0..self.inner.fields.len()).map(|index| FieldRef { index }) *)
Definition fields (b : builder) : list nat := seq 0 (length (b_fields b)).
Definition functions (b : builder) : list nat := seq 0 (length (b_functions b)).
Definition lists (b : builder) : list nat := seq 0 (length (b_lists b)).
Definition field_count (b : builder) : nat := length (b_fields b).
Definition function_count (b : builder) : nat := length (b_functions b).
Definition list_count (b : builder) : nat := length (b_lists b).

(* ---- what the harness observes: a lookup followed by the accessors of the
   returned reference (outer [None] = one of the accessors panics) ---- *)
Definition obs_get_field (b : builder) (name : bytes) : option (option (nat * field_def)) :=
  match get_field b name with
  | None => Some None
  | Some i => option_map (fun f => Some (i, f)) (field_at b i)
  end.
Definition obs_get_function (b : builder) (name : bytes) : option (option (nat * bytes)) :=
  match get_function b name with
  | None => Some None
  | Some i => option_map (fun n => Some (i, n)) (function_at b i)
  end.
Definition obs_get_list (b : builder) (t : ty) : option (option (nat * (ty * list_kind))) :=
  match get_list b t with
  | None => Some None
  | Some i => option_map (fun d => Some (i, d)) (list_at b i)
  end.
Definition obs_fields (b : builder) : option (list (nat * field_def)) :=
  option_map_all (fun i => option_map (pair i) (field_at b i)) (fields b).
Definition obs_functions (b : builder) : option (list (nat * bytes)) :=
  option_map_all (fun i => option_map (pair i) (function_at b i)) (functions b).
Definition obs_lists (b : builder) : option (list (nat * (ty * list_kind))) :=
  option_map_all (fun i => option_map (pair i) (list_at b i)) (lists b).
Definition obs_counts (b : builder) : nat * nat * nat :=
  (field_count b, function_count b, list_count b).

(* ---- Scheme identity: Scheme { inner: Arc<SchemeBuilder> } ----
   build() allocates (a fresh allocation number), clone() shares the Arc,
   PartialEq is Arc::ptr_eq. *)
Record scheme := { s_id : nat; s_inner : builder }.

Definition build (next : nat) (b : builder) : scheme * nat := ({| s_id := next; s_inner := b |}, S next).
Definition scheme_clone (s : scheme) : scheme := s.
Definition scheme_eqb (a b : scheme) : bool := Nat.eqb (s_id a) (s_id b).
(* #[derive(PartialEq)] struct FieldRef { scheme: &Scheme, index } *)
Definition field_ref_eqb (a b : scheme * nat) : bool :=
  scheme_eqb (fst a) (fst b) && Nat.eqb (snd a) (snd b).

(* A small world of schemes: build a history, or clone an existing scheme. *)
Inductive scheme_op := SBuild (ops : list reg_op) | SClone (k : nat).

Definition scheme_step (st : list scheme * nat) (o : scheme_op) : list scheme * nat :=
  match o with
  | SBuild ops =>
      let (s, next) := build (snd st) (snd (run_ops ops)) in (fst st ++ [s], next)
  | SClone k =>
      match nth_error (fst st) k with
      | Some s => (fst st ++ [scheme_clone s], snd st)
      | None => st
      end
  end.
Definition run_scheme_ops (ops : list scheme_op) : list scheme := fst (fold_left scheme_step ops ([], O)).

(* ---- Identifier::lex_with ---- *)

(* c.is_ascii_alphanumeric() || c == '_' ; a non-ASCII character never
   qualifies and all its bytes are >= 128, so working on bytes is exact *)
Definition is_ident_char (c : N) : bool :=
  ((48 <=? c) && (c <=? 57)) || ((65 <=? c) && (c <=? 90)) || ((97 <=? c) && (c <=? 122)) || (c =? 95).

Fixpoint span_while (f : N -> bool) (l : bytes) : bytes * bytes :=
  match l with
  | [] => ([], [])
  | c :: l' => if f c then (c :: fst (span_while f l'), snd (span_while f l')) else ([], l)
  end.

(* take_while(input, name, f): Err(ExpectedName) when nothing matched *)
Definition take_while (f : N -> bool) (l : bytes) : option (bytes * bytes) :=
  match span_while f l with
  | ([], _) => None
  | p => Some p
  end.

Inductive lex_err :=
| ExpectedName | UnknownIdentifier | ExpectedLiteral | EOF | TypeMismatch
| OutOfFuel       (* excluded by theorem *)
| Unmodelled.     (* the rest of the text leaves the modelled fragment *)

Inductive lex_result (A : Type) := LexOk (a : A) (rest : bytes) | LexErr (e : lex_err).
Arguments LexOk {A} a rest.
Arguments LexErr {A} e.

(* loop { input = take_while(input, .., ident char)?.1;
          match expect(input, ".") { Ok(rest) => input = rest, Err(_) => break } }
   let name = span(initial_input, input);
   [acc] is span(initial_input, input) so far. *)
Fixpoint ident_loop (fuel : nat) (acc input : bytes) : lex_result bytes :=
  match fuel with
  | O => LexErr OutOfFuel
  | S fuel' =>
      match take_while is_ident_char input with
      | None => LexErr ExpectedName
      | Some (seg, rest) =>
          match starts_with [46] rest with
          | Some rest' => ident_loop fuel' (acc ++ seg ++ [46]) rest'
          | None => LexOk (acc ++ seg) rest
          end
      end
  end.

Definition lex_ident (input : bytes) : lex_result bytes := ident_loop (S (length input)) [] input.

(* let field = scheme.get(name).ok_or((UnknownIdentifier, name))?; Ok((field, input)) *)
Definition lex_identifier (b : builder) (input : bytes) : lex_result item :=
  match lex_ident input with
  | LexOk name rest =>
      match scheme_get b name with
      | Some it => LexOk it rest
      | None => LexErr UnknownIdentifier
      end
  | LexErr e => LexErr e
  end.

(* ---- what the parser does with the identifier ---- *)

Inductive probe_res := PField (i : nat) | PCall (i : nat) | PErr (e : lex_err).

Fixpoint skip_space (l : bytes) : bytes :=
  match l with
  | c :: l' => if (c =? 32) || (c =? 13) || (c =? 10) then skip_space l' else l
  | [] => []
  end.

(* IdentifierExpr::lex_with: a field stands alone; a function must be called:
   FunctionCallExpr::lex_with_function = skip_space, expect "(", skip_space,
   arguments until ')', arity check, expect ")".  Only the empty argument
   list is modelled; the fixture function takes no parameter and returns Bool.
   Result: what was resolved, the static type, the rest. *)
Definition lex_identifier_expr (b : builder) (input : bytes) : lex_result (probe_res * ty) :=
  match lex_identifier b input with
  | LexErr e => LexErr e
  | LexOk (IField i) rest =>
      match field_at b i with
      | Some f => LexOk (PField i, fd_ty f) rest
      | None => LexErr Unmodelled            (* index panic; excluded by theorem *)
      end
  | LexOk (IFunction i) rest =>
      match starts_with [40] (skip_space rest) with
      | None => LexErr ExpectedLiteral
      | Some r =>
          match skip_space r with
          | [] => LexErr ExpectedLiteral     (* no ')' before the end *)
          | c :: r' => if c =? 41 then LexOk (PCall i, TBool) r' else LexErr Unmodelled
          end
      end
  end.

(* IndexExpr::lex_with: `while let Ok(rest) = expect(input, "[")`: indexes are not modelled *)
Definition lex_index_expr (b : builder) (input : bytes) : lex_result (probe_res * ty) :=
  match lex_identifier_expr b input with
  | LexOk r rest =>
      match starts_with [91] rest with
      | Some _ => LexErr Unmodelled
      | None => LexOk r rest
      end
  | LexErr e => LexErr e
  end.

(* complete(..): Err(EOF) when input is left *)
Definition complete {A} (r : lex_result A) : lex_result A :=
  match r with
  | LexOk a [] => LexOk a []
  | LexOk _ _ => LexErr EOF
  | LexErr e => LexErr e
  end.

Definition to_probe (r : lex_result (probe_res * ty)) : probe_res :=
  match r with LexOk (p, _) _ => p | LexErr e => PErr e end.

(* Scheme::parse_value (the text contains no white space, `trim` is the identity) *)
Definition probe_value (b : builder) (text : bytes) : probe_res :=
  to_probe (complete (lex_index_expr b text)).

Definition begins (p : list N) (l : bytes) : bool :=
  match starts_with p l with Some _ => true | None => false end.

(* Scheme::parse on `ident` / `ident()`:
   LogicalExpr::lex_simple_expr tries "(", a unary operator, a quantifier call
   and then ComparisonExpr; ComparisonExpr::lex_with_lhs takes a Bool (or
   array/map of Bool) left side as IsTrue and otherwise wants a comparison
   operator (ExpectedName when there is none: here the rest is empty or starts
   with "("); no combining operator follows; FilterAst requires type Bool;
   complete. *)
Definition probe_filter (b : builder) (text : bytes) : probe_res :=
  if begins [40] text || begins [33] text || begins [110; 111; 116] text
     || begins [97; 110; 121] text || begins [97; 108; 108] text
  then PErr Unmodelled
  else
    match lex_index_expr b text with
    | LexErr e => PErr e
    | LexOk (p, t) rest =>
        (* neither a comparison operator nor a combining operator starts the
           rest when it is empty or starts with "(" (after skip_space) *)
        let no_operator :=
          match skip_space rest with [] => true | c :: _ => c =? 40 end in
        if negb no_operator then PErr Unmodelled
        else if negb (ty_eqb t TBool || match ty_next t with Some TBool => true | _ => false end)
        then PErr ExpectedName                 (* ComparisonOp::lex fails *)
        else if negb (ty_eqb t TBool) then PErr TypeMismatch    (* FilterAst: root must be Bool *)
        else match rest with [] => p | _ => PErr EOF end        (* complete *)
    end.
