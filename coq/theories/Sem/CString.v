(* Model of ffi/src/cstring.rs: `CString(Vec<u8>)`, the buffer behind the C API's
   thread-local last error.  One definition per Rust function; no proofs here.

     const SUBSTITUTE_BYTE: u8 = 0x1a;
     pub struct CString(Vec<u8>);
     const fn new() -> Self { Self(Vec::new()) }                                   *)
From Coq Require Import List NArith Bool.
From WF Require Import Base.Bytes.
Import ListNotations.
Open Scope N_scope.

Definition SUBSTITUTE_BYTE : N := 26.

(* the Vec<u8> *)
Definition cstring := list N.

Definition cs_new : cstring := [].

(* `self.0.pop()`: removes the last byte whatever it is; nothing on an empty vector *)
Definition vec_pop (v : list N) : list N := removelast v.

(* `|b| if *b == b'\0' { *b = SUBSTITUTE_BYTE }` *)
Definition subst_byte (b : N) : N := if b =? 0 then SUBSTITUTE_BYTE else b.

(*  fn append(&mut self, buf: &[u8]) {
        self.0.pop();
        let len = self.0.len();
        self.0.extend(buf);
        let new_len = self.0.len();
        self.0[len..new_len].iter_mut().for_each(|b| if *b == b'\0' { *b = SUBSTITUTE_BYTE });
        self.0.push(0u8);
    }
   The slice `len..new_len` is always in range (len <= new_len = len + buf.len()),
   so this function has no panic site.  Only the bytes appended by THIS call are
   substituted; what was in the vector before is left alone. *)
Definition cs_append (s : cstring) (buf : bytes) : cstring :=
  let v1 := vec_pop s in
  let len := length v1 in
  let v2 := v1 ++ buf in
  let v3 := firstn len v2 ++ map subst_byte (skipn len v2) in
  v3 ++ [0].

(*  pub fn clear(&mut self) -> &mut Self { self.0.clear(); self } *)
Definition cs_clear (s : cstring) : cstring := [].

(*  pub fn as_c_str(&self) -> *const c_char {
        if self.0.is_empty() { std::ptr::null() } else { self.0.as_ptr() as *const c_char }
    }
   None = NULL; Some v = a pointer to the first byte of the vector v. *)
Definition cs_as_c_str (s : cstring) : option (list N) :=
  match s with
  | [] => None
  | _ => Some s
  end.

(* What a C caller reads through such a pointer: the bytes before the first NUL.
   None: there is no NUL inside the allocation (the caller would read past it). *)
Fixpoint c_read (v : list N) : option bytes :=
  match v with
  | [] => None
  | b :: v' => if b =? 0 then Some [] else option_map (cons b) (c_read v')
  end.

(* impl io::Write  { fn write(&mut self, buf) { self.append(buf); Ok(buf.len()) } }
   impl fmt::Write { fn write_str(&mut self, s) { self.append(s.as_bytes()); Ok(()) } }
   A formatted message is the list of fragments its Display implementation emits.
   In ffi/src/lib.rs the trait in scope is std::io::Write, so `write!(last_error, "{}", err)`
   is io::Write::write_fmt: every fragment goes through the default `write_all`,
   whose loop `while !buf.is_empty() { self.write(buf) .. }` calls `write` (= append)
   once for a non-empty fragment and not at all for an empty one. *)
Definition nonempty (b : bytes) : bool := match b with [] => false | _ => true end.

Definition cs_write_fmt (s : cstring) (frags : list bytes) : cstring :=
  fold_left cs_append (filter nonempty frags) s.

(* operation sequences on one CString *)
Inductive cs_op :=
| CsAppend (buf : bytes)
| CsClear.

Definition cs_step (s : cstring) (o : cs_op) : cstring :=
  match o with
  | CsAppend buf => cs_append s buf
  | CsClear => cs_clear s
  end.

Definition cs_run (s : cstring) (ops : list cs_op) : cstring := fold_left cs_step ops s.

(* Well-formed C string buffer: NUL-terminated, no NUL before the terminator. *)
Fixpoint cs_wf_nonempty (s : cstring) : bool :=
  match s with
  | [] => false
  | [b] => b =? 0
  | b :: s' => negb (b =? 0) && cs_wf_nonempty s'
  end.

(* What an observer of the whole buffer sees. *)
Inductive cs_view_t :=
| VNull                     (* empty vector: as_c_str is NULL *)
| VStr (m : bytes)          (* the vector is m ++ [0] and m has no NUL *)
| VBad (raw : list N).      (* anything else: not a valid C string *)

Definition cs_view (s : cstring) : cs_view_t :=
  match s with
  | [] => VNull
  | _ => if cs_wf_nonempty s then VStr (removelast s) else VBad s
  end.
