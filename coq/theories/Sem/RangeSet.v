(* Model of engine/src/range_set.rs (RangeSet::from, RangeSet::contains) and of
   the three OneOf comparisons of ComparisonExpr::compile_with_compiler
   (engine/src/ast/field_expr.rs).  Ranges are over Z: the Rust code is
   generic in T: Ord + Copy and is used at i64, Ipv4Addr (u32 order) and
   Ipv6Addr (u128 order), all of which embed in Z order-isomorphically. *)
From Coq Require Import List ZArith NArith Bool.
From WF Require Import Base.Bytes.
Import ListNotations.
Open Scope Z_scope.

Definition range := (Z * Z)%type.

(* ranges.sort_unstable_by_key(|r| *r.start()): modelled by insertion sort.
   The theorems are stated for *any* permutation sorted by start, so they do
   not depend on how ties are ordered. *)
Fixpoint insert_by_start (r : range) (l : list range) : list range :=
  match l with
  | [] => [r]
  | h :: t => if fst r <=? fst h then r :: l else h :: insert_by_start r t
  end.
Definition sort_by_start (l : list range) : list range := fold_right insert_by_start [] l.

(* ranges.dedup_by(|b, a| if b.start <= a.end { if b.end > a.end { *a = a.start..=b.end }; true } else { false }) *)
Fixpoint merge_from (a : range) (l : list range) : list range :=
  match l with
  | [] => [a]
  | b :: tl => if fst b <=? snd a
               then merge_from (if snd a <? snd b then (fst a, snd b) else a) tl
               else a :: merge_from b tl
  end.
Definition merge (l : list range) : list range :=
  match l with [] => [] | a :: tl => merge_from a tl end.

Definition rangeset_from (l : list range) : list range := merge (sort_by_start l).

(* The comparator closure of RangeSet::contains. *)
Definition cmp_range (x : Z) (r : range) : comparison :=
  if fst r >? x then Gt else if snd r >=? x then Eq else Lt.

(* core::slice::binary_search_by (Rust 1.95): branch-free halving loop.
     while size > 1 { half = size/2; mid = base+half;
                      base = if f(self[mid]) == Greater { base } else { mid }; size -= half }
   [None] = an index out of bounds (get_unchecked would be UB) or fuel exhausted. *)
Fixpoint bsearch_loop (fuel : nat) (l : list range) (x : Z) (base size : nat) : option nat :=
  if Nat.leb size 1 then Some base else
  match fuel with
  | O => None
  | S fuel' =>
      let half := Nat.div2 size in
      let mid := (base + half)%nat in
      match nth_error l mid with
      | None => None
      | Some r =>
          let base' := match cmp_range x r with Gt => base | _ => mid end in
          bsearch_loop fuel' l x base' (size - half)%nat
      end
  end.

Definition rangeset_contains (l : list range) (x : Z) : option bool :=
  match l with
  | [] => Some false
  | _ =>
      match bsearch_loop (length l) l x 0%nat (length l) with
      | None => None
      | Some base =>
          match nth_error l base with
          | None => None
          | Some r => Some (match cmp_range x r with Eq => true | _ => false end)
          end
      end
  end.

(* ---- `int in { ... }` ---- *)
(* compile_with(compiler, false, OneOfInt(RangeSet)): an absent left side is [false]. *)
Definition oneof_int (items : list range) (x : option Z) : option bool :=
  match x with
  | None => Some false
  | Some v => rangeset_contains (rangeset_from items) v
  end.

(* ---- `ip in { ... }` ---- *)
Inductive ip := V4 (a : Z) | V6 (a : Z).

Inductive ip_item :=
| IpRange4 (first last : Z)
| IpRange6 (first last : Z)
| IpCidr4 (addr : Z) (len : Z)     (* network address, prefix length 0..32 *)
| IpCidr6 (addr : Z) (len : Z).    (* network address, prefix length 0..128 *)

(* cidr::Ipv4Cidr::first_address / last_address: address, address | hostmask *)
Definition cidr_range (bits : Z) (addr len : Z) : range :=
  (addr, Z.lor addr (2 ^ (bits - len) - 1)).

Definition split_ip_items (items : list ip_item) : list range * list range :=
  fold_right (fun it acc =>
    match it with
    | IpRange4 a b => (((a, b) :: fst acc), snd acc)
    | IpRange6 a b => (fst acc, ((a, b) :: snd acc))
    | IpCidr4 a n => ((cidr_range 32 a n :: fst acc), snd acc)
    | IpCidr6 a n => (fst acc, (cidr_range 128 a n :: snd acc))
    end) ([], []) items.

Definition oneof_ip (items : list ip_item) (x : option ip) : option bool :=
  let sets := split_ip_items items in
  let v4 := rangeset_from (fst sets) in
  let v6 := rangeset_from (snd sets) in
  match x with
  | None => Some false
  | Some (V4 a) => rangeset_contains v4 a
  | Some (V6 a) => rangeset_contains v6 a
  end.

(* ---- `bytes in { ... }` : BTreeSet<Box<[u8]>>::contains ---- *)
Definition oneof_bytes (items : list bytes) (x : option bytes) : option bool :=
  match x with
  | None => Some false
  | Some v => Some (existsb (bytes_eqb v) items)
  end.
