(* C18 - compiled filters shared between threads: the model.

   What a Gallina model can say about concurrency is the LOGIC of sharing: which
   state is shared, who may write it and when, and whether a value written by
   one thread can change what another thread computes.  Data races, the memory
   model and Send/Sync are run-time / type-system matters and are not modelled
   (harness/src/c18.rs explores them on the real code).

   Inventory of the state that is reachable from FilterAst::compile and
   Filter::execute and outlives one call (grep of /repo/engine/src and of the
   crates it calls; see Props/C18.v for the complete table):

     G1  static USE_AVX2 : LazyLock<bool>      engine/src/ast/field_expr.rs
           first compile of a `contains` with a needle of >= 2 bytes; the
           initialiser reads WIREFILTER_USE_AVX2 and the CPU features: a
           function of the process environment only.
     G2  std_detect's feature cache, memchr's `static FN : AtomicPtr` (ifunc)
           first memchr / memmem / is_x86_feature_detected call; several
           threads may each detect and store; all store the same value.
     K   rand::rng() (thread_local ThreadRng): the anchor position of the
           AVX2 searcher, drawn at every compile; differs between compiles.
     P   regex_automata::meta::Regex owns a Pool<Cache> (interior mutability,
           `unsafe impl Sync`): scratch space / lazy-DFA memo, one pool per
           compiled regex, taken for the duration of one is_match call.
   Everything else in a Filter (boxed closures `Fn + Send + Sync`, Arc'd
   scheme, RangeSets, wildcard tokens, memmem Finder) is immutable after
   compile; ExecutionContext is only read by execute(&self, &ctx).

   The model below is a step machine over
     - an immutable store of compiled filters and of contexts,
     - G: write-once global cells, filled lazily by whoever needs one first
       (racy first use: a thread that finds the cell empty computes a value on
       its own, then tries to publish it; the first publication wins and every
       thread goes on with the winner's value),
     - K: a private stream of knobs per thread (consumed by a recompilation;
       a shared filter carries the knob drawn when it was compiled),
     - P: one pool of scratch values per shared filter (take, run, put back;
       a recompiled filter starts from a fresh scratch and drops it),
   and threads that are lists of operations [Exec f c | Recompile f c].  A
   schedule is a list of thread numbers; each entry lets that thread make one
   atomic step.  No proofs in this file. *)
From Coq Require Import List NArith Arith Bool.
From WF Require Import Base.Bytes Lang.Types Lang.Ast Lang.Context Sem.Matchers Sem.Compile Sem.Searcher.
Import ListNotations.
Open Scope nat_scope.

Definition upd {A} (f : nat -> A) (i : nat) (a : A) : nat -> A :=
  fun j => if Nat.eqb j i then a else f j.

Inductive op := Exec (fid cid : nat) | Recompile (fid cid : nat).
Definition op_fid (o : op) : nat := match o with Exec f _ | Recompile f _ => f end.
Definition op_cid (o : op) : nat := match o with Exec _ c | Recompile _ c => c end.
Definition op_recompile (o : op) : bool := match o with Exec _ _ => false | Recompile _ _ => true end.

(* ------------------------------------------------------------------ *)
(* An engine: what the machine is parameterised by.
     F filters, C contexts, K knobs, Sc scratch, R results, V cell values. *)
Record engine (F C K Sc R V : Type) := {
  e_filters : list F;                 (* the shared store: compiled once *)
  e_ctxs : list C;
  e_init : nat -> nat -> V;           (* value computed by thread t for cell c *)
  e_needs : F -> list nat;            (* the cells compiling / executing f reads *)
  e_knob : F -> K;                    (* the knob drawn when the shared copy was compiled *)
  e_fresh : Sc;                        (* a new scratch value *)
  e_pool : nat -> nat;                (* which pool the shared filter number i uses *)
  e_run : (nat -> option V) -> K -> Sc -> F -> C -> R * Sc;
}.
Arguments e_filters {F C K Sc R V}.
Arguments e_ctxs {F C K Sc R V}.
Arguments e_init {F C K Sc R V}.
Arguments e_needs {F C K Sc R V}.
Arguments e_knob {F C K Sc R V}.
Arguments e_fresh {F C K Sc R V}.
Arguments e_pool {F C K Sc R V}.
Arguments e_run {F C K Sc R V}.

Section Machine.
  Context {F C K Sc R V : Type}.
  Variable E : engine F C K Sc R V.

  Definition getf (fid : nat) : option F := nth_error (e_filters E) fid.
  Definition getc (cid : nat) : option C := nth_error (e_ctxs E) cid.

  Record global := { cells : nat -> option V; pools : nat -> list Sc }.

  Inductive phase :=
  | PIdle                                          (* the head operation has not started *)
  | PCells (rest : list nat)                       (* cells still to be looked at *)
  | PPublish (c : nat) (v : V) (rest : list nat)   (* found c empty, computed v, not yet stored *)
  | PPut (r : option R) (s : Sc).                   (* result computed; scratch to give back *)

  Record thread := {
    todo : list op;
    ph : phase;
    log : list (op * option R);      (* what this thread observed, in program order *)
    knobs : list K;                  (* the thread's private random stream *)
  }.

  Definition set_ph (th : thread) (p : phase) : thread :=
    {| todo := todo th; ph := p; log := log th; knobs := knobs th |}.

  Definition set_cell (g : global) (c : nat) (v : V) : global :=
    {| cells := upd (cells g) c (Some v); pools := pools g |}.
  Definition set_pool (g : global) (fid : nat) (l : list Sc) : global :=
    {| cells := cells g; pools := upd (pools g) fid l |}.

  (* Pool::get: a value from the pool, or a new one when the pool is empty *)
  Definition take (g : global) (p : nat) : Sc * global :=
    match pools g p with
    | [] => (e_fresh E, g)
    | s :: r => (s, set_pool g p r)
    end.
  (* PoolGuard::drop *)
  Definition put (g : global) (p : nat) (s : Sc) : global := set_pool g p (s :: pools g p).

  (* one atomic step of thread number t *)
  Definition step_thread (t : nat) (g : global) (th : thread) : global * thread :=
    match todo th with
    | [] => (g, th)
    | o :: later =>
        match ph th with
        | PIdle =>
            (g, set_ph th (PCells (match getf (op_fid o) with Some f => e_needs E f | None => [] end)))
        | PCells (c :: cs) =>
            match cells g c with
            | Some _ => (g, set_ph th (PCells cs))
            | None => (g, set_ph th (PPublish c (e_init E t c) cs))
            end
        | PPublish c v cs =>
            match cells g c with
            | Some _ => (g, set_ph th (PCells cs))          (* lost the race: v is dropped *)
            | None => (set_cell g c v, set_ph th (PCells cs))
            end
        | PCells [] =>
            match getf (op_fid o), getc (op_cid o) with
            | Some f, Some c =>
                if op_recompile o then
                  let k := hd (e_knob E f) (knobs th) in
                  let rs := e_run E (cells g) k (e_fresh E) f c in
                  (g, {| todo := todo th; ph := PPut (Some (fst rs)) (snd rs); log := log th;
                         knobs := tl (knobs th) |})
                else
                  let sg := take g (e_pool E (op_fid o)) in
                  let rs := e_run E (cells g) (e_knob E f) (fst sg) f c in
                  (snd sg, set_ph th (PPut (Some (fst rs)) (snd rs)))
            | _, _ => (g, set_ph th (PPut None (e_fresh E)))
            end
        | PPut r s =>
            (if op_recompile o then g else put g (e_pool E (op_fid o)) s,
             {| todo := later; ph := PIdle; log := log th ++ [(o, r)]; knobs := knobs th |})
        end
    end.

  Record machine := { glob : global; threads : nat -> thread }.

  Definition step (m : machine) (t : nat) : machine :=
    let gt := step_thread t (glob m) (threads m t) in
    {| glob := fst gt; threads := upd (threads m) t (snd gt) |}.

  Definition run_sched (sched : list nat) (m : machine) : machine := fold_left step sched m.

  Definition start_thread (p : list op) (ks : list K) : thread :=
    {| todo := p; ph := PIdle; log := []; knobs := ks |}.

  (* nothing initialised, empty pools *)
  Definition start (progs : nat -> list op) (ks : nat -> list K) : machine :=
    {| glob := {| cells := fun _ => None; pools := fun _ => [] |};
       threads := fun t => start_thread (progs t) (ks t) |}.

  Definition finished (m : machine) : Prop := forall t, todo (threads m t) = [].

  (* executable versions for a machine with n threads *)
  Definition finishedb (n : nat) (m : machine) : bool :=
    forallb (fun t => match todo (threads m t) with [] => true | _ => false end) (seq 0 n).

  (* steps needed by one operation: idle, two per cell at most, run, put *)
  Definition op_cost (o : op) : nat :=
    3 + 2 * match getf (op_fid o) with Some f => length (e_needs E f) | None => 0 end.
  Definition prog_cost (p : list op) : nat := fold_right (fun o n => op_cost o + n) 0 p.

  (* the sequential schedule: thread 0 to its end, then thread 1, ... *)
  Fixpoint sequential (n : nat) (progs : nat -> list op) : list nat :=
    match n with
    | O => []
    | S n' => sequential n' progs ++ repeat n' (prog_cost (progs n'))
    end.

  (* round robin, [rounds] times over the threads 0..n-1 *)
  Fixpoint round_robin (n rounds : nat) : list nat :=
    match rounds with
    | O => []
    | S r => seq 0 n ++ round_robin n r
    end.
End Machine.


(* ------------------------------------------------------------------ *)
(* Instance A: whole filters.  The store holds the closures produced by ONE
   call of compile_lexpr per filter; executing is applying the closure.  The
   closure is a Gallina function: it has no cells, no knob and no scratch
   (Compile.v already uses the results of C10/C11: `contains` is [occurs]
   whatever the latch and the anchor are, `matches` is [regex_run]). *)

Definition closure_run (f : M cexpr) (c : ctx) : M bool :=
  match f with
  | Some (COne g) => g c
  | _ => None
  end.

Definition filter_engine (sch : scheme) (es : list lexpr) (cs : list ctx)
  : engine (M cexpr) ctx unit unit (M bool) unit :=
  {| e_filters := map (compile_lexpr sch) es;
     e_ctxs := cs;
     e_init := fun _ _ => tt;
     e_needs := fun _ => [];
     e_knob := fun _ => tt;
     e_fresh := tt;
     e_pool := fun i => i;
     e_run := fun _ _ _ f c => (closure_run f c, tt) |}.

(* ------------------------------------------------------------------ *)
(* Instance B: the leaf matchers with their hidden state made explicit. *)

Definition CELL_AVX2 : nat := 0.      (* G1: the USE_AVX2 latch *)
Definition CELL_MEMCHR : nat := 1.    (* G2: memchr's function pointer / std_detect cache *)

Inductive leaf :=
| LContains (needle : bytes)          (* compiled at first use of the filter text *)
| LMatches (r : regex_ast).           (* a compiled regex with its cache pool *)

(* the process environment: does the CPU have AVX2, is it switched off by
   WIREFILTER_USE_AVX2, which memchr implementation does detection choose *)
Record penv := { env_avx2 : bool; env_memchr : nat }.

Definition leaf_init (env : penv) (t c : nat) : nat :=
  if Nat.eqb c CELL_AVX2 then (if env_avx2 env then 1 else 0) else env_memchr env.

Definition leaf_needs (f : leaf) : list nat :=
  match f with
  | LContains (_ :: _ :: _) => [CELL_AVX2; CELL_MEMCHR]     (* *USE_AVX2, then Finder / memchr detection *)
  | LContains _ => [CELL_MEMCHR]
  | LMatches _ => [CELL_MEMCHR]                              (* the regex prefilters use memchr *)
  end.

(* rng().random_range(1..len): any draw k is mapped into 1..len-1 *)
Definition anchor_of (k : nat) (needle : bytes) : nat := 1 + k mod (length needle - 1).

(* memchr::memchr through the function pointer in the cell: implementation 0
   is the byte-at-a-time fallback, the others (sse2, avx2) the vector search
   that Sem/Searcher.v models as [memchr_search] *)
Definition memchr_via (impl : option nat) (b : N) (h : bytes) : bool :=
  match impl with
  | Some 0 => existsb (N.eqb b) h
  | _ => memchr_search b h
  end.

(* the regex cache: a memo from haystack to answer, filled on a miss *)
Definition cache := list (bytes * bool).
Fixpoint cache_find (h : bytes) (s : cache) : option bool :=
  match s with
  | [] => None
  | (k, v) :: r => if bytes_eqb k h then Some v else cache_find h r
  end.

Definition leaf_run (view : nat -> option nat) (k : nat) (s : cache) (f : leaf) (hay : bytes)
  : option bool * cache :=
  match f with
  | LContains [b] => (Some (memchr_via (view CELL_MEMCHR) b hay), s)
  | LContains needle =>
      let avx2 := match view CELL_AVX2 with Some 1 => true | _ => false end in
      (contains_dispatch avx2 (anchor_of k needle) needle hay, s)
  | LMatches r =>
      match cache_find hay s with
      | Some v => (Some v, s)
      | None => let v := regex_run r hay in (Some v, (hay, v) :: s)
      end
  end.

(* the knob of the shared copy of filter number i: [ks i] *)
Definition leaf_engine (env : penv) (fs : list (leaf * nat)) (hs : list bytes)
  : engine (leaf * nat) bytes nat cache (option bool) nat :=
  {| e_filters := fs;
     e_ctxs := hs;
     e_init := leaf_init env;
     e_needs := fun f => leaf_needs (fst f);
     e_knob := snd;
     e_fresh := [];
     e_pool := fun i => i;
     e_run := fun view k s f c => leaf_run view k s (fst f) c |}.

(* ------------------------------------------------------------------ *)
(* The two designs that the property excludes (used by the refutations). *)

(* (1) a lazily initialised global whose value depends on who initialises it
   (e.g. a per-thread seed stored in a process-wide OnceCell and then used as
   a hash or anchor seed that the result depends on) *)
Definition bad_init_engine : engine nat nat unit unit nat nat :=
  {| e_filters := [0]; e_ctxs := [0];
     e_init := fun t _ => t;
     e_needs := fun _ => [0];
     e_knob := fun _ => tt;
     e_fresh := tt;
     e_pool := fun i => i;
     e_run := fun view _ _ _ _ => (match view 0 with Some v => v | None => 0 end, tt) |}.

(* (2) the leaf engine with ONE cache pool for all compiled regexes (a `static`
   memo in the `matches` path, keyed by the haystack only: the key forgets
   which pattern is asked for) *)
Definition bad_cache_engine (env : penv) (fs : list (leaf * nat)) (hs : list bytes)
  : engine (leaf * nat) bytes nat cache (option bool) nat :=
  {| e_filters := fs;
     e_ctxs := hs;
     e_init := leaf_init env;
     e_needs := fun f => leaf_needs (fst f);
     e_knob := snd;
     e_fresh := [];
     e_pool := fun _ => 0;
     e_run := fun view k s f c => leaf_run view k s (fst f) c |}.
