(* The list-matcher slots of an execution context, as the code implements
   them (engine/src/execution_context.rs, list_matcher.rs, scheme.rs):

     list_matchers: Box<[Box<dyn ListMatcher>]>   one slot per registered list,
                                                  in registration order
     ExecutionContext::new_with   slot i = lists[i].definition().new_matcher()
     get_list_matcher(_mut)       &(mut) *list_matchers[list.index()]
     clear()                      every value None, every matcher .clear()
     Serialize                    fields that are set, then (when there is at
                                  least one matcher) "$lists": for every list in
                                  registration order {"type": ty, "data": matcher}
     DeserializeSeed              "$lists": for every entry, in order: the list
                                  registered for "type" (or an error), its
                                  definition's deserialize_matcher on "data" (or
                                  an error), then list_matchers[list.index()] = it

   The JSON text layer is not modelled here (C14): a serialized context is the
   abstract document [cdoc].  The harness-defined SetList / SetMatcher
   (harness/src/lang.rs, c17.rs) is mirrored by the [MSet] matcher of
   Lang/Context.v and the fixture functions below.  Every place where the code
   can fail has an explicit outcome.  No proofs here. *)
From Coq Require Import List ZArith NArith Bool Arith.
From WF Require Import Base.Bytes Sem.RangeSet Lang.Types Lang.Ast Lang.Context Sem.Compile Spec.Typing.
Import ListNotations.

(* ---- fixture: the harness matcher (SetMatcher { sets: BTreeMap<String, Vec<SetVal>> }) ---- *)

(* c17.rs set_add: sets.entry(name).or_default(), push unless already there *)
Fixpoint sets_add (name : bytes) (v : value) (sets : list (bytes * list value)) : list (bytes * list value) :=
  match sets with
  | [] => [(name, [v])]
  | (n, vs) :: r =>
      match bytes_compare name n with
      | Lt => (name, [v]) :: sets
      | Eq => (n, if existsb (value_eqb v) vs then vs else vs ++ [v]) :: r
      | Gt => (n, vs) :: sets_add name v r
      end
  end.

(* c17.rs set_del: retain(|x| x != v); an emptied set is removed *)
Fixpoint sets_del (name : bytes) (v : value) (sets : list (bytes * list value)) : list (bytes * list value) :=
  match sets with
  | [] => []
  | (n, vs) :: r =>
      if bytes_eqb name n then
        match filter (fun x => negb (value_eqb x v)) vs with
        | [] => r
        | vs' => (n, vs') :: r
        end
      else (n, vs) :: sets_del name v r
  end.

(* ListDefinition::new_matcher of AlwaysList / NeverList / SetList *)
Definition new_matcher (k : list_kind) : matcher :=
  match k with LkAlways => MAlways | LkNever => MNever | LkSet => MSet [] end.

(* ListMatcher::clear: no-op for the built-in matchers, sets.clear() for SetMatcher *)
Definition matcher_clear (m : matcher) : matcher :=
  match m with MSet _ => MSet [] | b => b end.

(* what a matcher serializes to: the built-in matchers are empty structs *)
Inductive mdata := DEmpty | DSet (sets : list (bytes * list value)).

Definition mdata_of (m : matcher) : mdata :=
  match m with MAlways | MNever => DEmpty | MSet s => DSet s end.

(* ListDefinition::deserialize_matcher.  The derived Deserialize of the empty
   structs AlwaysListMatcher / NeverListMatcher ignores unknown fields, so any
   object is accepted; SetMatcher needs its "sets" field. *)
Definition deserialize_matcher (k : list_kind) (d : mdata) : option matcher :=
  match k, d with
  | LkAlways, _ => Some MAlways
  | LkNever, _ => Some MNever
  | LkSet, DSet s => Some (MSet s)
  | LkSet, DEmpty => None
  end.

(* ---- serialized contexts ---- *)

Definition ldoc := list (ty * mdata).            (* the "$lists" array *)

Record cdoc := {
  cd_fields : list (nat * value);               (* (field index, value) of the fields that are set *)
  cd_lists : option ldoc;                        (* None: no "$lists" key *)
}.

Inductive derr := ENoList | EBadData | ENoField | EBadValue.

Inductive outcome (A : Type) :=
| Ok (a : A)
| Err (e : derr)
| Panic.                                         (* slice index out of range *)
Arguments Ok {A}. Arguments Err {A}. Arguments Panic {A}.

Fixpoint set_nth {A} (l : list A) (i : nat) (x : A) : list A :=
  match l, i with
  | [], _ => []
  | _ :: r, O => x :: r
  | y :: r, S i' => y :: set_nth r i' x
  end.

(* ExecutionContext::new *)
Definition new_ctx (sch : scheme) : ctx :=
  {| cx_vals := map (fun _ => None) (sc_fields sch);
     cx_lists := map (fun p => new_matcher (snd p)) (sc_lists sch) |}.

(* Serialize: `for field in scheme.fields() { if let Some(Some(v)) = values.get(field.index()) .. }` *)
Fixpoint ser_fields (fds : list field_def) (i : nat) (vals : list (option value)) : list (nat * value) :=
  match fds with
  | [] => []
  | _ :: r =>
      match nth_error vals i with
      | Some (Some v) => (i, v) :: ser_fields r (S i) vals
      | _ => ser_fields r (S i) vals
      end
  end.

(* `for list in scheme.lists() { &*self.1[list.index()] .. }` *)
Fixpoint ser_lists (ls : list (ty * list_kind)) (i : nat) (ms : list matcher) : option ldoc :=
  match ls with
  | [] => Some []
  | (t, _) :: r =>
      match nth_error ms i with
      | None => None                             (* index out of range: panic *)
      | Some m =>
          match ser_lists r (S i) ms with
          | Some d => Some ((t, mdata_of m) :: d)
          | None => None
          end
      end
  end.

Definition serialize (sch : scheme) (c : ctx) : option cdoc :=
  match cx_lists c with
  | [] => Some {| cd_fields := ser_fields (sc_fields sch) 0 (cx_vals c); cd_lists := None |}
  | _ =>
      match ser_lists (sc_lists sch) 0 (cx_lists c) with
      | Some d => Some {| cd_fields := ser_fields (sc_fields sch) 0 (cx_vals c); cd_lists := Some d |}
      | None => None
      end
  end.

(* field entries: scheme.get_field(key), value of the field's type, set_field_value_from_name *)
Fixpoint de_fields (sch : scheme) (vals : list (option value)) (es : list (nat * value))
  : outcome (list (option value)) :=
  match es with
  | [] => Ok vals
  | (f, v) :: r =>
      match nth_error (sc_fields sch) f with
      | None => Err ENoField
      | Some fd =>
          if ty_eqb (fd_ty fd) (type_of v)
          then (if Nat.ltb f (length vals) then de_fields sch (set_nth vals f (Some v)) r else Panic)
          else Err EBadValue
      end
  end.

(* ListMatcherSlice / ListMatcherEntry / ListMatcherData *)
Fixpoint de_lists (sch : scheme) (ms : list matcher) (es : ldoc) : outcome (list matcher) :=
  match es with
  | [] => Ok ms
  | (t, d) :: r =>
      match list_index sch t with
      | None => Err ENoList                      (* "no list defined for type" *)
      | Some i =>
          match nth_error (sc_lists sch) i with
          | None => Panic
          | Some (_, k) =>
              match deserialize_matcher k d with
              | None => Err EBadData
              | Some m =>
                  if Nat.ltb i (length ms) then de_lists sch (set_nth ms i m) r
                  else Panic                     (* self.1[list.index()] = matcher *)
              end
          end
      end
  end.

(* deserialization into a context *)
Definition deserialize_into (sch : scheme) (c : ctx) (d : cdoc) : outcome ctx :=
  match de_fields sch (cx_vals c) (cd_fields d) with
  | Ok vals =>
      match cd_lists d with
      | None => Ok {| cx_vals := vals; cx_lists := cx_lists c |}
      | Some es =>
          match de_lists sch (cx_lists c) es with
          | Ok ms => Ok {| cx_vals := vals; cx_lists := ms |}
          | Err e => Err e
          | Panic => Panic
          end
      end
  | Err e => Err e
  | Panic => Panic
  end.

(* the harness rotates the "$lists" array by k before reading it back *)
Definition rotate {A} (k : nat) (l : list A) : list A :=
  let n := Nat.modulo k (length l) in skipn n l ++ firstn n l.

(* ---- operations on one context and what the harness observes ---- *)

Inductive lop :=
| LAdd (t : ty) (name : bytes) (v : value)       (* get_list(t), get_list_matcher_mut, downcast, add *)
| LDel (t : ty) (name : bytes) (v : value)
| LSetVal (f : nat) (v : value)                  (* set_field_value *)
| LClear                                         (* ExecutionContext::clear *)
| LRoundTrip (rot : nat)                         (* serialize; rotate "$lists"; deserialize into a new context *)
| LLoad (d : ldoc)                               (* deserialize {"$lists": d} into a new context *)
| LDump (t : ty)                                 (* get_list_matcher + downcast_ref: the whole matcher state *)
| LProbe (t : ty) (name : bytes) (v : value)     (* get_list_matcher(list).match_value(name, v) *)
| LExec (e : lexpr).                             (* parse + compile + execute against the context *)

Inductive lobs :=
| BOk
| BNoList                                        (* no list registered for the type *)
| BNotSet                                        (* the matcher is not the harness matcher *)
| BErr (e : derr)
| BState (c : ctx)                               (* all values and all matcher states *)
| BDump (m : matcher)
| BBool (b : bool)
| BBadFilter                                     (* rejected by the parser *)
| BBadArg
| BPanic
| BUndef.                                        (* specification only: no meaning *)

Definition with_set_matcher (sch : scheme) (c : ctx) (t : ty)
           (f : list (bytes * list value) -> list (bytes * list value)) : ctx * lobs :=
  match list_index sch t with
  | None => (c, BNoList)
  | Some i =>
      match nth_error (cx_lists c) i with
      | None => (c, BPanic)
      | Some (MSet sets) =>
          ({| cx_vals := cx_vals c; cx_lists := set_nth (cx_lists c) i (MSet (f sets)) |}, BOk)
      | Some _ => (c, BNotSet)
      end
  end.

Definition l_step (sch : scheme) (c : ctx) (o : lop) : ctx * lobs :=
  match o with
  | LAdd t name v => with_set_matcher sch c t (sets_add name v)
  | LDel t name v => with_set_matcher sch c t (sets_del name v)
  | LSetVal f v =>
      match nth_error (sc_fields sch) f with
      | None => (c, BBadArg)
      | Some fd =>
          if ty_eqb (fd_ty fd) (type_of v)
          then (if Nat.ltb f (length (cx_vals c))
                then ({| cx_vals := set_nth (cx_vals c) f (Some v); cx_lists := cx_lists c |}, BOk)
                else (c, BPanic))
          else (c, BErr EBadValue)
      end
  | LClear =>
      ({| cx_vals := map (fun _ => None) (cx_vals c); cx_lists := map matcher_clear (cx_lists c) |}, BOk)
  | LRoundTrip k =>
      match serialize sch c with
      | None => (c, BPanic)
      | Some d =>
          let d' := {| cd_fields := cd_fields d; cd_lists := option_map (rotate k) (cd_lists d) |} in
          match deserialize_into sch (new_ctx sch) d' with
          | Ok c' => (c', BState c')
          | Err e => (c, BErr e)
          | Panic => (c, BPanic)
          end
      end
  | LLoad d =>
      match deserialize_into sch (new_ctx sch) {| cd_fields := []; cd_lists := Some d |} with
      | Ok c' => (c', BOk)
      | Err e => (c, BErr e)
      | Panic => (c, BPanic)
      end
  | LDump t =>
      match list_index sch t with
      | None => (c, BNoList)
      | Some i => match nth_error (cx_lists c) i with Some m => (c, BDump m) | None => (c, BPanic) end
      end
  | LProbe t name v =>
      match list_index sch t with
      | None => (c, BNoList)
      | Some i =>
          match nth_error (cx_lists c) i with
          | Some m => (c, BBool (match_value m name v))
          | None => (c, BPanic)
          end
      end
  | LExec e =>
      if wt_filter sch e
      then (c, match run_filter sch e c with Some b => BBool b | None => BPanic end)
      else (c, BBadFilter)
  end.

Fixpoint l_run_from (sch : scheme) (c : ctx) (ops : list lop) : list lobs :=
  match ops with
  | [] => []
  | o :: r => let p := l_step sch c o in snd p :: l_run_from sch (fst p) r
  end.

Definition l_run (sch : scheme) (ops : list lop) : list lobs := l_run_from sch (new_ctx sch) ops.

(* ---- the (name, value) queries one `lhs in $name` comparison sends to its matcher:
   the comparer is applied to the one selected value, or to every element under [*] ---- *)
Definition lhs_values (sch : scheme) (lhs : iexpr) (c : ctx) : option (list value) :=
  match compile_iexpr_value sch lhs with
  | None => None
  | Some cv =>
      match cv c with
      | None => None
      | Some (VAbsent _) => Some []
      | Some (VOk v) =>
          if Nat.eqb (map_each_count (iexpr_idx lhs)) 0 then Some [v]
          else match v with VArray _ l => Some l | VMap _ l => Some (map snd l) | _ => None end
      end
  end.
