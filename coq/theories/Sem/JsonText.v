(* The text layer of JSON as serde_json 1.0 reads and writes it (third-party
   code: modelled, validated by the correspondence check only, nothing is
   proved about it).  [json_parse] follows serde_json::de (strict RFC 8259,
   recursion limit 128, escapes with surrogate pairs, control characters
   refused inside strings, nothing but white space after the value);
   [json_print] follows the CompactFormatter.

   Restrictions (the generators stay inside them): the text is valid UTF-8
   (bytes above 127 inside strings are copied) and numbers are integers without
   fraction or exponent (a fraction, an exponent or the literal "-0", which
   serde_json reads as f64, is reported as a syntax error). *)
From Coq Require Import List NArith ZArith Bool String.
From WF Require Import Base.Bytes Base.Sexp Sem.TypeCodec.
Import ListNotations.
Open Scope N_scope.

Definition is_ws (c : N) : bool := (c =? 32) || (c =? 9) || (c =? 10) || (c =? 13).

Fixpoint skip_ws (s : bytes) : bytes :=
  match s with
  | c :: r => if is_ws c then skip_ws r else s
  | [] => []
  end.

(* UTF-8 encoding of a code point (String::push) *)
Definition utf8 (n : N) : bytes :=
  if n <? 128 then [n]
  else if n <? 2048 then [192 + n / 64; 128 + n mod 64]
  else if n <? 65536 then [224 + n / 4096; 128 + (n / 64) mod 64; 128 + n mod 64]
  else [240 + n / 262144; 128 + (n / 4096) mod 64; 128 + (n / 64) mod 64; 128 + n mod 64].

(* decode_hex_escape: four hex digits of either case *)
Definition hex4 (s : bytes) : option (N * bytes) :=
  match s with
  | a :: b :: c :: d :: r =>
      match hex_val a, hex_val b, hex_val c, hex_val d with
      | Some x, Some y, Some z, Some w => Some (((x * 16 + y) * 16 + z) * 16 + w, r)
      | _, _, _, _ => None
      end
  | _ => None
  end.

Definition is_low_surrogate (n : N) : bool := (56320 <=? n) && (n <=? 57343).
Definition is_high_surrogate (n : N) : bool := (55296 <=? n) && (n <=? 56319).

(* parse_str after the opening quote; [acc] is the content so far, reversed *)
Fixpoint parse_string (fuel : nat) (s : bytes) (acc : bytes) : option (bytes * bytes) :=
  match fuel with
  | O => None
  | S f =>
      match s with
      | [] => None
      | c :: r =>
          if c =? 34 then Some (rev_append acc [], r)
          else if c =? 92 then
            match r with
            | [] => None
            | e :: r1 =>
                if e =? 34 then parse_string f r1 (34 :: acc)
                else if e =? 92 then parse_string f r1 (92 :: acc)
                else if e =? 47 then parse_string f r1 (47 :: acc)
                else if e =? 98 then parse_string f r1 (8 :: acc)
                else if e =? 102 then parse_string f r1 (12 :: acc)
                else if e =? 110 then parse_string f r1 (10 :: acc)
                else if e =? 114 then parse_string f r1 (13 :: acc)
                else if e =? 116 then parse_string f r1 (9 :: acc)
                else if e =? 117 then
                  match hex4 r1 with
                  | None => None
                  | Some (n, r2) =>
                      if is_low_surrogate n then None
                      else if is_high_surrogate n then
                        match r2 with
                        | b :: u :: r3 =>
                            if (b =? 92) && (u =? 117) then
                              match hex4 r3 with
                              | Some (n2, r4) =>
                                  if is_low_surrogate n2 then
                                    parse_string f r4
                                      (rev (utf8 (65536 + (n - 55296) * 1024 + (n2 - 56320))) ++ acc)
                                  else None
                              | None => None
                              end
                            else None
                        | _ => None
                        end
                      else parse_string f r2 (rev (utf8 n) ++ acc)
                  end
                else None
            end
          else if c <? 32 then None
          else parse_string f r (c :: acc)
      end
  end.

Fixpoint take_digits (s : bytes) (acc : N) : N * bytes :=
  match s with
  | c :: r => if is_digit c then take_digits r (acc * 10 + (c - 48)) else (acc, s)
  | [] => (acc, [])
  end.

Definition starts_frac_or_exp (s : bytes) : bool :=
  match s with
  | c :: _ => (c =? 46) || (c =? 101) || (c =? 69)
  | [] => false
  end.

(* an integer: 0 | [1-9][0-9]* ; "01" is an error *)
Definition parse_uint (s : bytes) : option (N * bytes) :=
  match s with
  | c :: r =>
      if c =? 48 then
        match r with
        | d :: _ => if is_digit d || starts_frac_or_exp r then None else Some (0, r)
        | [] => Some (0, r)
        end
      else if is_digit c then
        let (n, r') := take_digits s 0 in
        if starts_frac_or_exp r' then None else Some (n, r')
      else None
  | [] => None
  end.

Definition lit_true := bytes_of_string "true".
Definition lit_false := bytes_of_string "false".
Definition lit_null := bytes_of_string "null".

(* [depth] is serde_json's remaining_depth: entering an array or an object
   decrements it and fails when it reaches zero. *)
Fixpoint parse_value (fuel : nat) (depth : nat) (s : bytes) {struct fuel} : option (json * bytes) :=
  match fuel with
  | O => None
  | S f =>
      match skip_ws s with
      | [] => None
      | c :: r =>
          if c =? 34 then
            match parse_string (S (List.length r)) r [] with
            | Some (str, r') => Some (JStr str, r')
            | None => None
            end
          else if c =? 123 then
            match depth with
            | S (S d) =>
                match skip_ws r with
                | c2 :: r2 => if c2 =? 125 then Some (JObj [], r2) else parse_members f (S d) r []
                | [] => None
                end
            | _ => None
            end
          else if c =? 91 then
            match depth with
            | S (S d) =>
                match skip_ws r with
                | c2 :: r2 => if c2 =? 93 then Some (JArr [], r2) else parse_elems f (S d) r []
                | [] => None
                end
            | _ => None
            end
          else if c =? 45 then
            (* "-0" is the float -0.0 for serde_json: in the class of literals this layer refuses *)
            match parse_uint r with
            | Some (n, r') => if n =? 0 then None else Some (JNum (- Z.of_N n), r')
            | None => None
            end
          else if is_digit c then
            match parse_uint (c :: r) with
            | Some (n, r') => Some (JNum (Z.of_N n), r')
            | None => None
            end
          else
            match starts_with lit_true (c :: r) with
            | Some r' => Some (JBool true, r')
            | None =>
                match starts_with lit_false (c :: r) with
                | Some r' => Some (JBool false, r')
                | None =>
                    match starts_with lit_null (c :: r) with
                    | Some r' => Some (JNull, r')
                    | None => None
                    end
                end
            end
      end
  end
with parse_members (fuel : nat) (depth : nat) (s : bytes) (acc : list (bytes * json)) {struct fuel}
  : option (json * bytes) :=
  match fuel with
  | O => None
  | S f =>
      match skip_ws s with
      | [] => None
      | c :: r =>
          if c =? 34 then
            match parse_string (S (List.length r)) r [] with
            | Some (k, r1) =>
                match skip_ws r1 with
                | c1 :: r2 =>
                    if c1 =? 58 then
                      match parse_value f depth r2 with
                      | Some (v, r3) =>
                          match skip_ws r3 with
                          | c3 :: r4 =>
                              if c3 =? 44 then parse_members f depth r4 ((k, v) :: acc)
                              else if c3 =? 125 then Some (JObj (rev_append ((k, v) :: acc) []), r4)
                              else None
                          | [] => None
                          end
                      | None => None
                      end
                    else None
                | [] => None
                end
            | None => None
            end
          else None
      end
  end
with parse_elems (fuel : nat) (depth : nat) (s : bytes) (acc : list json) {struct fuel}
  : option (json * bytes) :=
  match fuel with
  | O => None
  | S f =>
      match parse_value f depth s with
      | Some (v, r) =>
          match skip_ws r with
          | c :: r1 =>
              if c =? 44 then parse_elems f depth r1 (v :: acc)
              else if c =? 93 then Some (JArr (rev_append (v :: acc) []), r1)
              else None
          | [] => None
          end
      | None => None
      end
  end.

(* from_str: the value, then only white space *)
Definition json_parse (s : bytes) : option json :=
  match parse_value (S (S (List.length s + List.length s))) 128 s with
  | Some (j, r) => match skip_ws r with [] => Some j | _ => None end
  | None => None
  end.

(* a Deserializer that is never asked for end(): the value, then anything
   (ffi: wirefilter_deserialize_json_to_execution_context) *)
Definition json_parse_prefix (s : bytes) : option json :=
  match parse_value (S (S (List.length s + List.length s))) 128 s with
  | Some (j, _) => Some j
  | None => None
  end.

(* ---- printer (CompactFormatter, format_escaped_str) ---- *)

Definition esc_byte (c : N) : bytes :=
  if c =? 34 then [92; 34]
  else if c =? 92 then [92; 92]
  else if c =? 8 then [92; 98]
  else if c =? 12 then [92; 102]
  else if c =? 10 then [92; 110]
  else if c =? 13 then [92; 114]
  else if c =? 9 then [92; 116]
  else if c <? 32 then [92; 117; 48; 48; hex_digit (c / 16); hex_digit (c mod 16)]
  else [c].

Definition print_jstr (s : bytes) : bytes := 34 :: flat_map esc_byte s ++ [34].

Fixpoint json_print (j : json) : bytes :=
  match j with
  | JNull => lit_null
  | JBool true => lit_true
  | JBool false => lit_false
  | JNum z => print_Z z
  | JStr s => print_jstr s
  | JArr l =>
      91 :: (fix go (l : list json) (first : bool) : bytes :=
               match l with
               | [] => [93]
               | x :: l' => (if first then [] else [44]) ++ json_print x ++ go l' false
               end) l true
  | JObj l =>
      123 :: (fix go (l : list (bytes * json)) (first : bool) : bytes :=
                match l with
                | [] => [125]
                | (k, v) :: l' =>
                    (if first then [] else [44]) ++ print_jstr k ++ 58 :: json_print v ++ go l' false
                end) l true
  end.
