(* Model of the mutation API of execution contexts
   (engine/src/execution_context.rs), of the scheme identity check of
   Filter::execute (engine/src/filter.rs, scheme.rs) and of the checked
   container constructors (engine/src/lhs_types/array.rs, map.rs).

   A *world* is what a program using the API holds: a table of contexts
   (slots), the schemes it may take fields and filters from (handles), and the
   stack of live `ExecutionContextGuard`s.  One definition per Rust function;
   every situation the borrow checker or the types make inexpressible gets an
   explicit observation ([ObBadArg], [ObBusy], [ObNoCtx], [ObNoGuard]) and
   changes nothing.  No proofs in this file. *)
From Coq Require Import List ZArith NArith Bool Arith.
From WF Require Import Base.Bytes Sem.RangeSet Lang.Types.
Import ListNotations.

(* ------------------------------------------------------------------ *)
(* Checked constructors                                                 *)

(* Array::try_from_iter / Array::try_from_vec:
     for elem in iter { if val_type != elem.get_type().into() { return Err(TypeMismatchError) } vec.push(elem) }
     Ok(Array { val_type, data: Owned(vec) })
   The test looks at [get_type] of each element, i.e. its declared tag. *)
Definition array_new (t : ty) (elems : list value) : option value :=
  if forallb (fun x => ty_eqb (type_of x) t) elems then Some (VArray t elems) else None.

(* BTreeMap::insert on the sorted association list: a later pair with an
   equal key replaces the earlier one. *)
Fixpoint map_insert (k : bytes) (v : value) (l : list (bytes * value)) : list (bytes * value) :=
  match l with
  | [] => [(k, v)]
  | (k', v') :: r =>
      match bytes_compare k k' with
      | Lt => (k, v) :: l
      | Eq => (k, v) :: r
      | Gt => (k', v') :: map_insert k v r
      end
  end.

Definition map_of_pairs (kvs : list (bytes * value)) : list (bytes * value) :=
  fold_left (fun m kv => map_insert (fst kv) (snd kv) m) kvs [].

(* Map::try_from_iter: every pair is type-checked in turn (first mismatch =
   Err), the accepted pairs are collected into a BTreeMap. *)
Definition map_new (t : ty) (kvs : list (bytes * value)) : option value :=
  if forallb (fun kv => ty_eqb (type_of (snd kv)) t) kvs then Some (VMap t (map_of_pairs kvs)) else None.

(* ------------------------------------------------------------------ *)
(* Contexts, worlds                                                     *)

(* ExecutionContext { scheme, values, .. }.  [ec_tok] is the identity of the
   scheme (`Arc::ptr_eq`): clones of a scheme share it, an independently built
   scheme has another one even when structurally identical. *)
Record ectx := { ec_tok : nat; ec_vals : list (option value) }.

Record config := {
  cf_fields : list field_def;     (* the fields of the (structurally identical) schemes *)
  cf_idents : list nat;           (* scheme handle -> identity token *)
  cf_init : list (option nat);    (* slot -> handle of the scheme its initial context is created for *)
}.

Record world := {
  w_ctxs : list (option ectx);    (* the table of contexts; None: never created or moved out *)
  w_guards : list (nat * ectx);   (* live guards, innermost first: borrowed slot, the guard's `new` context *)
}.

Inductive set_error := TypeMismatch | SchemeMismatch | UnknownField.

Inductive obs :=
| ObOk                          (* new, clear, clone_with, take_with, borrow_with, drop of a guard *)
| ObPrev (o : option value)     (* Ok(previous value) of a set *)
| ObErr (e : set_error)         (* Err(..) of a set *)
| ObVal (o : option value)      (* get_field_value *)
| ObRefused                     (* get_field_value: assert!(self.scheme() == field.scheme()) *)
| ObExecuted                    (* Filter::execute -> Ok(_) *)
| ObSchemeMismatch              (* Filter::execute -> Err(SchemeMismatchError) *)
| ObNoCtx                       (* the slot holds no context *)
| ObBusy                        (* the slot is borrowed: it cannot be moved out of or overwritten *)
| ObNoGuard                     (* no guard to drop *)
| ObBadArg.                     (* no such slot / scheme handle / field index *)

Inductive op :=
| ONew (dst h : nat)                            (* slot[dst] = ExecutionContext::new(&scheme[h]) *)
| OSetByField (c h f : nat) (v : value)         (* slot[c].set_field_value(scheme[h].fields().nth(f), v) *)
| OSetByName (c : nat) (name : bytes) (v : value)   (* slot[c].set_field_value_from_name(name, v) *)
| OGet (c h f : nat)                            (* slot[c].get_field_value(scheme[h].fields().nth(f)) *)
| OClear (c : nat)                              (* slot[c].clear() *)
| OCloneWith (src dst : nat)                    (* slot[dst] = slot[src].clone_with(()) *)
| OTakeWith (src dst : nat)                     (* slot[dst] = slot[src].take_with(|u| u); slot[src] is moved out *)
| OBorrowBegin (c : nat)                        (* guard = slot[c].borrow_with(()); slot c now means *guard *)
| OBorrowEnd                                    (* drop(innermost guard) *)
| OExecute (c h : nat).                         (* filter parsed with scheme[h], filter.execute(&slot[c]) *)

Definition slot (tab : list (option ectx)) (c : nat) : option ectx :=
  match nth_error tab c with Some o => o | None => None end.

Fixpoint set_nth {A} (l : list A) (n : nat) (x : A) : list A :=
  match l, n with
  | [], _ => []
  | _ :: r, O => x :: r
  | y :: r, S n' => y :: set_nth r n' x
  end.

(* What the name "slot c" denotes: the innermost live guard borrowing c
   (Deref / DerefMut of the guard), else the context in the table. *)
Fixpoint cur_in (g : list (nat * ectx)) (tab : list (option ectx)) (c : nat) : option ectx :=
  match g with
  | [] => slot tab c
  | (c1, n1) :: r => if Nat.eqb c c1 then Some n1 else cur_in r tab c
  end.

Fixpoint put_in (g : list (nat * ectx)) (tab : list (option ectx)) (c : nat) (e : ectx)
  : list (nat * ectx) * list (option ectx) :=
  match g with
  | [] => ([], set_nth tab c (Some e))
  | (c1, n1) :: r =>
      if Nat.eqb c c1 then ((c1, e) :: r, tab)
      else let p := put_in r tab c e in ((c1, n1) :: fst p, snd p)
  end.

Definition cur (w : world) (c : nat) : option ectx := cur_in (w_guards w) (w_ctxs w) c.
Definition put (w : world) (c : nat) (e : ectx) : world :=
  let p := put_in (w_guards w) (w_ctxs w) c e in {| w_ctxs := snd p; w_guards := fst p |}.

Definition borrowed (w : world) (c : nat) : bool := existsb (Nat.eqb c) (map fst (w_guards w)).

(* ExecutionContext::new_with: values: vec![None; scheme.field_count()] *)
Definition ctx_new (cf : config) (tok : nat) : ectx :=
  {| ec_tok := tok; ec_vals := repeat None (length (cf_fields cf)) |}.

Definition init (cf : config) : world :=
  {| w_ctxs := map (fun oh => match oh with
                              | Some h => option_map (ctx_new cf) (nth_error (cf_idents cf) h)
                              | None => None
                              end) (cf_init cf);
     w_guards := [] |}.

(* Scheme::get_field(name) *)
Fixpoint find_field (name : bytes) (fds : list field_def) (i : nat) : option nat :=
  match fds with
  | [] => None
  | fd :: r => if bytes_eqb name (fd_name fd) then Some i else find_field name r (S i)
  end.

(* The common tail of set_field_value and set_field_value_from_name:
     if field_type == value.get_type() { Ok(self.values[index].replace(value)) }
     else { Err(TypeMismatch) } *)
Definition set_checked (w : world) (c : nat) (e : ectx) (f : nat) (fty : ty) (v : value) : world * obs :=
  if ty_eqb fty (type_of v) then
    match nth_error (ec_vals e) f with
    | Some old => (put w c {| ec_tok := ec_tok e; ec_vals := set_nth (ec_vals e) f (Some v) |}, ObPrev old)
    | None => (w, ObBadArg)      (* values[index] out of bounds: excluded by the invariant *)
    end
  else (w, ObErr TypeMismatch).

Definition step (cf : config) (w : world) (o : op) : world * obs :=
  match o with
  | ONew dst h =>
      match nth_error (cf_idents cf) h with
      | None => (w, ObBadArg)
      | Some tok =>
          if Nat.ltb dst (length (w_ctxs w)) then
            if borrowed w dst then (w, ObBusy)
            else ({| w_ctxs := set_nth (w_ctxs w) dst (Some (ctx_new cf tok)); w_guards := w_guards w |}, ObOk)
          else (w, ObBadArg)
      end
  | OSetByField c h f v =>
      match nth_error (cf_idents cf) h, nth_error (cf_fields cf) f with
      | Some ftok, Some fd =>
          match cur w c with
          | None => (w, ObNoCtx)
          | Some e =>
              (* if self.scheme != *field.scheme() { return Err(SchemeMismatch) } *)
              if Nat.eqb (ec_tok e) ftok then set_checked w c e f (fd_ty fd) v
              else (w, ObErr SchemeMismatch)
          end
      | _, _ => (w, ObBadArg)
      end
  | OSetByName c name v =>
      match cur w c with
      | None => (w, ObNoCtx)
      | Some e =>
          (* self.scheme.get_field(name).map_err(UnknownField)? *)
          match find_field name (cf_fields cf) 0 with
          | None => (w, ObErr UnknownField)
          | Some f =>
              match nth_error (cf_fields cf) f with
              | Some fd => set_checked w c e f (fd_ty fd) v
              | None => (w, ObBadArg)
              end
          end
      end
  | OGet c h f =>
      match nth_error (cf_idents cf) h, nth_error (cf_fields cf) f with
      | Some ftok, Some _ =>
          match cur w c with
          | None => (w, ObNoCtx)
          | Some e =>
              (* assert!(self.scheme() == field.scheme()); self.values[field.index()].as_ref() *)
              if Nat.eqb (ec_tok e) ftok then
                match nth_error (ec_vals e) f with
                | Some o' => (w, ObVal o')
                | None => (w, ObBadArg)
                end
              else (w, ObRefused)
          end
      | _, _ => (w, ObBadArg)
      end
  | OClear c =>
      match cur w c with
      | None => (w, ObNoCtx)
      | Some e =>
          (* self.values.iter_mut().for_each(|value| *value = None) *)
          (put w c {| ec_tok := ec_tok e; ec_vals := map (fun _ => None) (ec_vals e) |}, ObOk)
      end
  | OCloneWith src dst =>
      match cur w src with
      | None => (w, ObNoCtx)
      | Some e =>
          if Nat.ltb dst (length (w_ctxs w)) then
            if borrowed w dst then (w, ObBusy)
            else
              (* ExecutionContext { scheme: self.scheme.clone(), values: self.values.clone(), .. } *)
              ({| w_ctxs := set_nth (w_ctxs w) dst (Some {| ec_tok := ec_tok e; ec_vals := ec_vals e |});
                  w_guards := w_guards w |}, ObOk)
          else (w, ObBadArg)
      end
  | OTakeWith src dst =>
      if borrowed w src then (w, ObBusy)
      else
        match slot (w_ctxs w) src with
        | None => (w, ObNoCtx)
        | Some e =>
            if Nat.ltb dst (length (w_ctxs w)) then
              if borrowed w dst then (w, ObBusy)
              else
                (* ExecutionContext { scheme: self.scheme, values: self.values, .. }: self is consumed *)
                ({| w_ctxs := set_nth (set_nth (w_ctxs w) src None) dst (Some e); w_guards := w_guards w |}, ObOk)
            else (w, ObBadArg)
        end
  | OBorrowBegin c =>
      match cur w c with
      | None => (w, ObNoCtx)
      | Some e =>
          (* let scheme = old.scheme().clone(); let values = mem::take(&mut old.values);
             new = ExecutionContext { scheme, values, .. } *)
          let w1 := put w c {| ec_tok := ec_tok e; ec_vals := [] |} in
          ({| w_ctxs := w_ctxs w1;
              w_guards := (c, {| ec_tok := ec_tok e; ec_vals := ec_vals e |}) :: w_guards w1 |}, ObOk)
      end
  | OBorrowEnd =>
      match w_guards w with
      | [] => (w, ObNoGuard)
      | (c, n) :: r =>
          (* Drop: self.old.values = mem::take(&mut self.new.values) *)
          let w1 := {| w_ctxs := w_ctxs w; w_guards := r |} in
          match cur w1 c with
          | Some old => (put w1 c {| ec_tok := ec_tok old; ec_vals := ec_vals n |}, ObOk)
          | None => (w1, ObOk)     (* a guard without a borrowed context: excluded by the invariant *)
          end
      end
  | OExecute c h =>
      match nth_error (cf_idents cf) h with
      | None => (w, ObBadArg)
      | Some ftok =>
          match cur w c with
          | None => (w, ObNoCtx)
          | Some e =>
              (* if ctx.scheme() == &self.scheme { Ok(self.root_expr.execute(ctx)) } else { Err(SchemeMismatchError) } *)
              if Nat.eqb (ec_tok e) ftok then (w, ObExecuted) else (w, ObSchemeMismatch)
          end
      end
  end.

Fixpoint run_from (cf : config) (w : world) (ops : list op) : world * list obs :=
  match ops with
  | [] => (w, [])
  | o :: r =>
      let p := step cf w o in
      let q := run_from cf (fst p) r in
      (fst q, snd p :: snd q)
  end.

Definition run (cf : config) (ops : list op) : list obs := snd (run_from cf (init cf) ops).
