(* Model of the `contains` searchers (C10).

   Mirrors, definition by definition,
     - the `ComparisonOpExpr::Contains` arm of `compile_with_compiler`
       (/repo/engine/src/ast/field_expr.rs) and /repo/engine/src/searcher.rs,
     - sliceslice-0.4.3 src/lib.rs: `MemchrSearcher`, `vector_search_in_chunk`,
       `vector_search_in`,
     - sliceslice-0.4.3 src/x86.rs: `Avx2Searcher::with_position`,
       `Avx2Searcher::inlined_search_in`, the `Vector` impls for
       __m16i / __m32i / __m64i / __m128i / __m256i (LANES = 2/4/8/16/32).

   [option] is the outcome monad: [None] is a read outside the haystack or the
   needle (undefined behaviour in the unsafe Rust code), a Rust panic
   (`assert!`, `unreachable!()`, slice index out of range, shift overflow in a
   debug build) or exhausted loop fuel.  The theorems of C10 show that none of
   these happens.

   What is abstracted (documented in Props/C10.v):
     - a SIMD register of L lanes is a list of L bytes; `splat`, `load`,
       `lanes_eq`, `bitwise_and`, `to_bitmask` are modelled lane-wise, the
       resulting bit mask is a number (bit k = lane k) exactly as the u32 of
       the code, and the candidate loop uses `trailing_zeros` and
       `eq & (eq - 1)` on that number;
     - `memchr::memchr` is first-index search, `memchr::memmem::Finder::find`
       is modelled by [occurs] (third-party code reached through the API;
       validated by the correspondence runs only).
   No proofs in this file. *)
From Coq Require Import List NArith Arith Bool.
From WF Require Import Base.Bytes Sem.Compile.
Import ListNotations.
Open Scope nat_scope.

(* ------------------------------------------------------------------ *)
(* memchr and sliceslice::MemchrSearcher                                *)

(* memchr::memchr(needle, haystack) -> Option<usize> *)
Fixpoint memchr (b : N) (h : bytes) : option nat :=
  match h with
  | [] => None
  | x :: h' => if (b =? x)%N then Some O else option_map S (memchr b h')
  end.

(*  pub fn inlined_search_in(&self, haystack: &[u8]) -> bool {
        if haystack.is_empty() { return false; }
        memchr(self.0, haystack).is_some()
    } *)
Definition memchr_search (b : N) (h : bytes) : bool :=
  match h with
  | [] => false
  | _ => match memchr b h with Some _ => true | None => false end
  end.

(* ------------------------------------------------------------------ *)
(* raw memory: reading [len] bytes at offset [off] of a slice           *)

Definition slice (m : bytes) (off len : nat) : option bytes :=
  if off + len <=? length m then Some (firstn len (skipn off m)) else None.

(* ------------------------------------------------------------------ *)
(* trait Vector (LANES = L); the Mask type is a vector of lane booleans *)

(* V::splat(a) *)
Definition splat (L : nat) (a : N) : list N := repeat a L.

(* V::load(ptr): reads exactly L bytes.  (__m16i/__m32i/__m64i read an
   i16/i32/i64 and broadcast it; only the low L lanes reach the bit mask.) *)
Definition load (m : bytes) (start L : nat) : option (list N) := slice m start L.

(* V::lanes_eq(a, b) = _mm*_cmpeq_epi8 *)
Fixpoint lanes_eq (a b : list N) : list bool :=
  match a, b with
  | x :: a', y :: b' => (x =? y)%N :: lanes_eq a' b'
  | _, _ => []
  end.

(* V::bitwise_and *)
Fixpoint lanes_and (a b : list bool) : list bool :=
  match a, b with
  | x :: a', y :: b' => (x && y) :: lanes_and a' b'
  | _, _ => []
  end.

(* V::to_bitmask = movemask (& 0x3 / 0xF / 0xFF for the narrow types):
   bit k of the result is lane k, for k < L; higher bits are 0. *)
Fixpoint to_bitmask (l : list bool) : N :=
  match l with
  | [] => 0%N
  | b :: l' => (2 * to_bitmask l' + N.b2n b)%N
  end.

(* ------------------------------------------------------------------ *)
(* the bit mask word: u32 in the code, [W] bits here (W = 32)           *)

Definition word_max (W : nat) : N := N.ones (N.of_nat W).     (* u32::MAX *)

(* a << s on a W-bit word; a shift by >= W bits overflows (panic in a debug
   build) *)
Definition word_shl (W : nat) (a : N) (s : nat) : option N :=
  if s <? W then Some (N.land (N.shiftl a (N.of_nat s)) (word_max W)) else None.

Fixpoint ctz_pos (p : positive) : nat :=
  match p with
  | xO p' => S (ctz_pos p')
  | _ => O
  end.

(* u32::trailing_zeros *)
Definition trailing_zeros (W : nat) (a : N) : nat :=
  match a with
  | N0 => W
  | Npos p => ctz_pos p
  end.

(* ------------------------------------------------------------------ *)
(* needles: trait Needle / NeedleWithSize                               *)

(* [size_const] is `N::SIZE`: Some n for `[u8; n]`, None for `Box<[u8]>`. *)
Record searcher := {
  s_size_const : option nat;
  s_needle : bytes;
  s_position : nat;
  s_first : N;       (* hash.first is splat(bytes[0]) *)
  s_last : N;        (* hash.last  is splat(bytes[position]) *)
}.

(*  fn size(&self) -> usize {
        if let Some(size) = Self::SIZE { size } else { self.as_bytes().len() }
    } *)
Definition needle_size (size_const : option nat) (needle : bytes) : nat :=
  match size_const with
  | Some n => n
  | None => length needle
  end.

(*  pub unsafe fn with_position(needle: N, position: usize) -> Self {
        assert!(position < needle.size());
        let bytes = needle.as_bytes();
        if let Some(size) = N::SIZE { assert_eq!(size, bytes.len()); }
        let sse2_hash = VectorHash::new(bytes[0], bytes[position]);
        let avx2_hash = VectorHash::new(bytes[0], bytes[position]);
        Self { position, sse2_hash, avx2_hash, needle }
    } *)
Definition with_position (size_const : option nat) (needle : bytes) (position : nat)
  : option searcher :=
  if negb (position <? needle_size size_const needle) then None
  else if negb (match size_const with Some n => n =? length needle | None => true end) then None
  else
    match nth_opt needle 0, nth_opt needle position with
    | Some f, Some l =>
        Some {| s_size_const := size_const; s_needle := needle; s_position := position;
                s_first := f; s_last := l |}
    | _, _ => None
    end.

(* memcmp!(chunk, needle, len):
     from_raw_parts(chunk, len) == from_raw_parts(needle, len)
   where chunk points [hoff] bytes into the haystack and needle one byte into
   the needle. *)
Definition memcmp (h : bytes) (hoff : nat) (n : bytes) (noff : nat) (len : nat) : option bool :=
  match slice h hoff len, slice n noff len with
  | Some a, Some b => Some (bytes_eqb a b)
  | _, _ => None
  end.

(*  let size = needle.size() - 1;
    match N::SIZE {
        Some(0) => unreachable!(),
        Some(1) => memcmp!(chunk, needle, 0),
        ...
        Some(16) => memcmp!(chunk, needle, 15),
        _ => memcmp!(chunk, needle, size),
    }
   The number of bytes compared after the first one. *)
Definition cmp_len (size_const : option nat) (needle : bytes) : option nat :=
  match size_const with
  | Some O => None
  | Some (S n) => if S n <=? 16 then Some n else Some (needle_size size_const needle - 1)
  | None => Some (needle_size size_const needle - 1)
  end.

(*  while eq != 0 {
        let chunk = chunk.add(eq.trailing_zeros() as usize);
        let equal = <size-specialised memcmp>;
        if equal { return true; }
        eq = eq & (eq - 1);          // clear left-most bit
    }
    false
   [verify tz] is the memcmp for the candidate in lane [tz].  The loop runs at
   most once per bit of the word, hence [fuel] = W suffices. *)
Fixpoint scan_candidates (W fuel : nat) (verify : nat -> option bool) (eq : N) : option bool :=
  if (eq =? 0)%N then Some false
  else
    match fuel with
    | O => None
    | S fuel' =>
        match verify (trailing_zeros W eq) with
        | None => None
        | Some true => Some true
        | Some false => scan_candidates W fuel' verify (N.land eq (N.pred eq))
        end
    end.

(*  unsafe fn vector_search_in_chunk<N, V>(needle, position, hash, start, mask) -> bool {
        let first = V::load(start);
        let last = V::load(start.add(position));
        let eq_first = V::lanes_eq(hash.first, first);
        let eq_last = V::lanes_eq(hash.last, last);
        let eq = V::bitwise_and(eq_first, eq_last);
        let mut eq = V::to_bitmask(eq) & mask;
        let chunk = start.add(1);
        let size = needle.size() - 1;
        let needle = needle.as_bytes().as_ptr().add(1);
        while eq != 0 { ... }
        false
    } *)
Definition vector_search_in_chunk (W : nat) (s : searcher) (L : nat) (h : bytes)
    (start : nat) (mask : N) : option bool :=
  match load h start L, load h (start + s_position s) L with
  | Some first, Some last =>
      let eq_first := lanes_eq (splat L (s_first s)) first in
      let eq_last := lanes_eq (splat L (s_last s)) last in
      let eq := N.land (to_bitmask (lanes_and eq_first eq_last)) mask in
      scan_candidates W W
        (fun tz =>
           match cmp_len (s_size_const s) (s_needle s) with
           | None => None
           | Some len => memcmp h (start + 1 + tz) (s_needle s) 1 len
           end)
        eq
  | _, _ => None
  end.

(* `for chunk in haystack[..end].chunks_exact(V::LANES)`: [count] full chunks
   starting at [start], every lane enabled (mask u32::MAX). *)
Fixpoint chunks_loop (W : nat) (s : searcher) (L : nat) (h : bytes) (count start : nat)
  : option bool :=
  match count with
  | O => Some false
  | S count' =>
      match vector_search_in_chunk W s L h start (word_max W) with
      | Some false => chunks_loop W s L h count' (start + L)
      | r => r
      end
  end.

(*  pub(crate) unsafe fn vector_search_in<N, V>(needle, position, haystack, end, hash) -> bool {
        debug_assert!(haystack.len() >= needle.size());
        let mut chunks = haystack[..end].chunks_exact(V::LANES);
        for chunk in &mut chunks {
            if vector_search_in_chunk(needle, position, hash, chunk.as_ptr(), u32::MAX) { return true; }
        }
        let remainder = chunks.remainder().len();
        if remainder > 0 {
            let start = haystack.as_ptr().add(end - V::LANES);
            let mask = u32::MAX << (V::LANES - remainder);
            if vector_search_in_chunk(needle, position, hash, start, mask) { return true; }
        }
        false
    } *)
Definition vector_search_in (W : nat) (s : searcher) (L : nat) (h : bytes) (end_ : nat)
  : option bool :=
  if length h <? needle_size (s_size_const s) (s_needle s) then None      (* debug_assert! *)
  else if length h <? end_ then None                                       (* haystack[..end] *)
  else if L =? 0 then None                                                 (* chunks_exact(0) panics *)
  else
    match chunks_loop W s L h (end_ / L) 0 with
    | Some false =>
        let remainder := end_ mod L in
        if 0 <? remainder then
          if end_ <? L then None                  (* end - LANES: pointer before the haystack *)
          else
            match word_shl W (word_max W) (L - remainder) with
            | None => None
            | Some mask => vector_search_in_chunk W s L h (end_ - L) mask
            end
        else Some false
    | r => r
    end.

(*  pub unsafe fn inlined_search_in(&self, haystack: &[u8]) -> bool {
        if haystack.len() <= self.needle.size() {
            return haystack == self.needle.as_bytes();
        }
        let end = haystack.len() - self.needle.size() + 1;
        if end < __m16i::LANES { unreachable!(); }
        else if end < __m32i::LANES  { self.sse2_2_search_in(haystack, end) }
        else if end < __m64i::LANES  { self.sse2_4_search_in(haystack, end) }
        else if end < __m128i::LANES { self.sse2_8_search_in(haystack, end) }
        else if end < __m256i::LANES { self.sse2_16_search_in(haystack, end) }
        else { self.avx2_search_in(haystack, end) }
    } *)
Definition lane_width (end_ : nat) : option nat :=
  if end_ <? 2 then None
  else if end_ <? 4 then Some 2
  else if end_ <? 8 then Some 4
  else if end_ <? 16 then Some 8
  else if end_ <? 32 then Some 16
  else Some 32.

Definition inlined_search_in (s : searcher) (h : bytes) : option bool :=
  let size := needle_size (s_size_const s) (s_needle s) in
  if length h <=? size then Some (bytes_eqb h (s_needle s))
  else
    let end_ := length h - size + 1 in
    match lane_width end_ with
    | None => None
    | Some L => vector_search_in 32 s L h end_
    end.

(* ------------------------------------------------------------------ *)
(* ComparisonOpExpr::Contains(bytes) in compile_with_compiler           *)

(*  if bytes.is_empty() { return search!(EmptySearcher); }            // always true
    if let [byte] = *bytes { return search!(MemchrSearcher::new(byte)); }
    if *USE_AVX2 {
        let position = rng().random_range(1..bytes.len());
        return match bytes.len() {
            2 => ArraySearcher(Avx2Searcher::with_position(slice_to_array::<2>(&bytes), position)),
            ...
            16 => ArraySearcher(Avx2Searcher::with_position(slice_to_array::<16>(&bytes), position)),
            _ => BoxSearcher(Avx2Searcher::with_position(bytes, position)),
        };
    }
    search!(MemmemSearcher::new(bytes))
   [anchor] is the value drawn by the random number generator (or forced by
   the verification hook). *)
Definition contains_dispatch (avx2 : bool) (anchor : nat) (needle hay : bytes) : option bool :=
  match needle with
  | [] => Some true
  | [b] => Some (memchr_search b hay)
  | _ =>
      if avx2 then
        let size_const := if length needle <=? 16 then Some (length needle) else None in
        match with_position size_const needle anchor with
        | None => None
        | Some s => inlined_search_in s hay
        end
      else Some (occurs needle hay)       (* memchr::memmem::Finder::find(..).is_some() *)
  end.
