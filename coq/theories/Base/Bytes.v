(* Bytes, byte strings and a few list utilities shared by the whole model.
   No proofs here: model files must keep running when a proof breaks. *)
From Coq Require Import List NArith ZArith Bool Ascii String.
Import ListNotations.
Open Scope N_scope.

Definition byte := N.
Definition bytes := list N.

Definition is_byte (b : N) : bool := b <? 256.
Definition are_bytes (l : bytes) : bool := forallb is_byte l.

Fixpoint bytes_eqb (a b : bytes) : bool :=
  match a, b with
  | [], [] => true
  | x :: a', y :: b' => (x =? y) && bytes_eqb a' b'
  | _, _ => false
  end.

(* Lexicographic comparison of byte strings (Rust's [u8] Ord). *)
Fixpoint bytes_compare (a b : bytes) : comparison :=
  match a, b with
  | [], [] => Eq
  | [], _ :: _ => Lt
  | _ :: _, [] => Gt
  | x :: a', y :: b' =>
      match x ?= y with
      | Eq => bytes_compare a' b'
      | c => c
      end
  end.

Fixpoint bytes_of_string (s : string) : bytes :=
  match s with
  | EmptyString => []
  | String c s' => N_of_ascii c :: bytes_of_string s'
  end.

Fixpoint starts_with (p s : bytes) : option bytes :=
  match p, s with
  | [], _ => Some s
  | x :: p', y :: s' => if x =? y then starts_with p' s' else None
  | _ :: _, [] => None
  end.

Fixpoint list_eqb {A} (eqb : A -> A -> bool) (a b : list A) : bool :=
  match a, b with
  | [], [] => true
  | x :: a', y :: b' => eqb x y && list_eqb eqb a' b'
  | _, _ => false
  end.

Definition option_eqb {A} (eqb : A -> A -> bool) (a b : option A) : bool :=
  match a, b with
  | None, None => true
  | Some x, Some y => eqb x y
  | _, _ => false
  end.

Fixpoint nth_opt {A} (l : list A) (n : nat) : option A :=
  match l, n with
  | [], _ => None
  | x :: _, O => Some x
  | _ :: l', S n' => nth_opt l' n'
  end.

Fixpoint option_map_all {A B} (f : A -> option B) (l : list A) : option (list B) :=
  match l with
  | [] => Some []
  | x :: l' =>
      match f x, option_map_all f l' with
      | Some y, Some ys => Some (y :: ys)
      | _, _ => None
      end
  end.
