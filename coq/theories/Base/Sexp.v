(* S-expressions: the wire format of the correspondence check.  The reader
   and the printer are Gallina so that they are extracted, not hand-written.

     sexp ::= '(' sexp* ')' | int | '#' hexdigit* | symbol
     int  ::= '-'? digit+
   Atoms are separated by single spaces or parentheses. *)
From Coq Require Import List NArith ZArith Bool Ascii String.
From Coq Require Decimal.
From WF Require Import Base.Bytes.
Import ListNotations.
Open Scope N_scope.

Inductive sexp :=
| SInt (z : Z)
| SBytes (b : bytes)
| SSym (s : bytes)
| SList (l : list sexp).

(* ---- numbers ---- *)

Fixpoint uint_to_bytes (u : Decimal.uint) : bytes :=
  match u with
  | Decimal.Nil => []
  | Decimal.D0 u => 48 :: uint_to_bytes u
  | Decimal.D1 u => 49 :: uint_to_bytes u
  | Decimal.D2 u => 50 :: uint_to_bytes u
  | Decimal.D3 u => 51 :: uint_to_bytes u
  | Decimal.D4 u => 52 :: uint_to_bytes u
  | Decimal.D5 u => 53 :: uint_to_bytes u
  | Decimal.D6 u => 54 :: uint_to_bytes u
  | Decimal.D7 u => 55 :: uint_to_bytes u
  | Decimal.D8 u => 56 :: uint_to_bytes u
  | Decimal.D9 u => 57 :: uint_to_bytes u
  end.

Definition print_N (n : N) : bytes :=
  match n with
  | 0 => [48]
  | _ => uint_to_bytes (N.to_uint n)
  end.

Definition print_Z (z : Z) : bytes :=
  match z with
  | Zneg p => 45 :: print_N (Npos p)
  | _ => print_N (Z.to_N z)
  end.

Definition is_digit (c : N) : bool := (48 <=? c) && (c <=? 57).

Fixpoint parse_N_acc (l : bytes) (acc : N) : option N :=
  match l with
  | [] => Some acc
  | c :: l' => if is_digit c then parse_N_acc l' (acc * 10 + (c - 48)) else None
  end.

Definition parse_N (l : bytes) : option N :=
  match l with
  | [] => None
  | _ => parse_N_acc l 0
  end.

Definition hex_digit (n : N) : N := if n <? 10 then 48 + n else 87 + n.

Definition hex_val (c : N) : option N :=
  if (48 <=? c) && (c <=? 57) then Some (c - 48)
  else if (97 <=? c) && (c <=? 102) then Some (c - 87)
  else if (65 <=? c) && (c <=? 70) then Some (c - 55)
  else None.

Fixpoint print_hex (b : bytes) : bytes :=
  match b with
  | [] => []
  | x :: b' => hex_digit (x / 16) :: hex_digit (x mod 16) :: print_hex b'
  end.

Fixpoint parse_hex (l : bytes) : option bytes :=
  match l with
  | [] => Some []
  | h :: l1 :: rest =>
      match hex_val h, hex_val l1, parse_hex rest with
      | Some a, Some b, Some r => Some (a * 16 + b :: r)
      | _, _, _ => None
      end
  | _ => None
  end.

(* ---- printer ---- *)

Fixpoint print_sexp (s : sexp) : bytes :=
  match s with
  | SInt z => print_Z z
  | SBytes b => 35 :: print_hex b
  | SSym s => s
  | SList l =>
      40 :: (fix go (l : list sexp) (first : bool) : bytes :=
               match l with
               | [] => [41]
               | x :: l' => (if first then [] else [32]) ++ print_sexp x ++ go l' false
               end) l true
  end.

(* ---- reader ---- *)

Inductive token := TOpen | TClose | TAtom (a : bytes).

(* [cur] is the atom being read, reversed.  ([rev_append], not [rev]: the
   latter is quadratic and case lines can carry long byte strings.) *)
Definition flush (cur : bytes) : list token :=
  match cur with [] => [] | _ => [TAtom (rev_append cur [])] end.

Fixpoint tokenize (l : bytes) (cur : bytes) : list token :=
  match l with
  | [] => flush cur
  | c :: l' =>
      if c =? 40 then flush cur ++ TOpen :: tokenize l' []
      else if c =? 41 then flush cur ++ TClose :: tokenize l' []
      else if (c =? 32) || (c =? 10) || (c =? 13) then flush cur ++ tokenize l' []
      else tokenize l' (c :: cur)
  end.

Definition atom_of (a : bytes) : option sexp :=
  match a with
  | [] => None
  | 35 :: h => option_map SBytes (parse_hex h)
  | 45 :: (d :: _) as ds =>
      if is_digit d then option_map (fun n => SInt (- Z.of_N n)) (parse_N ds) else Some (SSym a)
  | d :: _ =>
      if is_digit d then option_map (fun n => SInt (Z.of_N n)) (parse_N a) else Some (SSym a)
  end.

(* [stack]: enclosing lists, innermost first, each reversed. *)
Fixpoint build (ts : list token) (cur : list sexp) (stack : list (list sexp)) : option (list sexp) :=
  match ts with
  | [] => match stack with [] => Some (rev cur) | _ => None end
  | TOpen :: ts' => build ts' [] (cur :: stack)
  | TClose :: ts' =>
      match stack with
      | [] => None
      | up :: stack' => build ts' (SList (rev cur) :: up) stack'
      end
  | TAtom a :: ts' =>
      match atom_of a with
      | Some s => build ts' (s :: cur) stack
      | None => None
      end
  end.

Definition parse_sexp (l : bytes) : option sexp :=
  match build (tokenize l []) [] [] with
  | Some [s] => Some s
  | _ => None
  end.

(* ---- helpers for writing case decoders ---- *)

Definition sym (s : string) : sexp := SSym (bytes_of_string s).
Definition sym_is (s : string) (x : sexp) : bool :=
  match x with SSym b => bytes_eqb b (bytes_of_string s) | _ => false end.

Definition sbool (b : bool) : sexp := if b then sym "true" else sym "false".
Definition as_bool (x : sexp) : option bool :=
  if sym_is "true" x then Some true else if sym_is "false" x then Some false else None.
Definition as_Z (x : sexp) : option Z := match x with SInt z => Some z | _ => None end.
Definition as_N (x : sexp) : option N :=
  match x with SInt z => if (z <? 0)%Z then None else Some (Z.to_N z) | _ => None end.
Definition as_nat (x : sexp) : option nat := option_map N.to_nat (as_N x).
Definition as_bytes (x : sexp) : option bytes := match x with SBytes b => Some b | _ => None end.
Definition as_list (x : sexp) : option (list sexp) := match x with SList l => Some l | _ => None end.

Definition bad_case : sexp := SList [sym "bad-case"].
