(* Case decoders / result encoders for C08 (execution contexts).
   (ctx-history <scheme> <op>...)   -> (obs <o>...)   one observation per operation
      op ::= (new dst h) | (set c h f <value>) | (setn c #name <value>) | (get c h f) | (clear c)
           | (clone src dst) | (take src dst) | (borrow c) | (end) | (exec c h)
      scheme handles: 0 = scheme A, 1 = a clone of A, 2 = scheme B built independently from the same description;
      four slots, initially: 0 = ExecutionContext::new(A), 1 = ExecutionContext::new(B), 2 and 3 empty.
   (build-array <ty> <value>...)     -> (ok <value>) | (err)
   (build-map <ty> (#key <value>)...) -> (ok <value>) | (err) *)
From Coq Require Import List ZArith NArith Bool String.
From WF Require Import Base.Bytes Base.Sexp Sem.RangeSet Lang.Types Sem.CtxApi Spec.C08 Run.Lang.
Import ListNotations.
Open Scope string_scope.
Open Scope list_scope.

Definition dec_wf_value (x : sexp) : option value :=
  v <-- dec_value FUEL x ;; if value_wf v then Some v else None.

Definition dec_op (x : sexp) : option op :=
  match x with
  | SList [h] => if sym_is "end" h then Some OBorrowEnd else None
  | SList [h; a] =>
      a' <-- as_nat a ;;
      if sym_is "clear" h then Some (OClear a')
      else if sym_is "borrow" h then Some (OBorrowBegin a')
      else None
  | SList [h; a; b] =>
      a' <-- as_nat a ;; b' <-- as_nat b ;;
      if sym_is "new" h then Some (ONew a' b')
      else if sym_is "clone" h then Some (OCloneWith a' b')
      else if sym_is "take" h then Some (OTakeWith a' b')
      else if sym_is "exec" h then Some (OExecute a' b')
      else None
  | SList [h; a; b; c] =>
      if sym_is "setn" h then
        a' <-- as_nat a ;; n <-- as_bytes b ;; v <-- dec_wf_value c ;; Some (OSetByName a' n v)
      else if sym_is "get" h then
        a' <-- as_nat a ;; b' <-- as_nat b ;; c' <-- as_nat c ;; Some (OGet a' b' c')
      else None
  | SList [h; a; b; c; d] =>
      if sym_is "set" h then
        a' <-- as_nat a ;; b' <-- as_nat b ;; c' <-- as_nat c ;; v <-- dec_wf_value d ;;
        Some (OSetByField a' b' c' v)
      else None
  | _ => None
  end.

Definition enc_ovalue (o : option value) : sexp :=
  match o with Some v => enc_value v | None => sym "none" end.

Definition enc_obs (o : obs) : sexp :=
  match o with
  | ObOk => sym "ok"
  | ObPrev p => SList [sym "prev"; enc_ovalue p]
  | ObErr TypeMismatch => SList [sym "err"; sym "type"]
  | ObErr SchemeMismatch => SList [sym "err"; sym "scheme"]
  | ObErr UnknownField => SList [sym "err"; sym "unknown"]
  | ObVal p => SList [sym "val"; enc_ovalue p]
  | ObRefused => sym "refused"
  | ObExecuted => sym "executed"
  | ObSchemeMismatch => sym "scheme-mismatch"
  | ObNoCtx => sym "no-ctx"
  | ObBusy => sym "busy"
  | ObNoGuard => sym "no-guard"
  | ObBadArg => sym "bad-arg"
  end.

Definition history_config (sch : scheme) : config :=
  {| cf_fields := sc_fields sch; cf_idents := [0; 0; 1]%nat; cf_init := [Some 0; Some 2; None; None]%nat |}.

Definition enc_built (r : option value) : sexp :=
  match r with Some v => SList [sym "ok"; enc_value v] | None => SList [sym "err"] end.

Definition dec_pair (x : sexp) : option (bytes * value) :=
  match x with
  | SList [SBytes k; v] => option_map (pair k) (dec_wf_value v)
  | _ => None
  end.

Definition run_C08 (spec : bool) (head : sexp) (args : list sexp) : option sexp :=
  if sym_is "ctx-history" head then
    match args with
    | s :: ops =>
        sch <-- dec_scheme s ;; ops' <-- option_map_all dec_op ops ;;
        let cf := history_config sch in
        Some (SList (sym "obs" :: map enc_obs (if spec then a_run cf ops' else run cf ops')))
    | _ => None
    end
  else if sym_is "build-array" head then
    match args with
    | t :: elems =>
        t' <-- dec_ty FUEL t ;; l <-- option_map_all dec_wf_value elems ;;
        Some (enc_built (if spec then spec_array t' l else array_new t' l))
    | _ => None
    end
  else if sym_is "build-map" head then
    match args with
    | t :: pairs =>
        t' <-- dec_ty FUEL t ;; l <-- option_map_all dec_pair pairs ;;
        Some (enc_built (if spec then spec_map t' l else map_new t' l))
    | _ => None
    end
  else None.
