(* Case decoders / result encoders for C20 (C API: last-error protocol, CString).

   (ffi-history <call>...)                          one thread (a fresh one in the harness)
   (ffi-2threads (<call>...) (<call>...) (0|1 ...))  two fresh threads in lock-step (0 = A moves)
   (cstring-history <op>...)                        the real CString behind LAST_ERROR
   (ffi-history-coded ...) / (ffi-2threads-coded ...): the same through the model of the
        code AS IT STANDS (finding F8); used by tools/props/c20.py to classify.

   call   ::= (<name> <expect> <arg>...)   the arguments only matter to the harness
   expect ::= ok | (fail str|eng plain|nul) | panic
   The outcome of every call is predicted by the generator (it knows which filters are
   well typed, which names exist, ...); the model turns it into what the wrapper must
   return and what the thread's last error must be.  The message of the failing call
   number i (per thread, from 0) is the synthetic text  M<i>E  (M<i>\0E when the real
   message contains a NUL byte), written in several fragments; the harness answers
   with the number of the call whose Rust-API message the real buffer equals.

   answer ::= (obs <o>...)            o ::= (<ret> <le> same) | abort | notrun
            | (two (obs ...) (obs ...)) | (two-abort)
   ret ::= success | error | panic | true | false | ptr | value | unit | errptr
   le  ::= null | (msg <i> plain|nul) | (msg unknown) | (bad)
   `same`: the harness found the C result equal to the Rust API's on the same input.

   op ::= (append #bytes) | clear | (write-error #fragment...)       (write_last_error!)
   answer ::= (cs (buf #vector null|#cstr|overread)...)  one per op. *)
From Coq Require Import List ZArith NArith Bool String.
From WF Require Import Base.Bytes Base.Sexp Sem.CString Sem.FfiProto Spec.C20.
Import ListNotations.
Open Scope string_scope.

Definition fn_names : list (string * fn) :=
  [("get-last-error", F_get_last_error); ("clear-last-error", F_clear_last_error);
   ("create-builder", F_create_scheme_builder); ("free-builder", F_free_scheme_builder);
   ("make-type", F_create_primitive_type);
   ("add-field", F_add_type_field_to_scheme); ("add-always-list", F_add_always_list_to_scheme);
   ("add-never-list", F_add_never_list_to_scheme); ("build", F_build_scheme);
   ("free-scheme", F_free_scheme); ("parse", F_parse_filter); ("free-ast", F_free_parsed_filter);
   ("hash", F_get_filter_hash); ("json", F_serialize_filter_to_json);
   ("ser-scheme", F_serialize_scheme_to_json); ("ser-type", F_serialize_type_to_json);
   ("create-ctx", F_create_execution_context); ("ser-ctx", F_serialize_execution_context_to_json);
   ("deser-ctx", F_deserialize_json_to_execution_context); ("free-ctx", F_free_execution_context);
   ("add-json", F_add_json_value); ("add-int", F_add_int_value); ("add-bytes", F_add_bytes_value);
   ("add-ipv6", F_add_ipv6_value); ("add-ipv4", F_add_ipv4_value); ("add-bool", F_add_bool_value);
   ("compile", F_compile_filter); ("match", F_match); ("free-filter", F_free_compiled_filter);
   ("uses", F_filter_uses); ("uses-list", F_filter_uses_list); ("version", F_get_version);
   ("set-hook", F_set_panic_catcher_hook); ("set-fallback", F_set_panic_catcher_fallback_mode);
   ("enable", F_enable_panic_catcher); ("disable", F_disable_panic_catcher)].

Fixpoint lookup_fn (l : list (string * fn)) (x : sexp) : option fn :=
  match l with
  | [] => None
  | (n, f) :: l' => if sym_is n x then Some f else lookup_fn l' x
  end.

(* the synthetic message of call number i, as the fragments a Display would write *)
Definition msg_frags (i : N) (nul : bool) : message :=
  [[77%N]; print_N i; (if nul then [0%N] else []); [69%N]].

Definition panic_pre : bytes := bytes_of_string "thread 'x' panicked at '".
Definition panic_post : bytes := bytes_of_string "' in file 'f' at line 1".

Definition dec_expect (i : N) (x : sexp) : option outcome :=
  if sym_is "ok" x then Some Success
  else if sym_is "panic" x then Some (Panicked panic_pre (77%N :: print_N i ++ [69%N])%list panic_post)
  else match x with
       | SList [h; s; n] =>
           if sym_is "fail" h then
             match (if sym_is "str" s then Some AtToStr else if sym_is "eng" s then Some AtEngine else None),
                   (if sym_is "plain" n then Some false else if sym_is "nul" n then Some true else None) with
             | Some site, Some nul => Some (Failure site (msg_frags i nul))
             | _, _ => None
             end
           else None
       | _ => None
       end.

Definition dec_call (i : N) (x : sexp) : option call :=
  match x with
  | SList (h :: e :: _) =>
      match lookup_fn fn_names h, dec_expect i e with
      | Some f, Some o => if admissible (Call f o) then Some (Call f o) else None
      | _, _ => None
      end
  | _ => None
  end.

Fixpoint dec_calls (i : N) (l : list sexp) : option (list call) :=
  match l with
  | [] => Some []
  | x :: l' =>
      match dec_call i x, dec_calls (i + 1)%N l' with
      | Some c, Some cs => Some (c :: cs)
      | _, _ => None
      end
  end.

(* ---- reading a last-error text back: M<digits>[SUB]E anywhere in it ---- *)

Fixpoint take_digits (l acc : bytes) : bytes * bytes :=
  match l with
  | c :: l' => if is_digit c then take_digits l' (c :: acc) else (rev acc, l)
  | [] => (rev acc, [])
  end.

Definition parse_msg_at (l : bytes) : option (N * bool) :=
  let '(ds, rest) := take_digits l [] in
  match parse_N ds, rest with
  | Some n, 69%N :: _ => Some (n, false)
  | Some n, 26%N :: 69%N :: _ => Some (n, true)
  | _, _ => None
  end.

Fixpoint find_msg (l : bytes) : option (N * bool) :=
  match l with
  | [] => None
  | c :: l' =>
      if (c =? 77)%N then
        match parse_msg_at l' with
        | Some r => Some r
        | None => find_msg l'
        end
      else find_msg l'
  end.

Definition enc_view (v : cs_view_t) : sexp :=
  match v with
  | VNull => sym "null"
  | VStr m =>
      match find_msg m with
      | Some (i, nul) => SList [sym "msg"; SInt (Z.of_N i); sym (if nul then "nul" else "plain")]
      | None => SList [sym "msg"; sym "unknown"]
      end
  | VBad _ => SList [sym "bad"]
  end.

Definition enc_status (s : status) : sexp :=
  match s with StSuccess => sym "success" | StError => sym "error" | StPanic => sym "panic" end.

Definition enc_sobs (o : sobs) : sexp :=
  let '(r, v) := o in
  match r with
  | RAbort => sym "abort"
  | RNotRun => sym "notrun"
  | _ =>
      SList [match r with
             | RStatus s => enc_status s
             | RBool b => sbool b
             | RPtr => sym "ptr"
             | RValue => sym "value"
             | RUnit => sym "unit"
             | RErrPtr _ => sym "errptr"
             | RAbort => sym "abort"
             | RNotRun => sym "notrun"
             end; enc_view v; sym "same"]
  end.

Definition p0 : pstate := mk_pstate true false.   (* the harness installs the hook once per process *)

(* a process in which nobody has installed the panic hook yet (the harness runs such a history in a child process) *)
Definition p_nohook : pstate := mk_pstate false false.

Definition obs_model_from (p : pstate) (coded : bool) (h : list call) : list sobs :=
  map abs_obs (fst (fst (run coded p init_tstate h))).
Definition obs_model := obs_model_from p0.

Definition obs_spec_from (p : pstate) (h : list call) : list sobs := fst (fst (spec_run p init_astate h)).
Definition obs_spec := obs_spec_from p0.

Definition enc_obs_list (os : list sobs) : sexp := SList (sym "obs" :: map enc_sobs os).

Definition dec_sched (x : sexp) : option (list tid) :=
  match x with
  | SList l => option_map_all (fun y => match y with
                                        | SInt 0%Z => Some TA
                                        | SInt 1%Z => Some TB
                                        | _ => None
                                        end) l
  | _ => None
  end.

Definition aborted (os : list sobs) : bool :=
  existsb (fun o => match fst o with RAbort | RNotRun => true | _ => false end) os.

Definition enc_two (oa ob : list sobs) : sexp :=
  if aborted oa || aborted ob then SList [sym "two-abort"]
  else SList [sym "two"; enc_obs_list oa; enc_obs_list ob].

(* the schedule, then A to its end, then B to its end (as the harness does) *)
Definition two_model (coded : bool) (ha hb : list call) (sched : list tid) : sexp :=
  let full := (sched ++ repeat TA (List.length ha) ++ repeat TB (List.length hb))%list in
  let '(oa, ob, _, _, _) := interleave coded full (mk_gstate p0 init_tstate init_tstate) ha hb in
  enc_two (map abs_obs oa) (map abs_obs ob).

Definition two_spec (ha hb : list call) : sexp :=
  let '(oa, ob) := spec_two p0 ha hb in enc_two oa ob.

(* ---- the string buffer alone ---- *)

Definition dec_cs_op (x : sexp) : option (list cs_op) :=
  if sym_is "clear" x then Some [CsClear]
  else match x with
       | SList (h :: rest) =>
           if sym_is "append" h then
             match rest with [SBytes b] => Some [CsAppend b] | _ => None end
           else if sym_is "write-error" h then
             option_map (fun fr => CsClear :: map CsAppend (filter nonempty fr)) (option_map_all as_bytes rest)
           else None
       | _ => None
       end.

Definition enc_buf (s : cstring) : sexp :=
  SList [sym "buf"; SBytes s;
         match cs_as_c_str s with
         | None => sym "null"
         | Some p => match c_read p with Some m => SBytes m | None => sym "overread" end
         end].

Definition enc_pending (acc : option bytes) : sexp :=
  match acc with
  | None => SList [sym "buf"; SBytes []; sym "null"]
  | Some m => SList [sym "buf"; SBytes (spec_text m ++ [0%N])%list; SBytes (spec_text m)]
  end.

Fixpoint cs_model (s : cstring) (groups : list (list cs_op)) : list sexp :=
  match groups with
  | [] => []
  | g :: gs => let s' := cs_run s g in enc_buf s' :: cs_model s' gs
  end.

Fixpoint cs_spec (acc : option bytes) (groups : list (list cs_op)) : list sexp :=
  match groups with
  | [] => []
  | g :: gs => let acc' := spec_pending acc g in enc_pending acc' :: cs_spec acc' gs
  end.

Definition run_C20 (spec : bool) (head : sexp) (args : list sexp) : option sexp :=
  if sym_is "ffi-history" head then
    option_map (fun h => enc_obs_list (if spec then obs_spec h else obs_model false h)) (dec_calls 0 args)
  else if sym_is "ffi-history-nohook" head then
    option_map (fun h => enc_obs_list (if spec then obs_spec_from p_nohook h else obs_model_from p_nohook false h))
               (dec_calls 0 args)
  else if sym_is "ffi-history-coded" head then
    option_map (fun h => enc_obs_list (obs_model true h)) (dec_calls 0 args)
  else if sym_is "ffi-2threads" head then
    match args with
    | [SList a; SList b; s] =>
        match dec_calls 0 a, dec_calls 0 b, dec_sched s with
        | Some ha, Some hb, Some sc => Some (if spec then two_spec ha hb else two_model false ha hb sc)
        | _, _, _ => None
        end
    | _ => None
    end
  else if sym_is "ffi-2threads-coded" head then
    match args with
    | [SList a; SList b; s] =>
        match dec_calls 0 a, dec_calls 0 b, dec_sched s with
        | Some ha, Some hb, Some sc => Some (two_model true ha hb sc)
        | _, _, _ => None
        end
    | _ => None
    end
  else if sym_is "cstring-history" head then
    option_map (fun gs => SList (sym "cs" :: (if spec then cs_spec None gs else cs_model cs_new gs)))
               (option_map_all dec_cs_op args)
  else None.
