(* Case decoders / result encoders for C17 (`in $list`).

   (list-exec <scheme> #text <ast> <ctx>...) -> (ok <ast> (r <res> (q #name <value>)...)...)
        <ast> is one `lhs in $name` comparison, possibly under not / parentheses / any / all;
        per context: the result and the (name, value) queries the harness set-matcher received
   (list-ffi ...)  the same case; the implementation builds the scheme (the built-in lists) through the C API
   (list-name <scheme> #lhs <ty> #name)      -> (ok li #name) | (err InvalidListName|UnsupportedOp|other)
        the whole filter text is  <lhs> in $<name>  ; <ty> is the static type of <lhs>
   (list-history <scheme> <op>...)            -> (obs <o>...)  one observation per operation
        op ::= (add ty #name v) | (del ty #name v) | (setv f v) | (clear) | (roundtrip k)
             | (load (ty empty | ty (set (#name v...)...))...) | (dump ty) | (probe ty #name v)
             | (exec #text <ast>) *)
From Coq Require Import List ZArith NArith Bool String.
From WF Require Import Base.Bytes Base.Sexp Sem.RangeSet Lang.Types Lang.Ast Lang.Context
     Sem.Compile Spec.Denote Spec.Typing Parse.Lex Parse.Parser Sem.ListState Spec.C17 Run.Lang.
Import ListNotations.
Open Scope string_scope.
Open Scope list_scope.

(* ---- list-exec ---- *)
Fixpoint find_inlist (e : lexpr) : option (iexpr * nat * bytes) :=
  match e with
  | EComparison lhs (CInList li name) => Some (lhs, li, name)
  | EParen e' | ENot e' | EQuantLogical _ e' => find_inlist e'
  | _ => None
  end.

Definition spec_values (sch : scheme) (lhs : iexpr) (c : ctx) : option (list value) :=
  match denote_ident sch lhs c with
  | Some (base, _, idx) => Some (in_list_queries (select base idx))
  | None => None
  end.

Definition enc_queries (sch : scheme) (li : nat) (name : bytes) (vs : option (list value)) : list sexp :=
  match nth_error (sc_lists sch) li with
  | Some (_, LkSet) =>
      match vs with
      | Some l => map (fun v => SList [sym "q"; SBytes name; enc_value v]) l
      | None => [sym "no-queries"]
      end
  | _ => []                                       (* the built-in matchers record nothing *)
  end.

Definition run_list_exec (spec : bool) (a : list sexp) : option sexp :=
  match a with
  | s :: SBytes _ :: e :: ctxs =>
      sch <-- dec_scheme s ;; ast <-- dec_lexpr FUEL e ;; cs <-- option_map_all dec_ctx ctxs ;;
      match find_inlist ast with
      | None => None
      | Some (lhs, li, name) =>
          Some (SList (sym "ok" :: enc_lexpr ast ::
                       map (fun c =>
                              SList (sym "r" ::
                                     (if spec then enc_mbool (denote_filter sch ast c) "undef"
                                      else enc_mbool (run_filter sch ast c) "panic") ::
                                     enc_queries sch li name
                                       (if spec then spec_values sch lhs c else lhs_values sch lhs c))) cs))
      end
  | _ => None
  end.

(* ---- list-name ---- *)
Definition enc_name_outcome (o : name_outcome) : sexp :=
  match o with
  | NAccepted li name => SList [sym "ok"; SInt (Z.of_nat li); SBytes name]
  | NInvalidName => SList [sym "err"; sym "InvalidListName"]
  | NUnsupported => SList [sym "err"; sym "UnsupportedOp"]
  | NOther => SList [sym "err"; sym "other"]
  end.

Definition model_name_outcome (sch : scheme) (lhs name : bytes) : sexp :=
  match parse_filter sch default_settings (lhs ++ bytes_of_string " in $" ++ name) with
  | LOk (EComparison _ (CInList li nm)) _ => enc_name_outcome (NAccepted li nm)
  | LOk _ _ => SList [sym "other-ast"]
  | LErr EInvalidListName _ _ => enc_name_outcome NInvalidName
  | LErr EUnsupportedOp _ _ => enc_name_outcome NUnsupported
  | LErr _ _ _ => enc_name_outcome NOther
  | LPanic => SList [sym "panic"]
  | LFuel => SList [sym "fuel"]
  end.

Definition run_list_name (spec : bool) (a : list sexp) : option sexp :=
  match a with
  | [s; SBytes lhs; t; SBytes name] =>
      sch <-- dec_scheme s ;; t' <-- dec_ty FUEL t ;;
      Some (if spec then enc_name_outcome (list_name_outcome sch t' name) else model_name_outcome sch lhs name)
  | _ => None
  end.

(* ---- list-history ---- *)
Definition is_set_value (v : value) : bool :=
  match v with VInt _ | VBytes _ | VIp _ => true | _ => false end.

Definition dec_set_value (x : sexp) : option value :=
  v <-- dec_value FUEL x ;; if is_set_value v then Some v else None.

Definition dec_wf_value (x : sexp) : option value :=
  v <-- dec_value FUEL x ;; if value_wf v then Some v else None.

Fixpoint names_ascending (l : list (bytes * list value)) : bool :=
  match l with
  | [] => true
  | (n1, _) :: r =>
      match r with
      | [] => true
      | (n2, _) :: _ => match bytes_compare n1 n2 with Lt => names_ascending r | _ => false end
      end
  end.

Definition dec_sets (l : list sexp) : option (list (bytes * list value)) :=
  sets <-- option_map_all (fun s => match s with
                                    | SList (SBytes n :: vs) => option_map (pair n) (option_map_all dec_set_value vs)
                                    | _ => None
                                    end) l ;;
  if names_ascending sets then Some sets else None.

Definition dec_entry (x : sexp) : option (ty * mdata) :=
  match x with
  | SList [t; d] =>
      t' <-- dec_ty FUEL t ;;
      if sym_is "empty" d then Some (t', DEmpty)
      else l <-- tagged "set" d ;; sets <-- dec_sets l ;; Some (t', DSet sets)
  | _ => None
  end.

Definition dec_lop (x : sexp) : option lop :=
  match x with
  | SList [h] => if sym_is "clear" h then Some LClear else if sym_is "load" h then Some (LLoad []) else None
  | SList (h :: rest) =>
      if sym_is "load" h then option_map LLoad (option_map_all dec_entry rest)
      else
        match rest with
        | [a] =>
            if sym_is "roundtrip" h then option_map LRoundTrip (as_nat a)
            else if sym_is "dump" h then option_map LDump (dec_ty FUEL a)
            else None
        | [a; b] =>
            if sym_is "setv" h then f <-- as_nat a ;; v <-- dec_wf_value b ;; Some (LSetVal f v)
            else if sym_is "exec" h then
              match a with SBytes _ => option_map LExec (dec_lexpr FUEL b) | _ => None end
            else None
        | [a; b; c] =>
            t <-- dec_ty FUEL a ;; n <-- as_bytes b ;; v <-- dec_set_value c ;;
            if sym_is "add" h then Some (LAdd t n v)
            else if sym_is "del" h then Some (LDel t n v)
            else if sym_is "probe" h then Some (LProbe t n v)
            else None
        | _ => None
        end
  | _ => None
  end.

Definition enc_matcher (m : matcher) : sexp :=
  match m with
  | MAlways => sym "always"
  | MNever => sym "never"
  | MSet sets => SList (sym "set" :: map (fun s => SList (SBytes (fst s) :: map enc_value (snd s))) sets)
  end.

Definition enc_derr (e : derr) : sexp :=
  SList [sym "err"; sym (match e with
                         | ENoList => "no-list" | EBadData => "bad-data"
                         | ENoField => "no-field" | EBadValue => "bad-value"
                         end)].

Definition enc_lobs (o : lop) (b : lobs) : sexp :=
  let plain :=
    match b with
    | BOk => sym "ok"
    | BNoList => sym "no-list"
    | BNotSet => sym "not-set"
    | BErr e => enc_derr e
    | BState c =>
        SList [sym "state";
               SList (sym "vals" :: map (fun o => match o with Some v => enc_value v | None => sym "none" end) (cx_vals c));
               SList (sym "lists" :: map enc_matcher (cx_lists c))]
    | BDump m => SList [sym "dump"; enc_matcher m]
    | BBool x => sbool x
    | BBadFilter => sym "bad-filter"
    | BBadArg => sym "bad-arg"
    | BPanic => sym "panic"
    | BUndef => sym "undef"
    end in
  match o, b with
  | LExec e, (BBool _ | BPanic | BUndef) => SList [sym "r"; enc_lexpr e; plain]
  | _, _ => plain
  end.

Fixpoint types_distinct (l : list ty) : bool :=
  match l with
  | [] => true
  | t :: r => negb (existsb (ty_eqb t) r) && types_distinct r
  end.

Definition history_scheme_ok (sch : scheme) : bool :=
  forallb fd_optional (sc_fields sch) && types_distinct (map fst (sc_lists sch)).

Fixpoint enc_run (ops : list lop) (obs : list lobs) : list sexp :=
  match ops, obs with
  | o :: ops', b :: obs' => enc_lobs o b :: enc_run ops' obs'
  | _, _ => []
  end.

Definition run_list_history (spec : bool) (a : list sexp) : option sexp :=
  match a with
  | s :: ops =>
      sch <-- dec_scheme s ;; ops' <-- option_map_all dec_lop ops ;;
      if history_scheme_ok sch
      then Some (SList (sym "obs" :: enc_run ops' (if spec then a_run sch ops' else l_run sch ops')))
      else None
  | _ => None
  end.

Definition run_C17 (spec : bool) (head : sexp) (args : list sexp) : option sexp :=
  if sym_is "list-exec" head || sym_is "list-ffi" head then run_list_exec spec args
  else if sym_is "list-name" head then run_list_name spec args
  else if sym_is "list-history" head then run_list_history spec args
  else None.
