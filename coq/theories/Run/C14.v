(* Case decoders / result encoders for C14 (serialization of execution contexts).

   (ctx-roundtrip <scheme> <ctx> <entry>)
       -> (ok <ctx> #text) | (err) | (panic)
          the context is written as JSON text, the text is read into a FRESH
          context of the same scheme through the entry point; <ctx> is what the
          fresh context holds afterwards, #text the JSON text
   (ctx-roundtrip-exec <scheme> #filter <ast> <ctx> <entry>)
       -> (ok before after) | (err) | (panic)     the filter run on both contexts
   (ctx-json <scheme> #text <entry>)      -> (ok <ctx>) | (err) | (panic)
   (value-roundtrip <value> <entry>)      -> (ok <value> #text) | (err)
   (value-json <ty> #text <entry>)        -> (ok <value>) | (err)
   <entry> = str | slice | reader | value | capi
   <scheme>, <ctx>, <value>, <ty>, <ast>: as in Run/Lang.v *)
From Coq Require Import List ZArith NArith Bool String.
From WF Require Import Base.Bytes Base.Sexp Sem.RangeSet Lang.Types Lang.Ast Lang.Context Sem.Compile Spec.Denote
     Sem.TypeCodec Sem.JsonText Sem.CtxSerde Spec.C14 Run.Lang Run.C15.
Import ListNotations.
Open Scope string_scope.

(* the four ways of C15, and the C API function (a reader that is never asked
   for end(): what follows the document is not looked at) *)
Inductive entry14 := E4 (e : entry) | ECapi.

Definition dec_entry14 (x : sexp) : option entry14 :=
  if sym_is "capi" x then Some ECapi else option_map E4 (dec_entry x).

Definition read_tree (e : entry14) (text : bytes) : option json :=
  match e with
  | E4 e' => option_map (supply e') (json_parse text)
  | ECapi => json_parse_prefix text
  end.

Definition enc_matcher (m : matcher) : sexp :=
  match m with
  | MAlways => sym "always"
  | MNever => sym "never"
  | MSet sets => SList (sym "set" :: map (fun s : bytes * list value => SList (SBytes (fst s) :: map enc_value (snd s))) sets)
  end.

Definition enc_ctx (c : ctx) : sexp :=
  SList [sym "ctx";
         SList (sym "vals" :: map (fun o : option value => match o with Some v => enc_value v | None => sym "none" end)
                                  (cx_vals c));
         SList (sym "lists" :: map enc_matcher (cx_lists c))].

Definition s_panic14 : sexp := SList [sym "panic"].

(* ---- model side ---- *)

Definition m_read_ctx (e : entry14) (sch : scheme) (text : bytes) : outcome ctx :=
  match read_tree e text with
  | Some j => ctx_decode sch j
  | None => Refused
  end.

Definition m_read_value (e : entry14) (t : ty) (text : bytes) : result value :=
  match read_tree e text with
  | Some j => value_of_json t j
  | None => Err
  end.

Definition m_ctx_roundtrip (e : entry14) (sch : scheme) (c : ctx) : sexp :=
  let text := json_print (ctx_to_json sch c) in
  match m_read_ctx e sch text with
  | Done c' => SList [sym "ok"; enc_ctx c'; SBytes text]
  | Refused => s_err
  | Panicked => s_panic14
  end.

Definition m_ctx_roundtrip_exec (e : entry14) (sch : scheme) (ast : lexpr) (c : ctx) : sexp :=
  let text := json_print (ctx_to_json sch c) in
  match m_read_ctx e sch text with
  | Done c' => SList [sym "ok"; enc_mbool (run_filter sch ast c) "panic"; enc_mbool (run_filter sch ast c') "panic"]
  | Refused => s_err
  | Panicked => s_panic14
  end.

Definition m_ctx_json (e : entry14) (sch : scheme) (text : bytes) : sexp :=
  match m_read_ctx e sch text with
  | Done c => SList [sym "ok"; enc_ctx c]
  | Refused => s_err
  | Panicked => s_panic14
  end.

Definition m_value_roundtrip (e : entry14) (v : value) : sexp :=
  let text := json_print (value_to_json v) in
  match m_read_value e (type_of v) text with
  | Ok v' => SList [sym "ok"; enc_value v'; SBytes text]
  | Err => s_err
  end.

Definition m_value_json (e : entry14) (t : ty) (text : bytes) : sexp :=
  match m_read_value e t text with
  | Ok v => SList [sym "ok"; enc_value v]
  | Err => s_err
  end.

(* ---- specification side ----
   The text of a context is not part of the property: the model's text is
   shown.  A round trip gives the context back, whatever the entry point. *)
Definition s_ctx_roundtrip (sch : scheme) (c : ctx) : sexp :=
  match spec_ctx_roundtrip sch c with
  | Ok c' => SList [sym "ok"; enc_ctx c'; SBytes (json_print (ctx_to_json sch c))]
  | Err => s_err
  end.

Definition s_ctx_roundtrip_exec (sch : scheme) (ast : lexpr) (c : ctx) : sexp :=
  let r := enc_mbool (denote_filter sch ast c) "undef" in SList [sym "ok"; r; r].

Definition s_ctx_json (e : entry14) (sch : scheme) (text : bytes) : sexp :=
  match read_tree e text with
  | Some j => match spec_ctx_of_json sch j with Ok c => SList [sym "ok"; enc_ctx c] | Err => s_err end
  | None => s_err
  end.

Definition s_value_roundtrip (v : value) : sexp :=
  match spec_value_roundtrip v with
  | Ok v' => SList [sym "ok"; enc_value v'; SBytes (json_print (value_to_json v))]
  | Err => s_err
  end.

(* ---- dispatch ---- *)

Definition run_C14 (spec : bool) (head : sexp) (args : list sexp) : option sexp :=
  if sym_is "ctx-roundtrip" head then
    match args with
    | [s; c; e] =>
        sch <-- dec_scheme s ;; c' <-- dec_ctx c ;; e' <-- dec_entry14 e ;;
        Some (if spec then s_ctx_roundtrip sch c' else m_ctx_roundtrip e' sch c')
    | _ => None
    end
  else if sym_is "ctx-roundtrip-exec" head then
    match args with
    | [s; SBytes _; a; c; e] =>
        sch <-- dec_scheme s ;; ast <-- dec_lexpr FUEL a ;; c' <-- dec_ctx c ;; e' <-- dec_entry14 e ;;
        Some (if spec then s_ctx_roundtrip_exec sch ast c' else m_ctx_roundtrip_exec e' sch ast c')
    | _ => None
    end
  else if sym_is "ctx-json" head then
    match args with
    | [s; SBytes text; e] =>
        sch <-- dec_scheme s ;; e' <-- dec_entry14 e ;;
        Some (if spec then s_ctx_json e' sch text else m_ctx_json e' sch text)
    | _ => None
    end
  else if sym_is "value-roundtrip" head then
    match args with
    | [v; e] =>
        v' <-- dec_value FUEL v ;; e' <-- dec_entry14 e ;;
        Some (if spec then s_value_roundtrip v' else m_value_roundtrip e' v')
    | _ => None
    end
  else if sym_is "value-json" head then
    match args with
    | [t; SBytes text; e] =>
        t' <-- dec_ty FUEL t ;; e' <-- dec_entry14 e ;;
        Some (m_value_json e' t' text)
    | _ => None
    end
  else None.
