(* Case decoders / result encoders for C07 (canonical AST / JSON / hash).

   (c07 scheme #text)                      -> (ok <ast> #json hash) | (err)
   (c07-same scheme <ast> #text ...)       -> (ok <ast> #json hash) | (differ i) | (layout i (err))
   (c07-distinct scheme <a1> #t1 <a2> #t2) -> (ok #json1 hash1 #json2 hash2 differ|same)

   Model (spec = false): every text is parsed by the parser model [parse_filter];
   the document is [json_of_lexpr], its text [jprint], the hash [fnv1a64].
   Specification (spec = true): the answer is computed from the AST written in
   the case (for `c07`, which carries none, from the parsed one): the canonical
   document of its structure [canon_text], [fnv1a_spec]; two filters must have
   different documents exactly when their structures differ.
   The specification's hash [canon_hash] = [fnv1a_spec] of the canonical text is
   evaluated through [fnv1a64] (theorem fnv_model_is_spec, Proofs/AstJsonProofs.v:
   they are equal on every text): the division-based `mod 2^64` of the definition
   costs about 30 ms per kilobyte once extracted. *)
From Coq Require Import List ZArith NArith Bool String.
From WF Require Import Base.Bytes Base.Sexp Lang.Types Lang.Ast Parse.Lex Parse.Parser
     Sem.AstJson Spec.C07 Run.Lang.
Import ListNotations.
Open Scope string_scope.
Open Scope list_scope.

Definition enc_doc (ast : sexp) (text : bytes) (h : N) : list sexp := [ast; SBytes text; SInt (Z.of_N h)].

(* canon_hash, evaluated fast (see above) *)
Definition spec_hash (sch : scheme) (e : lexpr) : N := fnv1a64 (canon_text sch e).

(* one text through the parser model *)
Definition m_one (spec : bool) (sch : scheme) (text : bytes) : option (list sexp) :=
  match parse_filter sch default_settings text with
  | LOk e _ =>
      Some (if spec then enc_doc (enc_lexpr e) (canon_text sch e) (spec_hash sch e)
            else enc_doc (enc_lexpr e) (filter_json_text sch e) (filter_hash sch e))
  | _ => None
  end.

Definition sexps_eqb (a b : list sexp) : bool :=
  bytes_eqb (print_sexp (SList a)) (print_sexp (SList b)).

(* all layouts give the answer of the first *)
Fixpoint m_same (sch : scheme) (i : nat) (first : option (list sexp)) (texts : list sexp) : sexp :=
  match texts with
  | [] => match first with Some r => SList (sym "ok" :: r) | None => bad_case end
  | t :: rest =>
      match t with
      | SBytes text =>
          match m_one false sch text with
          | None => SList [sym "layout"; SInt (Z.of_nat i); SList [sym "err"]]
          | Some r =>
              match first with
              | None => m_same sch (S i) (Some r) rest
              | Some r0 => if sexps_eqb r0 r then m_same sch (S i) first rest
                           else SList [sym "differ"; SInt (Z.of_nat i)]
              end
          end
      | _ => bad_case
      end
  end.

(* the structures of two ASTs are the same (decided on the printed form of the erased ASTs) *)
Definition struct_eqb (a1 a2 : lexpr) : bool :=
  bytes_eqb (print_sexp (enc_lexpr (erase a1))) (print_sexp (enc_lexpr (erase a2))).

Definition run_C07 (spec : bool) (head : sexp) (args : list sexp) : option sexp :=
  if sym_is "c07" head then
    match args with
    | [s; SBytes text] =>
        sch <-- dec_scheme s ;;
        Some (match m_one spec sch text with
              | Some r => SList (sym "ok" :: r)
              | None => SList [sym "err"]
              end)
    | _ => None
    end
  else if sym_is "c07-same" head then
    match args with
    | s :: a :: texts =>
        sch <-- dec_scheme s ;; ast <-- dec_lexpr FUEL a ;;
        if spec then Some (SList (sym "ok" :: enc_doc (enc_lexpr ast) (canon_text sch ast) (spec_hash sch ast)))
        else Some (m_same sch 0 None texts)
    | _ => None
    end
  else if sym_is "c07-distinct" head then
    match args with
    | [s; a1; SBytes t1; a2; SBytes t2] =>
        sch <-- dec_scheme s ;; e1 <-- dec_lexpr FUEL a1 ;; e2 <-- dec_lexpr FUEL a2 ;;
        if spec then
          Some (SList [sym "ok"; SBytes (canon_text sch e1); SInt (Z.of_N (spec_hash sch e1));
                       SBytes (canon_text sch e2); SInt (Z.of_N (spec_hash sch e2));
                       sym (if struct_eqb e1 e2 then "same" else "differ")])
        else
          match parse_filter sch default_settings t1, parse_filter sch default_settings t2 with
          | LOk p1 _, LOk p2 _ =>
              let j1 := filter_json_text sch p1 in
              let j2 := filter_json_text sch p2 in
              Some (SList [sym "ok"; SBytes j1; SInt (Z.of_N (fnv1a64 j1)); SBytes j2; SInt (Z.of_N (fnv1a64 j2));
                           sym (if bytes_eqb j1 j2 then "same" else "differ")])
          | LOk _ _, _ => Some (SList [sym "layout"; SInt 1; SList [sym "err"]])
          | _, _ => Some (SList [sym "layout"; SInt 0; SList [sym "err"]])
          end
    | _ => None
    end
  else None.
