(* Case decoder / result encoder for C16 (scheme registry).
   case:  (registry-history (op ...) (query ...)) -> (ok (response ...) (answer ...))
   op    ::= (field #name ty) | (ofield #name ty) | (fn #name) | (list ty always|never)
   query ::= (get-field #name) | (get-function #name) | (get-list ty) | fields | functions
           | lists | counts | (parse-ident #text) | (scheme-eq) *)
From Coq Require Import List ZArith NArith Bool String.
From WF Require Import Base.Bytes Base.Sexp Lang.Types Sem.Registry Spec.C16 Sem.RegistryFast Run.Lang.
Import ListNotations.
Open Scope string_scope.
Open Scope list_scope.

Definition dec_kind (x : sexp) : option list_kind :=
  if sym_is "always" x then Some LkAlways else if sym_is "never" x then Some LkNever else None.

Definition enc_kind (k : list_kind) : sexp :=
  match k with LkAlways => sym "always" | LkNever => sym "never" | LkSet => sym "set" end.

Definition dec_op (x : sexp) : option reg_op :=
  match x with
  | SList [h; SBytes n; t] =>
      if sym_is "field" h then option_map (OpField n) (dec_ty FUEL t)
      else if sym_is "ofield" h then option_map (OpOField n) (dec_ty FUEL t)
      else None
  | SList [h; SBytes n] => if sym_is "fn" h then Some (OpFn n) else None
  | SList [h; t; k] =>
      if sym_is "list" h then
        match dec_ty FUEL t, dec_kind k with
        | Some t', Some k' => Some (OpList t' k')
        | _, _ => None
        end
      else None
  | _ => None
  end.

Definition enc_response (r : add_result) : sexp :=
  match r with
  | AddOk => sym "ok"
  | AddErr RedefField => SList [sym "err"; sym "field"]
  | AddErr RedefFunction => SList [sym "err"; sym "function"]
  | AddErr RedefList => SList [sym "err"; sym "list"]
  end.

Definition snat (n : nat) : sexp := SInt (Z.of_nat n).

Definition enc_field (p : nat * field_def) : sexp :=
  SList [sym "field"; snat (fst p); SBytes (fd_name (snd p)); enc_ty (fd_ty (snd p)); sbool (fd_optional (snd p))].
Definition enc_fn (p : nat * bytes) : sexp := SList [sym "fn"; snat (fst p); SBytes (snd p)].
Definition enc_list (p : nat * (ty * list_kind)) : sexp :=
  SList [sym "list"; snat (fst p); enc_ty (fst (snd p)); enc_kind (snd (snd p))].

Definition panic_answer : sexp := SList [sym "panic"].

Definition enc_opt {A} (f : A -> sexp) (x : option (option A)) : sexp :=
  match x with
  | None => panic_answer
  | Some None => sym "none"
  | Some (Some a) => f a
  end.

Definition enc_all {A} (tag : string) (f : A -> sexp) (x : option (list A)) : sexp :=
  match x with
  | None => panic_answer
  | Some l => SList (sym tag :: map f l)
  end.

Definition enc_counts (c : nat * nat * nat) : sexp :=
  SList [sym "counts"; snat (fst (fst c)); snat (snd (fst c)); snat (snd c)].

Definition enc_lex_err (e : lex_err) : sexp :=
  sym match e with
      | ExpectedName => "expected-name"
      | UnknownIdentifier => "unknown-identifier"
      | ExpectedLiteral => "expected-literal"
      | EOF => "eof"
      | TypeMismatch => "type-mismatch"
      | OutOfFuel => "out-of-fuel"
      | Unmodelled => "unmodelled"
      end.

Definition enc_probe (p : probe_res) : sexp :=
  match p with
  | PField i => SList [sym "field"; snat i]
  | PCall i => SList [sym "call"; snat i]
  | PErr e => SList [sym "err"; enc_lex_err e]
  end.

Definition call_text (text : bytes) : bytes := (text ++ [40; 41])%list.

(* (scheme-eq): the scheme, a clone of it, and a scheme built again from the
   same history; then the same for the first field of each, when there is one *)
Definition eq_world (ops : list reg_op) : list scheme_op := [SBuild ops; SClone 0; SBuild ops].

Definition enc_scheme_eq (clone_eq rebuilt_eq has_field : bool) : sexp :=
  SList (sym "scheme-eq" :: sbool clone_eq :: sbool rebuilt_eq ::
         (if has_field then [sbool clone_eq; sbool rebuilt_eq] else [])).

Definition model_scheme_eq (ops : list reg_op) : sexp :=
  match run_scheme_ops (eq_world ops) with
  | [s0; s1; s2] =>
      match fields (s_inner s0) with
      | [] => SList [sym "scheme-eq"; sbool (scheme_eqb s1 s0); sbool (scheme_eqb s2 s0)]
      | i :: _ =>
          SList [sym "scheme-eq"; sbool (scheme_eqb s1 s0); sbool (scheme_eqb s2 s0);
                 sbool (field_ref_eqb (s0, i) (s1, i)); sbool (field_ref_eqb (s0, i) (s2, i))]
      end
  | _ => panic_answer
  end.

Definition spec_scheme_eq (ops : list reg_op) (l : registry) : sexp :=
  match scheme_origins (eq_world ops) with
  | [o0; o1; o2] =>
      enc_scheme_eq (Nat.eqb o1 o0) (Nat.eqb o2 o0) (match reg_fields l with [] => false | _ => true end)
  | _ => panic_answer
  end.

Definition model_answer (ops : list reg_op) (b : builder) (q : sexp) : option sexp :=
  if sym_is "fields" q then Some (enc_all "fields" enc_field (obs_fields b))
  else if sym_is "functions" q then Some (enc_all "functions" enc_fn (obs_functions b))
  else if sym_is "lists" q then Some (enc_all "lists" enc_list (obs_lists b))
  else if sym_is "counts" q then Some (enc_counts (obs_counts b))
  else
    match q with
    | SList [h] => if sym_is "scheme-eq" h then Some (model_scheme_eq ops) else None
    | SList [h; SBytes n] =>
        if sym_is "get-field" h then Some (enc_opt enc_field (obs_get_field b n))
        else if sym_is "get-function" h then Some (enc_opt enc_fn (obs_get_function b n))
        else if sym_is "parse-ident" h then
          Some (SList [sym "parse-ident";
                       enc_probe (probe_value b n); enc_probe (probe_value b (call_text n));
                       enc_probe (probe_filter b n); enc_probe (probe_filter b (call_text n))])
        else None
    | SList [h; t] =>
        if sym_is "get-list" h then
          match dec_ty FUEL t with
          | Some t' => Some (enc_opt enc_list (obs_get_list b t'))
          | None => None
          end
        else None
    | _ => None
    end.

Definition spec_answer (ops : list reg_op) (l : registry) (q : sexp) : option sexp :=
  if sym_is "fields" q then Some (SList (sym "fields" :: map enc_field (spec_fields l)))
  else if sym_is "functions" q then Some (SList (sym "functions" :: map enc_fn (spec_functions l)))
  else if sym_is "lists" q then Some (SList (sym "lists" :: map enc_list (spec_lists l)))
  else if sym_is "counts" q then Some (enc_counts (spec_counts l))
  else
    match q with
    | SList [h] => if sym_is "scheme-eq" h then Some (spec_scheme_eq ops l) else None
    | SList [h; SBytes n] =>
        if sym_is "get-field" h then Some (enc_opt enc_field (Some (spec_get_field l n)))
        else if sym_is "get-function" h then Some (enc_opt enc_fn (Some (spec_get_function l n)))
        else if sym_is "parse-ident" h then
          Some (SList [sym "parse-ident";
                       enc_probe (spec_probe_value l n); enc_probe (spec_probe_value l (call_text n));
                       enc_probe (spec_probe_filter l n); enc_probe (spec_probe_filter l (call_text n))])
        else None
    | SList [h; t] =>
        if sym_is "get-list" h then
          match dec_ty FUEL t with
          | Some t' => Some (enc_opt enc_list (Some (spec_get_list l t')))
          | None => None
          end
        else None
    | _ => None
    end.

Definition run_C16 (spec : bool) (head : sexp) (args : list sexp) : option sexp :=
  if sym_is "registry-history" head then
    match args with
    | [SList ops; SList queries] =>
        match option_map_all dec_op ops with
        | None => None
        | Some ops' =>
            let answers :=
              if spec
              (* the linear-cost runners; equal to spec_run_ops / run_ops by
                 C16_fast_spec_runner / C16_fast_model_runner *)
              then let st := spec_run_ops_fast ops' in
                   option_map (fun a => (map enc_response (fst st), a))
                              (option_map_all (spec_answer ops' (snd st)) queries)
              else let st := run_ops_fast ops' in
                   option_map (fun a => (map enc_response (fst st), a))
                              (option_map_all (model_answer ops' (snd st)) queries) in
            match answers with
            | Some (rs, a) => Some (SList [sym "ok"; SList rs; SList a])
            | None => None
            end
        end
    | _ => None
    end
  else None.
