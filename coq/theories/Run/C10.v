(* Case decoders / result encoders for C10 (`contains`).
     (contains <anchor|none> #needle (#hay ...)) -> (ok b ...)
     (simd-active)                               -> (simd any)
   The model answer is computed on the SIMD path (avx2 = true) with the
   anchor of the case and compared, inside the model, with the scalar path
   (avx2 = false); `none` (or an anchor the hook would ignore: outside
   1..len-1) stands for the random choice, so every possible anchor is run
   and all answers must agree.  A disagreement between paths prints
   (mismatch-between-paths), an out-of-bounds read / panic prints (panic). *)
From Coq Require Import List ZArith NArith Arith Bool String.
From WF Require Import Base.Bytes Base.Sexp Sem.Compile Spec.Denote Sem.Searcher Spec.C10.
Import ListNotations.
Open Scope string_scope.

Definition dec_anchor (x : sexp) : option (option nat) :=
  if sym_is "none" x then Some None else option_map Some (as_nat x).

(* wirefilter::verif::anchor_override: positions outside 1..needle_len are ignored *)
Definition anchors_of (a : option nat) (needle : bytes) : list nat :=
  let len := List.length needle in
  match a with
  | Some k => if (1 <=? k)%nat && (k <? len)%nat then [k] else seq 1 (len - 1)
  | None => seq 1 (len - 1)
  end.

Definition option_bool_eqb (a b : option bool) : bool := option_eqb Bool.eqb a b.

(* Some (Some b): every path answers b; Some None: paths disagree; None: a path panics *)
Definition all_paths (anchors : list nat) (needle hay : bytes) : option (option bool) :=
  let a0 := match anchors with a :: _ => a | [] => O end in
  match contains_dispatch true a0 needle hay with
  | None => None
  | Some b =>
      let rs := contains_dispatch false a0 needle hay
                :: map (fun a => contains_dispatch true a needle hay) anchors in
      if existsb (fun r => match r with None => true | Some _ => false end) rs then None
      else if forallb (option_bool_eqb (Some b)) rs then Some (Some b)
      else Some None
  end.

Fixpoint collect (rs : list (option (option bool))) (acc : list sexp) : sexp :=
  match rs with
  | [] => SList (sym "ok" :: rev acc)
  | None :: _ => SList [sym "panic"]
  | Some None :: _ => SList [sym "mismatch-between-paths"]
  | Some (Some b) :: rs' => collect rs' (sbool b :: acc)
  end.

Definition run_C10 (spec : bool) (head : sexp) (args : list sexp) : option sexp :=
  if sym_is "simd-active" head then
    match args with
    | [] => Some (SList [sym "simd"; sym "any"])
    | _ => None
    end
  else if sym_is "contains" head then
    match args with
    | [anc; SBytes needle; SList hays] =>
        match dec_anchor anc, option_map_all as_bytes hays with
        | Some a, Some hs =>
            if spec then Some (SList (sym "ok" :: map (fun h => sbool (contains_spec needle h)) hs))
            else Some (collect (map (all_paths (anchors_of a needle) needle) hs) [])
        | _, _ => None
        end
    | _ => None
    end
  else None.
