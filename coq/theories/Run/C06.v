(* Case decoders / result encoders for C06 (literal forms).
   case: (lit KIND PAREN #text #suffix)      -> (ok <literal>) | (err Kind)
         (lit-span KIND PAREN #text #suffix) -> (ok <literal>) | (err Kind line start len)
   There is no separate executable specification: the specification of C06 is
   the printers of Spec/C06.v, tied to the lexers by the round-trip theorems. *)
From Coq Require Import List ZArith NArith Bool String.
From WF Require Import Base.Bytes Base.Sexp Sem.RangeSet Lang.Ast Parse.Lex Parse.LitCases.
Import ListNotations.
Open Scope string_scope.

Definition dec_kind (x : sexp) : option lit_kind :=
  if sym_is "int-eq" x then Some KIntEq
  else if sym_is "int-in" x then Some KIntIn
  else if sym_is "int-list" x then Some KIntList
  else if sym_is "bytes-eq" x then Some KBytesEq
  else if sym_is "bytes-in" x then Some KBytesIn
  else if sym_is "ip-eq" x then Some KIpEq
  else if sym_is "ip-in" x then Some KIpIn
  else if sym_is "arr-idx" x then Some KArrIdx
  else if sym_is "map-idx" x then Some KMapIdx
  else None.

Definition err_name (k : lexerr) : string :=
  match k with
  | EExpectedName => "ExpectedName" | EExpectedLiteral => "ExpectedLiteral" | EParseInt => "ParseInt"
  | EParseNetwork => "ParseNetwork" | EParseRegex => "ParseRegex" | EParseWildcard => "ParseWildcard"
  | EInvalidCharacterEscape => "InvalidCharacterEscape"
  | EInvalidRawStringHashCount => "InvalidRawStringHashCount"
  | EMissingEndingQuote => "MissingEndingQuote" | ECountMismatch => "CountMismatch"
  | EUnknownField => "UnknownField" | EUnknownFunction => "UnknownFunction"
  | EUnknownIdentifier => "UnknownIdentifier" | EUnsupportedOp => "UnsupportedOp"
  | EIncompatibleRangeBounds => "IncompatibleRangeBounds" | EEOF => "EOF"
  | EInvalidArgumentsCount => "InvalidArgumentsCount" | EInvalidArgumentKind => "InvalidArgumentKind"
  | EInvalidArgumentType => "InvalidArgumentType" | EInvalidArgumentValue => "InvalidArgumentValue"
  | EInvalidIndexAccess => "InvalidIndexAccess" | ETypeMismatch => "TypeMismatch"
  | EInvalidMapEachAccess => "InvalidMapEachAccess" | EInvalidListName => "InvalidListName"
  | ENestingLimitExceeded => "NestingLimitExceeded"
  end.

Definition enc_fmt (f : bytes_format) : list sexp :=
  match f with
  | FQuoted => []
  | FByte => [sym "byte"]
  | FRaw n => [SList [sym "raw"; SInt (Z.of_N n)]]
  end.

Definition enc_ip (a : ip) : sexp :=
  match a with V4 v => SList [sym "v4"; SInt v] | V6 v => SList [sym "v6"; SInt v] end.

Definition enc_ip_item (it : ip_item) : sexp :=
  match it with
  | IpRange4 a b => SList [sym "r4"; SInt a; SInt b]
  | IpRange6 a b => SList [sym "r6"; SInt a; SInt b]
  | IpCidr4 a n => SList [sym "c4"; SInt a; SInt n]
  | IpCidr6 a n => SList [sym "c6"; SInt a; SInt n]
  end.

Definition enc_lit (v : lit_val) : sexp :=
  match v with
  | LVInt z => SList [sym "i"; SInt z]
  | LVBytes b f => SList (sym "s" :: SBytes b :: enc_fmt f)
  | LVIp a => enc_ip a
  | LVInInt l => SList [sym "in-int"; SList (map (fun r => SList [SInt (fst r); SInt (snd r)]) l)]
  | LVInBytes l =>
      SList [sym "in-bytes";
             SList (map (fun p => match enc_fmt (snd p) with
                                  | [] => SBytes (fst p)
                                  | f => SList (SBytes (fst p) :: f)
                                  end) l)]
  | LVInIp l => SList [sym "in-ip"; SList (map enc_ip_item l)]
  | LVIdx (RIArr n) => SList [SList [sym "a"; SInt (Z.of_N n)]]
  | LVIdx (RIKey k) => SList [SList [sym "k"; SBytes k]]
  | LVIdx RIEach => SList [sym "each"]
  | LVList name => SList [sym "list"; SBytes name]
  end.

Definition enc_pres (with_span : bool) (orig full : bytes) (r : pres) : sexp :=
  match r with
  | POk v => SList [sym "ok"; enc_lit v]
  | PErr k at_ len =>
      if with_span then
        let '(line, start, len') := parse_error_new orig (List.length full - List.length at_) len in
        SList [sym "err"; sym (err_name k); SInt (Z.of_nat line); SInt (Z.of_nat start); SInt (Z.of_nat len')]
      else SList [sym "err"; sym (err_name k)]
  | PPanic => SList [sym "panic"]
  | PFuel => SList [sym "fuel"]
  | PUnsupported => SList [sym "unsupported"]
  end.

Definition run_C06 (spec : bool) (head : sexp) (args : list sexp) : option sexp :=
  let with_span := sym_is "lit-span" head in
  if sym_is "lit" head || with_span then
    match args with
    | [k; SInt p; SBytes text; SBytes suffix] =>
        match dec_kind k with
        | Some kind =>
            if (p <? 0)%Z || (2 <? p)%Z then None
            else
              let paren := Z.to_N p in
              let orig := filter_text kind paren text suffix in
              let (full, r) := parse_case kind paren text suffix in
              Some (enc_pres with_span orig full r)
        | None => None
        end
    | _ => None
    end
  else None.
