(* Case decoders / result encoders for C19 (panic catcher).

   (panic-prog (step...) [probe])               one program on a fresh thread
   (panic-2threads (step...) (step...) (0|1 ...))   two fresh threads, schedule (0 = A moves)
   step ::= enable | disable | install | (fallback continue|abort) | backtrace | level
          | (panic k) | (catch step...)
   answer ::= (returned (event...) (final level bt)) | (unwound k (event...) (final level bt))
            | (abort (event...))
   event ::= unit | (fallback f) | (bt [k]) | (level n) | (panic k) | (prev k) | (default k)
           | enter | ok | (err [k])
   The hook is installed before the case starts (flag set, previous hook behind
   ours), as the harness does once per process. *)
From Coq Require Import List ZArith NArith Bool String.
From WF Require Import Base.Bytes Base.Sexp Sem.Panic Spec.C19.
Import ListNotations.
Open Scope string_scope.

Definition dec_fallback (x : sexp) : option fallback :=
  if sym_is "continue" x then Some Continue else if sym_is "abort" x then Some Abort else None.

(* fuel: nesting depth of the s-expression is bounded by its size *)
Fixpoint dec_step (fuel : nat) (x : sexp) : option step :=
  match fuel with
  | O => None
  | S fuel' =>
      if sym_is "enable" x then Some Enable
      else if sym_is "disable" x then Some Disable
      else if sym_is "install" x then Some InstallHook
      else if sym_is "backtrace" x then Some QueryBacktrace
      else if sym_is "level" x then Some QueryLevel
      else match x with
           | SList (h :: rest) =>
               if sym_is "catch" h then
                 option_map (fun l => Catch (prog_of_list l)) (option_map_all (dec_step fuel') rest)
               else if sym_is "panic" h then
                 match rest with [m] => option_map Panic (as_N m) | _ => None end
               else if sym_is "fallback" h then
                 match rest with [f] => option_map SetFallback (dec_fallback f) | _ => None end
               else None
           | _ => None
           end
  end.

Fixpoint sexp_size (x : sexp) : nat :=
  match x with
  | SList l => S (fold_right (fun y n => sexp_size y + n)%nat O l)
  | _ => 1%nat
  end.

Definition dec_prog (x : sexp) : option prog :=
  match x with
  | SList l => option_map prog_of_list (option_map_all (dec_step (S (sexp_size x))) l)
  | _ => None
  end.

Definition enc_N (n : N) : sexp := SInt (Z.of_N n).

Definition enc_opt_msg (tag : string) (m : option msg) : sexp :=
  match m with None => SList [sym tag] | Some k => SList [sym tag; enc_N k] end.

Definition enc_fallback (f : fallback) : sexp :=
  match f with Continue => sym "continue" | Abort => sym "abort" end.

Definition enc_event (e : event) : sexp :=
  match e with
  | EUnit => sym "unit"
  | EFallback f => SList [sym "fallback"; enc_fallback f]
  | EBacktrace m => enc_opt_msg "bt" m
  | ELevel n => SList [sym "level"; enc_N n]
  | EPanic m => SList [sym "panic"; enc_N m]
  | EPrev m => SList [sym "prev"; enc_N m]
  | EDefault m => SList [sym "default"; enc_N m]
  | EEnter => sym "enter"
  | EExit ROk => sym "ok"
  | EExit (RErr m) => enc_opt_msg "err" m
  end.

Definition enc_final (lvl : N) (bt : option msg) : sexp :=
  SList [sym "final"; enc_N lvl; enc_opt_msg "bt" bt].

Definition enc_answer (ev : list event) (o : outcome) (lvl : N) (bt : option msg) : sexp :=
  match o with
  | Returned => SList [sym "returned"; SList (map enc_event ev); enc_final lvl bt]
  | Unwound m => SList [sym "unwound"; enc_N m; SList (map enc_event ev); enc_final lvl bt]
  | Aborted _ => SList [sym "abort"; SList (map enc_event ev)]
  end.

Definition g_installed : gstate := mk_gstate true (HOurs HPrev).

Definition answer_model (p : prog) : sexp :=
  let '(ev, o, ts, _) := run_prog g_installed init_tstate p in
  enc_answer ev o (level ts) (last ts).

Definition answer_spec (p : prog) : sexp :=
  let '(ev, o, a) := spec_prog 0 init_astate p in
  enc_answer ev (conc_outcome o) 0%N (a_last a).

Definition dec_sched (x : sexp) : option (list bool) :=
  match x with
  | SList l => option_map_all (fun y => match y with
                                        | SInt 0%Z => Some true
                                        | SInt 1%Z => Some false
                                        | _ => None
                                        end) l
  | _ => None
  end.

Definition outcome_of_thread (t : thread) : option outcome :=
  match st t with
  | Running => match code t with [] => Some Returned | _ => None end
  | Dead m => Some (Unwound m)
  | Crashed w => Some (Aborted w)
  end.

(* The schedule, then A to its end, then B to its end (the harness releases the
   threads in that order when the schedule is exhausted). *)
Definition answer_two_model (pa pb : prog) (sched : list bool) : sexp :=
  let a := thread_of init_tstate pa in
  let b := thread_of init_tstate pb in
  let full := (sched ++ repeat true (code_size (code a)) ++ repeat false (code_size (code b)))%list in
  let '(_, a', b') := interleave Racy full g_installed a b in
  match outcome_of_thread a', outcome_of_thread b' with
  | Some (Aborted _), _ | _, Some (Aborted _) => SList [sym "two-abort"]
  | Some oa, Some ob =>
      SList [sym "two"; enc_answer (trace a') oa (level (tst a')) (last (tst a'));
             enc_answer (trace b') ob (level (tst b')) (last (tst b'))]
  | _, _ => SList [sym "stuck"]
  end.

Definition answer_two_spec (pa pb : prog) : sexp :=
  let '((eva, oa, aa), (evb, ob, ab)) := spec_two_threads pa pb in
  match oa, ob with
  | SAborted, _ | _, SAborted => SList [sym "two-abort"]
  | _, _ =>
      SList [sym "two"; enc_answer eva (conc_outcome oa) 0%N (a_last aa);
             enc_answer evb (conc_outcome ob) 0%N (a_last ab)]
  end.

Definition run_C19 (spec : bool) (head : sexp) (args : list sexp) : option sexp :=
  if sym_is "panic-prog" head then
    (* an optional second argument `probe` asks the harness to confirm an abort
       outcome in a child process; it means nothing here *)
    match args with
    | p :: more =>
        match dec_prog p, more with
        | Some p, [] => Some (if spec then answer_spec p else answer_model p)
        | Some p, [m] => if sym_is "probe" m then Some (if spec then answer_spec p else answer_model p) else None
        | _, _ => None
        end
    | _ => None
    end
  else if sym_is "panic-free" head then
    (* k threads released together and left to run freely.  A thread's observations do not depend on the other
       threads (C19_interleaving_matches_alone: they are those of the thread run alone), so the answer is the list
       of the single-thread answers. *)
    match option_map_all dec_prog args with
    | Some ps => Some (SList (sym "free" :: map (fun p => if spec then answer_spec p else answer_model p) ps))
    | None => None
    end
  else if sym_is "panic-2threads" head then
    match args with
    | [pa; pb; s] =>
        match dec_prog pa, dec_prog pb, dec_sched s with
        | Some pa, Some pb, Some s =>
            Some (if spec then answer_two_spec pa pb else answer_two_model pa pb s)
        | _, _, _ => None
        end
    | _ => None
    end
  else None.
