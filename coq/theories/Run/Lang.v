(* Decoders (s-expression -> scheme, values, contexts, AST) and result
   encoders shared by the language-level case kinds. *)
From Coq Require Import List ZArith NArith Bool String.
From WF Require Import Base.Bytes Base.Sexp Sem.RangeSet Lang.Types Lang.Ast Lang.Context
     Sem.Funs Sem.Compile Spec.Denote Spec.Typing Parse.Lex Parse.Parser Run.C09.
Import ListNotations.
Open Scope string_scope.
Open Scope list_scope.

Notation "x <-- a ;; b" := (match a with Some x => b | None => None end)
  (at level 61, a at next level, right associativity).

Definition FUEL : nat := 4000.

Fixpoint dec_ty (fuel : nat) (x : sexp) : option ty :=
  match fuel with
  | O => None
  | S f =>
      if sym_is "bool" x then Some TBool
      else if sym_is "bytes" x then Some TBytes
      else if sym_is "int" x then Some TInt
      else if sym_is "ip" x then Some TIp
      else match x with
           | SList [h; t] =>
               if sym_is "array" h then option_map TArray (dec_ty f t)
               else if sym_is "map" h then option_map TMap (dec_ty f t)
               else None
           | _ => None
           end
  end.

Fixpoint enc_ty (t : ty) : sexp :=
  match t with
  | TBool => sym "bool" | TBytes => sym "bytes" | TInt => sym "int" | TIp => sym "ip"
  | TArray x => SList [sym "array"; enc_ty x]
  | TMap x => SList [sym "map"; enc_ty x]
  end.

Fixpoint dec_value (fuel : nat) (x : sexp) : option value :=
  match fuel with
  | O => None
  | S f =>
      match x with
      | SList (h :: t :: rest) =>
          if sym_is "arr" h then
            t' <-- dec_ty FUEL t ;; l <-- option_map_all (dec_value f) rest ;; Some (VArray t' l)
          else if sym_is "map" h then
            t' <-- dec_ty FUEL t ;;
            l <-- option_map_all (fun kv => match kv with
                                            | SList [SBytes k; v] => option_map (pair k) (dec_value f v)
                                            | _ => None
                                            end) rest ;;
            Some (VMap t' l)
          else
            match rest with
            | [] =>
                if sym_is "b" h then option_map VBool (as_bool t)
                else if sym_is "s" h then option_map VBytes (as_bytes t)
                else if sym_is "i" h then option_map VInt (as_Z t)
                else if sym_is "v4" h then option_map (fun z => VIp (V4 z)) (as_Z t)
                else if sym_is "v6" h then option_map (fun z => VIp (V6 z)) (as_Z t)
                else None
            | _ => None
            end
      | _ => None
      end
  end.

Fixpoint enc_value (v : value) : sexp :=
  match v with
  | VBool b => SList [sym "b"; sbool b]
  | VBytes b => SList [sym "s"; SBytes b]
  | VInt z => SList [sym "i"; SInt z]
  | VIp (V4 z) => SList [sym "v4"; SInt z]
  | VIp (V6 z) => SList [sym "v6"; SInt z]
  | VArray t l => SList (sym "arr" :: enc_ty t :: map enc_value l)
  | VMap t l => SList (sym "map" :: enc_ty t :: map (fun kv => SList [SBytes (fst kv); enc_value (snd kv)]) l)
  end.

Definition enc_vres (r : vres) : sexp :=
  match r with
  | VOk v => SList [sym "ok"; enc_value v]
  | VAbsent t => SList [sym "absent"; enc_ty t]
  end.

(* (scheme (fields (name ty opt)...) (fns (name libname)...) (lists (ty kind)...) nil_ne) *)
Definition dec_field (x : sexp) : option field_def :=
  match x with
  | SList [SBytes n; t; o] =>
      t' <-- dec_ty FUEL t ;; o' <-- as_bool o ;;
      Some {| fd_name := n; fd_ty := t'; fd_optional := o' |}
  | _ => None
  end.
Definition dec_fn (x : sexp) : option (bytes * fn_def) :=
  match x with
  | SList [SBytes n; SSym lib] => d <-- lib_fn lib ;; Some (n, d)
  | _ => None
  end.
Definition dec_list_kind (x : sexp) : option list_kind :=
  if sym_is "always" x then Some LkAlways else if sym_is "never" x then Some LkNever
  else if sym_is "set" x then Some LkSet else None.
Definition dec_list (x : sexp) : option (ty * list_kind) :=
  match x with
  | SList [t; k] => t' <-- dec_ty FUEL t ;; k' <-- dec_list_kind k ;; Some (t', k')
  | _ => None
  end.
Definition tagged (s : string) (x : sexp) : option (list sexp) :=
  match x with
  | SList (h :: r) => if sym_is s h then Some r else None
  | _ => None
  end.
Definition dec_scheme (x : sexp) : option scheme :=
  match x with
  | SList [h; fs; fns; ls; ne] =>
      if sym_is "scheme" h then
        fl <-- tagged "fields" fs ;; fields <-- option_map_all dec_field fl ;;
        nl <-- tagged "fns" fns ;; fns' <-- option_map_all dec_fn nl ;;
        ll <-- tagged "lists" ls ;; lists <-- option_map_all dec_list ll ;;
        ne' <-- as_bool ne ;;
        Some {| sc_fields := fields; sc_functions := fns'; sc_lists := lists; sc_nil_ne := ne' |}
      else None
  | _ => None
  end.

(* (ctx (vals v|none ...) (lists always|never|(set (name v...)...) ...)) *)
Definition dec_matcher (x : sexp) : option matcher :=
  if sym_is "always" x then Some MAlways
  else if sym_is "never" x then Some MNever
  else
    l <-- tagged "set" x ;;
    sets <-- option_map_all (fun s => match s with
                                      | SList (SBytes n :: vs) =>
                                          option_map (pair n) (option_map_all (dec_value FUEL) vs)
                                      | _ => None
                                      end) l ;;
    Some (MSet sets).
Definition dec_ctx (x : sexp) : option ctx :=
  match x with
  | SList [h; vs; ls] =>
      if sym_is "ctx" h then
        vl <-- tagged "vals" vs ;;
        vals <-- option_map_all (fun v => if sym_is "none" v then Some None
                                          else option_map Some (dec_value FUEL v)) vl ;;
        ll <-- tagged "lists" ls ;; lists <-- option_map_all dec_matcher ll ;;
        Some {| cx_vals := vals; cx_lists := lists |}
      else None
  | _ => None
  end.

(* ---- AST ---- *)
Definition dec_index (x : sexp) : option index :=
  if sym_is "each" x then Some IEach
  else match x with
       | SList [h; a] =>
           if sym_is "a" h then option_map IArr (as_N a)
           else if sym_is "k" h then option_map IKey (as_bytes a)
           else None
       | _ => None
       end.
(* byte-string format: absent = quoted, `byte`, or (raw n) *)
Definition dec_fmt (x : sexp) : option bytes_format :=
  if sym_is "byte" x then Some FByte
  else match x with
       | SList [h; n] => if sym_is "raw" h then option_map FRaw (as_N n) else None
       | _ => None
       end.
Definition enc_fmt (f : bytes_format) : list sexp :=
  match f with
  | FQuoted => []
  | FByte => [sym "byte"]
  | FRaw n => [SList [sym "raw"; SInt (Z.of_N n)]]
  end.
(* a byte-string literal inside a list: #hex or (#hex fmt) *)
Definition dec_blit (x : sexp) : option (bytes * bytes_format) :=
  match x with
  | SBytes b => Some (b, FQuoted)
  | SList [SBytes b; f] => option_map (pair b) (dec_fmt f)
  | _ => None
  end.

Definition dec_rhs (x : sexp) : option rhs :=
  match x with
  | SList [h; SBytes b; f] => if sym_is "s" h then option_map (RBytes b) (dec_fmt f) else None
  | SList [h; a] =>
      if sym_is "i" h then option_map RInt (as_Z a)
      else if sym_is "s" h then option_map (fun b => RBytes b FQuoted) (as_bytes a)
      else if sym_is "v4" h then option_map (fun z => RIp (V4 z)) (as_Z a)
      else if sym_is "v6" h then option_map (fun z => RIp (V6 z)) (as_Z a)
      else None
  | _ => None
  end.
Definition dec_ordop (x : sexp) : option ordop :=
  if sym_is "eq" x then Some OEq else if sym_is "ne" x then Some ONe
  else if sym_is "ge" x then Some OGe else if sym_is "le" x then Some OLe
  else if sym_is "gt" x then Some OGt else if sym_is "lt" x then Some OLt else None.
Definition dec_logop (x : sexp) : option logop :=
  if sym_is "or" x then Some LOr else if sym_is "xor" x then Some LXor
  else if sym_is "and" x then Some LAnd else None.
Definition dec_quant (x : sexp) : option quant :=
  if sym_is "any" x then Some QAny else if sym_is "all" x then Some QAll else None.

Definition dec_cmpop (x : sexp) : option cmpop :=
  if sym_is "istrue" x then Some CIsTrue
  else match x with
       | SList [h; s; SBytes p; f] =>
           if sym_is "wildcard" h then s' <-- as_bool s ;; f' <-- dec_fmt f ;; Some (CWildcard s' p f') else None
       | SList [h; o; r] =>
           if sym_is "contains" h then p <-- as_bytes o ;; f <-- dec_fmt r ;; Some (CContains p f)
           else if sym_is "matches" h then
             p <-- as_bytes o ;; f <-- dec_fmt r ;;
             match f with FRaw n => Some (CMatches p (Some n)) | _ => None end
           else if sym_is "wildcard" h then s' <-- as_bool o ;; p <-- as_bytes r ;; Some (CWildcard s' p FQuoted)
           else if sym_is "ord" h then o' <-- dec_ordop o ;; r' <-- dec_rhs r ;; Some (COrd o' r')
           else if sym_is "inlist" h then li <-- as_nat o ;; n <-- as_bytes r ;; Some (CInList li n)
           else None
       | SList [h; a] =>
           if sym_is "band" h then option_map CBitAnd (as_Z a)
           else if sym_is "contains" h then option_map (fun b => CContains b FQuoted) (as_bytes a)
           else if sym_is "matches" h then option_map (fun b => CMatches b None) (as_bytes a)
           else if sym_is "in-int" h then
             l <-- as_list a ;; option_map COneOfInt (option_map_all dec_range l)
           else if sym_is "in-ip" h then
             l <-- as_list a ;; option_map COneOfIp (option_map_all dec_ip_item l)
           else if sym_is "in-bytes" h then
             l <-- as_list a ;; option_map COneOfBytes (option_map_all dec_blit l)
           else None
       | _ => None
       end.

Fixpoint dec_lexpr (fuel : nat) (x : sexp) {struct fuel} : option lexpr :=
  match fuel with
  | O => None
  | S f =>
      match x with
      | SList (h :: o :: items) =>
          if sym_is "comb" h then
            o' <-- dec_logop o ;; l <-- option_map_all (dec_lexpr f) items ;;
            Some (ECombining o' (lexprs_of_list l))
          else if sym_is "cmp" h then
            match items with
            | [op] => l <-- dec_iexpr f o ;; op' <-- dec_cmpop op ;; Some (EComparison l op')
            | _ => None
            end
          else if sym_is "paren" h then
            match items with [] => option_map EParen (dec_lexpr f o) | _ => None end
          else if sym_is "not" h then
            match items with [] => option_map ENot (dec_lexpr f o) | _ => None end
          else if sym_is "qi" h then
            match items with [a] => q <-- dec_quant o ;; a' <-- dec_iexpr f a ;; Some (EQuantIndex q a') | _ => None end
          else if sym_is "ql" h then
            match items with [a] => q <-- dec_quant o ;; a' <-- dec_lexpr f a ;; Some (EQuantLogical q a') | _ => None end
          else None
      | _ => None
      end
  end
with dec_iexpr (fuel : nat) (x : sexp) {struct fuel} : option iexpr :=
  match fuel with
  | O => None
  | S f =>
      match x with
      | SList (h :: n :: rest) =>
          if sym_is "field" h then
            n' <-- as_nat n ;; idx <-- option_map_all dec_index rest ;; Some (IField n' idx)
          else if sym_is "call" h then
            match rest with
            | SList al :: idxs =>
                n' <-- as_nat n ;; al' <-- option_map_all (dec_arg f) al ;;
                idx <-- option_map_all dec_index idxs ;;
                Some (ICall n' (args_of_list al') idx)
            | _ => None
            end
          else None
      | _ => None
      end
  end
with dec_arg (fuel : nat) (x : sexp) {struct fuel} : option arg :=
  match fuel with
  | O => None
  | S f =>
      match x with
      | SList [h; a] =>
          if sym_is "ai" h then option_map AIndex (dec_iexpr f a)
          else if sym_is "lit" h then option_map ALit (dec_rhs a)
          else if sym_is "al" h then option_map ALogical (dec_lexpr f a)
          else None
      | _ => None
      end
  end.

(* ---- case kinds ----
   (exec scheme #text ast ctx...)        -> (ok r...)    r = true | false | panic
   (exec-value scheme #text iexpr ctx...) -> (ok v...)   v = (ok value) | (absent ty) | panic *)
Definition enc_mbool (r : option bool) (undef : string) : sexp :=
  match r with Some b => sbool b | None => sym undef end.

Definition run_lang (spec : bool) (head : sexp) (a : list sexp) : option sexp :=
  match a with
  | s :: SBytes _ :: e :: ctxs =>
      if sym_is "exec" head then
        sch <-- dec_scheme s ;; ast <-- dec_lexpr FUEL e ;; cs <-- option_map_all dec_ctx ctxs ;;
        Some (SList (sym "ok" ::
                     map (fun c => if spec then enc_mbool (denote_filter sch ast c) "undef"
                                   else enc_mbool (run_filter sch ast c) "panic") cs))
      else if sym_is "exec-value" head then
        sch <-- dec_scheme s ;; ast <-- dec_iexpr FUEL e ;; cs <-- option_map_all dec_ctx ctxs ;;
        Some (SList (sym "ok" ::
                     map (fun c => match (if spec then denote_value sch ast c else run_value sch ast c) with
                                   | Some r => enc_vres r
                                   | None => sym (if spec then "undef" else "panic")
                                   end) cs))
      else None
  | _ => None
  end.

(* ---- AST encoders (the shapes harness/src/lang.rs prints) ---- *)
Definition enc_index (i : index) : sexp :=
  match i with
  | IArr n => SList [sym "a"; SInt (Z.of_N n)]
  | IKey k => SList [sym "k"; SBytes k]
  | IEach => sym "each"
  end.
Definition enc_ip (a : ip) : sexp :=
  match a with V4 z => SList [sym "v4"; SInt z] | V6 z => SList [sym "v6"; SInt z] end.
Definition enc_rhs (r : rhs) : sexp :=
  match r with
  | RInt z => SList [sym "i"; SInt z]
  | RBytes b f => SList (sym "s" :: SBytes b :: enc_fmt f)
  | RIp a => enc_ip a
  end.
Definition enc_ordop (o : ordop) : sexp :=
  sym (match o with OEq => "eq" | ONe => "ne" | OGe => "ge" | OLe => "le" | OGt => "gt" | OLt => "lt" end).
Definition enc_ip_item (it : ip_item) : sexp :=
  match it with
  | IpRange4 a b => SList [sym "r4"; SInt a; SInt b]
  | IpRange6 a b => SList [sym "r6"; SInt a; SInt b]
  | IpCidr4 a n => SList [sym "c4"; SInt a; SInt n]
  | IpCidr6 a n => SList [sym "c6"; SInt a; SInt n]
  end.
Definition enc_cmpop (op : cmpop) : sexp :=
  match op with
  | CIsTrue => sym "istrue"
  | COrd o r => SList [sym "ord"; enc_ordop o; enc_rhs r]
  | CBitAnd z => SList [sym "band"; SInt z]
  | CContains p f => SList (sym "contains" :: SBytes p :: enc_fmt f)
  | CMatches p raw => SList (sym "matches" :: SBytes p :: match raw with Some n => enc_fmt (FRaw n) | None => [] end)
  | CWildcard strict p f => SList (sym "wildcard" :: sbool strict :: SBytes p :: enc_fmt f)
  | COneOfInt l => SList [sym "in-int"; SList (map (fun r => SList [SInt (fst r); SInt (snd r)]) l)]
  | COneOfIp l => SList [sym "in-ip"; SList (map enc_ip_item l)]
  | COneOfBytes l =>
      SList [sym "in-bytes";
             SList (map (fun p => match snd p with
                                  | FQuoted => SBytes (fst p)
                                  | f => SList (SBytes (fst p) :: enc_fmt f)
                                  end) l)]
  | CInList li name => SList [sym "inlist"; SInt (Z.of_nat li); SBytes name]
  end.
Definition enc_logop (o : logop) : sexp := sym (match o with LOr => "or" | LXor => "xor" | LAnd => "and" end).
Definition enc_quant (q : quant) : sexp := sym (match q with QAny => "any" | QAll => "all" end).

Fixpoint enc_lexpr (e : lexpr) : sexp :=
  match e with
  | ECombining op items => SList (sym "comb" :: enc_logop op :: enc_lexprs items)
  | EComparison lhs op => SList [sym "cmp"; enc_iexpr lhs; enc_cmpop op]
  | EParen e' => SList [sym "paren"; enc_lexpr e']
  | ENot e' => SList [sym "not"; enc_lexpr e']
  | EQuantIndex q a => SList [sym "qi"; enc_quant q; enc_iexpr a]
  | EQuantLogical q a => SList [sym "ql"; enc_quant q; enc_lexpr a]
  end
with enc_lexprs (l : lexprs) : list sexp :=
  match l with LNil => [] | LCons e r => enc_lexpr e :: enc_lexprs r end
with enc_iexpr (e : iexpr) : sexp :=
  match e with
  | IField f idx => SList (sym "field" :: SInt (Z.of_nat f) :: map enc_index idx)
  | ICall fn a idx => SList (sym "call" :: SInt (Z.of_nat fn) :: SList (enc_args a) :: map enc_index idx)
  end
with enc_args (a : args) : list sexp :=
  match a with ANil => [] | ACons x r => enc_arg x :: enc_args r end
with enc_arg (a : arg) : sexp :=
  match a with
  | AIndex e => SList [sym "ai"; enc_iexpr e]
  | ALit r => SList [sym "lit"; enc_rhs r]
  | ALogical e => SList [sym "al"; enc_lexpr e]
  end.

Definition lexerr_name (k : lexerr) : string :=
  match k with
  | EExpectedName => "ExpectedName" | EExpectedLiteral => "ExpectedLiteral" | EParseInt => "ParseInt"
  | EParseNetwork => "ParseNetwork" | EParseRegex => "ParseRegex" | EParseWildcard => "ParseWildcard"
  | EInvalidCharacterEscape => "InvalidCharacterEscape"
  | EInvalidRawStringHashCount => "InvalidRawStringHashCount" | EMissingEndingQuote => "MissingEndingQuote"
  | ECountMismatch => "CountMismatch" | EUnknownField => "UnknownField" | EUnknownFunction => "UnknownFunction"
  | EUnknownIdentifier => "UnknownIdentifier" | EUnsupportedOp => "UnsupportedOp"
  | EIncompatibleRangeBounds => "IncompatibleRangeBounds" | EEOF => "EOF"
  | EInvalidArgumentsCount => "InvalidArgumentsCount" | EInvalidArgumentKind => "InvalidArgumentKind"
  | EInvalidArgumentType => "InvalidArgumentType" | EInvalidArgumentValue => "InvalidArgumentValue"
  | EInvalidIndexAccess => "InvalidIndexAccess" | ETypeMismatch => "TypeMismatch"
  | EInvalidMapEachAccess => "InvalidMapEachAccess" | EInvalidListName => "InvalidListName"
  | ENestingLimitExceeded => "NestingLimitExceeded"
  end.

(* (settings depth star_limit|none) *)
Definition dec_settings (x : sexp) : option settings :=
  match x with
  | SList [h; d; l] =>
      if sym_is "settings" h then
        (* `default`: the library's default limit (ParserSettings::default: 128) *)
        d' <-- (if sym_is "default" d then Some 128%N else as_N d) ;;
        l' <-- (if sym_is "none" l then Some None else option_map Some (as_N l)) ;;
        Some {| st_max_depth := d'; st_star_limit := l' |}
      else None
  | _ => None
  end.

(* ParseError::new (ast/parse.rs): line number, start column (bytes) and length of
   the span within its line, from the absolute byte offset of the span *)
Fixpoint last_line_start (l : bytes) (pos : nat) (upto : nat) (line : nat) (start : nat) : nat * nat :=
  (* scans l[..upto]; returns (number of newlines, offset after the last one) *)
  match upto with
  | O => (line, start)
  | S u =>
      match l with
      | [] => (line, start)
      | b :: r => if (b =? 10)%N then last_line_start r (S pos) u (S line) (S pos)
                  else last_line_start r (S pos) u line start
      end
  end.
Fixpoint find_nl (l : bytes) (i : nat) : option nat :=
  match l with
  | [] => None
  | b :: r => if (b =? 10)%N then Some i else find_nl r (S i)
  end.
Definition parse_error_new (orig : bytes) (abs_start len : nat) : nat * nat * nat :=
  let '(line, line_start) := last_line_start orig 0 abs_start 0 0 in
  let rel := (abs_start - line_start)%nat in
  let line_text := skipn line_start orig in
  let len' := match find_nl line_text 0 with
              | Some line_end => Nat.min len (line_end - rel)
              | None => len
              end in
  (line, rel, len').

(* the line ParseError keeps (and Display prints): from the start of the span's line to the next newline *)
Definition error_line (orig : bytes) (abs_start : nat) : bytes :=
  let '(_, line_start) := last_line_start orig 0 abs_start 0 0 in
  let line_text := skipn line_start orig in
  match find_nl line_text 0 with
  | Some line_end => firstn line_end line_text
  | None => line_text
  end.

(* (parse scheme settings #text) / (parse-value scheme settings #text)
   -> (ok ast) | (err Kind line column len) | (panic) | (fuel) *)
Definition enc_parse {A} (enc : A -> sexp) (orig : bytes) (r : lres A) : sexp :=
  match r with
  | LOk a _ => SList [sym "ok"; enc a]
  | LErr k at_ n =>
      let trimmed := trim orig in
      (* an all-whitespace input trims to the empty slice at offset 0 *)
      let lead := match trimmed with [] => O | _ => (List.length orig - List.length (trim_start orig))%nat end in
      let abs_start := (lead + (List.length trimmed - List.length at_))%nat in
      let '(line, col, len) := parse_error_new orig abs_start n in
      SList [sym "err"; sym (lexerr_name k); SInt (Z.of_nat line); SInt (Z.of_nat col); SInt (Z.of_nat len);
             SBytes (error_line orig abs_start)]
  | LPanic => SList [sym "panic"]
  | LFuel => SList [sym "fuel"]
  end.

Definition run_parse (spec : bool) (head : sexp) (a : list sexp) : option sexp :=
  match a with
  | [s; stg; SBytes text] =>
      if sym_is "parse" head then
        sch <-- dec_scheme s ;; st <-- dec_settings stg ;;
        Some (enc_parse enc_lexpr text (parse_filter sch st text))
      else if sym_is "parse-value" head then
        sch <-- dec_scheme s ;; st <-- dec_settings stg ;;
        Some (enc_parse enc_iexpr text (parse_value sch st text))
      else None
  | _ => None
  end.

(* (typecheck scheme #text ast) / (typecheck-value scheme #text iexpr): a candidate filter, given as the AST the
   generator intended and the text it rendered.
     model: what the parser model answers on the text: (accept <ast read>) | (reject)
     spec : a well-typed intended AST must be accepted as itself; an ill-typed intended AST must not be accepted
            as itself - if its text happens to read as a DIFFERENT filter (e.g. the ill-typed `ip in {2}` reads as
            the well-typed address list {2.0.0.0}), the answer is the parser model's, whose results are proved
            well-typed (C04_parser_accepts_only_well_typed). *)
Definition sexp_same (a b : sexp) : bool := bytes_eqb (print_sexp a) (print_sexp b).

Definition run_typecheck (spec : bool) (head : sexp) (a : list sexp) : option sexp :=
  match a with
  | [s; SBytes text; e] =>
      let rej := SList [sym "reject"] in
      if sym_is "typecheck" head then
        sch <-- dec_scheme s ;; ast <-- dec_lexpr FUEL e ;;
        let acc x := SList [sym "accept"; enc_lexpr x] in
        let parsed := match parse_filter sch default_settings text with LOk a' _ => Some a' | _ => None end in
        Some (if spec then
                if wt_filter sch ast then acc ast
                else match parsed with
                     | Some a' => if sexp_same (enc_lexpr a') (enc_lexpr ast) then rej else acc a'
                     | None => rej
                     end
              else match parsed with Some a' => acc a' | None => rej end)
      else if sym_is "typecheck-value" head then
        sch <-- dec_scheme s ;; ast <-- dec_iexpr FUEL e ;;
        let acc x := SList [sym "accept"; enc_iexpr x] in
        let parsed := match parse_value sch default_settings text with LOk a' _ => Some a' | _ => None end in
        Some (if spec then
                match wt_value sch ast with
                | Some _ => acc ast
                | None => match parsed with
                          | Some a' => if sexp_same (enc_iexpr a') (enc_iexpr ast) then rej else acc a'
                          | None => rej
                          end
                end
              else match parsed with Some a' => acc a' | None => rej end)
      else None
  | _ => None
  end.
