(* Entry points of the extracted model: one line in, one line out. *)
From Coq Require Import List ZArith NArith Bool String.
From WF Require Import Base.Bytes Base.Sexp Run.C09 Run.Lang Run.C08 Run.C16 Run.C10 Run.C15 Run.C19 Run.C11 Run.C20 Run.C06 Run.C14 Run.C12 Run.C18 Run.C17 Run.C07.
Import ListNotations.
Open Scope string_scope.

Definition first_some {A} (l : list (option A)) : option A :=
  fold_right (fun x acc => match x with Some _ => x | None => acc end) None l.

Definition run_case (spec : bool) (c : sexp) : sexp :=
  match c with
  | SList (head :: args) =>
      match first_some [run_C09 spec head args; run_lang spec head args; run_C08 spec head args;
                        run_C16 spec head args; run_C10 spec head args; run_C15 spec head args; run_C19 spec head args; run_parse spec head args; run_typecheck spec head args;
                        run_C11 spec head args; run_C20 spec head args;
                        run_C06 spec head args; run_C14 spec head args;
                        run_C12 spec head args; run_C18 spec head args;
                        run_C17 spec head args; run_C07 spec head args] with
      | Some r => r
      | None => bad_case
      end
  | _ => bad_case
  end.

Definition run_line (spec : bool) (line : bytes) : bytes :=
  match parse_sexp line with
  | Some c => print_sexp (run_case spec c)
  | None => print_sexp bad_case
  end.
