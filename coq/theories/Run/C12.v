(* Case runner for C12 (uses / uses_list).
     (uses       scheme #text (names #name ...) oracle)
     (uses-value scheme #text (names #name ...) oracle)
   -> (ok (u l) ...)   one pair per name, u = uses(name), l = uses_list(name), each true | false | err
    | (parse-err)      the text is not accepted
   [oracle] (the generator's own expectation, see tools/props/c12.py) is ignored here.
   The text is parsed by the parser model with the default settings; the model
   run walks the AST with the visitor model (Sem/Visitor.v), the specification
   run enumerates constituents (Spec/C12.v). *)
From Coq Require Import List ZArith NArith Bool String.
From WF Require Import Base.Bytes Base.Sexp Lang.Types Lang.Ast Parse.Lex Parse.Parser
     Sem.Visitor Spec.C12 Run.Lang.
Import ListNotations.
Open Scope string_scope.
Open Scope list_scope.

Definition enc_answer (r : option bool) : sexp :=
  match r with Some b => sbool b | None => sym "err" end.

Definition enc_query (u l : bytes -> option bool) (names : list bytes) : sexp :=
  SList (sym "ok" :: map (fun n => SList [enc_answer (u n); enc_answer (l n)]) names).

Definition with_parsed {A} (r : lres A) (k : A -> sexp) : sexp :=
  match r with
  | LOk a _ => k a
  | LErr _ _ _ => SList [sym "parse-err"]
  | LPanic => SList [sym "panic"]
  | LFuel => SList [sym "fuel"]
  end.

Definition run_C12 (spec : bool) (head : sexp) (a : list sexp) : option sexp :=
  match a with
  | [s; SBytes text; ns; _] =>
      if sym_is "uses" head then
        sch <-- dec_scheme s ;; nl <-- tagged "names" ns ;; names <-- option_map_all as_bytes nl ;;
        Some (with_parsed (parse_filter sch default_settings text) (fun e =>
                if spec then enc_query (spec_uses sch (NL e)) (spec_uses_list sch (NL e)) names
                else enc_query (filter_uses sch e) (filter_uses_list sch e) names))
      else if sym_is "uses-value" head then
        sch <-- dec_scheme s ;; nl <-- tagged "names" ns ;; names <-- option_map_all as_bytes nl ;;
        Some (with_parsed (parse_value sch default_settings text) (fun e =>
                if spec then enc_query (spec_uses sch (NI e)) (spec_uses_list sch (NI e)) names
                else enc_query (value_uses sch e) (value_uses_list sch e) names))
      else None
  | _ => None
  end.
