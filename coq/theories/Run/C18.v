(* Case decoder / result encoder for C18 (concurrent execution).

   (threads scheme (filters (#text ast)...) (ctxs ctx...) T R mode)
      T threads, R repetitions, mode = shared | clone | distinct (how the real
      harness hands contexts to its threads; the answer does not depend on it)
   answer: (ok (results (r...)...) all-agree)
      one row per filter, one r per context: true | false | panic (model) /
      undef (specification); then `all-agree`, or (differs ...) when some
      execution of the concurrent phase returned something else.

   model (spec = false): the rows are run_filter; `all-agree` is COMPUTED: the
   machine of Sem/Shared.v is run on the store of closures (one compile_lexpr
   per filter) with min(T, 3) threads, each executing and recompiling every
   filter on every context, under the round-robin and the sequential schedule,
   and every log is compared with the rows.
   specification (spec = true): the rows are the denotation; all-agree. *)
From Coq Require Import List ZArith NArith Bool String.
From WF Require Import Base.Bytes Base.Sexp Lang.Types Lang.Ast Lang.Context Sem.Compile Spec.Denote
     Sem.Shared Spec.C18 Run.Lang.
Import ListNotations.
Open Scope string_scope.
Open Scope list_scope.

Definition dec_filter_entry (x : sexp) : option lexpr :=
  match x with
  | SList [SBytes _; e] => dec_lexpr FUEL e
  | _ => None
  end.

Definition mbool_eqb (a b : option bool) : bool :=
  match a, b with
  | Some x, Some y => Bool.eqb x y
  | None, None => true
  | _, _ => false
  end.

Definition obs_eqb (a b : option (option bool)) : bool :=
  match a, b with
  | Some x, Some y => mbool_eqb x y
  | None, None => true
  | _, _ => false
  end.

Fixpoint list_eqb {A} (eqb : A -> A -> bool) (a b : list A) : bool :=
  match a, b with
  | [], [] => true
  | x :: a', y :: b' => eqb x y && list_eqb eqb a' b'
  | _, _ => false
  end.

Fixpoint rotate {A} (n : nat) (l : list A) : list A :=
  match n, l with
  | S n', x :: r => rotate n' (r ++ [x])
  | _, _ => l
  end.

(* every (filter, context) pair, executed on the shared copy and recompiled *)
Definition all_ops (nf nc : nat) : list op :=
  flat_map (fun i => flat_map (fun j => [Exec i j; Recompile i j]) (seq 0 nc)) (seq 0 nf).

Definition expected (rows : list (list (option bool))) (o : op) : option (option bool) :=
  match nth_error rows (op_fid o) with
  | Some row => nth_error row (op_cid o)
  | None => None
  end.

Definition machine_agrees (sch : scheme) (es : list lexpr) (cs : list ctx) (n : nat)
           (rows : list (list (option bool))) : bool :=
  let E := filter_engine sch es cs in
  let ops := all_ops (List.length es) (List.length cs) in
  let progs := fun t => if Nat.ltb t n then rotate t ops else [] in
  let check := fun sched =>
    let m := run_sched E sched (start progs (fun _ => [])) in
    finishedb n m &&
    forallb (fun t => list_eqb obs_eqb (map snd (log (threads m t))) (map (expected rows) (progs t)))
            (seq 0 n) in
  check (round_robin n (3 * List.length ops)) && check (sequential E n progs).

Definition run_C18 (spec : bool) (head : sexp) (a : list sexp) : option sexp :=
  if sym_is "threads" head then
    match a with
    | [s; fs; cxs; t; _; _] =>
        sch <-- dec_scheme s ;;
        fl <-- tagged "filters" fs ;; es <-- option_map_all dec_filter_entry fl ;;
        cl <-- tagged "ctxs" cxs ;; cs <-- option_map_all dec_ctx cl ;;
        tn <-- as_nat t ;;
        let rows := if spec then spec_results sch es cs
                    else map (fun e => map (fun c => run_filter sch e c) cs) es in
        let agree := if spec then true else machine_agrees sch es cs (Nat.min tn 3) rows in
        Some (SList [sym "ok";
                     SList (sym "results" ::
                            map (fun row => SList (map (fun r => enc_mbool r (if spec then "undef" else "panic")) row))
                                rows);
                     if agree then sym "all-agree" else SList [sym "differs"; sym "model"]])
    | _ => None
    end
  else None.
