(* Case decoders / result encoders for C11 (wildcard, strict wildcard, matches).
     (wildcard <strict> <star-limit|none> <quoted|(raw n)> #text (#value ...))
     (regex <quoted|(raw n)> #text <compiled-limit|none> <dfa-limit|none> (#value ...))
   #text is the source text between the quotes of the literal.  The filter is
     f wildcard <lit> | f strict wildcard <lit> | f matches <lit>
   so the comparison is the whole filter: whatever follows the literal is an
   error of kind EOF (ast/parse.rs: complete), unless it starts with a
   logical operator (then the filter is something else: not modelled here).
   Answers:
     (ok #pattern <quoted|(raw n)> b ...)
     (err <LexErrorKind variant> [<sub-variant>])
     (outside-subset [#pattern <fmt>])     regex outside the modelled subset
     (either-too-big (ok ...))             tiny size limit, literal-only pattern
     (size-unmodelled) (unmodelled)        nothing is predicted
   With spec = true the wildcard answers come from the anchored regular
   expression wild_regex run by the regex reference matcher
   (C11_wildcard_is_anchored_regex); the acceptance rules and the regex
   answers are the same definitions in both modes (their specifications are
   relations, tied by the theorems of Props/C11.v). *)
From Coq Require Import List ZArith NArith Arith Bool String.
From WF Require Import Base.Bytes Base.Sexp Lang.Ast Parse.Lex Sem.Matchers Spec.C11.
Import ListNotations.
Open Scope string_scope.

Definition dec_form (x : sexp) : option (option nat) :=
  match x with
  | SList [h; n] => if sym_is "raw" h then option_map Some (as_nat n) else None
  | _ => if sym_is "quoted" x then Some None else None
  end.

Definition dec_limit (x : sexp) : option (option N) :=
  if sym_is "none" x then Some None else option_map Some (as_N x).

(* the literal as it stands in the filter text *)
Definition render (form : option nat) (text : bytes) : bytes :=
  match form with
  | None => 34%N :: text ++ [34%N]
  | Some n => 114%N :: repeat 35%N n ++ 34%N :: text ++ 34%N :: repeat 35%N n
  end.

Definition err_name (k : lexerr) : string :=
  match k with
  | EExpectedName => "ExpectedName" | EExpectedLiteral => "ExpectedLiteral" | EParseInt => "ParseInt"
  | EParseNetwork => "ParseNetwork" | EParseRegex => "ParseRegex" | EParseWildcard => "ParseWildcard"
  | EInvalidCharacterEscape => "InvalidCharacterEscape"
  | EInvalidRawStringHashCount => "InvalidRawStringHashCount"
  | EMissingEndingQuote => "MissingEndingQuote" | ECountMismatch => "CountMismatch"
  | EUnknownField => "UnknownField" | EUnknownFunction => "UnknownFunction"
  | EUnknownIdentifier => "UnknownIdentifier" | EUnsupportedOp => "UnsupportedOp"
  | EIncompatibleRangeBounds => "IncompatibleRangeBounds" | EEOF => "EOF"
  | EInvalidArgumentsCount => "InvalidArgumentsCount" | EInvalidArgumentKind => "InvalidArgumentKind"
  | EInvalidArgumentType => "InvalidArgumentType" | EInvalidArgumentValue => "InvalidArgumentValue"
  | EInvalidIndexAccess => "InvalidIndexAccess" | ETypeMismatch => "TypeMismatch"
  | EInvalidMapEachAccess => "InvalidMapEachAccess" | EInvalidListName => "InvalidListName"
  | ENestingLimitExceeded => "NestingLimitExceeded"
  end.

Definition enc_err (names : list string) : sexp := SList (sym "err" :: map sym names).

Definition enc_fmt_raw (raw : option N) : sexp :=
  match raw with
  | None => sym "quoted"
  | Some n => SList [sym "raw"; SInt (Z.of_N n)]
  end.

Definition fmt_raw (f : bytes_format) : option N :=
  match f with FRaw n => Some n | _ => None end.

(* what follows the comparison *)
Inductive trailing := TrNone | TrEOF | TrUnmodelled.

Definition starts (p : string) (s : bytes) : bool :=
  match starts_with (bytes_of_string p) s with Some _ => true | None => false end.

Definition trailing_of (rest : bytes) : trailing :=
  match rest with
  | [] => TrNone
  | _ =>
      let r := skip_space rest in
      if starts "or" r || starts "||" r || starts "xor" r || starts "^^" r || starts "and" r || starts "&&" r
      then TrUnmodelled else TrEOF
  end.

Definition enc_ok (pat : bytes) (raw : option N) (bs : list bool) : sexp :=
  SList (sym "ok" :: SBytes pat :: enc_fmt_raw raw :: map sbool bs).

Definition wild_err_name (e : wild_err) : string :=
  match e with
  | WeInvalid => "InvalidWildcard"
  | WeTooManyStars => "TooManyStarMetacharacters"
  | WeDoubleStar => "DoubleStar"
  end.

Definition run_wildcard (spec strict : bool) (limit : option N) (form : option nat) (text : bytes)
                        (values : list bytes) : sexp :=
  let input := render form text in
  match wildcard_lex limit input with
  | LOk (t, (p, f)) rest =>
      match trailing_of rest with
      | TrNone =>
          enc_ok p (fmt_raw f)
                 (map (fun v => if spec then regex_run (wild_regex strict t) v else wmatch strict t v) values)
      | TrEOF => enc_err ["EOF"]
      | TrUnmodelled => SList [sym "unmodelled"]
      end
  | LErr EParseWildcard _ _ =>
      match lex_quoted_or_raw_string input with
      | LOk (p, _) _ =>
          match wildcard_new limit p with
          | inr e => enc_err ["ParseWildcard"; wild_err_name e]
          | inl _ => SList [sym "inconsistent"]
          end
      | _ => SList [sym "inconsistent"]
      end
  | LErr k _ _ => enc_err [err_name k]
  | LPanic => SList [sym "panic"]
  | LFuel => SList [sym "fuel"]
  end.

Definition run_regex (form : option nat) (text : bytes) (climit : option N) (values : list bytes) : sexp :=
  match regex_lex_pattern (render form text) with
  | LOk (pat, raw) rest =>
      match regex_parse pat with
      | RxInvalid => enc_err ["ParseRegex"; "Syntax"]          (* Regex::new fails before `complete` *)
      | RxOutside =>
          match rest with
          | [] => SList [sym "outside-subset"; SBytes pat; enc_fmt_raw raw]
          | _ => SList [sym "outside-subset"]
          end
      | RxOk r =>
          let answer :=
            match trailing_of rest with
            | TrNone => enc_ok pat raw (map (regex_run r) values)
            | TrEOF => enc_err ["EOF"]
            | TrUnmodelled => SList [sym "unmodelled"]
            end in
          match regex_size_verdict climit r with
          | SzFits => answer
          | SzTooBig => enc_err ["ParseRegex"; "CompiledTooBig"]
          | SzEither => SList [sym "either-too-big"; answer]
          | SzUnmodelled => SList [sym "size-unmodelled"]
          end
      end
  | LErr k _ _ => enc_err [err_name k]
  | LPanic => SList [sym "panic"]
  | LFuel => SList [sym "fuel"]
  end.

Definition run_C11 (spec : bool) (head : sexp) (args : list sexp) : option sexp :=
  if sym_is "wildcard" head then
    match args with
    | [strict; limit; form; SBytes text; SList values] =>
        match as_bool strict, dec_limit limit, dec_form form, option_map_all as_bytes values with
        | Some s, Some l, Some f, Some vs => Some (run_wildcard spec s l f text vs)
        | _, _, _, _ => None
        end
    | _ => None
    end
  else if sym_is "regex" head then
    match args with
    | [form; SBytes text; climit; dlimit; SList values] =>
        (* the DFA cache size (dlimit) must not change any answer: it is ignored *)
        match dec_form form, dec_limit climit, dec_limit dlimit, option_map_all as_bytes values with
        | Some f, Some cl, Some _, Some vs => Some (run_regex f text cl vs)
        | _, _, _, _ => None
        end
    | _ => None
    end
  else None.
