(* Case decoders / result encoders for C15 (type and scheme encodings).

   (type-codec <ty>)
       -> (unbuildable)                        no Rust `Type` has this unfolding
        | (codec C Y (json #text R R R R))
          C = (ct layers len prim <ty>) | panic      CompoundType::from / Type::from back
          Y = (cty layers len code <ty>|panic) | panic   CType::from / Type::from back
          R = <ty> | err      text read back by from_str, from_slice, from_reader, from_value
   (type-json #text <entry>)       -> (ok <ty>) | (err)
   (scheme-json #text <entry>)     -> (ok (#name <ty> opt) ...) | (err)
   (scheme-roundtrip ((#name <ty> opt) ...) <entry>)
       -> (dup) | (ok #text (#name <ty> opt) ...) | (err)
   (ctype-build <prim> (array|map ...))   C API constructors, innermost layer first
       -> (cty layers len code <ty>|panic) | (panic)
   (ctype-decode layers len code)  -> (ok <ty>) | (panic)
   <entry> = str | slice | reader | value *)
From Coq Require Import List ZArith NArith Bool String.
From WF Require Import Base.Bytes Base.Sexp Lang.Types Sem.TypeCodec Sem.JsonText Spec.C15 Run.Lang.
Import ListNotations.
Open Scope string_scope.

Definition dec_entry (x : sexp) : option entry :=
  if sym_is "str" x then Some EStr else if sym_is "slice" x then Some ESlice
  else if sym_is "reader" x then Some EReader else if sym_is "value" x then Some EValue else None.

Definition dec_layer (x : sexp) : option layer :=
  if sym_is "array" x then Some LArray else if sym_is "map" x then Some LMap else None.

Definition dec_prim (x : sexp) : option prim :=
  if sym_is "bool" x then Some PBool else if sym_is "bytes" x then Some PBytes
  else if sym_is "int" x then Some PInt else if sym_is "ip" x then Some PIp else None.

Definition enc_prim (p : prim) : sexp := enc_ty (prim_ty p).
Definition sN (n : N) : sexp := SInt (Z.of_N n).
Definition s_panic : sexp := sym "panic".
Definition s_err : sexp := SList [sym "err"].

Definition enc_field (f : field_def) : sexp :=
  SList [SBytes (fd_name f); enc_ty (fd_ty f); sbool (fd_optional f)].

Definition enc_ct (c : ctype) (back : ty) : sexp :=
  SList [sym "ct"; sN (ct_layers c); sN (ct_len c); enc_prim (ct_prim c); enc_ty back].

Definition enc_cty (y : cty) (back : option ty) : sexp :=
  SList [sym "cty"; sN (cy_layers y); sN (cy_len y); sN (cy_prim y);
         match back with Some t => enc_ty t | None => s_panic end].

Definition enc_tres (r : result ty) : sexp :=
  match r with Ok t => enc_ty t | Err => sym "err" end.

Definition entries : list entry := [EStr; ESlice; EReader; EValue].

(* ---- model side ---- *)

Definition m_read_type (e : entry) (text : bytes) : result ty :=
  match json_parse text with
  | Some j => type_of_json (supply e j)
  | None => Err
  end.

Definition m_read_scheme (e : entry) (text : bytes) : result (list field_def) :=
  match json_parse text with
  | Some j => scheme_of_json (supply e j)
  | None => Err
  end.

Definition m_cty_part (t : ty) : sexp :=
  match cty_of_type t with
  | Some y => enc_cty y (type_of_cty y)
  | None => s_panic
  end.

Definition m_codec (t : ty) : sexp :=
  if rust_type_exists t then
    let text := json_print (type_to_json t) in
    SList [sym "codec";
           match from_type t with Some c => enc_ct c (into_type c) | None => s_panic end;
           m_cty_part t;
           SList (sym "json" :: SBytes text :: map (fun e => enc_tres (m_read_type e text)) entries)]
  else SList [sym "unbuildable"].

Fixpoint cy_build (y : cty) (ls : list layer) : option cty :=
  match ls with
  | [] => Some y
  | l :: r => match cy_push y l with Some y' => cy_build y' r | None => None end
  end.

Definition m_ctype_build (p : prim) (ls : list layer) : sexp :=
  match cy_build (cy_primitive p) ls with
  | Some y => enc_cty y (type_of_cty y)
  | None => SList [s_panic]
  end.

Definition m_ctype_decode (y : cty) : sexp :=
  match type_of_cty y with
  | Some t => SList [sym "ok"; enc_ty t]
  | None => SList [s_panic]
  end.

Definition enc_scheme_res (text : option bytes) (r : result (list field_def)) : sexp :=
  match r with
  | Ok fs => SList (sym "ok" :: match text with Some t => [SBytes t] | None => [] end ++ map enc_field fs)
  | Err => s_err
  end.

Definition m_scheme_roundtrip (e : entry) (fs : list field_def) : sexp :=
  match sb_add_fields fs [] with
  | Err => SList [sym "dup"]
  | Ok fs' =>
      let text := json_print (scheme_to_json fs') in
      enc_scheme_res (Some text) (m_read_scheme e text)
  end.

(* ---- specification side ---- *)

Definition s_read_type (e : entry) (text : bytes) : result ty :=
  match json_parse text with
  | Some j => spec_type_of_json (supply e j)
  | None => Err
  end.

Definition s_codec (t : ty) : sexp :=
  if (depth t <=? 33)%nat then
    SList [sym "codec";
           match spec_pack t with Some c => enc_ct c t | None => s_panic end;
           (* the C API form is specified up to 32 layers; beyond, the model's answer *)
           match spec_pack t with
           | Some c => enc_cty (cty_of_compound c) (Some t)
           | None => m_cty_part t
           end;
           SList (sym "json" :: SBytes (json_print (type_to_json t)) :: map (fun _ => enc_ty t) entries)]
  else SList [sym "unbuildable"].

Definition s_ctype_build (p : prim) (ls : list layer) : sexp :=
  if (List.length ls <=? 32)%nat then
    let t := build p (rev ls) in
    match spec_pack t with
    | Some c => enc_cty (cty_of_compound c) (Some t)
    | None => SList [s_panic]
    end
  else m_ctype_build p ls.

Definition s_ctype_decode (y : cty) : sexp :=
  match prim_of_code (cy_prim y) with
  | Some p =>
      if (cy_len y <=? 32)%N && (cy_layers y <? 2 ^ cy_len y)%N
      then SList [sym "ok"; enc_ty (spec_unpack (cy_layers y) (N.to_nat (cy_len y)) p)]
      else m_ctype_decode y
  | None => m_ctype_decode y
  end.

Definition s_scheme_roundtrip (e : entry) (fs : list field_def) : sexp :=
  match spec_scheme_roundtrip e fs with
  | Err => SList [sym "dup"]
  | Ok fs' => enc_scheme_res (Some (json_print (scheme_to_json fs))) (Ok fs')
  end.

Definition s_read_scheme (e : entry) (text : bytes) : result (list field_def) :=
  match json_parse text with
  | Some j => spec_scheme_of_json (supply e j)
  | None => Err
  end.

(* ---- dispatch ---- *)

Definition run_C15 (spec : bool) (head : sexp) (args : list sexp) : option sexp :=
  if sym_is "type-codec" head then
    match args with
    | [t] => t' <-- dec_ty FUEL t ;; Some (if spec then s_codec t' else m_codec t')
    | _ => None
    end
  else if sym_is "type-json" head then
    match args with
    | [SBytes text; e] =>
        e' <-- dec_entry e ;;
        Some (match (if spec then s_read_type e' text else m_read_type e' text) with
              | Ok t => SList [sym "ok"; enc_ty t]
              | Err => s_err
              end)
    | _ => None
    end
  else if sym_is "scheme-json" head then
    match args with
    | [SBytes text; e] =>
        e' <-- dec_entry e ;;
        Some (enc_scheme_res None (if spec then s_read_scheme e' text else m_read_scheme e' text))
    | _ => None
    end
  else if sym_is "scheme-roundtrip" head then
    match args with
    | [SList fl; e] =>
        e' <-- dec_entry e ;; fs <-- option_map_all dec_field fl ;;
        Some (if spec then s_scheme_roundtrip e' fs else m_scheme_roundtrip e' fs)
    | _ => None
    end
  else if sym_is "ctype-build" head then
    match args with
    | [p; SList ls] =>
        p' <-- dec_prim p ;; ls' <-- option_map_all dec_layer ls ;;
        Some (if spec then s_ctype_build p' ls' else m_ctype_build p' ls')
    | _ => None
    end
  else if sym_is "ctype-decode" head then
    match args with
    | [l; n; p] =>
        l' <-- as_N l ;; n' <-- as_N n ;; p' <-- as_N p ;;
        let y := mk_cty l' n' p' in
        Some (if spec then s_ctype_decode y else m_ctype_decode y)
    | _ => None
    end
  else None.
