(* Case decoders / result encoders for C09 (set membership). *)
From Coq Require Import List ZArith NArith Bool String.
From WF Require Import Base.Bytes Base.Sexp Sem.RangeSet Spec.C09.
Import ListNotations.
Open Scope string_scope.

Definition dec_opt {A} (f : sexp -> option A) (x : sexp) : option (option A) :=
  match x with
  | SList [h; v] => if sym_is "some" h then option_map Some (f v) else None
  | _ => if sym_is "none" x then Some None else None
  end.

Definition dec_range (x : sexp) : option range :=
  match x with
  | SList [SInt a; SInt b] => Some (a, b)
  | _ => None
  end.

Definition dec_ip (x : sexp) : option ip :=
  match x with
  | SList [h; SInt a] =>
      if sym_is "v4" h then Some (V4 a) else if sym_is "v6" h then Some (V6 a) else None
  | _ => None
  end.

Definition dec_ip_item (x : sexp) : option ip_item :=
  match x with
  | SList [h; SInt a; SInt b] =>
      if sym_is "r4" h then Some (IpRange4 a b)
      else if sym_is "r6" h then Some (IpRange6 a b)
      else if sym_is "c4" h then Some (IpCidr4 a b)
      else if sym_is "c6" h then Some (IpCidr6 a b)
      else None
  | _ => None
  end.

Fixpoint enc_results (rs : list (option bool)) : option (list sexp) :=
  match rs with
  | [] => Some []
  | Some b :: rs' => option_map (cons (sbool b)) (enc_results rs')
  | None :: _ => None
  end.

Definition enc_res (rs : list (option bool)) : sexp :=
  match enc_results rs with
  | Some l => SList (sym "ok" :: l)
  | None => SList [sym "panic"]
  end.

(* [spec] selects the specification instead of the model.
   case: (in-int (items...) (probes...)), one answer per probe. *)
Definition run_C09 (spec : bool) (head : sexp) (args : list sexp) : option sexp :=
  match args with
  | [SList items; SList probes] =>
      if sym_is "in-int" head then
        match option_map_all dec_range items, option_map_all (dec_opt as_Z) probes with
        | Some its, Some xs =>
            Some (enc_res (map (fun x => if spec then Some (spec_in_int its x) else oneof_int its x) xs))
        | _, _ => None
        end
      else if sym_is "in-ip" head then
        match option_map_all dec_ip_item items, option_map_all (dec_opt dec_ip) probes with
        | Some its, Some xs =>
            Some (enc_res (map (fun x => if spec then Some (spec_in_ip its x) else oneof_ip its x) xs))
        | _, _ => None
        end
      else if sym_is "in-bytes" head then
        match option_map_all as_bytes items, option_map_all (dec_opt as_bytes) probes with
        | Some its, Some xs =>
            Some (enc_res (map (fun x => if spec then Some (spec_in_bytes its x) else oneof_bytes its x) xs))
        | _, _ => None
        end
      else None
  | _ => None
  end.
