(* Extraction of the executable model.  Only ExtrOcamlBasic's directives are
   used; numbers stay the extracted inductive types.  coqc runs in /verif/coq. *)
From Coq Require Extraction.
From Coq Require Import ExtrOcamlBasic.
From WF Require Import Run.Main.
Extraction "../model/extracted/wfmodel_core.ml" run_line.
