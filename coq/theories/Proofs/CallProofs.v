(* Function calls: assumptions on user functions, SimpleFunctionDefinition /
   ConcatFunction compilation, map-each application. *)
From Coq Require Import List ZArith NArith Bool Lia Arith.
From WF Require Import Base.Bytes Sem.RangeSet Lang.Types Lang.Ast Lang.Context
     Sem.Compile Spec.Denote Spec.Typing Proofs.ScalarProofs Proofs.ValueProofs Proofs.IndexProofs
     Proofs.ExecProofs.
Import ListNotations.

(* parameter types of a definition: mandatory ones, then the optional ones' default types *)
Definition sig_of (d : fn_def) : list (arg_kind * ty) :=
  fn_params d ++ map (fun p => (fst p, type_of (snd p))) (fn_opt_params d).

(* What the engine may assume about user code (C03: "registered function"):
   given arguments of the declared types it does not panic and its result, if
   any, has the declared return type; declared defaults are well-formed values. *)
Definition fn_ok (d : fn_def) : Prop :=
  Forall (fun p => value_wf (snd p) = true) (fn_opt_params d) /\
  (if fn_variadic_same d then
     forall t vs, match t with TArray _ | TBytes => True | _ => False end ->
       Forall (fun r => vres_typed r t = true) vs ->
       exists r, fn_impl d vs = Some r /\ match r with Some v => has_type v t = true | None => True end
   else
     forall vs, Forall2 (fun r kt => vres_typed r (snd kt) = true) vs (sig_of d) ->
       exists r, fn_impl d vs = Some r /\ match r with Some v => has_type v (fn_ret d) = true | None => True end).

Definition fns_ok (sch : scheme) : Prop := forall fn d, fn_of sch fn = Some d -> fn_ok d.

Lemma skipn_app_ge {A} (a b : list A) n : (length a <= n)%nat -> skipn n (a ++ b) = skipn (n - length a) b.
Proof.
  revert n. induction a as [|x a IH]; intros n H; cbn [app length]; [now rewrite Nat.sub_0_r|].
  destruct n; [cbn in H; lia|]. cbn [skipn]. rewrite IH by (cbn in H; lia). reflexivity.
Qed.

Lemma Forall2_app_split {A B} (R : A -> B -> Prop) (xs : list A) : forall (ys : list B) n,
  length xs = n -> (n <= length ys)%nat ->
  Forall2 R xs (firstn n ys) -> forall zs, Forall2 R zs (skipn n ys) -> Forall2 R (xs ++ zs) ys.
Proof.
  intros ys n Hl Hn H1 zs H2. rewrite <- (firstn_skipn n ys). apply Forall2_app; assumption.
Qed.

Lemma Forall_skipn {A} (P : A -> Prop) (l : list A) : forall n, Forall P l -> Forall P (skipn n l).
Proof.
  induction l as [|x l IH]; intros n H; [now rewrite skipn_nil|].
  destruct n; [exact H|]. cbn. apply IH. now inversion H.
Qed.

Definition defaults_of (d : fn_def) (n : nat) : list vres :=
  map (fun p => VOk (snd p)) (skipn (n - length (fn_params d)) (fn_opt_params d)).

(* defaults of the omitted optional parameters are typed by the tail of the signature *)
Lemma defaults_typed d n :
  Forall (fun p => value_wf (snd p) = true) (fn_opt_params d) ->
  (length (fn_params d) <= n)%nat ->
  Forall2 (fun r kt => vres_typed r (snd kt) = true) (defaults_of d n) (skipn n (sig_of d)).
Proof.
  intros Hwf Hn. unfold sig_of, defaults_of. rewrite skipn_app_ge by exact Hn.
  rewrite skipn_map. set (k := (n - length (fn_params d))%nat).
  pose proof (Forall_skipn _ _ k Hwf) as Hs. clear Hwf.
  induction Hs as [|p l Hp _ IH]; cbn; constructor; auto.
  cbn. unfold has_type. now rewrite ty_eqb_refl, Hp.
Qed.

Lemma compile_simple_variadic d n : fn_variadic_same d = true -> compile_simple d n = Some (fn_impl d).
Proof. intros H. unfold compile_simple. now rewrite H. Qed.

Lemma compile_simple_fixed d n :
  (fn_variadic_same d = false) ->
  (length (fn_params d) <= n)%nat -> (n <= length (fn_params d) + length (fn_opt_params d))%nat ->
  (compile_simple d n =
   Some (fun a : list vres => if Nat.eqb n (length a) then fn_impl d (a ++ defaults_of d n) else None)).
Proof.
  intros Hv H1 H2. unfold compile_simple, defaults_of. rewrite Hv.
  destruct (Nat.ltb n (length (fn_params d))) eqn:E1; [apply Nat.ltb_lt in E1; lia|].
  destruct (Nat.ltb (length (fn_opt_params d)) (n - length (fn_params d))) eqn:E2; [apply Nat.ltb_lt in E2; lia|].
  reflexivity.
Qed.

(* the per-element loop of a mapped call *)
Lemma filter_map_call_spec ret (call : list vres -> M (option value)) (impl : list vres -> option (option value))
      (ex : list vres) (extra : value -> M (list vres)) elems :
  (forall e, In e elems -> extra e = Some ex) ->
  (forall e, In e elems ->
     exists o, call (VOk e :: ex) = Some o /\ impl (VOk e :: ex) = Some o /\
               match o with Some v => has_type v ret = true | None => True end) ->
  exists os, all_some (map (fun x => impl (VOk x :: ex)) elems) = Some os /\
             filter_map_call ret call extra elems = Some (filter_map_opt (fun r => r) os) /\
             Forall (fun v => has_type v ret = true) (filter_map_opt (fun r => r) os).
Proof.
  induction elems as [|e elems IH]; intros Hex Hcall.
  - exists []. repeat split; constructor.
  - destruct IH as (os & H1 & H2 & H3); [intros; apply Hex; now right|intros; apply Hcall; now right|].
    destruct (Hcall e (or_introl eq_refl)) as (o & Hc & Hi & Ho).
    exists (o :: os). cbn [map all_some filter_map_call]. rewrite Hi, H1, (Hex e (or_introl eq_refl)), Hc.
    split; [reflexivity|]. destruct o as [v|].
    + unfold has_type in Ho. apply andb_true_iff in Ho. destruct Ho as [Ht Hw]. rewrite Ht, H2.
      cbn. split; [reflexivity|]. constructor; [|exact H3]. unfold has_type. now rewrite Ht, Hw.
    + rewrite H2. cbn. split; [reflexivity|exact H3].
Qed.

Lemma mapM_evals {A} (c : A) (cargs : list (A -> M vres)) rs :
  Forall2 (fun cv r => cv c = Some r) cargs rs -> mapM (fun g => g c) cargs = Some rs.
Proof. induction 1 as [|g r gs rs Hg _ IH]; cbn; [reflexivity|]. now rewrite Hg, IH. Qed.
