(* C10: every `contains` searcher computes exact substring search.

   Outline (for the SIMD algorithm of sliceslice, Sem/Searcher.v):
     1. [occurs_iff]: occurs p h  <->  some start offset i with i + |p| <= |h|
        has p as a prefix of (skipn i h)            ([match_at p h i]).
     2. bit level: [to_bitmask_bit], [word_max_bit], [word_shl_max_bit],
        [clear_lowest_bit], [scan_spec]: the `while eq != 0` loop visits
        exactly the set bits of the word.
     3. [chunk_spec]: one chunk at [start] decides
        "exists an enabled lane k < L with a match at start + k"
        and reads only inside the haystack: the candidate filter (first byte
        and anchor byte) is necessary for a match ([cand_necessary]) and the
        verification of the remaining bytes is exact ([match_at_split]).
     4. [chunks_loop_spec] + remainder chunk: the start offsets examined are
        all of [0, end); the lanes of the remainder chunk that overlap earlier
        chunks are masked out (and would be harmless).
     5. [inlined_search_spec]: the width chosen from [end] always satisfies
        L <= end, and the `haystack.len() <= needle.len()` shortcut is exact.
     6. [dispatch_spec]. *)
From Coq Require Import List NArith Arith Bool Lia.
From WF Require Import Base.Bytes Sem.Compile Spec.Denote Sem.Searcher Spec.C10 Proofs.ScalarProofs.
Import ListNotations.
Open Scope nat_scope.

(* ------------------------------------------------------------------ *)
(* 0. lists                                                             *)

Lemma existsb_seq_true f a n :
  existsb f (seq a n) = true <-> exists i, a <= i < a + n /\ f i = true.
Proof.
  rewrite existsb_exists. split.
  - intros [i [Hin Hf]]. apply in_seq in Hin. exists i. split; [lia | exact Hf].
  - intros [i [Hr Hf]]. exists i. split; [apply in_seq; lia | exact Hf].
Qed.

Lemma existsb_all_false {A} (f : A -> bool) l :
  (forall x, In x l -> f x = false) -> existsb f l = false.
Proof.
  induction l as [|x l IH]; intros H; cbn [existsb]; [reflexivity|].
  rewrite (H x (or_introl eq_refl)), IH; [reflexivity|].
  intros y Hy. apply H. right. exact Hy.
Qed.

Lemma existsb_ext_in {A} (f g : A -> bool) l :
  (forall x, In x l -> f x = g x) -> existsb f l = existsb g l.
Proof.
  induction l as [|x l IH]; intros H; cbn [existsb]; [reflexivity|].
  rewrite (H x (or_introl eq_refl)), IH; [reflexivity|].
  intros y Hy. apply H. right. exact Hy.
Qed.

Lemma nth_skipn_N (m : bytes) : forall s k, nth k (skipn s m) 0%N = nth (s + k) m 0%N.
Proof.
  induction m as [|x m IH]; intros s k.
  - rewrite skipn_nil. destruct k, s; reflexivity.
  - destruct s as [|s]; [reflexivity|]. cbn [skipn Nat.add nth]. apply IH.
Qed.

Lemma nth_firstn_N (m : bytes) : forall n k, k < n -> nth k (firstn n m) 0%N = nth k m 0%N.
Proof.
  induction m as [|x m IH]; intros n k Hk.
  - rewrite firstn_nil. reflexivity.
  - destruct n as [|n]; [lia|]. cbn [firstn]. destruct k as [|k]; [reflexivity|].
    cbn [nth]. apply IH. lia.
Qed.

Lemma skipn_cons_nth (m : bytes) : forall i, i < length m ->
  skipn i m = nth i m 0%N :: skipn (S i) m.
Proof.
  induction m as [|x m IH]; intros i Hi; cbn [length] in Hi; [lia|].
  destruct i as [|i]; [reflexivity|].
  cbn [skipn nth]. rewrite (IH i) by lia. reflexivity.
Qed.

Lemma nth_opt_nth (m : bytes) : forall k x, nth_opt m k = Some x -> nth k m 0%N = x /\ k < length m.
Proof.
  induction m as [|y m IH]; intros k x H; cbn [nth_opt] in H; [discriminate|].
  destruct k as [|k].
  - injection H as ->. split; [reflexivity | cbn [length]; lia].
  - apply IH in H. destruct H as [H1 H2]. split; [exact H1 | cbn [length]; lia].
Qed.

Lemma nth_opt_some (m : bytes) : forall k, k < length m -> exists x, nth_opt m k = Some x.
Proof.
  induction m as [|y m IH]; intros k Hk; cbn [length] in Hk; [lia|].
  destruct k as [|k]; cbn [nth_opt]; [eexists; reflexivity|].
  apply IH. lia.
Qed.

Lemma nth_repeat_N (a : N) L : forall k, k < L -> nth k (repeat a L) 0%N = a.
Proof.
  induction L as [|L IH]; intros k Hk; [lia|].
  cbn [repeat]. destruct k as [|k]; [reflexivity|]. cbn [nth]. apply IH. lia.
Qed.

Lemma bytes_eqb_eq a : forall b, bytes_eqb a b = true <-> a = b.
Proof.
  induction a as [|x a IH]; intros [|y b]; cbn [bytes_eqb]; try (split; [discriminate | discriminate]).
  - split; reflexivity.
  - rewrite andb_true_iff, N.eqb_eq, IH. split.
    + intros [-> ->]. reflexivity.
    + intros H. injection H as -> ->. split; reflexivity.
Qed.

(* ------------------------------------------------------------------ *)
(* 1. occurs = some start offset matches                                *)

Definition match_at (p h : bytes) (i : nat) : bool := is_prefix p (skipn i h).

Lemma is_prefix_app p : forall s, is_prefix p s = true <-> exists t, s = p ++ t.
Proof.
  induction p as [|x p IH]; intros s; cbn [is_prefix].
  - split; [intros _; exists s; reflexivity | reflexivity].
  - destruct s as [|y s].
    + split; [discriminate | intros [t Ht]; discriminate].
    + rewrite andb_true_iff, N.eqb_eq, IH. split.
      * intros [-> [t ->]]. exists t. reflexivity.
      * intros [t Ht]. cbn [app] in Ht. injection Ht as -> ->.
        split; [reflexivity | exists t; reflexivity].
Qed.

Lemma is_prefix_length p s : is_prefix p s = true -> length p <= length s.
Proof.
  intros H. apply is_prefix_app in H. destruct H as [t ->]. rewrite app_length. lia.
Qed.

Lemma match_at_bound p h i : match_at p h i = true -> p <> [] -> i + length p <= length h.
Proof.
  unfold match_at. intros H Hp. apply is_prefix_length in H. rewrite skipn_length in H.
  destruct p as [|x p]; [congruence|]. cbn [length] in *. lia.
Qed.

Lemma occurs_iff p : forall h,
  occurs p h = true <-> exists i, i + length p <= length h /\ match_at p h i = true.
Proof.
  unfold match_at. induction h as [|y h IH]; cbn [occurs].
  - rewrite orb_false_r. split.
    + intros H. exists 0. split; [apply is_prefix_length in H; cbn [Nat.add]; exact H | exact H].
    + intros [i [Hi H]]. rewrite skipn_nil in H. exact H.
  - rewrite orb_true_iff, IH. split.
    + intros [H | [i [Hi H]]].
      * exists 0. split; [apply is_prefix_length in H; exact H | exact H].
      * exists (S i). split; [cbn [length]; lia | exact H].
    + intros [[|i] [Hi H]]; [left; exact H |].
      right. exists i. split; [cbn [length] in Hi; lia | exact H].
Qed.

(* the executable specification decides the declarative one *)
Lemma occurs_substring p h : occurs p h = true <-> substring p h.
Proof.
  rewrite occurs_iff. unfold match_at, substring. split.
  - intros [i [Hi H]]. apply is_prefix_app in H. destruct H as [t Ht].
    exists (firstn i h), t. rewrite <- Ht. symmetry. apply firstn_skipn.
  - intros [a [b ->]]. exists (length a). split.
    + rewrite !app_length. lia.
    + rewrite skipn_app, skipn_all, Nat.sub_diag. cbn [skipn app].
      apply is_prefix_app. exists b. reflexivity.
Qed.

Lemma occurs_spec_substring p h : contains_spec p h = true <-> substring p h.
Proof. unfold contains_spec. rewrite <- occurs_eq. apply occurs_substring. Qed.

(* the range form used by the chunked search *)
Lemma occurs_range p h : p <> [] -> length p <= length h ->
  occurs p h = existsb (match_at p h) (seq 0 (length h - length p + 1)).
Proof.
  intros Hp Hl. apply eq_true_iff_eq. rewrite occurs_iff, existsb_seq_true. split.
  - intros [i [Hi H]]. exists i. split; [lia | exact H].
  - intros [i [Hi H]]. exists i. split; [lia | exact H].
Qed.

(* the `haystack.len() <= needle.size()` shortcut *)
Lemma occurs_short p h : length h <= length p -> occurs p h = bytes_eqb h p.
Proof.
  intros Hl. apply eq_true_iff_eq. rewrite occurs_iff, bytes_eqb_eq. unfold match_at. split.
  - intros [i [Hi H]]. assert (i = 0) as -> by lia. cbn [skipn] in H.
    apply is_prefix_app in H. destruct H as [t ->].
    rewrite app_length in *. assert (length t = 0) as Ht by lia.
    apply length_zero_iff_nil in Ht. subst t. apply app_nil_r.
  - intros ->. exists 0. split; [cbn [Nat.add]; lia|].
    cbn [skipn]. apply is_prefix_app. exists []. symmetry. apply app_nil_r.
Qed.

(* a match at i splits into the first byte and the rest (the verification) *)
Lemma match_at_split f t h i : i < length h ->
  match_at (f :: t) h i = (f =? nth i h 0)%N && bytes_eqb (firstn (length t) (skipn (S i) h)) t.
Proof.
  intros Hi. unfold match_at. rewrite (skipn_cons_nth h i Hi). cbn [is_prefix].
  rewrite is_prefix_firstn. reflexivity.
Qed.

(* the anchor byte of a match is the anchor byte of the needle *)
Lemma cand_necessary p h i pos : match_at p h i = true -> pos < length p ->
  nth (i + pos) h 0%N = nth pos p 0%N.
Proof.
  unfold match_at. intros H Hpos. apply is_prefix_app in H. destruct H as [t Ht].
  rewrite <- nth_skipn_N, Ht. apply app_nth1. exact Hpos.
Qed.

(* ------------------------------------------------------------------ *)
(* 2. memchr                                                            *)

Lemma memchr_search_spec b h : memchr_search b h = occurs [b] h.
Proof.
  unfold memchr_search. induction h as [|x h IH]; [reflexivity|].
  cbn [memchr occurs is_prefix]. destruct (b =? x)%N; [reflexivity|].
  cbn [andb orb]. rewrite <- IH. destruct h as [|y h]; [reflexivity|].
  destruct (memchr b (y :: h)); reflexivity.
Qed.

(* ------------------------------------------------------------------ *)
(* 3. bit level                                                         *)

Lemma to_bitmask_bit l : forall k, N.testbit_nat (to_bitmask l) k = nth k l false.
Proof.
  induction l as [|b l IH]; intros k; cbn [to_bitmask nth].
  - destruct k; reflexivity.
  - rewrite <- Ntestbit_Nbit. destruct k as [|k].
    + cbn [N.of_nat]. apply N.testbit_0_r.
    + rewrite Nat2N.inj_succ, N.testbit_succ_r, Ntestbit_Nbit. apply IH.
Qed.

Lemma nth_lanes_and a : forall b k,
  nth k (lanes_and a b) false = nth k a false && nth k b false.
Proof.
  induction a as [|x a IH]; intros b k; cbn [lanes_and].
  - destruct k; reflexivity.
  - destruct b as [|y b].
    + destruct k; cbn [nth]; rewrite andb_false_r; reflexivity.
    + destruct k as [|k]; cbn [nth]; [reflexivity | apply IH].
Qed.

Lemma nth_lanes_eq a : forall b k, k < length a -> k < length b ->
  nth k (lanes_eq a b) false = (nth k a 0 =? nth k b 0)%N.
Proof.
  induction a as [|x a IH]; intros b k Ha Hb; cbn [length] in Ha; [lia|].
  destruct b as [|y b]; cbn [length] in Hb; [lia|].
  cbn [lanes_eq]. destruct k as [|k]; cbn [nth]; [reflexivity|]. apply IH; lia.
Qed.

Lemma lanes_eq_length a : forall b, length (lanes_eq a b) = Nat.min (length a) (length b).
Proof.
  induction a as [|x a IH]; intros b; [reflexivity|].
  destruct b as [|y b]; [reflexivity|]. cbn [lanes_eq length Nat.min]. rewrite IH. reflexivity.
Qed.

Lemma word_max_bit W j : N.testbit_nat (word_max W) j = (j <? W).
Proof.
  unfold word_max. rewrite <- Ntestbit_Nbit. destruct (Nat.ltb_spec j W) as [H|H].
  - apply N.ones_spec_low. lia.
  - apply N.ones_spec_high. lia.
Qed.

Lemma word_shl_max_bit W s m : word_shl W (word_max W) s = Some m ->
  forall j, N.testbit_nat m j = (s <=? j) && (j <? W).
Proof.
  unfold word_shl. destruct (s <? W); [|discriminate]. intros H j. injection H as <-.
  rewrite Nand_semantics, word_max_bit, <- Ntestbit_Nbit.
  destruct (Nat.leb_spec s j) as [H|H].
  - rewrite N.shiftl_spec_high' by lia. rewrite <- Nat2N.inj_sub, Ntestbit_Nbit, word_max_bit.
    destruct (Nat.ltb_spec j W) as [H1|H1]; destruct (Nat.ltb_spec (j - s) W) as [H2|H2];
      try reflexivity; lia.
  - rewrite N.shiftl_spec_low by lia. reflexivity.
Qed.

Lemma word_shl_some W a s : s < W -> exists m, word_shl W a s = Some m.
Proof.
  intros H. unfold word_shl. destruct (Nat.ltb_spec s W); [eexists; reflexivity | lia].
Qed.

Lemma ctz_bit p : Pos.testbit_nat p (ctz_pos p) = true.
Proof. induction p as [p IH|p IH|]; cbn [ctz_pos Pos.testbit_nat]; [reflexivity | exact IH | reflexivity]. Qed.

Lemma ctz_low p : forall j, j < ctz_pos p -> Pos.testbit_nat p j = false.
Proof.
  induction p as [p IH|p IH|]; intros j Hj; cbn [ctz_pos] in Hj; try lia.
  destruct j as [|j]; cbn [Pos.testbit_nat]; [reflexivity|]. apply IH. lia.
Qed.

Lemma pred_double_bits p j :
  Pos.testbit_nat (Pos.pred_double p) j =
  match j with O => true | S j' => N.testbit_nat (Pos.pred_N p) j' end.
Proof.
  destruct p as [q|q|]; destruct j as [|j]; try reflexivity.
Qed.

(* the bits of x - 1: ones below the lowest set bit of x, zero there, x above *)
Lemma pred_bits p : forall j,
  N.testbit_nat (Pos.pred_N p) j =
  if j <? ctz_pos p then true else if j =? ctz_pos p then false else Pos.testbit_nat p j.
Proof.
  induction p as [p IH|p IH|]; intros j.
  - destruct j as [|j]; reflexivity.
  - cbn [Pos.pred_N N.testbit_nat ctz_pos]. rewrite pred_double_bits.
    destruct j as [|j]; [reflexivity|]. rewrite IH. reflexivity.
  - destruct j as [|j]; reflexivity.
Qed.

(* eq & (eq - 1) clears exactly the lowest set bit *)
Lemma clear_lowest_bit p j :
  N.testbit_nat (N.land (Npos p) (N.pred (Npos p))) j =
  Pos.testbit_nat p j && negb (j =? ctz_pos p).
Proof.
  rewrite Nand_semantics, <- N.pos_pred_spec, pred_bits. cbn [N.testbit_nat].
  destruct (Nat.ltb_spec j (ctz_pos p)) as [H|H].
  - rewrite (ctz_low p j H). reflexivity.
  - destruct (Nat.eqb_spec j (ctz_pos p)) as [E|E]; cbn [negb].
    + rewrite andb_false_r. reflexivity.
    + rewrite andb_true_r. apply andb_diag.
Qed.

(* the candidate loop: it visits exactly the set bits of the word, in
   increasing order, and never runs out of fuel *)
Lemma scan_spec W verify v : forall fuel eq lo,
  lo + fuel = W ->
  (forall j, N.testbit_nat eq j = true -> lo <= j < W) ->
  (forall j, N.testbit_nat eq j = true -> verify j = Some (v j)) ->
  scan_candidates W fuel verify eq
  = Some (existsb (fun j => N.testbit_nat eq j && v j) (seq 0 W)).
Proof.
  induction fuel as [|fuel IH]; intros eq lo Hlo Hb Hv; cbn [scan_candidates];
    destruct eq as [|p]; cbn [N.eqb].
  - rewrite existsb_all_false; [reflexivity|]. intros j _. reflexivity.
  - exfalso. specialize (Hb (ctz_pos p) (ctz_bit p)). lia.
  - rewrite existsb_all_false; [reflexivity|]. intros j _. reflexivity.
  - cbn [trailing_zeros]. pose proof (Hb _ (ctz_bit p)) as Hc.
    rewrite (Hv _ (ctz_bit p)). destruct (v (ctz_pos p)) eqn:Ev.
    + symmetry. f_equal. apply existsb_seq_true. exists (ctz_pos p).
      split; [lia|]. cbn [N.testbit_nat]. rewrite ctz_bit, Ev. reflexivity.
    + rewrite (IH _ (S lo)).
      * f_equal. apply existsb_ext_in. intros j _. rewrite clear_lowest_bit.
        cbn [N.testbit_nat]. destruct (Nat.eqb_spec j (ctz_pos p)) as [E|E]; cbn [negb].
        -- subst j. rewrite Ev, !andb_false_r. reflexivity.
        -- rewrite andb_true_r. reflexivity.
      * lia.
      * intros j Hj. rewrite clear_lowest_bit in Hj. apply andb_true_iff in Hj.
        destruct Hj as [Hj1 Hj2]. pose proof (Hb j Hj1) as Hj3.
        destruct (Nat.eqb_spec j (ctz_pos p)) as [E|E]; [discriminate|].
        destruct (Nat.lt_ge_cases j (ctz_pos p)) as [Hlt|Hge].
        -- rewrite (ctz_low p j Hlt) in Hj1. discriminate.
        -- lia.
      * intros j Hj. rewrite clear_lowest_bit in Hj. apply andb_true_iff in Hj.
        apply Hv. exact (proj1 Hj).
Qed.

(* ------------------------------------------------------------------ *)
(* 4. searchers                                                         *)

Record searcher_ok (s : searcher) : Prop := {
  ok_pos : s_position s < length (s_needle s);
  ok_size : needle_size (s_size_const s) (s_needle s) = length (s_needle s);
  ok_first : nth 0 (s_needle s) 0%N = s_first s;
  ok_last : nth (s_position s) (s_needle s) 0%N = s_last s;
}.

Lemma with_position_ok sz n pos s : with_position sz n pos = Some s ->
  searcher_ok s /\ s_needle s = n /\ s_position s = pos /\ s_size_const s = sz.
Proof.
  unfold with_position. destruct (Nat.ltb_spec pos (needle_size sz n)) as [Hp|Hp]; [|discriminate].
  cbn [negb].
  destruct (negb match sz with Some k => k =? length n | None => true end) eqn:Hs; [discriminate|].
  assert (needle_size sz n = length n) as Hsz.
  { destruct sz as [k|]; [|reflexivity]. cbn [needle_size].
    apply negb_false_iff in Hs. apply Nat.eqb_eq in Hs. exact Hs. }
  destruct (nth_opt n 0) as [f|] eqn:Hf; [|discriminate].
  destruct (nth_opt n pos) as [l|] eqn:Hl; [|discriminate].
  intros H. injection H as <-. cbn.
  apply nth_opt_nth in Hf. apply nth_opt_nth in Hl.
  repeat split; cbn; try tauto; lia.
Qed.

Lemma with_position_some sz n pos : pos < length n -> (sz = None \/ sz = Some (length n)) ->
  exists s, with_position sz n pos = Some s.
Proof.
  intros Hp Hsz. unfold with_position.
  assert (needle_size sz n = length n) as E by (destruct Hsz as [-> | ->]; reflexivity).
  rewrite E. destruct (Nat.ltb_spec pos (length n)) as [_|H]; [|lia]. cbn [negb].
  assert (match sz with Some k => k =? length n | None => true end = true) as ->.
  { destruct Hsz as [-> | ->]; [reflexivity | apply Nat.eqb_refl]. }
  cbn [negb].
  destruct (nth_opt_some n 0) as [f ->]; [lia|].
  destruct (nth_opt_some n pos Hp) as [l ->].
  eexists. reflexivity.
Qed.

Lemma cmp_len_ok s : searcher_ok s ->
  cmp_len (s_size_const s) (s_needle s) = Some (length (s_needle s) - 1).
Proof.
  intros [Hp Hs _ _]. unfold cmp_len. destruct (s_size_const s) as [[|k]|] eqn:E.
  - cbn [needle_size] in Hs. lia.
  - cbn [needle_size] in Hs. destruct (S k <=? 16); f_equal; cbn [needle_size]; lia.
  - rewrite Hs. reflexivity.
Qed.

Lemma slice_some m off len : off + len <= length m ->
  slice m off len = Some (firstn len (skipn off m)).
Proof. intros H. unfold slice. destruct (Nat.leb_spec (off + len) (length m)); [reflexivity | lia]. Qed.

Lemma load_lanes m start L : start + L <= length m ->
  exists v, load m start L = Some v /\ length v = L /\
            forall k, k < L -> nth k v 0%N = nth (start + k) m 0%N.
Proof.
  intros H. unfold load. rewrite slice_some by exact H. eexists. split; [reflexivity|]. split.
  - rewrite firstn_length, skipn_length. lia.
  - intros k Hk. rewrite nth_firstn_N by exact Hk. apply nth_skipn_N.
Qed.

(* verification of the bytes after the first one is exact and in bounds *)
Lemma verify_spec f t h o : o + length t <= length h ->
  memcmp h o (f :: t) 1 (length t) = Some (bytes_eqb (firstn (length t) (skipn o h)) t).
Proof.
  intros H. unfold memcmp. rewrite slice_some by exact H.
  rewrite slice_some by (cbn [length]; lia). cbn [skipn]. rewrite firstn_all. reflexivity.
Qed.

(* one chunk: exactly the enabled lanes with a match, no read out of bounds *)
Lemma chunk_spec W s L h start mask (enabled : nat -> bool) :
  searcher_ok s -> L <= W ->
  start + L + length (s_needle s) <= S (length h) ->
  (forall j, j < L -> N.testbit_nat mask j = enabled j) ->
  vector_search_in_chunk W s L h start mask
  = Some (existsb (fun k => enabled k && match_at (s_needle s) h (start + k)) (seq 0 L)).
Proof.
  intros Hok HLW Hb Hm. pose proof (cmp_len_ok s Hok) as Hcl.
  destruct Hok as [Hp _ Hf Hl].
  unfold vector_search_in_chunk.
  destruct (s_needle s) as [|f t] eqn:En; cbn [length] in *; [lia|].
  cbn [nth] in Hf.
  destruct (load_lanes h start L) as [vf [-> [Lf Nf]]]; [lia|].
  destruct (load_lanes h (start + s_position s) L) as [vl [-> [Ll Nl]]]; [lia|].
  rewrite Hcl. cbn zeta.
  set (v := fun j => bytes_eqb (firstn (length t) (skipn (start + 1 + j) h)) t).
  assert (forall j, N.testbit_nat
             (N.land (to_bitmask (lanes_and (lanes_eq (splat L (s_first s)) vf)
                                            (lanes_eq (splat L (s_last s)) vl))) mask) j = true ->
            j < L /\ enabled j = true /\ nth (start + j) h 0%N = f /\
            nth (start + s_position s + j) h 0%N = s_last s) as Hbits.
  { intros j Hj. rewrite Nand_semantics, to_bitmask_bit, nth_lanes_and in Hj.
    destruct (Nat.lt_ge_cases j L) as [HjL|HjL].
    - rewrite !nth_lanes_eq in Hj by (unfold splat; rewrite ?repeat_length; lia).
      unfold splat in Hj. rewrite !nth_repeat_N in Hj by exact HjL.
      rewrite Nf, Nl, Hm in Hj by exact HjL.
      apply andb_true_iff in Hj. destruct Hj as [Hj He].
      apply andb_true_iff in Hj. destruct Hj as [H1 H2].
      apply N.eqb_eq in H1. apply N.eqb_eq in H2. subst f.
      repeat split; [exact HjL | exact He | symmetry; exact H1 | symmetry; exact H2].
    - rewrite (nth_overflow (lanes_eq (splat L (s_first s)) vf)) in Hj; [discriminate|].
      rewrite lanes_eq_length. unfold splat. rewrite repeat_length. lia. }
  rewrite (scan_spec W _ v W _ 0).
  - f_equal. apply eq_true_iff_eq. rewrite !existsb_seq_true. split.
    + intros [j [Hj Hjv]]. apply andb_true_iff in Hjv. destruct Hjv as [Hbit Hv].
      destruct (Hbits j Hbit) as [HjL [He [H1 H2]]].
      exists j. split; [lia|]. rewrite He. cbn [andb].
      rewrite match_at_split by lia. rewrite H1, N.eqb_refl. cbn [andb].
      unfold v in Hv. replace (S (start + j)) with (start + 1 + j) by lia. exact Hv.
    + intros [k [Hk Hkm]]. apply andb_true_iff in Hkm. destruct Hkm as [He Hmt].
      exists k. split; [lia|].
      pose proof (cand_necessary _ _ _ _ Hmt Hp) as Hanchor.
      rewrite match_at_split in Hmt by lia. apply andb_true_iff in Hmt.
      destruct Hmt as [H1 H2]. apply N.eqb_eq in H1.
      apply andb_true_iff. split.
      * rewrite Nand_semantics, to_bitmask_bit, nth_lanes_and.
        rewrite !nth_lanes_eq by (unfold splat; rewrite ?repeat_length; lia).
        unfold splat. rewrite !nth_repeat_N by lia.
        rewrite Nf, Nl, Hm by lia. rewrite He, <- Hf, <- H1, N.eqb_refl. cbn [andb].
        rewrite andb_true_r. apply N.eqb_eq.
        rewrite <- Hl. replace (start + s_position s + k) with (start + k + s_position s) by lia.
        symmetry. exact Hanchor.
      * unfold v. replace (start + 1 + k) with (S (start + k)) by lia. exact H2.
  - reflexivity.
  - intros j Hj. destruct (Hbits j Hj) as [HjL _]. lia.
  - intros j Hj. destruct (Hbits j Hj) as [HjL _].
    replace (S (length t) - 1) with (length t) by lia.
    unfold v. apply verify_spec. lia.
Qed.

Lemma existsb_seq_shift f a n :
  existsb (fun k => f (a + k)) (seq 0 n) = existsb f (seq a n).
Proof.
  apply eq_true_iff_eq. rewrite !existsb_seq_true. split.
  - intros [i [Hi H]]. exists (a + i). split; [lia | exact H].
  - intros [i [Hi H]]. exists (i - a). split; [lia|]. replace (a + (i - a)) with i by lia. exact H.
Qed.

(* the full chunks: offsets start, ..., start + count * L - 1 *)
Lemma chunks_loop_spec W s L h : searcher_ok s -> 0 < L <= W -> forall count start,
  start + count * L + length (s_needle s) <= S (length h) ->
  chunks_loop W s L h count start
  = Some (existsb (match_at (s_needle s) h) (seq start (count * L))).
Proof.
  intros Hok HL. induction count as [|count IH]; intros start Hb; cbn [chunks_loop].
  - reflexivity.
  - cbn [Nat.mul] in *.
    rewrite (chunk_spec W s L h start (word_max W) (fun _ => true) Hok).
    + cbn [andb]. rewrite (existsb_seq_shift (match_at (s_needle s) h) start L).
      rewrite seq_app, existsb_app.
      destruct (existsb (match_at (s_needle s) h) (seq start L)); [reflexivity|].
      rewrite IH by lia. reflexivity.
    + lia.
    + lia.
    + intros j Hj. rewrite word_max_bit. destruct (Nat.ltb_spec j W); [reflexivity | lia].
Qed.

(* vector_search_spec: for every lane width L > 0 (that fits the mask word and
   the search range), every anchor, every haystack *)
Lemma vector_search_spec W s L h : searcher_ok s -> 0 < L <= W ->
  length (s_needle s) <= length h ->
  L <= length h - length (s_needle s) + 1 ->
  vector_search_in W s L h (length h - length (s_needle s) + 1)
  = Some (occurs (s_needle s) h).
Proof.
  intros Hok HL Hn HLe. pose proof Hok as [Hp Hs _ _].
  unfold vector_search_in. rewrite Hs.
  set (n := s_needle s) in *. set (e := length h - length n + 1) in *.
  destruct (Nat.ltb_spec (length h) (length n)) as [H|_]; [lia|].
  destruct (Nat.ltb_spec (length h) e) as [H|_]; [unfold e in H; lia|].
  destruct (Nat.eqb_spec L 0) as [H|_]; [lia|].
  pose proof (Nat.div_mod e L ltac:(lia)) as Hdm.
  pose proof (Nat.mod_upper_bound e L ltac:(lia)) as Hr.
  rewrite (Nat.mul_comm L) in Hdm.
  set (q := e / L) in *. set (r := e mod L) in *.
  rewrite (chunks_loop_spec W s L h Hok HL q 0) by (fold n; unfold e in Hdm; lia).
  fold n. rewrite (occurs_range n h) by (try lia; intros E; rewrite E in Hp; cbn in Hp; lia).
  fold e. remember (q * L) as qL eqn:EqL.
  destruct (existsb (match_at n h) (seq 0 qL)) eqn:Efull.
  - f_equal. symmetry. apply existsb_seq_true. apply existsb_seq_true in Efull.
    destruct Efull as [i [Hi H]]. exists i. split; [lia | exact H].
  - destruct (Nat.ltb_spec 0 r) as [Hr0|Hr0].
    + destruct (Nat.ltb_spec e L) as [H|_]; [lia|].
      destruct (word_shl_some W (word_max W) (L - r)) as [mask Hmask]; [lia|].
      rewrite Hmask.
      rewrite (chunk_spec W s L h (e - L) mask (fun j => L - r <=? j) Hok); fold n.
      * f_equal. apply eq_true_iff_eq. rewrite !existsb_seq_true. split.
        -- intros [k [Hk H]]. apply andb_true_iff in H. destruct H as [H1 H2].
           apply Nat.leb_le in H1. exists (e - L + k). split; [lia | exact H2].
        -- intros [i [Hi H]].
           destruct (Nat.lt_ge_cases i qL) as [Hlo|Hhi].
           ++ assert (existsb (match_at n h) (seq 0 qL) = true) as C
                by (apply existsb_seq_true; exists i; split; [lia | exact H]).
              rewrite Efull in C. discriminate.
           ++ exists (i - (e - L)). split; [lia|]. apply andb_true_iff. split.
              ** apply Nat.leb_le. lia.
              ** replace (e - L + (i - (e - L))) with i by lia. exact H.
      * lia.
      * unfold e. lia.
      * intros j Hj. rewrite (word_shl_max_bit W _ _ Hmask).
        destruct (Nat.ltb_spec j W) as [_|H]; [apply andb_true_r | lia].
    + f_equal. symmetry. assert (e = qL) as <- by lia. exact Efull.
Qed.

(* inlined_search_in: the width chosen from [end] never exceeds [end] *)
Lemma lane_width_ok e : 2 <= e -> exists L, lane_width e = Some L /\ 0 < L <= 32 /\ L <= e.
Proof.
  intros He. unfold lane_width.
  destruct (Nat.ltb_spec e 2); [lia|].
  destruct (Nat.ltb_spec e 4); [exists 2; repeat split; lia|].
  destruct (Nat.ltb_spec e 8); [exists 4; repeat split; lia|].
  destruct (Nat.ltb_spec e 16); [exists 8; repeat split; lia|].
  destruct (Nat.ltb_spec e 32); [exists 16; repeat split; lia|].
  exists 32. repeat split; lia.
Qed.

Lemma inlined_search_spec s h : searcher_ok s ->
  inlined_search_in s h = Some (occurs (s_needle s) h).
Proof.
  intros Hok. pose proof Hok as [Hp Hs _ _]. unfold inlined_search_in. rewrite Hs.
  destruct (Nat.leb_spec (length h) (length (s_needle s))) as [Hle|Hgt].
  - rewrite occurs_short by exact Hle. reflexivity.
  - destruct (lane_width_ok (length h - length (s_needle s) + 1)) as [L [-> [HL HLe]]]; [lia|].
    apply vector_search_spec; try assumption; lia.
Qed.

(* ------------------------------------------------------------------ *)
(* 5. the dispatch of field_expr.rs                                     *)

Lemma dispatch_spec avx2 anchor needle hay :
  (2 <= length needle -> anchor < length needle) ->
  contains_dispatch avx2 anchor needle hay = Some (occurs needle hay).
Proof.
  intros Ha. unfold contains_dispatch.
  destruct needle as [|b [|c t]].
  - destruct hay; reflexivity.
  - rewrite memchr_search_spec. reflexivity.
  - destruct avx2; [|reflexivity].
    set (n := b :: c :: t) in *.
    destruct (with_position_some (if length n <=? 16 then Some (length n) else None) n anchor)
      as [s Hs].
    + apply Ha. cbn [length n]. lia.
    + destruct (length n <=? 16); [right | left]; reflexivity.
    + rewrite Hs. apply with_position_ok in Hs. destruct Hs as [Hok [En _]].
      rewrite inlined_search_spec by exact Hok. rewrite En. reflexivity.
Qed.

(* ------------------------------------------------------------------ *)
(* 6. the statements of Props/C10.v                                     *)

(* what the random number generator (or the hook) can produce:
   `rng().random_range(1..bytes.len())` *)
Definition anchor_valid (anchor : nat) (needle : bytes) : Prop :=
  2 <= length needle -> 1 <= anchor < length needle.

Lemma vector_search_full W L size_const needle pos hay :
  0 < L <= W ->
  pos < length needle ->
  (size_const = None \/ size_const = Some (length needle)) ->
  length needle <= length hay ->
  L <= length hay - length needle + 1 ->
  exists s, with_position size_const needle pos = Some s /\
            vector_search_in W s L hay (length hay - length needle + 1)
            = Some (contains_spec needle hay).
Proof.
  intros HL Hp Hsz Hn HLe. destruct (with_position_some size_const needle pos Hp Hsz) as [s Hs].
  exists s. split; [exact Hs|]. apply with_position_ok in Hs. destruct Hs as [Hok [En _]].
  unfold contains_spec. rewrite <- occurs_eq, <- En. apply vector_search_spec; rewrite ?En; assumption.
Qed.

Lemma inlined_search_full size_const needle pos hay :
  pos < length needle ->
  (size_const = None \/ size_const = Some (length needle)) ->
  exists s, with_position size_const needle pos = Some s /\
            inlined_search_in s hay = Some (contains_spec needle hay).
Proof.
  intros Hp Hsz. destruct (with_position_some size_const needle pos Hp Hsz) as [s Hs].
  exists s. split; [exact Hs|]. apply with_position_ok in Hs. destruct Hs as [Hok [En _]].
  unfold contains_spec. rewrite <- occurs_eq, <- En. apply inlined_search_spec. exact Hok.
Qed.

Lemma dispatch_full avx2 anchor needle hay :
  anchor_valid anchor needle ->
  contains_dispatch avx2 anchor needle hay = Some (contains_spec needle hay).
Proof.
  intros Ha. unfold contains_spec. rewrite <- occurs_eq. apply dispatch_spec.
  intros H. apply Ha in H. lia.
Qed.

Lemma anchor_irrelevant avx2 a1 a2 needle hay :
  anchor_valid a1 needle -> anchor_valid a2 needle ->
  contains_dispatch avx2 a1 needle hay = contains_dispatch avx2 a2 needle hay.
Proof. intros H1 H2. rewrite !dispatch_full by assumption. reflexivity. Qed.

Lemma avx2_switch_irrelevant a1 a2 needle hay :
  anchor_valid a1 needle -> anchor_valid a2 needle ->
  contains_dispatch true a1 needle hay = contains_dispatch false a2 needle hay.
Proof. intros H1 H2. rewrite !dispatch_full by assumption. reflexivity. Qed.

Lemma empty_pattern_always avx2 anchor hay :
  contains_dispatch avx2 anchor [] hay = Some true /\ contains_spec [] hay = true.
Proof. split; [reflexivity | destruct hay; reflexivity]. Qed.

Lemma single_byte_spec avx2 anchor b hay :
  contains_dispatch avx2 anchor [b] hay = Some (existsb (N.eqb b) hay).
Proof.
  cbn [contains_dispatch]. f_equal. unfold memchr_search.
  induction hay as [|x h IH]; [reflexivity|].
  cbn [memchr existsb]. destruct (b =? x)%N; [reflexivity|]. cbn [orb]. rewrite <- IH.
  destruct h as [|y h]; [reflexivity|]. destruct (memchr b (y :: h)); reflexivity.
Qed.
