(* C07: the closed statements, assembled from the parts
   (AstJsonProofs: model = canonical document; JsonPrintProofs: the text printer
   is injective; AstJsonInj: the document determines the structure, given two
   facts about address texts; IpTextProofs: those two facts; LitsTyped: well-typed
   filters satisfy the premise; ParserClosed: the parser model accepts only
   well-typed filters). *)
From Coq Require Import List ZArith NArith Bool.
From WF Require Import Base.Bytes Sem.RangeSet Lang.Types Lang.Ast Sem.TypeCodec Sem.JsonText
     Parse.Lex Sem.Compile Parse.Parser Spec.Typing Sem.AstJson Spec.C07
     Proofs.AstJsonProofs Proofs.JsonPrintProofs Proofs.AstJsonInj Proofs.IpTextInj
     Proofs.LitsTyped Proofs.ParserProofs Proofs.ParserClosed.
Import ListNotations.

Lemma document_determines_structure sch e1 e2 :
  names_distinct sch -> lits_typed sch e1 -> lits_typed sch e2 ->
  json_of_lexpr sch e1 = json_of_lexpr sch e2 -> struct_eq e1 e2.
Proof. intros Hn. exact (json_determines_structure ip_text_injective ip_text_no_slash sch Hn e1 e2). Qed.

Lemma text_determines_structure sch e1 e2 :
  names_distinct sch -> wt_filter sch e1 = true -> wt_filter sch e2 = true -> ips_ok e1 -> ips_ok e2 ->
  filter_json_text sch e1 = filter_json_text sch e2 -> struct_eq e1 e2.
Proof.
  intros Hn W1 W2 K1 K2 H. apply (document_determines_structure sch); auto using wt_lits_typed.
  now apply jprint_injective.
Qed.

Lemma parsed_text_determines_structure sch st t1 t2 e1 e2 r1 r2 :
  names_distinct sch -> parse_filter sch st t1 = LOk e1 r1 -> parse_filter sch st t2 = LOk e2 r2 ->
  ips_ok e1 -> ips_ok e2 ->
  (filter_json_text sch e1 = filter_json_text sch e2 <-> struct_eq e1 e2).
Proof.
  intros Hn P1 P2 K1 K2. split.
  - apply text_determines_structure; auto.
    + pose proof (parse_filter_post sch st t1) as P. rewrite P1 in P. exact (proj1 (proj1 P)).
    + pose proof (parse_filter_post sch st t2) as P. rewrite P2 in P. exact (proj1 (proj1 P)).
  - intro H. exact (proj1 (struct_eq_same_hash sch e1 e2 H)).
Qed.

Lemma same_json_same_hash sch e1 e2 :
  json_of_lexpr sch e1 = json_of_lexpr sch e2 -> filter_hash sch e1 = filter_hash sch e2.
Proof. unfold filter_hash, filter_json_text. now intros ->. Qed.

Lemma canonical_document sch e :
  json_of_lexpr sch e = canon_doc sch e /\
  filter_json_text sch e = canon_text sch e /\
  filter_hash sch e = canon_hash sch e.
Proof.
  split; [apply json_is_canon_doc|].
  split; [apply filter_text_is_canon_text|apply filter_hash_is_canon_hash].
Qed.

Lemma same_structure_same_json_and_hash sch e1 e2 :
  struct_eq e1 e2 ->
  json_of_lexpr sch e1 = json_of_lexpr sch e2 /\
  filter_json_text sch e1 = filter_json_text sch e2 /\
  filter_hash sch e1 = filter_hash sch e2.
Proof. intro H. split; [now apply struct_eq_same_doc|]. now apply struct_eq_same_hash. Qed.

Lemma json_text_injective (j1 j2 : json) :
  (jprint j1 = jprint j2 -> j1 = j2) /\ (json_print j1 = json_print j2 -> j1 = j2) /\ jprint j1 = json_print j1.
Proof. split; [apply jprint_injective|]. split; [apply json_print_injective|apply jprint_is_json_print]. Qed.

Lemma fnv_is_fold (text : bytes) : fnv1a64 text = fnv1a_spec text /\ (fnv1a_spec text < 2 ^ 64)%N.
Proof. split; [apply fnv_model_is_spec|apply fnv_range]. Qed.
