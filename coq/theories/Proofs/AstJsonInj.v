(* C07, part 4: the document determines the structure.  For filters whose
   literal kinds are decided by the typing rules ([lits_typed]) over a scheme
   with distinct names, equal JSON documents come from structurally equal
   filters.  How an address is written is std's business: the two facts used
   about [ip_text] are hypotheses of the section and are discharged in
   Proofs/IpTextProofs.v. *)
From Coq Require Import List ZArith NArith Bool String Lia.
From WF Require Import Base.Bytes Base.Sexp Sem.RangeSet Lang.Types Lang.Ast Sem.TypeCodec Sem.JsonText
     Parse.Lex Sem.Compile Sem.AstJson Spec.C07 Proofs.AstJsonProofs Proofs.JsonPrintProofs.
Import ListNotations.
Open Scope N_scope.

(* ---- parentheses ---- *)
Fixpoint peel (e : lexpr) : lexpr := match e with EParen e' => peel e' | _ => e end.

Lemma peel_json sch e : json_of_lexpr sch (peel e) = json_of_lexpr sch e.
Proof. induction e; cbn [peel json_of_lexpr]; auto. Qed.
Lemma peel_erase e : erase (peel e) = erase e.
Proof. induction e; cbn [peel erase]; auto. Qed.
Lemma peel_typed sch e : lits_typed sch e -> lits_typed sch (peel e).
Proof. induction e; cbn [peel lits_typed]; auto. Qed.
Lemma peel_not_paren e : forall e', peel e <> EParen e'.
Proof. induction e; cbn [peel]; try discriminate. exact IHe. Qed.

(* ---- the engine's static types depend on the structure only ---- *)
Lemma idx_erase e : iexpr_idx (erase_i e) = iexpr_idx e.
Proof. destruct e; reflexivity. Qed.

Lemma arg_count_erase a : arg_map_each_count (erase_arg a) = arg_map_each_count a.
Proof. destruct a; cbn [erase_arg arg_map_each_count]; [now rewrite idx_erase|reflexivity|reflexivity]. Qed.

Lemma rhs_ty_erase r : rhs_ty (erase_rhs r) = rhs_ty r.
Proof. destruct r; reflexivity. Qed.

Lemma ty_cmp_erase idx t op : ty_cmp_of idx t (erase_cmpop op) = ty_cmp_of idx t op.
Proof. destruct op; reflexivity. Qed.

Lemma ty_erase_mut sch :
  (forall e, ty_lexpr sch (erase e) = ty_lexpr sch e) /\
  (forall l, match erase_list l with LCons e0 _ => ty_lexpr sch e0 | LNil => None end
             = match l with LCons e0 _ => ty_lexpr sch e0 | LNil => None end) /\
  (forall e, ty_iexpr sch (erase_i e) = ty_iexpr sch e) /\
  (forall a, ty_args_first sch (erase_args a) = ty_args_first sch a /\
             match erase_args a with ACons a0 _ => arg_map_each_count a0 | ANil => O end
             = match a with ACons a0 _ => arg_map_each_count a0 | ANil => O end /\
             (erase_args a = ANil <-> a = ANil)) /\
  (forall a, ty_arg sch (erase_arg a) = ty_arg sch a).
Proof.
  apply ast_mutind.
  - intros op items IH. cbn [erase ty_lexpr]. exact IH.
  - intros lhs IH op. cbn [erase ty_lexpr]. now rewrite ty_cmp_erase, idx_erase, IH.
  - intros e IH. exact IH.
  - intros e IH. exact IH.
  - reflexivity.
  - reflexivity.
  - reflexivity.
  - intros e IHe r _. exact IHe.
  - reflexivity.
  - intros fn a (IH1 & IH2 & IH3) idx. cbn [erase_i ty_iexpr]. unfold ty_call_of. rewrite IH1.
    destruct (fn_of sch fn) as [d|]; [|reflexivity]. cbn.
    destruct (if fn_variadic_same d then ty_args_first sch a else Some (fn_ret d)) as [ret|]; [|reflexivity].
    destruct a as [|a0 r]; [reflexivity|]. cbn [erase_args] in *. now rewrite IH2.
  - repeat split; auto.
  - intros x IHx r _. cbn [erase_args ty_args_first]. repeat split; try discriminate; [exact IHx|apply arg_count_erase].
  - intros e IH. exact IH.
  - intros r. cbn [erase_arg ty_arg]. now rewrite rhs_ty_erase.
  - intros e IH. exact IH.
Qed.

Lemma ty_iexpr_erase sch e : ty_iexpr sch (erase_i e) = ty_iexpr sch e.
Proof. exact (proj1 (proj2 (proj2 (ty_erase_mut sch))) e). Qed.

(* ---- leaves ---- *)

Lemma nums_inj x1 x2 : json_u8_seq x1 = json_u8_seq x2 -> x1 = x2.
Proof.
  unfold json_u8_seq. intro H. injection H as H. revert x2 H.
  induction x1 as [|c r IH]; intros [|c2 r2] H; cbn [map] in H; try discriminate; [reflexivity|].
  injection H as Hc Hr. apply N2Z.inj in Hc. subst. f_equal. now apply IH.
Qed.

Lemma json_bytes_inj x1 f1 x2 f2 :
  json_bytes_expr x1 f1 = json_bytes_expr x2 f2 -> x1 = x2 /\ erase_fmt x1 f1 = erase_fmt x2 f2.
Proof.
  rewrite !json_bytes_doc. unfold doc_bytes, erase_fmt.
  destruct (shown_as_text x1 f1), (shown_as_text x2 f2); intro H; try discriminate H.
  - injection H as ->. auto.
  - apply nums_inj in H. subst. auto.
Qed.

Section WithIpFacts.
(* Display of std::net addresses: injective on 32 / 128 bit values, never prints a `/` *)
Hypothesis ip_text_inj : forall a c, ip_ok a -> ip_ok c -> ip_text a = ip_text c -> a = c.
Hypothesis ip_text_no_slash : forall a, ~ In 47 (ip_text a).

Lemma cidr_text_inj a n ma c m mc :
  ip_ok a -> ip_ok c ->
  cidr_text (ip_text a) n ma = cidr_text (ip_text c) m mc ->
  a = c /\ ((n = ma /\ m = mc) \/ (n <> ma /\ m <> mc /\ n = m)).
Proof.
  intros Ha Hc. unfold cidr_text.
  destruct (Z.eqb_spec n ma) as [->|Hn], (Z.eqb_spec m mc) as [->|Hm]; intro H.
  - split; [now apply ip_text_inj|left; auto].
  - exfalso. apply (ip_text_no_slash a). rewrite H. apply in_or_app. right. now left.
  - exfalso. apply (ip_text_no_slash c). rewrite <- H. apply in_or_app. right. now left.
  - destruct (split_at_unique (47 : N) _ _ _ _ (ip_text_no_slash a) (ip_text_no_slash c) H) as [E1 E2].
    split; [now apply ip_text_inj|right]. repeat split; auto.
    apply (f_equal (fun x => x ++ [])) in E2.
    now destruct (print_Z_inj_rest n m [] [] I I E2).
Qed.

Lemma json_ip_item_inj i1 i2 :
  ip_item_ok i1 -> ip_item_ok i2 -> json_ip_item i1 = json_ip_item i2 -> i1 = i2.
Proof.
  destruct i1 as [a1 z1|a1 z1|a1 n1|a1 n1], i2 as [a2 z2|a2 z2|a2 n2|a2 n2];
    cbn [json_ip_item ip_item_ok]; unfold json_range_incl, ser_struct; intros H1 H2 H; try discriminate H.
  - injection H as Ha Hz. destruct H1, H2.
    apply (ip_text_inj (V4 a1) (V4 a2)) in Ha; auto. apply (ip_text_inj (V4 z1) (V4 z2)) in Hz; auto. congruence.
  - injection H as Ha Hz. destruct H1, H2. apply (ip_text_inj (V4 a1) (V6 a2)) in Ha; auto. discriminate Ha.
  - injection H as Ha Hz. destruct H1, H2. apply (ip_text_inj (V6 a1) (V4 a2)) in Ha; auto. discriminate Ha.
  - injection H as Ha Hz. destruct H1, H2.
    apply (ip_text_inj (V6 a1) (V6 a2)) in Ha; auto. apply (ip_text_inj (V6 z1) (V6 z2)) in Hz; auto. congruence.
  - injection H as H. destruct (cidr_text_inj (V4 a1) n1 32 (V4 a2) n2 32 H1 H2 H) as [E [[-> ->]|(_ & _ & ->)]];
      injection E as ->; reflexivity.
  - injection H as H. destruct (cidr_text_inj (V4 a1) n1 32 (V6 a2) n2 128 H1 H2 H) as [E _]. discriminate E.
  - injection H as H. destruct (cidr_text_inj (V6 a1) n1 128 (V4 a2) n2 32 H1 H2 H) as [E _]. discriminate E.
  - injection H as H. destruct (cidr_text_inj (V6 a1) n1 128 (V6 a2) n2 128 H1 H2 H) as [E [[-> ->]|(_ & _ & ->)]];
      injection E as ->; reflexivity.
Qed.

Lemma json_rhs_inj r1 r2 :
  rhs_ty r1 = rhs_ty r2 -> rhs_ok r1 -> rhs_ok r2 -> json_rhs r1 = json_rhs r2 -> erase_rhs r1 = erase_rhs r2.
Proof.
  destruct r1 as [z1|x1 f1|a1], r2 as [z2|x2 f2|a2]; cbn [rhs_ty rhs_ok json_rhs erase_rhs];
    intros Ht H1 H2 H; try discriminate Ht.
  - now injection H as ->.
  - destruct (json_bytes_inj _ _ _ _ H) as [-> ->]. reflexivity.
  - unfold json_ip in H. injection H as H. f_equal. now apply ip_text_inj.
Qed.

Lemma map_inj_forall {A B} (f : A -> B) (P : A -> Prop) :
  (forall x y, P x -> P y -> f x = f y -> x = y) ->
  forall l1 l2, Forall P l1 -> Forall P l2 -> map f l1 = map f l2 -> l1 = l2.
Proof.
  intros Hf. induction l1 as [|x l1 IH]; intros [|y l2] H1 H2 H; cbn [map] in H; try discriminate; [reflexivity|].
  injection H as Hx Hl. inversion H1; inversion H2; subst. f_equal; [now apply Hf|now apply IH].
Qed.

Lemma json_index_inj i1 i2 : json_index i1 = json_index i2 -> i1 = i2.
Proof.
  destruct i1 as [n1|k1|], i2 as [n2|k2|]; cbn [json_index]; unfold adj_tagged; intro H;
    try discriminate H; try reflexivity.
  - injection H as H. apply N2Z.inj in H. now subst.
  - now injection H as ->.
Qed.

Lemma with_indexes_inj j1 idx1 j2 idx2 :
  (forall l, j1 <> JArr l) -> (forall l, j2 <> JArr l) ->
  with_indexes j1 idx1 = with_indexes j2 idx2 -> j1 = j2 /\ idx1 = idx2.
Proof.
  intros N1 N2. destruct idx1 as [|i1 r1], idx2 as [|i2 r2]; cbn [with_indexes]; intro H.
  - auto.
  - exfalso. eapply N1. exact H.
  - exfalso. eapply N2. symmetry. exact H.
  - injection H as -> Hi Hr. split; [reflexivity|]. apply json_index_inj in Hi. subst. f_equal.
    apply (map_inj_forall json_index (fun _ => True)) in Hr; auto using json_index_inj.
    + clear. induction r1; constructor; auto.
    + clear. induction r2; constructor; auto.
Qed.

(* ---- comparison operators ---- *)

Lemma ordop_name_inj o1 o2 : bytes_of_string (ordop_name o1) = bytes_of_string (ordop_name o2) -> o1 = o2.
Proof. destruct o1, o2; intro H; try reflexivity; discriminate H. Qed.
Lemma logop_name_inj o1 o2 : bytes_of_string (logop_name o1) = bytes_of_string (logop_name o2) -> o1 = o2.
Proof. destruct o1, o2; intro H; try reflexivity; discriminate H. Qed.
Lemma quant_name_inj q1 q2 : bytes_of_string (quant_name q1) = bytes_of_string (quant_name q2) -> q1 = q2.
Proof. destruct q1, q2; intro H; try reflexivity; discriminate H. Qed.

Lemma int_ranges_inj l1 l2 : map json_int_range l1 = map json_int_range l2 -> l1 = l2.
Proof.
  revert l2. induction l1 as [|[a z] l1 IH]; intros [|[a2 z2] l2] H; cbn [map] in H; try discriminate; [reflexivity|].
  injection H as Ha Hz Hl. cbn [fst snd] in *. subst. f_equal. now apply IH.
Qed.

Lemma bytes_items_inj l1 l2 :
  map (fun p => json_bytes_expr (fst p) (snd p)) l1 = map (fun p => json_bytes_expr (fst p) (snd p)) l2 ->
  map (fun p => (fst p, erase_fmt (fst p) (snd p))) l1 = map (fun p => (fst p, erase_fmt (fst p) (snd p))) l2.
Proof.
  revert l2. induction l1 as [|[x f] l1 IH]; intros [|[x2 f2] l2] H; cbn [map] in H; try discriminate; [reflexivity|].
  injection H as Hx Hl. cbn [fst snd] in *. destruct (json_bytes_inj _ _ _ _ Hx) as [-> E].
  cbn [map fst snd]. rewrite E. f_equal. now apply IH.
Qed.

Lemma cmp_fields_inj sch t op1 op2 :
  cmp_typed sch t op1 -> cmp_typed sch t op2 ->
  json_cmpop_fields op1 = json_cmpop_fields op2 -> erase_cmpop op1 = erase_cmpop op2.
Proof.
  intros T1 T2 H.
  destruct op1 as [|o1 r1|z1|p1 f1|pat1 raw1|st1 p1 f1|l1|l1|l1|li1 n1];
  destruct op2 as [|o2 r2|z2|p2 f2|pat2 raw2|st2 p2 f2|l2|l2|l2|li2 n2];
    cbn [json_cmpop_fields op_rhs erase_cmpop cmp_typed] in *;
    try (destruct o1); try (destruct o2); try (destruct st1); try (destruct st2);
    try discriminate H; try reflexivity.
  all: try (injection H as H; rewrite (json_rhs_inj r1 r2) by (tauto || (destruct T1, T2; congruence)); reflexivity).
  - now injection H as ->.
  - injection H as H. destruct (json_bytes_inj _ _ _ _ H) as [-> ->]. reflexivity.
  - now injection H as ->.
  - injection H as H. destruct (json_bytes_inj _ _ _ _ H) as [-> ->]. reflexivity.
  - injection H as H. destruct (json_bytes_inj _ _ _ _ H) as [-> ->]. reflexivity.
  - injection H as H. apply int_ranges_inj in H. now subst.
  - exfalso. destruct T2 as [T2 _]. congruence.
  - exfalso. congruence.
  - exfalso. destruct T1 as [T1 _]. congruence.
  - injection H as H. destruct T1 as [_ K1], T2 as [_ K2]. f_equal.
    apply (map_inj_forall json_ip_item ip_item_ok); auto using json_ip_item_inj.
  - exfalso. destruct T1 as [T1 _]. congruence.
  - exfalso. congruence.
  - exfalso. destruct T2 as [T2 _]. congruence.
  - injection H as H. f_equal. now apply bytes_items_inj.
  - injection H as ->. destruct T1 as (t1 & E1 & L1), T2 as (t2 & E2 & L2). f_equal. congruence.
Qed.

(* ---- identifiers ---- *)
Lemma NoDup_app_both {A} (l1 l2 : list A) : NoDup (l1 ++ l2) -> NoDup l1 /\ NoDup l2.
Proof.
  induction l1 as [|x l1 IH]; cbn [app]; intro H; [split; [constructor|exact H]|].
  inversion H as [|y l Hx Hl]; subst. destruct (IH Hl) as [H1 H2]. split; [|exact H2].
  constructor; [|exact H1]. intro Hi. apply Hx. apply in_or_app. now left.
Qed.

Section WithScheme.
Variable sch : scheme.
Hypothesis Hnames : names_distinct sch.

Lemma field_name_inj f1 f2 :
  (f1 < List.length (sc_fields sch))%nat -> (f2 < List.length (sc_fields sch))%nat ->
  field_name sch f1 = field_name sch f2 -> f1 = f2.
Proof.
  intros H1 H2 H. unfold field_name in H.
  assert (Hnd : NoDup (map fd_name (sc_fields sch))) by (exact (proj1 (NoDup_app_both _ _ Hnames))).
  rewrite NoDup_nth_error in Hnd. apply Hnd; [now rewrite map_length|].
  rewrite !nth_error_map.
  destruct (nth_error (sc_fields sch) f1) eqn:E1; [|apply nth_error_None in E1; lia].
  destruct (nth_error (sc_fields sch) f2) eqn:E2; [|apply nth_error_None in E2; lia].
  cbn. now rewrite H.
Qed.

Lemma fn_name_inj f1 f2 d1 d2 :
  fn_of sch f1 = Some d1 -> fn_of sch f2 = Some d2 -> fn_name sch f1 = fn_name sch f2 -> f1 = f2.
Proof.
  unfold fn_of, fn_name. intros H1 H2 H.
  assert (Hnd : NoDup (map fst (sc_functions sch))) by (exact (proj2 (NoDup_app_both _ _ Hnames))).
  destruct (nth_error (sc_functions sch) f1) as [p1|] eqn:E1; [|discriminate].
  destruct (nth_error (sc_functions sch) f2) as [p2|] eqn:E2; [|discriminate].
  rewrite NoDup_nth_error in Hnd. apply Hnd.
  - rewrite map_length. apply nth_error_Some. now rewrite E1.
  - rewrite !nth_error_map, E1, E2. cbn. now rewrite H.
Qed.

(* ---- the main induction ---- *)
Definition I_l (e1 : lexpr) : Prop := forall e2,
  lits_typed sch e1 -> lits_typed sch e2 -> json_of_lexpr sch e1 = json_of_lexpr sch e2 -> erase e1 = erase e2.
Definition I_ls (l1 : lexprs) : Prop := forall l2,
  lits_typed_list sch l1 -> lits_typed_list sch l2 -> json_of_lexprs sch l1 = json_of_lexprs sch l2 ->
  erase_list l1 = erase_list l2.
Definition I_i (e1 : iexpr) : Prop := forall e2,
  lits_typed_i sch e1 -> lits_typed_i sch e2 -> json_of_iexpr sch e1 = json_of_iexpr sch e2 -> erase_i e1 = erase_i e2.
Definition I_as (a1 : args) : Prop := forall a2 ex i,
  lits_typed_args sch ex i a1 -> lits_typed_args sch ex i a2 -> json_of_args sch a1 = json_of_args sch a2 ->
  erase_args a1 = erase_args a2.
Definition I_a (x1 : arg) : Prop := forall x2 t,
  lits_typed_arg sch t x1 -> lits_typed_arg sch t x2 -> json_of_arg sch x1 = json_of_arg sch x2 ->
  erase_arg x1 = erase_arg x2.

Ltac peel_rhs e2 T2 H :=
  rewrite <- (peel_json sch e2) in H; rewrite <- (peel_erase e2); apply peel_typed in T2;
  pose proof (peel_not_paren e2) as Hnp; destruct (peel e2) as [op2 items2|lhs2 o2|e2'|e2'|q2 a2|q2 a2];
  [ | |exfalso; now apply (Hnp e2')| | | ]; clear Hnp.

Ltac kill_shapes H :=
  cbn [json_of_lexpr] in H; unfold ser_struct, adj_tagged in H; try discriminate H;
  try solve [match goal with o : cmpop |- _ => destruct o; discriminate H end];
  try solve [match goal with q : quant |- _ => destruct q; discriminate H end].

Lemma json_inj_mut : (forall e, I_l e) /\ (forall l, I_ls l) /\ (forall e, I_i e) /\ (forall a, I_as a) /\ (forall a, I_a a).
Proof.
  apply ast_mutind.
  - (* ECombining *)
    intros op items IH e2 T1 T2 H. peel_rhs e2 T2 H; kill_shapes H.
    injection H as Ho Hi. apply logop_name_inj in Ho. subst. cbn [erase]. f_equal. now apply IH.
  - (* EComparison *)
    intros lhs IH op e2 T1 T2 H. peel_rhs e2 T2 H; kill_shapes H; try solve [destruct op; discriminate H].
    injection H as Hl Hf. cbn [lits_typed] in T1, T2. destruct T1 as [T1 C1], T2 as [T2 C2].
    pose proof (IH lhs2 T1 T2 Hl) as El. cbn [erase]. rewrite El. f_equal.
    assert (Et : ty_iexpr sch lhs = ty_iexpr sch lhs2) by (rewrite <- (ty_iexpr_erase sch lhs), El; apply ty_iexpr_erase).
    rewrite Et in C1. exact (cmp_fields_inj sch _ _ _ C1 C2 Hf).
  - (* EParen *)
    intros e IH e2 T1 T2 H. cbn [erase]. apply IH; assumption.
  - (* ENot *)
    intros e IH e2 T1 T2 H. peel_rhs e2 T2 H; kill_shapes H.
    injection H as H. cbn [erase]. f_equal. now apply IH.
  - (* EQuantIndex *)
    intros q a IH e2 T1 T2 H. peel_rhs e2 T2 H; kill_shapes H; try solve [destruct q; discriminate H].
    injection H as Hq Ha. apply quant_name_inj in Hq. subst. cbn [erase]. f_equal. now apply IH.
  - (* EQuantLogical *)
    intros q a IH e2 T1 T2 H. peel_rhs e2 T2 H; kill_shapes H; try solve [destruct q; discriminate H].
    injection H as Hq Ha. apply quant_name_inj in Hq. subst. cbn [erase]. f_equal. now apply IH.
  - (* LNil *)
    intros [|e2 r2] _ _ H; [reflexivity|discriminate H].
  - (* LCons *)
    intros e IHe r IHr [|e2 r2] T1 T2 H; cbn [json_of_lexprs] in H; [discriminate H|].
    injection H as He Hr. cbn [lits_typed_list] in T1, T2. destruct T1, T2.
    cbn [erase_list]. f_equal; [now apply IHe|now apply IHr].
  - (* IField *)
    intros f idx [f2 idx2|fn2 a2 idx2] T1 T2 H; cbn [json_of_iexpr] in H.
    + apply with_indexes_inj in H; try discriminate. destruct H as [Hn ->]. injection Hn as Hn.
      cbn [lits_typed_i] in T1, T2. now rewrite (field_name_inj f f2 T1 T2 Hn).
    + apply with_indexes_inj in H; try discriminate. destruct H as [Hn _]. discriminate Hn.
  - (* ICall *)
    intros fn a IH idx [f2 idx2|fn2 a2 idx2] T1 T2 H; cbn [json_of_iexpr] in H.
    + apply with_indexes_inj in H; try discriminate. destruct H as [Hn _]. discriminate Hn.
    + apply with_indexes_inj in H; try discriminate. destruct H as [Hn ->]. unfold ser_struct in Hn.
      injection Hn as Hn Ha. cbn [lits_typed_i] in T1, T2.
      destruct (fn_of sch fn) as [d1|] eqn:E1; [|contradiction]. destruct (fn_of sch fn2) as [d2|] eqn:E2; [|contradiction].
      pose proof (fn_name_inj fn fn2 d1 d2 E1 E2 Hn) as ->. rewrite E1 in E2. injection E2 as <-.
      cbn [erase_i]. f_equal. exact (IH a2 _ _ T1 T2 Ha).
  - (* ANil *)
    intros [|x2 r2] ex i _ _ H; [reflexivity|discriminate H].
  - (* ACons *)
    intros x IHx r IHr [|x2 r2] ex i T1 T2 H; cbn [json_of_args] in H; [discriminate H|].
    injection H as Hx Hr. cbn [lits_typed_args] in T1, T2. destruct T1 as [X1 R1], T2 as [X2 R2].
    cbn [erase_args]. f_equal; [exact (IHx x2 _ X1 X2 Hx)|exact (IHr r2 _ _ R1 R2 Hr)].
  - (* AIndex *)
    intros e IH [e2|r2|e2] t T1 T2 H; cbn [json_of_arg] in H; unfold adj_tagged in H; try discriminate H.
    injection H as H. cbn [erase_arg]. f_equal. now apply IH.
  - (* ALit *)
    intros r [e2|r2|e2] t T1 T2 H; cbn [json_of_arg] in H; unfold adj_tagged in H; try discriminate H.
    injection H as H. cbn [lits_typed_arg] in T1, T2. destruct T1 as [E1 K1], T2 as [E2 K2].
    cbn [erase_arg]. f_equal. apply json_rhs_inj; auto. congruence.
  - (* ALogical *)
    intros e IH [e2|r2|e2] t T1 T2 H; cbn [json_of_arg] in H; unfold adj_tagged in H; try discriminate H.
    injection H as H. cbn [erase_arg]. f_equal. now apply IH.
Qed.

Theorem json_determines_structure e1 e2 :
  lits_typed sch e1 -> lits_typed sch e2 ->
  json_of_lexpr sch e1 = json_of_lexpr sch e2 -> struct_eq e1 e2.
Proof. intros T1 T2 H. exact (proj1 json_inj_mut e1 e2 T1 T2 H). Qed.

End WithScheme.
End WithIpFacts.
