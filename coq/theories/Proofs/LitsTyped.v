(* C07, part 6: well-typed filters have their literal kinds decided by the
   typing rules: [wt_filter] (Spec/Typing.v, what the parser guarantees, C04)
   implies [lits_typed], the premise of the injectivity theorem. *)
From Coq Require Import List ZArith NArith Bool Lia Arith.
From WF Require Import Base.Bytes Sem.RangeSet Sem.Matchers Lang.Types Lang.Ast Lang.Context
     Sem.Compile Spec.Denote Spec.Typing Proofs.ScalarProofs Proofs.TypingProofs Sem.AstJson Spec.C07.
Import ListNotations.

Section WithScheme.
Variable sch : scheme.

Definition arr_or_bytes (t : ty) : Prop := t = TBytes \/ exists s, t = TArray s.

Lemma op_ok_typed tl op :
  op_ok sch tl op = true -> cmp_ips_ok op -> cmp_typed sch (Some tl) op.
Proof.
  destruct op as [|o r|z|p f|pat raw|st p f|l|l|l|li name]; cbn [cmp_typed cmp_ips_ok]; auto.
  - destruct tl, r; cbn [op_ok rhs_ty]; intros H K; try discriminate H; auto.
  - destruct tl; cbn [op_ok]; intros H _; try discriminate H; reflexivity.
  - destruct tl; cbn [op_ok]; intros H K; try discriminate H; auto.
  - destruct tl; cbn [op_ok]; intros H _; try discriminate H; reflexivity.
  - intros H _. exists tl. split; [reflexivity|].
    destruct tl; cbn [op_ok] in H; try discriminate H;
      (destruct (list_index sch _) as [i|]; [apply Nat.eqb_eq in H; now subst|discriminate H]).
Qed.

Lemma field_in_range f t : field_ty sch f = Some t -> (f < length (sc_fields sch))%nat.
Proof.
  unfold field_ty. intro H. apply nth_error_Some. destruct (nth_error (sc_fields sch) f); [discriminate|discriminate H].
Qed.

Definition W_l (e : lexpr) : Prop := forall t, wt_lexpr sch e = Some t -> ips_ok e -> lits_typed sch e.
Definition W_ls (l : lexprs) : Prop := forall t, wt_lexprs sch t l = true -> ips_ok_list l -> lits_typed_list sch l.
Definition W_i (e : iexpr) : Prop := forall t, wt_iexpr sch e = Some t -> ips_ok_i e -> lits_typed_i sch e.
Definition W_as (a : args) : Prop :=
  (forall sig i ex, wt_args_sig sch sig a = true -> ips_ok_args a ->
                    (forall j, ex (i + j)%nat = nth_error (map snd sig) j) -> lits_typed_args sch ex i a) /\
  (forall ot n i ex, wt_args_same sch a = Some (ot, n) -> (forall t, ot = Some t -> arr_or_bytes t) ->
                     ips_ok_args a -> (forall j, ex j = Some TBytes) -> lits_typed_args sch ex i a).
Definition W_a (x : arg) : Prop := forall t, wt_arg sch x = Some t -> ips_ok_arg x -> lits_typed_arg sch (Some t) x.

Lemma wt_lits_mut : (forall e, W_l e) /\ (forall l, W_ls l) /\ (forall e, W_i e) /\ (forall a, W_as a) /\ (forall a, W_a a).
Proof.
  apply ast_mutind.
  - (* ECombining *)
    intros op items IH t H K. cbn [wt_lexpr] in H. destruct items as [|e0 rest]; [discriminate H|].
    destruct (wt_lexpr sch e0) as [t0|] eqn:E0; [|discriminate H].
    destruct (wt_lexprs sch t0 rest) eqn:Er; [|discriminate H].
    cbn [lits_typed]. apply (IH t0); [|exact K]. cbn [wt_lexprs]. rewrite E0, Er. now rewrite ty_eqb_refl.
  - (* EComparison *)
    intros lhs IH op t H [K1 K2]. cbn [wt_lexpr] in H.
    destruct (wt_iexpr sch lhs) as [tl|] eqn:El; [|discriminate H].
    cbn [lits_typed]. split; [exact (IH tl El K1)|]. rewrite (wt_ty_iexpr sch lhs tl El).
    destruct op as [|o r|z|p f|pat raw|st p f|l|l|l|li name]; [exact I| | | | | | | | |];
      (destruct tl as [| | | |[]|[]]; try discriminate H;
       match type of H with (if ?c then _ else _) = _ => destruct c eqn:Ec; [|discriminate H] end;
       apply andb_prop in Ec; destruct Ec as [_ Ec]; exact (op_ok_typed _ _ Ec K2)).
  - intros e IH t H K. exact (IH t H K).
  - intros e IH t H K. exact (IH t H K).
  - (* EQuantIndex *)
    intros q a IH t H K. cbn [wt_lexpr] in H. destruct (wt_iexpr sch a) as [ta|] eqn:Ea; [|discriminate H].
    exact (IH ta Ea K).
  - (* EQuantLogical *)
    intros q a IH t H K. cbn [wt_lexpr] in H. destruct (wt_lexpr sch a) as [ta|] eqn:Ea; [|discriminate H].
    exact (IH ta Ea K).
  - intros t _ _. exact I.
  - (* LCons *)
    intros e IHe r IHr t H [K1 K2]. cbn [wt_lexprs] in H. destruct (wt_lexpr sch e) as [t'|] eqn:Ee; [|discriminate H].
    apply andb_prop in H. destruct H as [_ H]. split; [exact (IHe t' Ee K1)|exact (IHr t H K2)].
  - (* IField *)
    intros f idx t H _. cbn [wt_iexpr] in H. destruct (field_ty sch f) as [t0|] eqn:Ef; [|discriminate H].
    exact (field_in_range f t0 Ef).
  - (* ICall *)
    intros fn a [IH1 IH2] idx t H K. cbn [wt_iexpr] in H. cbn [lits_typed_i].
    destruct (fn_of sch fn) as [d|]; [|discriminate H].
    destruct (negb _); [discriminate H|].
    unfold param_ty. destruct (fn_variadic_same d).
    + destruct (wt_args_same sch a) as [[[t1|] n]|] eqn:Es; try discriminate H.
      destruct (Nat.leb 2 n && _) eqn:Ec; [|discriminate H].
      apply (IH2 (Some t1) n O _ eq_refl); auto.
      intros t' E. injection E as <-. apply andb_prop in Ec. destruct Ec as [_ Ec].
      destruct t1; try discriminate Ec; [now left|right; eauto].
    + match type of H with match (if ?c then _ else _) with _ => _ end = _ => destruct c eqn:Ec; [|discriminate H] end.
      apply andb_prop in Ec. destruct Ec as [_ Ec].
      apply (IH1 _ O _ Ec K). intro j. cbn [plus]. f_equal.
      rewrite map_app, map_map. reflexivity.
  - (* ANil *)
    split; intros; exact I.
  - (* ACons *)
    intros x IHx r [IHr1 IHr2]. split.
    + intros sig i ex H [K1 K2] Hex. cbn [wt_args_sig] in H. destruct sig as [|[k t] sig']; [discriminate H|].
      apply andb_prop in H. destruct H as [H Hr]. apply andb_prop in H. destruct H as [_ H].
      destruct (wt_arg sch x) as [t'|] eqn:Ex; [|discriminate H]. apply ty_eqb_eq in H. subst t'.
      cbn [lits_typed_args]. split.
      * pose proof (Hex O) as H0. rewrite Nat.add_0_r in H0. cbn [map nth_error snd] in H0. rewrite H0.
        exact (IHx t Ex K1).
      * apply (IHr1 sig' (S i) ex Hr K2). intro j. pose proof (Hex (S j)) as Hj. cbn [map nth_error] in Hj.
        rewrite <- Hj. f_equal. lia.
    + intros ot n i ex H Hot [K1 K2] Hex. cbn [wt_args_same] in H.
      destruct (wt_arg sch x) as [t|] eqn:Ex; [|discriminate H].
      destruct (wt_args_same sch r) as [[[t'|] n']|] eqn:Er; try discriminate H.
      * destruct (ty_eqb t t') eqn:Et; [|discriminate H]. injection H as <- <-. apply ty_eqb_eq in Et. subst t'.
        cbn [lits_typed_args]. split.
        -- pose proof (IHx t Ex K1) as Hx. rewrite Hex. destruct x as [e|r0|e]; cbn [lits_typed_arg] in *; auto.
           destruct Hx as [Hx1 Hx2]. split; [|exact Hx2]. injection Hx1 as Hx1.
           destruct (Hot t eq_refl) as [->|[s ->]]; [now rewrite <- Hx1|destruct r0; discriminate Hx1].
        -- exact (IHr2 (Some t) n' (S i) ex eq_refl Hot K2 Hex).
      * injection H as <- <-. cbn [lits_typed_args]. split.
        -- pose proof (IHx t Ex K1) as Hx. rewrite Hex. destruct x as [e|r0|e]; cbn [lits_typed_arg] in *; auto.
           destruct Hx as [Hx1 Hx2]. split; [|exact Hx2]. injection Hx1 as Hx1.
           destruct (Hot t eq_refl) as [->|[s ->]]; [now rewrite <- Hx1|destruct r0; discriminate Hx1].
        -- apply (IHr2 None n' (S i) ex eq_refl); auto. intros t0 E. discriminate E.
  - (* AIndex *)
    intros e IH t H K. exact (IH t H K).
  - (* ALit *)
    intros r t H K. cbn [wt_arg] in H. injection H as <-. split; [reflexivity|exact K].
  - (* ALogical *)
    intros e IH t H K. exact (IH t H K).
Qed.

Theorem wt_lits_typed e : wt_filter sch e = true -> ips_ok e -> lits_typed sch e.
Proof.
  unfold wt_filter. intros H K. destruct (wt_lexpr sch e) as [t|] eqn:E; [|discriminate H].
  exact (proj1 wt_lits_mut e t E K).
Qed.

End WithScheme.
