(* Facts about the typing rules: agreement with the engine's GetType
   (ty_* of Sem/Compile.v), shape of logical types, chains. *)
From Coq Require Import List ZArith NArith Bool Lia Arith.
From WF Require Import Base.Bytes Sem.RangeSet Sem.Matchers Lang.Types Lang.Ast Lang.Context
     Sem.Compile Spec.Denote Spec.Typing Proofs.ScalarProofs Proofs.ValueProofs Proofs.FullProofs.
Import ListNotations.

Section WithScheme.
Variable sch : scheme.

Definition A_lexpr (e : lexpr) : Prop :=
  forall t, wt_lexpr sch e = Some t -> ty_lexpr sch e = Some t /\ lres_ty t = true.
Definition A_lexprs (l : lexprs) : Prop :=
  forall e r, l = LCons e r -> A_lexpr e.
Definition A_iexpr (e : iexpr) : Prop :=
  forall t, wt_iexpr sch e = Some t -> ty_iexpr sch e = Some t.
Definition A_arg (a : arg) : Prop :=
  forall t, wt_arg sch a = Some t -> ty_arg sch a = Some t.
Definition A_args (a : args) : Prop :=
  forall x r, a = ACons x r -> A_arg x.

Lemma args_same_first a t n :
  wt_args_same sch a = Some (Some t, n) -> exists x r, a = ACons x r /\ wt_arg sch x = Some t.
Proof.
  destruct a as [|x r]; cbn [wt_args_same]; intros H; [discriminate|].
  exists x, r. split; [reflexivity|].
  destruct (wt_arg sch x) as [t0|]; [|discriminate].
  destruct (wt_args_same sch r) as [[[t'|] n']|]; try discriminate.
  - destruct (ty_eqb t0 t'); [|discriminate]. now injection H as <- _.
  - now injection H as <- _.
Qed.

Lemma agree_mut :
  (forall e, A_lexpr e) /\ (forall l, A_lexprs l) /\ (forall e, A_iexpr e) /\
  (forall a, A_args a) /\ (forall a, A_arg a).
Proof.
  apply ast_mutind.
  - (* ECombining *)
    intros op items IH t H. cbn [wt_lexpr ty_lexpr] in *.
    destruct items as [|e0 rest]; [discriminate|].
    destruct (wt_lexpr sch e0) as [t0|] eqn:E0; [|discriminate].
    destruct (wt_lexprs sch t0 rest); [|discriminate]. injection H as <-.
    exact (IH e0 rest eq_refl t0 E0).
  - (* EComparison *)
    intros lhs IH op t H. cbn [wt_lexpr ty_lexpr] in *.
    destruct (wt_iexpr sch lhs) as [tl|] eqn:El; [|discriminate].
    rewrite (IH tl El). split; [now apply (ty_cmp_agree sch)|].
    destruct tl as [| | | |[]|[]]; try destruct op; cbn in H; try discriminate H;
      repeat match type of H with
             | (if ?c then _ else _) = _ => destruct c; try discriminate H
             | (match ?c with _ => _ end) = _ => destruct c; try discriminate H
             end; injection H as <-; try reflexivity; destruct (Nat.eqb _ 0); reflexivity.
  - intros e IH t H. exact (IH t H).
  - intros e IH t H. exact (IH t H).
  - (* EQuantIndex *)
    intros q a IH t H. cbn [wt_lexpr ty_lexpr] in *.
    destruct (wt_iexpr sch a) as [[| | | |[]|]|]; try discriminate.
    destruct (Nat.eqb _ 0); [|discriminate]. injection H as <-. split; reflexivity.
  - intros q a IH t H. cbn [wt_lexpr ty_lexpr] in *.
    destruct (wt_lexpr sch a) as [[| | | |[]|]|]; try discriminate.
    injection H as <-. split; reflexivity.
  - intros e r H; discriminate.
  - intros e IHe r IHr e' r' H. injection H as <- <-. exact IHe.
  - (* IField *)
    intros f idx t H. cbn [wt_iexpr ty_iexpr] in *.
    destruct (field_ty sch f) as [t0|]; [|discriminate]. cbn. now rewrite <- ty_index_ok_eq.
  - (* ICall *)
    intros fn a IH idx t H. cbn [wt_iexpr ty_iexpr] in *. unfold ty_call_of.
    destruct (fn_of sch fn) as [d|]; [|discriminate].
    destruct (negb _); [discriminate|].
    match type of H with match ?X with _ => _ end = _ => destruct X as [ret|] eqn:ER end; [|discriminate].
    assert (Hret : (if fn_variadic_same d then ty_args_first sch a else Some (fn_ret d)) = Some ret).
    { destruct (fn_variadic_same d).
      - destruct (wt_args_same sch a) as [[[t1|] n]|] eqn:Es; try discriminate.
        destruct (Nat.leb 2 n && _); [|discriminate]. injection ER as <-.
        destruct (args_same_first _ _ _ Es) as (x & r & -> & Hx). cbn [ty_args_first].
        exact (IH x r eq_refl t1 Hx).
      - destruct (_ && _); [|discriminate]. exact ER. }
    rewrite Hret.
    destruct a as [|a0 r]; cbn [args_to_list] in *; [rewrite <- ty_index_ok_eq; exact H|].
    destruct (Nat.ltb 0 (arg_map_each_count a0)); rewrite <- ty_index_ok_eq; exact H.
  - intros x r H; discriminate.
  - intros x IHx r IHr x' r' H. injection H as <- <-. exact IHx.
  - intros e IH t H. exact (IH t H).
  - intros r t H. exact H.
  - intros e IH t H. exact (proj1 (IH t H)).
Qed.

Lemma wt_ty_lexpr e t : wt_lexpr sch e = Some t -> ty_lexpr sch e = Some t.
Proof. intros H. exact (proj1 (proj1 agree_mut e t H)). Qed.
Lemma wt_lres e t : wt_lexpr sch e = Some t -> t = TBool \/ t = TArray TBool.
Proof.
  intros H. pose proof (proj2 (proj1 agree_mut e t H)) as L.
  destruct t as [| | | |[]|]; try discriminate; auto.
Qed.
Lemma wt_ty_iexpr e t : wt_iexpr sch e = Some t -> ty_iexpr sch e = Some t.
Proof. exact (proj1 (proj2 (proj2 agree_mut)) e t). Qed.
Lemma wt_ty_arg a t : wt_arg sch a = Some t -> ty_arg sch a = Some t.
Proof. exact (proj2 (proj2 (proj2 (proj2 agree_mut))) a t). Qed.

(* ---- chains: appending a well-typed operand of the chain's type ---- *)
Lemma wt_lexprs_app t l : forall e,
  wt_lexprs sch t (lexprs_of_list l) = true -> wt_lexpr sch e = Some t ->
  wt_lexprs sch t (lexprs_of_list (l ++ [e])) = true.
Proof.
  induction l as [|x l IH]; intros e Hl He; cbn [app lexprs_of_list wt_lexprs] in *.
  - rewrite He, ty_eqb_refl. reflexivity.
  - destruct (wt_lexpr sch x) as [t'|]; [|discriminate]. apply andb_true_iff in Hl. destruct Hl as [H1 H2].
    rewrite H1. cbn. now apply IH.
Qed.

Lemma lexprs_of_to_list l : lexprs_of_list (lexprs_to_list l) = l.
Proof. induction l as [|e r IH]; cbn; [reflexivity|now rewrite IH]. Qed.

End WithScheme.
