(* C05/C06: no lexer ever answers LPanic or LFuel: the fuel each loop is started
   with (length of its input + 1) always suffices, and no panic site is reachable. *)
From Coq Require Import List ZArith NArith Bool Lia Arith.
From Coq Require Import ZifyBool.
From WF Require Import Base.Bytes Sem.RangeSet Lang.Ast Parse.Lex Spec.C06 Proofs.LexBase Proofs.LexIntProofs
  Proofs.LexBytesProofs.
Import ListNotations.
Open Scope Z_scope.

Tactic Notation "enum_bits" ident(c) integer(k) := destruct c as [|c]; [|do k (try (destruct c as [c|c|]))].

(* ---- integers ---- *)
Lemma parse_number_safe : forall a d r radix, safe (parse_number a d r radix).
Proof. intros. unfold parse_number. destruct (i64_from_str_radix d radix); auto with lexsafe. Qed.

Lemma lex_int_safe : forall input, safe (lex_int input).
Proof.
  intros input. destruct input as [|c s].
  - unfold lex_int. cbn [starts_with lbind]. apply safe_lbind; [apply take_while_safe|].
    intros; apply parse_number_safe.
  - destruct (N.eq_dec c 48) as [->|Hn].
    + unfold lex_int. destruct (starts_with [48%N; 120%N] (48%N :: s)).
      * apply safe_lbind; [apply take_while_safe|]. intros; apply parse_number_safe.
      * cbv iota beta. apply safe_lbind; [apply take_while_safe|]. intros; apply parse_number_safe.
    + rewrite lex_int_not_zero by assumption. cbv zeta.
      apply safe_lbind; [apply take_while_safe|]. intros; apply parse_number_safe.
Qed.

Lemma lex_int_range_safe : forall input, safe (lex_int_range input).
Proof.
  intros input. unfold lex_int_range. apply safe_lbind; [apply lex_int_safe|]. intros first rest1 _.
  destruct (starts_with [46%N; 46%N] rest1); [|auto with lexsafe].
  apply safe_lbind; [apply lex_int_safe|]. intros last rest2 _. destruct (last <? first); auto with lexsafe.
Qed.

(* ---- quoted strings ---- *)
Lemma fixed_byte_shorter : forall n radix input b rest, fixed_byte n radix input = LOk b rest ->
  (length rest + n <= length input)%nat.
Proof.
  intros n radix input b rest H. destruct (fixed_byte_inv _ _ _ _ _ H) as (ds & v & Es & Hl & _).
  subst input. rewrite app_length. lia.
Qed.

Lemma quoted_go_safe : forall fuel full s acc, (length s < fuel)%nat -> safe (quoted_go fuel full s acc).
Proof.
  induction fuel as [|f IH]; intros full s acc Hf; [lia|].
  rewrite quoted_go_unfold. destruct (next_char s) as [[c r]|] eqn:E; [|auto with lexsafe].
  destruct (next_char_shorter _ _ _ E) as [Hr _].
  destruct (bytes_eqb c [92%N]).
  - unfold esc_step. destruct (next_char r) as [[c2 r2]|] eqn:E2; [|auto with lexsafe].
    destruct (next_char_shorter _ _ _ E2) as [Hr2 _].
    destruct (bytes_eqb c2 [34%N]); [apply IH; lia|].
    destruct (bytes_eqb c2 [92%N]); [apply IH; lia|].
    destruct (bytes_eqb c2 [120%N]).
    + destruct (hex_byte r2) as [b rest|k s' n| |] eqn:Eh.
      * apply IH. unfold hex_byte in Eh. pose proof (fixed_byte_shorter _ _ _ _ _ Eh). lia.
      * auto with lexsafe.
      * exfalso. unfold hex_byte in Eh. destruct (fixed_byte_safe 2 16 r2) as [Hp _]. exact (Hp Eh).
      * exfalso. unfold hex_byte in Eh. destruct (fixed_byte_safe 2 16 r2) as [_ Hp]. exact (Hp Eh).
    + destruct c2 as [|d [|? ?]]; auto with lexsafe.
      destruct ((48 <=? d)%N && (d <=? 55)%N); [|auto with lexsafe].
      destruct (oct_byte r) as [b rest|k s' n| |] eqn:Eh.
      * apply IH. unfold oct_byte in Eh. pose proof (fixed_byte_shorter _ _ _ _ _ Eh). lia.
      * auto with lexsafe.
      * exfalso. unfold oct_byte in Eh. destruct (fixed_byte_safe 3 8 r) as [Hp _]. exact (Hp Eh).
      * exfalso. unfold oct_byte in Eh. destruct (fixed_byte_safe 3 8 r) as [_ Hp]. exact (Hp Eh).
  - destruct (bytes_eqb c [34%N]); [auto with lexsafe|]. apply IH. lia.
Qed.

Lemma lex_quoted_safe : forall input, safe (lex_quoted_string_as_vec input).
Proof. intros input. unfold lex_quoted_string_as_vec. apply quoted_go_safe. lia. Qed.

(* ---- hex pairs ---- *)
Lemma sep_match_cases : forall (sep rest input : bytes),
  (match sep with
   | [58%N] | [45%N] | [46%N] => LOk tt rest
   | _ => LErr EExpectedName input (length sep)
   end = LOk tt rest) \/
  (match sep with
   | [58%N] | [45%N] | [46%N] => LOk tt rest
   | _ => @LErr unit EExpectedName input (length sep)
   end = LErr EExpectedName input (length sep)).
Proof.
  intros sep rest input. destruct sep as [|x tl]; [right; reflexivity|].
  enum_bits x 6; destruct tl; (left; reflexivity) || (right; reflexivity).
Qed.

Lemma lex_byte_sep_cases : forall s,
  (exists rest, lex_byte_sep s = LOk tt rest /\ (length rest < length s)%nat) \/
  (exists k a n, lex_byte_sep s = LErr k a n).
Proof.
  intros s. unfold lex_byte_sep, take. destruct (take_chars 1 s) as [[sep rest]|] eqn:E.
  - cbn [lbind]. destruct (take_chars_split _ _ _ _ E) as [_ Hl].
    destruct (sep_match_cases sep rest s) as [H|H]; rewrite H.
    + left. exists rest. split; [reflexivity|lia].
    + right. eexists _, _, _. reflexivity.
  - right. eexists _, _, _. reflexivity.
Qed.

Lemma byte_string_go_safe : forall fuel s acc, (length s < fuel)%nat -> safe (byte_string_go fuel s acc).
Proof.
  induction fuel as [|f IH]; intros s acc Hf; [lia|]. cbn [byte_string_go].
  apply safe_lbind; [apply fixed_byte_safe|]. intros b rest Hb.
  unfold hex_byte in Hb. pose proof (fixed_byte_shorter _ _ _ _ _ Hb) as Hl.
  destruct (lex_byte_sep_cases rest) as [(rest' & E & Hl')|(k & a & n & E)]; rewrite E.
  - apply IH. lia.
  - auto with lexsafe.
Qed.

Lemma lex_byte_string_safe : forall input, safe (lex_byte_string input).
Proof.
  intros input. unfold lex_byte_string. apply safe_lbind; [apply fixed_byte_safe|]. intros b rest Hb.
  unfold hex_byte in Hb. pose proof (fixed_byte_shorter _ _ _ _ _ Hb) as Hl.
  destruct (lex_byte_sep_cases rest) as [(rest' & E & Hl')|(k & a & n & E)]; rewrite E; cbn [lbind].
  - apply byte_string_go_safe. lia.
  - auto with lexsafe.
Qed.

(* ---- raw strings ---- *)
Lemma lex_raw_safe : forall input, safe (lex_raw_string_as_str input).
Proof.
  intros input. unfold lex_raw_string_as_str. destruct (Nat.ltb 255 (count_hashes input)); [auto with lexsafe|].
  destruct (skipn (count_hashes input) input) as [|c after]; [auto with lexsafe|].
  enum_bits c 6; auto with lexsafe.
  destruct (raw_go (S (length after)) (count_hashes input) after []) as [[body rest]|]; auto with lexsafe.
Qed.

Lemma lex_quoted_or_raw_safe : forall input, safe (lex_quoted_or_raw_string input).
Proof.
  intros input. unfold lex_quoted_or_raw_string. destruct input as [|c r]; [auto with lexsafe|].
  enum_bits c 7; auto with lexsafe.
  - apply safe_lmap. apply lex_raw_safe.
  - apply safe_lmap. apply lex_quoted_safe.
Qed.

Lemma lex_bytes_safe : forall input, safe (lex_bytes input).
Proof.
  intros input. destruct input as [|c r]; [unfold lex_bytes; auto with lexsafe|].
  destruct (N.eq_dec c 34) as [->|H1]; [apply lex_quoted_or_raw_safe|].
  destruct (N.eq_dec c 114) as [->|H2]; [apply lex_quoted_or_raw_safe|].
  rewrite lex_bytes_other by assumption. apply safe_lmap. apply lex_byte_string_safe.
Qed.

(* ---- IP ---- *)
Lemma lex_ip_safe : forall input, safe (lex_ip input).
Proof.
  intros input. unfold lex_ip. apply safe_lbind; [apply take_while_safe|]. intros chunk rest _.
  destruct (parse_addr chunk); auto with lexsafe.
Qed.

Lemma lex_ip_range_safe : forall input, safe (lex_ip_range input).
Proof.
  intros input. unfold lex_ip_range. apply safe_lbind; [apply take_while_safe|]. intros chunk rest _.
  destruct (find_sub [46%N; 46%N] chunk 0).
  - destruct (parse_addr (firstn n chunk)) as [first|]; [|auto with lexsafe].
    destruct (parse_addr (skipn (n + 2) chunk)) as [last|]; [|auto with lexsafe].
    destruct first, last; try destruct (a <=? a0); auto with lexsafe.
  - destruct (parse_cidr chunk) as [it|e]; [auto with lexsafe|]. destruct e; auto with lexsafe.
Qed.

(* ---- list names, identifiers ---- *)
Lemma lex_list_name_safe : forall input, safe (lex_list_name input).
Proof.
  intros input. unfold lex_list_name. destruct (starts_with [36%N] input); [|auto with lexsafe].
  destruct (take_while_go is_listname_char b) as [name rest]. destruct name; [auto with lexsafe|].
  destruct ((hd 0%N (n :: name) =? 46)%N || (last (n :: name) 0%N =? 46)%N); auto with lexsafe.
Qed.

Lemma ident_go_safe : forall fuel s, (length s < fuel)%nat -> safe (ident_go fuel s).
Proof.
  induction fuel as [|f IH]; intros s Hf; [lia|]. cbn [ident_go].
  destruct (take_while_go is_ident_char s) as [seg rest] eqn:E.
  pose proof (take_while_go_split _ _ _ _ E) as Es.
  destruct seg as [|x seg']; [auto with lexsafe|].
  destruct rest as [|c rest']; [auto with lexsafe|].
  assert (Hl : (length rest' < f)%nat).
  { subst s. rewrite app_length in Hf. cbn [length] in Hf. lia. }
  enum_bits c 6; auto with lexsafe.
Qed.

Lemma lex_ident_name_safe : forall input, safe (lex_ident_name input).
Proof.
  intros input. unfold lex_ident_name. apply safe_lbind; [apply ident_go_safe; lia|].
  intros; auto with lexsafe.
Qed.

(* ---- indexes ---- *)
Lemma lex_field_index_safe : forall input, safe (lex_field_index input).
Proof.
  intros input. unfold lex_field_index. destruct (starts_with [42%N] input); [auto with lexsafe|].
  assert (Hint : safe (match lex_int input with
                       | LOk i rest =>
                           if (0 <=? i) && (i <? 4294967296) then LOk (RIArr (Z.to_N i)) rest
                           else LErr EExpectedLiteral input (length input)
                       | LErr _ _ _ => LErr EExpectedLiteral input (length input)
                       | LPanic => LPanic
                       | LFuel => LFuel
                       end)).
  { destruct (lex_int_safe input) as [H1 H2]. destruct (lex_int input) as [i rest|k a n| |];
      [destruct ((0 <=? i) && (i <? 4294967296))|..]; auto with lexsafe; contradiction. }
  destruct input as [|c s]; [exact Hint|].
  destruct (N.eq_dec c 34) as [->|Hn].
  - cbv iota beta. destruct (lex_bytes_safe (34%N :: s)) as [H1 H2].
    destruct (lex_bytes (34%N :: s)) as [[b fm] rest|k a n| |]; try contradiction; [|auto with lexsafe].
    destruct (utf8_valid b); auto with lexsafe.
  - revert Hint. generalize (lex_int (c :: s)). intros li Hint.
    enum_bits c 6; try exact Hint. exfalso; apply Hn; reflexivity.
Qed.

Theorem lex_no_panic_no_fuel : forall input,
  safe (lex_int input) /\ safe (lex_int_range input) /\ safe (lex_bytes input) /\
  safe (lex_quoted_string_as_vec input) /\ safe (lex_raw_string_as_str input) /\ safe (lex_byte_string input) /\
  safe (lex_quoted_or_raw_string input) /\ safe (lex_ip input) /\ safe (lex_ip_range input) /\
  safe (lex_list_name input) /\ safe (lex_ident_name input) /\ safe (lex_field_index input).
Proof.
  intros input.
  repeat split; try apply lex_int_safe; try apply lex_int_range_safe; try apply lex_bytes_safe;
    try apply lex_quoted_safe; try apply lex_raw_safe; try apply lex_byte_string_safe;
    try apply lex_quoted_or_raw_safe; try apply lex_ip_safe; try apply lex_ip_range_safe;
    try apply lex_list_name_safe; try apply lex_ident_name_safe; try apply lex_field_index_safe.
Qed.
