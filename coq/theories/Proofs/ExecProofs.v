(* Value compilation of index expressions, element-wise logic, function calls. *)
From Coq Require Import List ZArith NArith Bool Lia Arith.
From WF Require Import Base.Bytes Sem.RangeSet Lang.Types Lang.Ast Lang.Context
     Sem.Compile Spec.Denote Spec.Typing Proofs.ScalarProofs Proofs.ValueProofs Proofs.IndexProofs.
Import ListNotations.

Definition vres_typed (r : vres) (t : ty) : bool :=
  match r with VOk v => has_type v t | VAbsent _ => true end.

Definition vres_elems (r : vres) : option (list value) :=
  match r with VOk v => Some (elems v) | VAbsent _ => None end.

Definition vres_container (r : vres) : Prop :=
  match r with VOk (VArray _ _) | VOk (VMap _ _) | VAbsent _ => True | VOk _ => False end.

Definition res_of (base : option value) (t0 : ty) : vres :=
  match base with Some v => VOk v | None => VAbsent t0 end.

Lemma last_is_each_last idx : idx <> [] -> last_is_each idx = index_is_each (last idx (IArr 0)).
Proof.
  induction idx as [|i r IH]; intros H; [congruence|]. destruct r as [|j r']; [reflexivity|].
  change (last_is_each (i :: j :: r')) with (last_is_each (j :: r')).
  change (last (i :: j :: r') (IArr 0)) with (last (j :: r') (IArr 0)). apply IH. discriminate.
Qed.

Lemma firstn_app_exact {A} (p q : list A) : firstn (length p) (p ++ q) = p.
Proof. induction p as [|x p IH]; cbn; [now destruct q|]. now rewrite IH. Qed.

Lemma array_of_typed t l : Forall (fun x => has_type x t = true) l -> array_of t l = Some (VArray t l).
Proof.
  intros H. unfold array_of.
  assert (E : forallb (fun x => ty_eqb (type_of x) t) l = true).
  { apply forallb_forall. intros x Hx. rewrite Forall_forall in H. specialize (H x Hx).
    unfold has_type in H. apply andb_true_iff in H. tauto. }
  now rewrite E.
Qed.

Lemma has_type_array_intro t l : Forall (fun x => has_type x t = true) l -> has_type (VArray t l) (TArray t) = true.
Proof.
  intros H. unfold has_type. cbn. rewrite ty_eqb_refl. cbn. apply forallb_forall. intros x Hx.
  rewrite Forall_forall in H. exact (H x Hx).
Qed.

Lemma has_type_container v s t : has_type v s = true -> ty_next s = Some t -> vres_container (VOk v).
Proof.
  intros Hv Hn. destruct s; try discriminate Hn.
  - destruct (has_type_array _ _ Hv) as (l & -> & _). exact I.
  - destruct (has_type_map _ _ Hv) as (l & -> & _). exact I.
Qed.

Section WithCtx.
Variable c : ctx.

(* IndexExpr compiled as a value expression *)
Definition civ_post (base : option value) (idx : list index) (t : ty) (r : vres) : Prop :=
  (map_each_count idx = 0%nat -> r = sel_vres (select base idx) t false /\ vres_typed r t = true) /\
  (map_each_count idx <> 0%nat ->
     match select base idx with
     | SMany l => vres_elems r = (if prefix_absent base idx then None else Some l) /\
                  Forall (fun x => has_type x t = true) l /\ vres_container r
     | _ => False
     end).

Lemma compile_index_value_spec is_call (src_res : cval) base tX t0 idx t :
  src_res c = Some (res_of base tX) -> (is_call = true -> tX = t0) ->
  (forall v, base = Some v -> has_type v t0 = true) ->
  ty_index_ok t0 idx = Some t ->
  exists cv, compile_index_value is_call src_res t0 idx = Some cv /\
             match cv c with Some r => civ_post base idx t r | None => False end.
Proof.
  intros Hsrc HtX Hbase Hidx. unfold compile_index_value, civ_post. rewrite <- ty_index_ok_eq, Hidx.
  destruct (map_each_count idx) as [|[|n]] eqn:En.
  - (* no [*] *)
    eexists; split; [reflexivity|]. unfold select. rewrite En. cbn [Nat.eqb].
    destruct idx as [|i r].
    + cbn in Hidx. injection Hidx as <-. cbn [length Nat.eqb get_path].
      destruct is_call; [rewrite (HtX eq_refl) in Hsrc|]; rewrite Hsrc; (split; [|intros H; congruence]); intros _;
        destruct base as [v|]; cbn; (split; [reflexivity|]); try reflexivity; apply Hbase; reflexivity.
    + cbn [length Nat.eqb]. rewrite Hsrc.
      change (S (length r)) with (length (i :: r)). rewrite firstn_all.
      destruct base as [v|]; cbn [res_of].
      * destruct (get_nested_typed (i :: r) v t0 t (Hbase v eq_refl) Hidx En) as (Hg & Hx). rewrite Hg.
        split; [|intros H; congruence]. intros _.
        destruct (get_path v (i :: r)) as [x|]; cbn; [split; [reflexivity|apply Hx; reflexivity]|split; reflexivity].
      * split; [|intros H; congruence]. intros _. cbn. split; reflexivity.
  - destruct (last_is_each idx) eqn:El.
    + (* a single trailing [*]: the container itself *)
      destruct (last_each_split idx El) as (p & Hp & _).
      assert (Hpn : map_each_count p = 0%nat) by (rewrite Hp, mec_app in En; cbn in En; lia).
      eexists; split; [reflexivity|].
      assert (Hlen : (length idx - 1 = length p)%nat) by (rewrite Hp, app_length; cbn; lia).
      rewrite Hlen. rewrite Hp in Hidx. apply ty_index_ok_app in Hidx. destruct Hidx as (s & Hs1 & Hs2).
      assert (Hn : ty_next s = Some t) by (destruct s; cbn in Hs2; try discriminate; injection Hs2 as ->; reflexivity).
      assert (Hpa : forall v, prefix_absent (Some v) idx = match get_path v p with Some _ => false | None => true end).
      { intros v. unfold prefix_absent. rewrite En, Hp, last_app_one, removelast_app_one. reflexivity. }
      unfold select. rewrite En. cbn [Nat.eqb].
      destruct (Nat.eqb (length p) 0) eqn:Elp.
      * apply Nat.eqb_eq in Elp. destruct p; [|discriminate Elp]. cbn in Hs1. injection Hs1 as <-.
        destruct is_call; rewrite Hsrc; (split; [intros H; discriminate H|]); intros _; destruct base as [v|]; cbn [res_of].
        -- assert (Hfl : flatten idx v = elems v) by (rewrite Hp; apply (flatten_prefix_each [] v eq_refl)).
           rewrite Hfl, Hpa. cbn [get_path]. split; [reflexivity|]. destruct (elems_typed v t0 t (Hbase v eq_refl) Hn) as (_ & Hall).
           split; [exact Hall|]. exact (has_type_container v t0 t (Hbase v eq_refl) Hn).
        -- cbn. repeat split; constructor.
        -- assert (Hfl : flatten idx v = elems v) by (rewrite Hp; apply (flatten_prefix_each [] v eq_refl)).
           rewrite Hfl, Hpa. cbn [get_path]. split; [reflexivity|]. destruct (elems_typed v t0 t (Hbase v eq_refl) Hn) as (_ & Hall).
           split; [exact Hall|]. exact (has_type_container v t0 t (Hbase v eq_refl) Hn).
        -- cbn. repeat split; constructor.
      * rewrite Hsrc. destruct base as [v|]; cbn [res_of].
        -- assert (Hfn : firstn (length p) idx = p) by (rewrite Hp; apply firstn_app_exact).
           assert (Hfl : flatten idx v = match get_path v p with Some x => elems x | None => [] end)
             by (rewrite Hp; apply flatten_prefix_each; exact Hpn).
           rewrite Hfn.
           destruct (get_nested_typed p v t0 s (Hbase v eq_refl) Hs1 Hpn) as (Hg & Hx). rewrite Hg.
           split; [intros H; discriminate H|]. intros _.
           rewrite Hfl, Hpa.
           destruct (get_path v p) as [x|]; cbn.
           ++ split; [reflexivity|]. destruct (elems_typed x s t (Hx x eq_refl) Hn) as (_ & Hall).
              split; [exact Hall|]. exact (has_type_container x s t (Hx x eq_refl) Hn).
           ++ repeat split; constructor.
        -- split; [intros H; discriminate H|]. intros _. cbn. repeat split; constructor.
    + (* [*] not last: collect through the iterator *)
      eexists; split; [reflexivity|]. cbn beta. rewrite Hsrc.
      assert (Hne : idx <> []) by (intros ->; discriminate En).
      assert (Hpa : forall v, prefix_absent (Some v) idx = false).
      { intros v. unfold prefix_absent. rewrite En. cbn [Nat.eqb andb].
        rewrite <- (last_is_each_last idx Hne), El. reflexivity. }
      unfold select. rewrite En. cbn [Nat.eqb].
      destruct base as [v|]; cbn [res_of].
      * rewrite (mei_collect_is_flatten idx v t0 t Hne (Hbase v eq_refl) Hidx).
        pose proof (flatten_typed idx v t0 t (Hbase v eq_refl) Hidx) as Hall.
        rewrite (array_of_typed t _ Hall). split; [intros H; discriminate H|]. intros _.
        rewrite Hpa. cbn. split; [reflexivity|]. split; [exact Hall|exact I].
      * split; [intros H; discriminate H|]. intros _. cbn. repeat split; constructor.
  - (* several [*] *)
    eexists; split; [reflexivity|]. cbn beta. rewrite Hsrc.
    assert (Hne : idx <> []) by (intros ->; discriminate En).
    assert (Hpa : forall v, prefix_absent (Some v) idx = false).
    { intros v. unfold prefix_absent. rewrite En. reflexivity. }
    unfold select. rewrite En. cbn [Nat.eqb].
    destruct base as [v|]; cbn [res_of].
    + rewrite (mei_collect_is_flatten idx v t0 t Hne (Hbase v eq_refl) Hidx).
      pose proof (flatten_typed idx v t0 t (Hbase v eq_refl) Hidx) as Hall.
      rewrite (array_of_typed t _ Hall). split; [intros H; discriminate H|]. intros _.
      rewrite Hpa. cbn. split; [reflexivity|]. split; [exact Hall|exact I].
    + split; [intros H; discriminate H|]. intros _. cbn. repeat split; constructor.
Qed.

(* ---- element-wise logic on boolean arrays ---- *)
Lemma zip_trunc_spec op : forall a b, zip_trunc op a b = map2_trunc (lop_spec op) a b.
Proof. induction a as [|x a IH]; destruct b as [|y b]; cbn; try reflexivity. rewrite IH. now destruct op. Qed.

Definition evals_vec (fs : list cvec) (ls : list (list bool)) : Prop :=
  Forall2 (fun f l => f c = Some l) fs ls.

Lemma run_vec_spec op fs ls : evals_vec fs ls ->
  forall out, run_vec op out fs c = Some (fold_left (map2_trunc (lop_spec op)) ls out).
Proof.
  induction 1 as [|f l fs ls Hf _ IH]; intros out; cbn; [reflexivity|]. rewrite Hf, IH, zip_trunc_spec. reflexivity.
Qed.

Lemma all_vec_map fs : all_vec (map CVec fs) = Some fs.
Proof. induction fs as [|f fs IH]; cbn; [reflexivity|]. now rewrite IH. Qed.

End WithCtx.
