(* C06: the literal round-trip and rejection lemmas in the form stated by
   Props/C06.v.  The work is in LexBase / LexIntProofs / LexBytesProofs /
   LexIpProofs / LexMiscProofs; this file specialises and names the results. *)
From Coq Require Import List ZArith NArith Bool Lia Arith.
From Coq Require Import ZifyBool.
From WF Require Import Base.Bytes Sem.RangeSet Lang.Ast Parse.Lex Spec.C06.
From WF Require Export Proofs.LexBase Proofs.LexIntProofs Proofs.LexBytesProofs Proofs.LexIpProofs Proofs.LexMiscProofs Proofs.LexSafeProofs.
Import ListNotations.
Open Scope Z_scope.

(* ---- integers ---- *)
Lemma int_dec_roundtrip : forall v rest, in_i64 v -> int_follow_ok rest ->
  lex_int (print_dec v ++ rest) = LOk v rest.
Proof. intros v rest Hv Hf. apply (int_roundtrip IDec); [assumption|exact I|assumption]. Qed.

Lemma int_hex_roundtrip : forall upper pad v rest, 0 <= v <= i64_max -> int_follow_ok rest ->
  lex_int (print_int (IHex upper pad) v ++ rest) = LOk v rest.
Proof.
  intros u pad v rest Hv Hf. apply int_roundtrip; [unfold in_i64, i64_min; lia|cbn; lia|assumption].
Qed.

Lemma int_oct_roundtrip : forall pad v rest, 0 <= v <= i64_max -> int_follow_ok rest ->
  lex_int (print_int (IOct pad) v ++ rest) = LOk v rest.
Proof.
  intros pad v rest Hv Hf. apply int_roundtrip; [unfold in_i64, i64_min; lia|cbn; lia|assumption].
Qed.

Lemma int_out_of_range_rejected : forall f v rest, ~ in_i64 v -> int_form_ok f v -> int_follow_ok rest ->
  exists at_ len, lex_int (print_int f v ++ rest) = LErr EParseInt at_ len.
Proof. exact int_out_of_range. Qed.

Lemma int_range_roundtrip : forall f1 f2 a b rest,
  in_i64 a -> in_i64 b -> int_form_ok f1 a -> int_form_ok f2 b -> a <= b -> int_follow_ok rest ->
  lex_int_range (print_int_range f1 f2 a b ++ rest) = LOk (a, b) rest.
Proof.
  intros f1 f2 a b rest Ha Hb H1 H2 Hab Hf. rewrite int_range_lex by assumption.
  replace (b <? a) with false by lia. reflexivity.
Qed.

Lemma reversed_range_rejected : forall f1 f2 a b rest,
  in_i64 a -> in_i64 b -> int_form_ok f1 a -> int_form_ok f2 b -> b < a -> int_follow_ok rest ->
  lex_int_range (print_int_range f1 f2 a b ++ rest) =
  LErr EIncompatibleRangeBounds (print_int_range f1 f2 a b ++ rest) (length (print_int_range f1 f2 a b)).
Proof.
  intros f1 f2 a b rest Ha Hb H1 H2 Hab Hf. rewrite int_range_lex by assumption.
  replace (b <? a) with true by lia. reflexivity.
Qed.

(* ---- byte strings ---- *)
Lemma quoted_roundtrip : forall l rest, styles_ok l ->
  lex_bytes (print_quoted l ++ rest) = LOk (map snd l, FQuoted) rest.
Proof. exact quoted_lex_bytes. Qed.

Lemma unterminated_rejected : forall l, styles_ok l ->
  lex_bytes (34%N :: print_qbody l) = LErr EMissingEndingQuote (print_qbody l) (length (print_qbody l)).
Proof.
  intros l H. unfold lex_bytes, lex_quoted_or_raw_string. rewrite quoted_unterminated by assumption. reflexivity.
Qed.

Lemma raw_roundtrip : forall n body rest, (n <= 255)%nat -> utf8_chars body -> no_early_close n body ->
  lex_bytes (print_raw n body ++ rest) = LOk (body, FRaw (N.of_nat n)) rest.
Proof. exact raw_lex_bytes. Qed.

Lemma raw_roundtrip_utf8 : forall n body rest, (n <= 255)%nat -> utf8_valid body = true -> no_early_close n body ->
  lex_bytes (print_raw n body ++ rest) = LOk (body, FRaw (N.of_nat n)) rest.
Proof. intros n body rest Hn Hu Hc. apply raw_lex_bytes; [assumption|apply utf8_valid_chars; assumption|assumption]. Qed.

Lemma raw_256_rejected : forall n s, (255 < n)%nat ->
  lex_bytes (114%N :: hashes n ++ 34%N :: s) =
  LErr EInvalidRawStringHashCount (hashes n ++ 34%N :: s) (length (hashes n ++ 34%N :: s)).
Proof.
  intros n s H. unfold lex_bytes, lex_quoted_or_raw_string. rewrite raw_too_many_hashes; [reflexivity|].
  rewrite count_hashes_app. lia.
Qed.

Lemma hexpairs_roundtrip : forall u1 u2 b0 l rest,
  (b0 < 256)%N -> hextail_ok l -> l <> [] -> hexpairs_follow_ok rest ->
  lex_bytes (print_hexpairs u1 u2 b0 l ++ rest) = LOk (b0 :: map snd l, FByte) rest.
Proof. exact hexpairs_lex_bytes. Qed.

(* ---- IP addresses ---- *)
Lemma addr_roundtrip : forall t a rest, addr_text t a -> ip_follow_ok rest -> lex_ip (t ++ rest) = LOk a rest.
Proof.
  intros t a rest H Hr. destruct (addr_text_facts t a H) as [Ht Hp]. apply lex_ip_text; assumption.
Qed.

Lemma ipv4_roundtrip : forall a b c d rest, octet a -> octet b -> octet c -> octet d -> ip_follow_ok rest ->
  lex_ip (print_v4 a b c d ++ rest) = LOk (V4 (v4_of a b c d)) rest.
Proof. intros. apply (addr_roundtrip _ (V4 (v4_of a b c d))); [constructor; assumption|assumption]. Qed.

Lemma ipv6_full_roundtrip : forall upper gs rest, length gs = 8%nat -> Forall group16 gs -> ip_follow_ok rest ->
  lex_ip (print_v6_full upper gs ++ rest) = LOk (V6 (v6_of gs 0)) rest.
Proof. intros. apply (addr_roundtrip _ (V6 (v6_of gs 0))); [constructor; assumption|assumption]. Qed.

Lemma ipv6_compressed_roundtrip : forall upper hs ts rest,
  (length hs + length ts <= 7)%nat -> Forall group16 hs -> Forall group16 ts -> ip_follow_ok rest ->
  lex_ip (print_v6_compressed upper hs ts ++ rest) =
  LOk (V6 (v6_of (hs ++ repeat 0 (8 - (length hs + length ts)) ++ ts) 0)) rest.
Proof. intros. apply (addr_roundtrip _ (V6 (v6_of (hs ++ repeat 0 (8 - (length hs + length ts)) ++ ts) 0))); [constructor; assumption|assumption]. Qed.

Lemma ipv6_embedded_roundtrip : forall upper gs a b c d rest,
  length gs = 6%nat -> Forall group16 gs -> octet a -> octet b -> octet c -> octet d -> ip_follow_ok rest ->
  lex_ip (print_v6_embedded upper gs a b c d ++ rest) =
  LOk (V6 (v6_of (gs ++ [a * 256 + b; c * 256 + d]) 0)) rest.
Proof.
  intros. apply (addr_roundtrip _ (V6 (v6_of (gs ++ [a * 256 + b; c * 256 + d]) 0))); [constructor; assumption|assumption].
Qed.

Lemma ipv6_compressed_embedded_roundtrip : forall upper hs ts a b c d rest,
  (length hs + length ts <= 5)%nat -> Forall group16 hs -> Forall group16 ts ->
  octet a -> octet b -> octet c -> octet d -> ip_follow_ok rest ->
  lex_ip (print_v6_compressed_embedded upper hs ts a b c d ++ rest) =
  LOk (V6 (v6_of (hs ++ repeat 0 (6 - (length hs + length ts)) ++ ts ++ [a * 256 + b; c * 256 + d]) 0)) rest.
Proof.
  intros. apply (addr_roundtrip _ (V6 (v6_of (hs ++ repeat 0 (6 - (length hs + length ts)) ++ ts ++
                                              [a * 256 + b; c * 256 + d]) 0))); [constructor; assumption|assumption].
Qed.

Lemma ip_bits_small : forall a, ip_bits a < 256.
Proof. destruct a; cbn; lia. Qed.

Lemma cidr_roundtrip : forall t a n rest, addr_text t a -> 0 <= n <= ip_bits a ->
  ip_num a mod 2 ^ (ip_bits a - n) = 0 -> ip_follow_ok rest ->
  lex_ip_range (t ++ 47%N :: print_dec n ++ rest) = LOk (cidr_item a n) rest.
Proof.
  intros t a n rest H Hn Hm Hr. destruct (addr_text_facts t a H) as [Ht Hp].
  pose proof (ip_bits_small a). rewrite (lex_cidr_text t a) by (assumption || lia). unfold cidr_result.
  replace (ip_bits a <? n) with false by lia. rewrite Hm. reflexivity.
Qed.

Lemma host_bits_rejected : forall t a n rest, addr_text t a -> 0 <= n <= ip_bits a ->
  ip_num a mod 2 ^ (ip_bits a - n) <> 0 -> ip_follow_ok rest ->
  lex_ip_range (t ++ 47%N :: print_dec n ++ rest) =
  LErr EParseNetwork (t ++ 47%N :: print_dec n ++ rest) (length t).
Proof.
  intros t a n rest H Hn Hm Hr. destruct (addr_text_facts t a H) as [Ht Hp].
  pose proof (ip_bits_small a). rewrite (lex_cidr_text t a) by (assumption || lia). unfold cidr_result.
  replace (ip_bits a <? n) with false by lia.
  replace (ip_num a mod 2 ^ (ip_bits a - n) =? 0) with false by lia. reflexivity.
Qed.

Lemma prefix_too_long_rejected : forall t a n rest, addr_text t a -> ip_bits a < n < 256 -> ip_follow_ok rest ->
  lex_ip_range (t ++ 47%N :: print_dec n ++ rest) =
  LErr EParseNetwork (t ++ 47%N :: print_dec n ++ rest) (length (t ++ 47%N :: print_dec n)).
Proof.
  intros t a n rest H Hn Hr. destruct (addr_text_facts t a H) as [Ht Hp].
  assert (0 < ip_bits a) by (destruct a; cbn; lia).
  rewrite (lex_cidr_text t a) by (assumption || lia). unfold cidr_result.
  replace (ip_bits a <? n) with true by lia. reflexivity.
Qed.

Lemma host_in_list : forall t a rest, addr_text t a -> ip_follow_ok rest ->
  lex_ip_range (t ++ rest) = LOk (cidr_item a (ip_bits a)) rest.
Proof. intros t a rest H Hr. destruct (addr_text_facts t a H) as [Ht Hp]. apply lex_host_text; assumption. Qed.

Lemma ip_range_roundtrip : forall t1 t2 a b rest, addr_text t1 a -> addr_text t2 b ->
  same_family a b = true -> ip_num a <= ip_num b -> ip_follow_ok rest ->
  lex_ip_range (t1 ++ [46%N; 46%N] ++ t2 ++ rest) = LOk (range_item a b) rest.
Proof.
  intros t1 t2 a b rest H1 H2 Hs Hab Hr.
  destruct (addr_text_facts t1 a H1) as [Ht1 Hp1]. destruct (addr_text_facts t2 b H2) as [Ht2 Hp2].
  rewrite (lex_range_text t1 t2 a b) by assumption. unfold range_result. rewrite Hs.
  replace (ip_num a <=? ip_num b) with true by lia. reflexivity.
Qed.

Lemma mixed_family_rejected : forall t1 t2 a b rest, addr_text t1 a -> addr_text t2 b ->
  same_family a b = false -> ip_follow_ok rest ->
  lex_ip_range (t1 ++ [46%N; 46%N] ++ t2 ++ rest) =
  LErr EIncompatibleRangeBounds (t1 ++ [46%N; 46%N] ++ t2 ++ rest) (length (t1 ++ [46%N; 46%N] ++ t2)).
Proof.
  intros t1 t2 a b rest H1 H2 Hs Hr.
  destruct (addr_text_facts t1 a H1) as [Ht1 Hp1]. destruct (addr_text_facts t2 b H2) as [Ht2 Hp2].
  rewrite (lex_range_text t1 t2 a b) by assumption. unfold range_result. rewrite Hs. reflexivity.
Qed.

Lemma reversed_ip_range_rejected : forall t1 t2 a b rest, addr_text t1 a -> addr_text t2 b ->
  ip_num b < ip_num a -> ip_follow_ok rest ->
  lex_ip_range (t1 ++ [46%N; 46%N] ++ t2 ++ rest) =
  LErr EIncompatibleRangeBounds (t1 ++ [46%N; 46%N] ++ t2 ++ rest) (length (t1 ++ [46%N; 46%N] ++ t2)).
Proof.
  intros t1 t2 a b rest H1 H2 Hab Hr.
  destruct (addr_text_facts t1 a H1) as [Ht1 Hp1]. destruct (addr_text_facts t2 b H2) as [Ht2 Hp2].
  rewrite (lex_range_text t1 t2 a b) by assumption. unfold range_result.
  replace (ip_num a <=? ip_num b) with false by lia. rewrite andb_false_r. reflexivity.
Qed.

(* ---- indexes and keys ---- *)
Lemma index_roundtrip : forall f n rest, 0 <= n < 4294967296 -> int_form_ok f n -> int_follow_ok rest ->
  lex_field_index (print_int f n ++ rest) = LOk (RIArr (Z.to_N n)) rest.
Proof.
  intros f n rest Hn Hok Hf. rewrite index_lex by assumption.
  replace ((0 <=? n) && (n <? 4294967296)) with true by lia. reflexivity.
Qed.

Lemma neg_or_oversized_index_rejected : forall f n rest, n < 0 \/ 4294967296 <= n -> int_form_ok f n ->
  int_follow_ok rest ->
  lex_field_index (print_int f n ++ rest) =
  LErr EExpectedLiteral (print_int f n ++ rest) (length (print_int f n ++ rest)).
Proof.
  intros f n rest Hn Hok Hf. rewrite index_lex by assumption.
  replace ((0 <=? n) && (n <? 4294967296)) with false by lia. reflexivity.
Qed.

Lemma map_key_utf8_only : forall l rest, styles_ok l ->
  lex_field_index (print_quoted l ++ rest) =
  if utf8_valid (map snd l) then LOk (RIKey (map snd l)) rest
  else LErr EExpectedLiteral (print_quoted l ++ rest) (length (print_quoted l ++ rest)).
Proof. exact map_key_lex. Qed.

(* ---- list names ---- *)
Lemma list_name_spec : forall input,
  (exists v rest, lex_list_name input = LOk v rest) <->
  (exists name rest, input = 36%N :: name ++ rest /\ good_list_name name /\ listname_follow_ok rest).
Proof. exact list_name_iff. Qed.
