(* The main theorem of C02 / C03 / C04(execution) / C17 at AST level: for every
   well-typed filter or value expression (documented typing rules, Spec/Typing.v),
   every well-formed context and every type-correct function library, the
   compiled closures return exactly the denotation and never panic. *)
From Coq Require Import List ZArith NArith Bool Lia Arith.
From WF Require Import Base.Bytes Sem.RangeSet Sem.Matchers Lang.Types Lang.Ast Lang.Context
     Sem.Compile Spec.Denote Spec.Typing Proofs.ScalarProofs Proofs.ValueProofs Proofs.IndexProofs
     Proofs.ExecProofs Proofs.CallProofs.
Import ListNotations.

Inductive Forall3 {A B C} (R : A -> B -> C -> Prop) : list A -> list B -> list C -> Prop :=
| F3_nil : Forall3 R [] [] []
| F3_cons x y z xs ys zs : R x y z -> Forall3 R xs ys zs -> Forall3 R (x :: xs) (y :: ys) (z :: zs).

Section Main.
Variable sch : scheme.
Variable c : ctx.
Hypothesis Hc : ctx_ok sch c = true.
Hypothesis Hf : fns_ok sch.

Definition shape (t : ty) (r : lres) : Prop :=
  match t, r with
  | TBool, ROne _ => True
  | TArray TBool, RVec _ => True
  | _, _ => False
  end.

Definition runs (ce : cexpr) (r : lres) : Prop :=
  match ce, r with
  | COne f, ROne b => f c = Some b
  | CVec f, RVec l => f c = Some l
  | _, _ => False
  end.

(* the value source used when an index expression is the left side of a comparison *)
Definition ident_src (e : iexpr) : M (ctx -> M (option value)) :=
  match e with
  | IField f _ => Some (src_field sch f)
  | ICall fn a _ =>
      cargs <- compile_args sch a ;; call <- compile_call_with sch fn a cargs ;; Some (src_call call)
  end.

Definition cmp_compile (op : cmpop) (lhs_ty : M ty) (src : ctx -> M (option value)) (idx : list index)
           (comp : comparer) (default : bool) : M cexpr :=
  match op with
  | CIsTrue =>
      t <- lhs_ty ;;
      match t with
      | TBool => Some (compile_with src idx false comp)
      | TArray TBool | TMap TBool => Some (CVec (compile_vec_with src idx comp))
      | _ => None
      end
  | _ => Some (compile_with src idx default comp)
  end.

Lemma cmp_compile_other op lhs_ty src idx comp default :
  op <> CIsTrue -> cmp_compile op lhs_ty src idx comp default = Some (compile_with src idx default comp).
Proof. intros H. destruct op; try reflexivity. congruence. Qed.

Definition cmp_plain (op : cmpop) (base : option value) (idx : list index) : option lres :=
  match select base idx with
  | SAbsent => Some (ROne (nil_result sch op))
  | SOne v => option_map ROne (cmp_holds sch op c v)
  | SMany l => option_map RVec (all_some (map (cmp_holds sch op c) l))
  end.

Definition cmp_bools (base : option value) (idx : list index) : option lres :=
  match select base idx with
  | SOne v => option_map RVec (bools_of (elems v))
  | SAbsent => Some (RVec [])
  | SMany _ => None
  end.

Definition cmp_denote (op : cmpop) (t : ty) (base : option value) (idx : list index) : option lres :=
  match op, t with
  | CIsTrue, (TArray TBool | TMap TBool) => cmp_bools base idx
  | _, _ => cmp_plain op base idx
  end.

Lemma denote_cmp_eq lhs op :
  denote sch (EComparison lhs op) c =
  match denote_ident sch lhs c with
  | Some (base, t0, idx) =>
      match ty_index_spec t0 idx with
      | Some t => cmp_denote op t base idx
      | None => None
      end
  | None => None
  end.
Proof.
  cbn [denote]. destruct (denote_ident sch lhs c) as [[[base t0] idx]|]; [|reflexivity].
  destruct (ty_index_spec t0 idx) as [t|]; [|reflexivity].
  destruct op; try reflexivity; destruct t as [| | | |[]|[]]; reflexivity.
Qed.

Lemma cmp_denote_prim op t base idx : is_prim t = true -> cmp_denote op t base idx = cmp_plain op base idx.
Proof. destruct t; try discriminate; destruct op; reflexivity. Qed.

Lemma compile_cmp_eq lhs op :
  compile_lexpr sch (EComparison lhs op) =
  let (comp, default) := cmp_fn sch op in
  src <- ident_src lhs ;;
  cmp_compile op (ty_iexpr sch lhs) src (iexpr_idx lhs) comp default.
Proof.
  cbn [compile_lexpr]. destruct (cmp_fn sch op) as [comp default]. destruct lhs as [f idx|fn a idx]; cbn [ident_src iexpr_idx].
  - reflexivity.
  - destruct (compile_args sch a) as [cargs|]; [|reflexivity].
    destruct (compile_call_with sch fn a cargs) as [call|]; reflexivity.
Qed.

Definition P_lexpr (e : lexpr) : Prop :=
  forall t, wt_lexpr sch e = Some t ->
    ty_lexpr sch e = Some t /\
    exists ce r, compile_lexpr sch e = Some ce /\ denote sch e c = Some r /\ runs ce r /\ shape t r.

Definition P_lexprs (l : lexprs) : Prop :=
  forall t, wt_lexprs sch t l = true ->
    exists ces rs, compile_lexprs sch l = Some ces /\ Forall2 runs ces rs /\
                   Forall2 (fun e r => denote sch e c = Some r) (lexprs_to_list l) rs /\
                   Forall (shape t) rs /\
                   Forall (fun e => ty_lexpr sch e = Some t) (lexprs_to_list l).

Definition P_iexpr (e : iexpr) : Prop :=
  forall t, wt_iexpr sch e = Some t ->
    ty_iexpr sch e = Some t /\
    exists base t0 src,
      denote_ident sch e c = Some (base, t0, iexpr_idx e) /\
      ty_index_ok t0 (iexpr_idx e) = Some t /\
      (forall v, base = Some v -> has_type v t0 = true) /\
      ident_src e = Some src /\ src c = Some base /\
      exists cv, compile_iexpr_value sch e = Some cv /\
                 match cv c with Some r => civ_post base (iexpr_idx e) t r | None => False end.

(* one argument: static type, compiled closure, denotation *)
Definition arg_rel (x : arg) (cv : cval) (d : option (option (list value)) * ty * vres) : Prop :=
  let '(m, t, r') := d in
  wt_arg sch x = Some t /\ ty_arg sch x = Some t /\
  exists r, cv c = Some r /\
    (arg_map_each_count x = 0%nat -> m = None /\ r' = r /\ vres_typed r t = true) /\
    (arg_map_each_count x <> 0%nat ->
       m = Some (vres_elems r) /\ vres_container r /\
       forall l, vres_elems r = Some l -> Forall (fun v => has_type v t = true) l).

Definition P_arg (x : arg) : Prop :=
  forall t, wt_arg sch x = Some t ->
    exists cv d, compile_arg sch x = Some cv /\ denote_arg sch x c = Some d /\ arg_rel x cv d.

Definition P_args (a : args) : Prop :=
  (forall x, In x (args_to_list a) -> exists t, wt_arg sch x = Some t) ->
  exists cvs ds, compile_args sch a = Some cvs /\ denote_args sch a c = Some ds /\
                 Forall3 arg_rel (args_to_list a) cvs ds.

(* ---- chains of boolean arrays ---- *)
Lemma denote_fold_vecs op l ls : forall acc,
  Forall2 (fun e r => denote sch e c = Some r) (lexprs_to_list l) (map RVec ls) ->
  denote_fold sch op (RVec acc) l c = Some (RVec (fold_left (map2_trunc (lop_spec op)) ls acc)).
Proof.
  revert ls. induction l as [|e r IH]; intros ls acc H; cbn [lexprs_to_list] in H.
  - destruct ls; [reflexivity|inversion H].
  - destruct ls as [|x ls]; [inversion H|]. cbn [map] in H. inversion H as [|? ? ? ? Hd Hrest]; subst.
    cbn [denote_fold fold_left]. rewrite Hd. cbn [combine_spec]. apply IH. exact Hrest.
Qed.

Lemma split_ones ces rs :
  Forall2 runs ces rs -> Forall (shape TBool) rs ->
  exists fs bs, ces = map COne fs /\ rs = map ROne bs /\ evals c fs bs.
Proof.
  induction 1 as [|ce r ces rs Hr _ IH]; intros Hs.
  - exists [], []. repeat split; constructor.
  - inversion Hs as [|? ? Hs1 Hs2]; subst. destruct (IH Hs2) as (fs & bs & -> & -> & Hev).
    destruct r as [b|l]; [|destruct Hs1]. destruct ce as [f|f]; [|destruct Hr].
    exists (f :: fs), (b :: bs). repeat split. constructor; assumption.
Qed.

Lemma split_vecs ces rs :
  Forall2 runs ces rs -> Forall (shape (TArray TBool)) rs ->
  exists fs ls, ces = map CVec fs /\ rs = map RVec ls /\ evals_vec c fs ls.
Proof.
  induction 1 as [|ce r ces rs Hr _ IH]; intros Hs.
  - exists [], []. repeat split; constructor.
  - inversion Hs as [|? ? Hs1 Hs2]; subst. destruct (IH Hs2) as (fs & ls & -> & -> & Hev).
    destruct r as [b|l]; [destruct Hs1|]. destruct ce as [f|f]; [destruct Hr|].
    exists (f :: fs), (l :: ls). repeat split. constructor; assumption.
Qed.

Lemma denotes_ones_of l bs :
  Forall2 (fun e r => denote sch e c = Some r) (lexprs_to_list l) (map ROne bs) -> denotes_ones sch c l bs.
Proof.
  unfold denotes_ones. revert bs. induction (lexprs_to_list l) as [|e es IH]; intros bs H.
  - destruct bs; [constructor|inversion H].
  - destruct bs as [|b bs]; [inversion H|]. cbn in H. inversion H; subst. constructor; auto.
Qed.

(* ---- comparisons ---- *)
Lemma comparer_ok t op :
  is_prim t = true -> op_ok sch t op = true ->
  forall x, has_type x t = true ->
    exists b, fst (cmp_fn sch op) x c = Some b /\ cmp_holds sch op c x = Some b.
Proof.
  intros Hp Hop x Hx. apply (cmp_fn_spec sch t op x c Hp Hop Hx).
  unfold ctx_ok in Hc. apply andb_true_iff in Hc. destruct Hc as [_ H]. now apply Nat.eqb_eq in H.
Qed.

Lemma ty_cmp_agree idx tl op t :
  match tl with
  | TBool => match op with
             | CIsTrue => Some (if Nat.eqb (map_each_count idx) 0 then TBool else TArray TBool)
             | _ => None
             end
  | TArray TBool | TMap TBool =>
      match op with
      | CIsTrue => if Nat.eqb (map_each_count idx) 0 then Some (TArray TBool) else None
      | _ => None
      end
  | _ =>
      if is_prim tl && op_ok sch tl op
      then Some (if Nat.eqb (map_each_count idx) 0 then TBool else TArray TBool) else None
  end = Some t ->
  ty_cmp_of idx (Some tl) op = Some t.
Proof.
  unfold ty_cmp_of. destruct (map_each_count idx) as [|n]; cbn [Nat.ltb Nat.leb Nat.eqb].
  - destruct tl as [| | | |[]|[]]; destruct op; cbn; intros H; try discriminate H; try exact H;
      try (destruct (forallb ip_item_wfb _); try discriminate H; exact H);
      try (destruct (list_index sch _) as [i|]; [destruct (Nat.eqb i _)|]; try discriminate H; exact H);
      try (match goal with r : rhs |- _ => destruct r end; try discriminate H; exact H);
      try (destruct (regex_compile _); try discriminate H; exact H);
      try (destruct (wparse _) as [wt|]; [destruct (has_double_star wt)|]; try discriminate H; exact H).
  - destruct tl as [| | | |[]|[]]; destruct op; cbn; intros H; try discriminate H; try exact H;
      try (destruct (forallb ip_item_wfb _); try discriminate H; exact H);
      try (destruct (list_index sch _) as [i|]; [destruct (Nat.eqb i _)|]; try discriminate H; exact H);
      try (match goal with r : rhs |- _ => destruct r end; try discriminate H; exact H);
      try (destruct (regex_compile _); try discriminate H; exact H);
      try (destruct (wparse _) as [wt|]; [destruct (has_double_star wt)|]; try discriminate H; exact H).
Qed.

Lemma P_comparison lhs op : P_iexpr lhs -> P_lexpr (EComparison lhs op).
Proof.
  intros IH t Hwt. cbn [wt_lexpr] in Hwt.
  destruct (wt_iexpr sch lhs) as [tl|] eqn:Etl; [|discriminate].
  destruct (IH tl Etl) as (Hty & base & t0 & src & Hden & Hidx & Hbase & Hsrc & Hsc & _).
  set (idx := iexpr_idx lhs) in *. set (n := map_each_count idx) in *.
  split.
  - (* the model's type function agrees *)
    cbn [ty_lexpr]. rewrite Hty. apply ty_cmp_agree. exact Hwt.
  - rewrite compile_cmp_eq, denote_cmp_eq. destruct (cmp_fn sch op) as [comp default] eqn:Ecf.
    rewrite Hsrc, Hden. fold idx. rewrite ty_index_spec_eq, Hidx.
    assert (Hcomp_eq : comp = fst (cmp_fn sch op)) by now rewrite Ecf.
    assert (Hdef_eq : default = nil_result sch op) by (rewrite <- cmp_fn_default, Ecf; reflexivity).
    assert (Hprim : forall tp, tl = tp -> is_prim tp = true -> tp <> TBool ->
              exists ce r, cmp_compile op (ty_iexpr sch lhs) src idx comp default = Some ce /\
                           cmp_denote op tp base idx = Some r /\ runs ce r /\ shape t r).
    { intros tp -> Hp Hnb.
      assert (Hop : op_ok sch tp op = true).
      { destruct tp; try discriminate Hp; try congruence; cbn [is_prim andb] in Hwt;
          (destruct (op_ok sch _ op); [reflexivity|discriminate Hwt]). }
      assert (Hwt' : t = if Nat.eqb n 0 then TBool else TArray TBool).
      { destruct tp; try discriminate Hp; try congruence; cbn [is_prim andb] in Hwt; rewrite Hop in Hwt; congruence. }
      assert (Hnt : op <> CIsTrue) by (intros ->; destruct tp; try discriminate Hp; try congruence; discriminate Hop).
      rewrite (cmp_compile_other op _ src idx comp default Hnt), (cmp_denote_prim op tp base idx Hp).
      pose proof (compile_with_spec c src base t0 idx tp default comp (cmp_holds sch op c) Hsc Hbase Hidx) as Hcw.
      unfold cmp_plain.
      destruct (compile_with src idx default comp) as [f|f] eqn:Ecw.
      - destruct Hcw as (Hn0 & b & Hfb & Hsel).
        { intros x Hx. rewrite Hcomp_eq. apply (comparer_ok tp op); auto. }
        fold n in Hn0. rewrite Hn0 in Hwt'. cbn in Hwt'. subst t.
        destruct (select base idx) as [|x|l]; [subst b; rewrite Hdef_eq in Hfb|rewrite Hsel|destruct Hsel];
          (eexists; eexists; split; [reflexivity|]); repeat split; auto.
      - destruct Hcw as (Hn0 & l & xs & Hfl & Hsel & Hall).
        { intros x Hx. rewrite Hcomp_eq. apply (comparer_ok tp op); auto. }
        fold n in Hn0. destruct (Nat.eqb n 0) eqn:En; [apply Nat.eqb_eq in En; congruence|]. subst t.
        rewrite Hsel, Hall. eexists; eexists; split; [reflexivity|]. repeat split; auto. }
    destruct tl as [| | | |telt|telt].
    + (* Bool: only IsTrue *)
      destruct op; try discriminate Hwt. cbn [cmp_compile cmp_denote]. rewrite Hty. cbn.
      pose proof (compile_with_spec c src base t0 idx TBool false comp (cmp_holds sch CIsTrue c) Hsc Hbase Hidx) as Hcw.
      unfold cmp_plain.
      destruct (compile_with src idx false comp) as [f|f] eqn:Ecw.
      * destruct Hcw as (Hn0 & b & Hfb & Hsel).
        { intros x Hx. rewrite Hcomp_eq. apply (comparer_ok TBool CIsTrue); auto. }
        fold n in Hn0. rewrite Hn0 in Hwt. cbn in Hwt. injection Hwt as <-.
        destruct (select base idx) as [|x|l]; [subst b| |destruct Hsel].
        -- eexists; eexists; split; [reflexivity|]. repeat split; auto.
        -- rewrite Hsel. eexists; eexists; split; [reflexivity|]. repeat split; auto.
      * destruct Hcw as (Hn0 & l & xs & Hfl & Hsel & Hall).
        { intros x Hx. rewrite Hcomp_eq. apply (comparer_ok TBool CIsTrue); auto. }
        fold n in Hn0. destruct (Nat.eqb n 0) eqn:En; [apply Nat.eqb_eq in En; congruence|]. injection Hwt as <-.
        rewrite Hsel, Hall. eexists; eexists; split; [reflexivity|]. repeat split; auto.
    + apply (Hprim TBytes); [reflexivity|reflexivity|discriminate].
    + apply (Hprim TInt); [reflexivity|reflexivity|discriminate].
    + apply (Hprim TIp); [reflexivity|reflexivity|discriminate].
    + (* Array(Bool): a bare container of booleans *)
      destruct telt; try discriminate Hwt. destruct op; try discriminate Hwt.
      destruct (Nat.eqb n 0) eqn:En; [|discriminate Hwt]. apply Nat.eqb_eq in En. injection Hwt as <-.
      cbn [cmp_compile cmp_denote]. rewrite Hty. cbn.
      assert (Hcomp : comp = (fun v (_ : ctx) => cast_bool v)) by (cbn in Ecf; now injection Ecf as <- _).
      destruct (compile_vec_bools c src base t0 idx (TArray TBool) Hsc Hbase Hidx eq_refl En) as (l & Hl & Hsel).
      rewrite Hcomp. unfold cmp_bools.
      destruct (select base idx) as [|x|xs]; [subst l|rewrite Hsel|destruct Hsel];
        (eexists; eexists; split; [reflexivity|]); repeat split; auto.
    + (* Map(Bool) *)
      destruct telt; try discriminate Hwt. destruct op; try discriminate Hwt.
      destruct (Nat.eqb n 0) eqn:En; [|discriminate Hwt]. apply Nat.eqb_eq in En. injection Hwt as <-.
      cbn [cmp_compile cmp_denote]. rewrite Hty. cbn.
      assert (Hcomp : comp = (fun v (_ : ctx) => cast_bool v)) by (cbn in Ecf; now injection Ecf as <- _).
      destruct (compile_vec_bools c src base t0 idx (TMap TBool) Hsc Hbase Hidx eq_refl En) as (l & Hl & Hsel).
      rewrite Hcomp. unfold cmp_bools.
      destruct (select base idx) as [|x|xs]; [subst l|rewrite Hsel|destruct Hsel];
        (eexists; eexists; split; [reflexivity|]); repeat split; auto.
Qed.

Lemma P_combining op items : P_lexprs items -> P_lexpr (ECombining op items).
Proof.
  intros IH t Hwt. cbn [wt_lexpr] in Hwt. destruct items as [|e0 rest]; [discriminate|].
  destruct (wt_lexpr sch e0) as [t0|] eqn:E0; [|discriminate].
  destruct (wt_lexprs sch t0 rest) eqn:Er; [|discriminate]. injection Hwt as <-.
  assert (Hall : wt_lexprs sch t0 (LCons e0 rest) = true)
    by (cbn [wt_lexprs]; rewrite E0, ty_eqb_refl, Er; reflexivity).
  destruct (IH t0 Hall) as (ces & rs & Hcomp & Hruns & Hden & Hshape & Htys).
  cbn [lexprs_to_list] in Hden, Htys.
  inversion Hden as [|? r0 ? rs' Hd0 Hden']; subst.
  inversion Htys as [|? ? Hty0 _]; subst.
  split; [cbn [ty_lexpr]; exact Hty0|].
  inversion Hshape as [|? ? Hs0 Hshape']; subst.
  cbn [compile_lexpr denote]. rewrite Hcomp, Hd0.
  assert (Hcases : t0 = TBool \/ t0 = TArray TBool).
  { destruct t0 as [| | | |[]|]; auto; destruct r0; destruct Hs0. }
  destruct Hcases as [-> | ->].
  - (* plain booleans *)
    destruct (split_ones ces (r0 :: rs') Hruns Hshape) as (fs & bs & -> & Hrs & Hev).
    destruct bs as [|b0 bs]; [discriminate Hrs|]. cbn [map] in Hrs. injection Hrs as -> ->.
    inversion Hev as [|f0 ? fs' ? Hf0 Hev']; subst. cbn [map]. rewrite all_one_map.
    eexists; eexists; split; [reflexivity|]. split.
    + apply denote_fold_ones. apply denotes_ones_of. exact Hden'.
    + split; [|exact I]. cbn [runs]. now apply combine_one_spec.
  - (* boolean arrays *)
    destruct (split_vecs ces (r0 :: rs') Hruns Hshape) as (fs & ls & -> & Hrs & Hev).
    destruct ls as [|l0 ls]; [discriminate Hrs|]. cbn [map] in Hrs. injection Hrs as -> ->.
    inversion Hev as [|f0 ? fs' ? Hf0 Hev']; subst. cbn [map]. rewrite all_vec_map.
    eexists; eexists; split; [reflexivity|]. split.
    + apply denote_fold_vecs. exact Hden'.
    + split; [|exact I]. cbn [runs]. unfold combine_vec. rewrite Hf0. now apply run_vec_spec.
Qed.

Lemma P_paren e : P_lexpr e -> P_lexpr (EParen e).
Proof.
  intros IH t Hwt. cbn [wt_lexpr] in Hwt. destruct (IH t Hwt) as (Hty & ce & r & H1 & H2 & H3 & H4).
  split; [exact Hty|]. exists ce, r. cbn [compile_lexpr denote]. auto.
Qed.

Lemma P_not e : P_lexpr e -> P_lexpr (ENot e).
Proof.
  intros IH t Hwt. cbn [wt_lexpr] in Hwt. destruct (IH t Hwt) as (Hty & ce & r & H1 & H2 & H3 & H4).
  split; [exact Hty|]. cbn [compile_lexpr denote]. rewrite H1, H2.
  destruct ce as [f|f], r as [b|l]; cbn [runs] in H3; try contradiction.
  - eexists; eexists; split; [reflexivity|]. split; [reflexivity|]. split; [cbn; now rewrite H3|exact H4].
  - eexists; eexists; split; [reflexivity|]. split; [reflexivity|]. split; [cbn; now rewrite H3|exact H4].
Qed.

Lemma bools_typed l : Forall (fun x => has_type x TBool = true) l ->
  exists bs, mapM cast_bool l = Some bs /\ bools_of l = Some bs.
Proof.
  induction 1 as [|x l Hx _ IH]; [exists []; split; reflexivity|].
  destruct IH as (bs & H1 & H2). apply has_type_prim_inv in Hx. destruct Hx as (b & ->).
  exists (b :: bs). unfold bools_of in *. cbn. rewrite H1, H2. split; reflexivity.
Qed.

Lemma P_quant_index q a : P_iexpr a -> P_lexpr (EQuantIndex q a).
Proof.
  intros IH t Hwt. cbn [wt_lexpr] in Hwt.
  destruct (wt_iexpr sch a) as [ta|] eqn:Ea; [|discriminate].
  destruct ta as [| | | |[]|]; try discriminate Hwt.
  destruct (Nat.eqb (map_each_count (iexpr_idx a)) 0) eqn:En; [|discriminate]. apply Nat.eqb_eq in En.
  injection Hwt as <-. split; [reflexivity|].
  destruct (IH _ Ea) as (_ & base & t0 & src & Hden & Hidx & Hbase & _ & _ & cv & Hcv & Hpost).
  cbn [compile_lexpr denote]. rewrite Hcv, Hden.
  destruct (cv c) as [r|] eqn:Er; [|destruct Hpost]. destruct Hpost as (Hp0 & _).
  destruct (Hp0 En) as (Hr & Hrt). clear Hp0.
  destruct (select base (iexpr_idx a)) as [|x|xs] eqn:Es; cbn [sel_vres] in Hr; subst r.
  - eexists; eexists; split; [reflexivity|]. split; [reflexivity|]. split; [|exact I]. cbn [runs]. now rewrite Er.
  - cbn [vres_typed] in Hrt. destruct (has_type_array _ _ Hrt) as (l & -> & Hl).
    destruct (bools_typed l Hl) as (bs & H1 & H2). rewrite H2.
    eexists; eexists; split; [reflexivity|]. split; [reflexivity|]. split; [|exact I].
    cbn [runs]. rewrite Er, H1. destruct q; reflexivity.
  - unfold select in Es. rewrite En in Es. cbn [Nat.eqb] in Es. destruct base; [destruct (get_path _ _)|]; discriminate Es.
Qed.

Lemma P_quant_logical q a : P_lexpr a -> P_lexpr (EQuantLogical q a).
Proof.
  intros IH t Hwt. cbn [wt_lexpr] in Hwt.
  destruct (wt_lexpr sch a) as [ta|] eqn:Ea; [|discriminate].
  destruct ta as [| | | |[]|]; try discriminate Hwt. injection Hwt as <-. split; [reflexivity|].
  destruct (IH _ Ea) as (_ & ce & r & H1 & H2 & H3 & H4).
  destruct r as [b|l]; [destruct H4|]. destruct ce as [f|f]; [destruct H3|]. cbn [runs] in H3.
  cbn [compile_lexpr denote]. rewrite H1, H2.
  eexists; eexists; split; [reflexivity|]. split; [reflexivity|]. split; [|exact I].
  cbn [runs]. rewrite H3. destruct q; reflexivity.
Qed.

Lemma P_lnil : P_lexprs LNil.
Proof. intros t _. exists [], []. repeat split; constructor. Qed.

Lemma P_lcons e r : P_lexpr e -> P_lexprs r -> P_lexprs (LCons e r).
Proof.
  intros IHe IHr t Hwt. cbn [wt_lexprs] in Hwt.
  destruct (wt_lexpr sch e) as [t'|] eqn:Ee; [|discriminate].
  apply andb_true_iff in Hwt. destruct Hwt as [Ht Hr]. apply ty_eqb_eq in Ht. subst t'.
  destruct (IHe t Ee) as (Hty & ce & re & H1 & H2 & H3 & H4).
  destruct (IHr t Hr) as (ces & rs & H5 & H6 & H7 & H8 & H9).
  exists (ce :: ces), (re :: rs). cbn [compile_lexprs lexprs_to_list]. rewrite H1, H5.
  repeat split; constructor; auto.
Qed.

Lemma P_field f idx : P_iexpr (IField f idx).
Proof.
  intros t Hwt. cbn [wt_iexpr] in Hwt. destruct (field_ty sch f) as [t0|] eqn:Ef; [|discriminate].
  cbn [ty_iexpr iexpr_idx]. rewrite Ef, <- ty_index_ok_eq. split; [exact Hwt|].
  destruct (field_value_ok sch c f t0 Hc Ef) as (o & Hfv & Hfl & Ho).
  exists o, t0, (src_field sch f). cbn [denote_ident ident_src]. rewrite Hfl, Ef.
  split; [reflexivity|]. split; [exact Hwt|]. split; [intros v ->; exact Ho|].
  split; [reflexivity|]. split; [exact Hfv|].
  cbn [compile_iexpr_value]. rewrite Ef, <- ty_index_ok_eq, Hwt.
  apply (compile_index_value_spec c false (field_res sch f t) o t t0 idx t); auto; [|discriminate|intros v ->; exact Ho].
  unfold field_res. rewrite Hfv. destruct o; reflexivity.
Qed.

Lemma P_anil : P_args ANil.
Proof. intros _. exists [], []. repeat split; constructor. Qed.

Lemma P_acons x r : P_arg x -> P_args r -> P_args (ACons x r).
Proof.
  intros IHx IHr Hall. cbn [args_to_list] in Hall.
  destruct (Hall x (or_introl eq_refl)) as (t & Ht).
  destruct (IHx t Ht) as (cv & d & H1 & H2 & H3).
  destruct IHr as (cvs & ds & H4 & H5 & H6); [intros y Hy; apply Hall; now right|].
  exists (cv :: cvs), (d :: ds). cbn [compile_args denote_args args_to_list]. rewrite H1, H2, H4, H5.
  repeat split. constructor; assumption.
Qed.

Lemma P_alit r : P_arg (ALit r).
Proof.
  intros t Hwt. cbn [wt_arg] in Hwt. injection Hwt as <-.
  eexists; eexists. cbn [compile_arg denote_arg]. split; [reflexivity|]. split; [reflexivity|].
  cbn [arg_rel wt_arg ty_arg]. split; [reflexivity|]. split; [reflexivity|].
  exists (VOk (rhs_value r)). split; [reflexivity|]. split; [|intros H; exfalso; apply H; reflexivity].
  intros _. split; [reflexivity|]. split; [reflexivity|]. destruct r; reflexivity.
Qed.

Lemma P_alogical e : P_lexpr e -> P_arg (ALogical e).
Proof.
  intros IH t Hwt. cbn [wt_arg] in Hwt. destruct (IH t Hwt) as (Hty & ce & r & H1 & H2 & H3 & H4).
  cbn [compile_arg denote_arg]. rewrite H1, H2.
  destruct ce as [f|f], r as [b|l]; cbn [runs] in H3; try contradiction;
    destruct t as [| | | |[]|]; cbn [shape] in H4; try contradiction.
  - eexists; eexists; split; [reflexivity|]. split; [reflexivity|].
    cbn [arg_rel wt_arg ty_arg]. split; [exact Hwt|]. split; [exact Hty|].
    exists (VOk (VBool b)). split; [now rewrite H3|]. split; [|intros H; exfalso; apply H; reflexivity].
    intros _. repeat split.
  - eexists; eexists; split; [reflexivity|]. split; [reflexivity|].
    cbn [arg_rel wt_arg ty_arg]. split; [exact Hwt|]. split; [exact Hty|].
    exists (VOk (VArray TBool (map VBool l))). split; [now rewrite H3|]. split; [|intros H; exfalso; apply H; reflexivity].
    intros _. split; [reflexivity|]. split; [reflexivity|]. cbn [vres_typed]. apply has_type_array_intro.
    apply Forall_forall. intros x Hx. apply in_map_iff in Hx. destruct Hx as (b & <- & _). reflexivity.
Qed.

Lemma P_aindex e : P_iexpr e -> P_arg (AIndex e).
Proof.
  intros IH t Hwt. cbn [wt_arg] in Hwt.
  destruct (IH t Hwt) as (Hty & base & t0 & src & Hden & Hidx & Hbase & _ & _ & cv & Hcv & Hpost).
  cbn [compile_arg denote_arg]. rewrite Hcv, Hden, ty_index_spec_eq, Hidx.
  eexists; eexists; split; [reflexivity|]. split; [reflexivity|].
  cbn [arg_rel wt_arg ty_arg arg_map_each_count]. split; [exact Hwt|]. split; [exact Hty|].
  destruct (cv c) as [r|] eqn:Er; [|destruct Hpost]. destruct Hpost as (Hp0 & Hp1).
  exists r. split; [reflexivity|]. split.
  - intros En. destruct (Hp0 En) as (Hr & Hrt). unfold select in *. rewrite En in *. cbn [Nat.eqb] in *.
    assert (Hpa : forall b, sel_vres (match base with
                                      | Some v => match get_path v (iexpr_idx e) with Some x => SOne x | None => SAbsent end
                                      | None => SAbsent end) t b = r).
    { intros b. rewrite Hr. destruct base as [v|]; [destruct (get_path v (iexpr_idx e))|]; reflexivity. }
    split; [destruct base as [v|]; [destruct (get_path v (iexpr_idx e))|]; reflexivity|].
    split; [apply Hpa|exact Hrt].
  - intros En. specialize (Hp1 En). destruct (select base (iexpr_idx e)) as [|x|l]; [contradiction|contradiction|].
    destruct Hp1 as (He & Hall & Hcont). split; [|split; [exact Hcont|]].
    + rewrite He. destruct (prefix_absent base (iexpr_idx e)); reflexivity.
    + intros l' Hl'. rewrite He in Hl'. destruct (prefix_absent base (iexpr_idx e)); [discriminate|].
      injection Hl' as <-. exact Hall.
Qed.

(* ---- function calls ---- *)
Definition arg_rel' (x : arg) (r : vres) (d : option (option (list value)) * ty * vres) : Prop :=
  let '(m, t, r') := d in
  wt_arg sch x = Some t /\ ty_arg sch x = Some t /\
  (arg_map_each_count x = 0%nat -> m = None /\ r' = r /\ vres_typed r t = true) /\
  (arg_map_each_count x <> 0%nat ->
     m = Some (vres_elems r) /\ vres_container r /\
     forall l, vres_elems r = Some l -> Forall (fun v => has_type v t = true) l).

Lemma rel_extract al cvs ds :
  Forall3 arg_rel al cvs ds ->
  exists rs, Forall2 (fun (cv : cval) r => cv c = Some r) cvs rs /\ Forall3 arg_rel' al rs ds.
Proof.
  induction 1 as [|x cv d xs cvs ds Hr _ IH]; [exists []; split; constructor|].
  destruct IH as (rs & H1 & H2). destruct d as [[m t] r']. cbn [arg_rel] in Hr.
  destruct Hr as (Hw & Ht & r & Hcv & H0 & Hn0).
  exists (r :: rs). split; constructor; auto. cbn [arg_rel']. auto.
Qed.

Lemma wt_args_sig_spec a : forall sig,
  wt_args_sig sch sig a = true ->
  (length (args_to_list a) <= length sig)%nat /\
  Forall2 (fun x kt => wt_arg sch x = Some (snd kt)) (args_to_list a) (firstn (length (args_to_list a)) sig).
Proof.
  induction a as [|x r IH]; intros sig H; cbn [args_to_list length firstn].
  - split; [lia|constructor].
  - cbn [wt_args_sig] in H. destruct sig as [|[k t] sig']; [discriminate|].
    apply andb_true_iff in H. destruct H as [H Hr]. apply andb_true_iff in H. destruct H as [_ Ht].
    destruct (wt_arg sch x) as [t'|] eqn:Ex; [|discriminate]. apply ty_eqb_eq in Ht. subst t'.
    destruct (IH sig' Hr) as (Hl & Hfa). cbn [length firstn]. split; [lia|]. constructor; auto.
Qed.

Lemma wt_args_same_spec a : forall ot n,
  wt_args_same sch a = Some (ot, n) ->
  n = length (args_to_list a) /\
  match ot with
  | None => args_to_list a = []
  | Some t => args_to_list a <> [] /\ Forall (fun x => wt_arg sch x = Some t) (args_to_list a)
  end.
Proof.
  induction a as [|x r IH]; intros ot n H; cbn [wt_args_same args_to_list] in *.
  - injection H as <- <-. split; reflexivity.
  - destruct (wt_arg sch x) as [t|] eqn:Ex; [|discriminate].
    destruct (wt_args_same sch r) as [[ot' n']|] eqn:Er; [|discriminate].
    destruct (IH ot' n' eq_refl) as (Hn & Hot). destruct ot' as [t'|].
    + destruct (ty_eqb t t') eqn:Et; [|discriminate]. apply ty_eqb_eq in Et. subst t'.
      injection H as <- <-. split; [cbn; lia|]. split; [discriminate|]. destruct Hot as (_ & Hall). constructor; auto.
    + injection H as <- <-. split; [cbn; lia|]. split; [discriminate|]. rewrite Hot. constructor; auto.
Qed.

Definition defs_of (d : fn_def) (n : nat) : list vres :=
  if fn_variadic_same d then [] else defaults_of d n.

Definition typed_args (d : fn_def) (ret : ty) (n : nat) (vs : list vres) : Prop :=
  if fn_variadic_same d then Forall (fun r => vres_typed r ret = true) vs
  else Forall2 (fun r kt => vres_typed r (snd kt) = true) vs (firstn n (sig_of d)).

Definition arity_ok (d : fn_def) (ret : ty) (n : nat) : Prop :=
  if fn_variadic_same d then match ret with TArray _ | TBytes => True | _ => False end
  else (length (fn_params d) <= n <= length (sig_of d))%nat /\ ret = fn_ret d.

Lemma sig_length d : length (sig_of d) = (length (fn_params d) + length (fn_opt_params d))%nat.
Proof. unfold sig_of. now rewrite app_length, map_length. Qed.

Lemma compile_simple_spec d ret n :
  arity_ok d ret n ->
  exists callf, compile_simple d n = Some callf /\
                forall vs, length vs = n -> callf vs = fn_impl d (vs ++ defs_of d n).
Proof.
  unfold arity_ok, defs_of. destruct (fn_variadic_same d) eqn:Ev; intros Ha.
  - rewrite (compile_simple_variadic d n Ev). eexists; split; [reflexivity|]. intros vs _. now rewrite app_nil_r.
  - destruct Ha as ((H1 & H2) & _). rewrite sig_length in H2.
    rewrite (compile_simple_fixed d n Ev H1 H2). eexists; split; [reflexivity|].
    intros vs Hl. cbn beta. rewrite <- Hl, Nat.eqb_refl. reflexivity.
Qed.

Lemma impl_ok d ret n vs :
  fn_ok d -> arity_ok d ret n -> length vs = n -> typed_args d ret n vs ->
  exists r, fn_impl d (vs ++ defs_of d n) = Some r /\
            match r with Some v => has_type v ret = true | None => True end.
Proof.
  unfold fn_ok, arity_ok, typed_args, defs_of. intros (Hwf & Hok) Ha Hl Ht.
  destruct (fn_variadic_same d).
  - rewrite app_nil_r. apply Hok; assumption.
  - destruct Ha as ((H1 & H2) & ->). apply Hok.
    apply (Forall2_app_split _ vs (sig_of d) n Hl H2 Ht). apply defaults_typed; assumption.
Qed.

(* the defaults expression of the specification *)
Lemma spec_defaults d n (vs : list vres) :
  length vs = n ->
  (if fn_variadic_same d then []
   else map (fun p => VOk (snd p)) (skipn (length vs - length (fn_params d)) (fn_opt_params d))) = defs_of d n.
Proof. intros <-. reflexivity. Qed.

(* all three mapped variants of [compute] agree once the extra arguments are evaluated *)
Lemma compute_spec ret (callf : list vres -> M (option value)) d n r0 ex (extra : value -> M (list vres)) t1 :
  (forall vs, length vs = n -> callf vs = fn_impl d (vs ++ defs_of d n)) ->
  fn_ok d -> arity_ok d ret n -> S (length ex) = n ->
  (forall e, extra e = Some ex) ->
  vres_container r0 ->
  (forall l, vres_elems r0 = Some l -> Forall (fun v => has_type v t1 = true) l) ->
  (forall e, has_type e t1 = true -> typed_args d ret n (VOk e :: ex)) ->
  exists base,
    compute r0 ret callf extra = Some (res_of base (TArray ret)) /\
    (forall v, base = Some v -> has_type v (TArray ret) = true) /\
    match vres_elems r0 with
    | None => base = None
    | Some elts =>
        exists os, all_some (map (fun x => fn_impl d (VOk x :: ex ++ defs_of d n)) elts) = Some os /\
                   base = Some (VArray ret (filter_map_opt (fun r => r) os))
    end.
Proof.
  intros Hcallf Hok Har Hn Hextra Hcont Helems Htyped.
  destruct r0 as [v|ta]; cbn [vres_elems].
  2:{ exists None. cbn. repeat split. intros v H; discriminate H. }
  assert (Hcore : exists os,
            all_some (map (fun x => fn_impl d (VOk x :: ex ++ defs_of d n)) (elems v)) = Some os /\
            filter_map_call ret callf extra (elems v) = Some (filter_map_opt (fun r => r) os) /\
            Forall (fun x => has_type x ret = true) (filter_map_opt (fun r => r) os)).
  { apply (filter_map_call_spec ret callf (fun vs => fn_impl d (vs ++ defs_of d n)) ex extra (elems v)).
    - intros e _. apply Hextra.
    - intros e He. specialize (Helems (elems v) eq_refl). rewrite Forall_forall in Helems.
      destruct (impl_ok d ret n (VOk e :: ex) Hok Har) as (o & Ho & Hto); [cbn; lia|apply Htyped; auto|].
      exists o. rewrite Hcallf by (cbn; lia). auto. }
  destruct Hcore as (os & H1 & H2 & H3).
  exists (Some (VArray ret (filter_map_opt (fun r => r) os))).
  split; [|split; [intros x [= <-]; now apply has_type_array_intro|exists os; split; [exact H1|reflexivity]]].
  destruct v; try destruct Hcont; cbn [compute elems] in *; rewrite H2; reflexivity.
Qed.

Lemma plain_args_variadic al rs ds ret :
  Forall3 arg_rel' al rs ds -> Forall (fun x => arg_map_each_count x = 0%nat) al ->
  Forall (fun x => wt_arg sch x = Some ret) al ->
  map snd ds = rs /\ Forall (fun r => vres_typed r ret = true) rs /\
  match ds with (m, _, _) :: _ => m | [] => None end = None.
Proof.
  induction 1 as [|x r [[m t] r'] xs rs' ds' Hr _ IH]; intros H0 Hw.
  - repeat split; constructor.
  - inversion H0 as [|? ? Hx0 H0']; subst. inversion Hw as [|? ? Hxw Hw']; subst.
    cbn [arg_rel'] in Hr. destruct Hr as (Hwx & _ & Hz & _). destruct (Hz Hx0) as (-> & -> & Htr).
    destruct (IH H0' Hw') as (IH1 & IH2 & _). cbn [map snd]. rewrite IH1.
    split; [reflexivity|]. split; [|reflexivity]. constructor; [congruence|exact IH2].
Qed.

Lemma plain_args_fixed al rs ds : forall sg,
  Forall3 arg_rel' al rs ds -> Forall (fun x => arg_map_each_count x = 0%nat) al ->
  Forall2 (fun x (kt : arg_kind * ty) => wt_arg sch x = Some (snd kt)) al sg ->
  map snd ds = rs /\ Forall2 (fun r (kt : arg_kind * ty) => vres_typed r (snd kt) = true) rs sg /\
  match ds with (m, _, _) :: _ => m | [] => None end = None.
Proof.
  intros sg H. revert sg. induction H as [|x r [[m t] r'] xs rs' ds' Hr _ IH]; intros sg H0 Hs.
  - inversion Hs; subst. repeat split; constructor.
  - inversion H0 as [|? ? Hx0 H0']; subst. inversion Hs as [|? [k tk] ? sg' Hxw Hs']; subst.
    cbn [arg_rel'] in Hr. destruct Hr as (Hwx & _ & Hz & _). destruct (Hz Hx0) as (-> & -> & Htr).
    destruct (IH sg' H0' Hs') as (IH1 & IH2 & _). cbn [map snd]. rewrite IH1.
    split; [reflexivity|]. split; [|reflexivity]. constructor; [cbn in *; congruence|exact IH2].
Qed.

Lemma call_eval fn a d ret cvs rs ds idx :
  fn_of sch fn = Some d -> ty_ret sch fn a = Some ret ->
  arity_ok d ret (length (args_to_list a)) ->
  Forall2 (fun (cv : cval) r => cv c = Some r) cvs rs ->
  Forall3 arg_rel' (args_to_list a) rs ds ->
  denote_args sch a c = Some ds ->
  forallb (fun x => Nat.eqb (arg_map_each_count x) 0) (tl (args_to_list a)) = true ->
  (if fn_variadic_same d then Forall (fun x => wt_arg sch x = Some ret) (args_to_list a)
   else Forall2 (fun x kt => wt_arg sch x = Some (snd kt)) (args_to_list a)
                (firstn (length (args_to_list a)) (sig_of d))) ->
  let mapped := match args_to_list a with a0 :: _ => Nat.ltb 0 (arg_map_each_count a0) | [] => false end in
  let t0 := if mapped then TArray ret else ret in
  exists call base,
    compile_call_with sch fn a cvs = Some call /\ call c = Some (res_of base t0) /\
    (forall v, base = Some v -> has_type v t0 = true) /\
    denote_ident sch (ICall fn a idx) c = Some (base, t0, idx).
Proof.
  intros Ed Hret Har Hev Hrel Hden Htl Hsig mapped t0.
  pose proof (Hf fn d Ed) as Hok.
  destruct (compile_simple_spec d ret _ Har) as (callf & Hcs & Hcallf).
  unfold compile_call_with. rewrite Ed, Hret, Hcs. cbn [denote_ident]. rewrite Ed, Hden.
  set (al := args_to_list a) in *.
  assert (Hlen : length rs = length al /\ length ds = length al /\ length cvs = length al).
  { clear -Hev Hrel. revert cvs Hev. induction Hrel as [|x r dd xs rs ds _ _ IH]; intros cvs Hev.
    - inversion Hev; subst. repeat split.
    - inversion Hev as [|cv ? cvs' ? _ Hev']; subst. destruct (IH cvs' Hev') as (H1 & H2 & H3). cbn. lia. }
  destruct Hlen as (Hlrs & Hlds & Hlcv).
  assert (Hretd : (if fn_variadic_same d
                   then match ds with (_, t, _) :: _ => Some t | [] => None end
                   else Some (fn_ret d)) = Some ret \/ al = []).
  { unfold arity_ok in Har. destruct (fn_variadic_same d) eqn:Ev.
    - destruct Hrel as [|x r [[m t] r'] xs rs' ds' Hr _]; [now right|left].
      cbn [arg_rel'] in Hr. destruct Hr as (Hw & _). inversion Hsig as [|? ? Hx _]; subst. congruence.
    - left. destruct Har as (_ & ->). reflexivity. }
  (* first, the plain (non-mapped) case, shared by "no argument" and "first argument without [*]" *)
  assert (Hplain : mapped = false ->
            exists call base,
              (if Nat.ltb 0 (match al with a0 :: _ => arg_map_each_count a0 | [] => 0%nat end)
               then match cvs with
                    | [] => None
                    | first :: rest =>
                        match rest with
                        | [] => Some (fun c0 => f <- first c0;; compute f ret callf (fun _ => Some []))
                        | _ :: _ =>
                            if existsb arg_expensive (tl al)
                            then Some (fun c0 => ex <- mapM (fun g => g c0) rest;; f <- first c0;;
                                                 compute f ret callf (fun _ => Some ex))
                            else Some (fun c0 => f <- first c0;;
                                                 compute f ret callf (fun _ => mapM (fun g => g c0) rest))
                        end
                    end
               else Some (fun c0 => vs <- mapM (fun g => g c0) cvs;; o <- callf vs;;
                                    match o with
                                    | Some v => if ty_eqb (type_of v) ret then Some (VOk v) else None
                                    | None => Some (VAbsent ret)
                                    end)) = Some call /\
              call c = Some (res_of base ret) /\ (forall v, base = Some v -> has_type v ret = true) /\
              (map snd ds = rs /\ match ds with (m, _, _) :: _ => m | [] => None end = None) /\
              fn_impl d (rs ++ defs_of d (length al)) = Some base).
  { intros Hm.
    assert (Hmec : Nat.ltb 0 (match al with a0 :: _ => arg_map_each_count a0 | [] => 0%nat end) = false).
    { unfold mapped in Hm. destruct al; [reflexivity|exact Hm]. }
    rewrite Hmec.
    assert (Hall0 : Forall (fun x => arg_map_each_count x = 0%nat) al).
    { unfold mapped in Hm. destruct al as [|x0 al']; [constructor|]. constructor.
      - apply Nat.ltb_ge in Hm. lia.
      - cbn [tl] in Htl. apply Forall_forall. intros x Hx. rewrite forallb_forall in Htl.
        apply Nat.eqb_eq. now apply Htl. }
    assert (Hvs : map snd ds = rs /\ typed_args d ret (length al) rs /\
                  match ds with (m, _, _) :: _ => m | [] => None end = None).
    { unfold typed_args. destruct (fn_variadic_same d).
      - apply plain_args_variadic with (al := al); assumption.
      - apply plain_args_fixed with (al := al); assumption. }
    destruct Hvs as (Hvs & Hta & Hm0).
    destruct (impl_ok d ret (length al) rs Hok Har Hlrs Hta) as (r & Hr & Hrt).
    eexists; exists r. split; [reflexivity|]. cbn beta.
    rewrite (mapM_evals c cvs rs Hev), (Hcallf rs Hlrs), Hr.
    split.
    - destruct r as [v|]; cbn [res_of]; [|reflexivity].
      unfold has_type in Hrt. apply andb_true_iff in Hrt. destruct Hrt as [Ht _]. now rewrite Ht.
    - split; [intros v ->; exact Hrt|]. split; [split; assumption|reflexivity]. }
  destruct mapped eqn:Emapped.
  - (* mapped call *)
    destruct al as [|x0 al'] eqn:Eal; [discriminate Emapped|]. cbn [tl] in Htl.
    assert (Hmec : Nat.ltb 0 (arg_map_each_count x0) = true) by exact Emapped. rewrite Hmec.
    inversion Hrel as [|? r0 [[m0 tx0] r0'] ? rs' ds' Hr0 Hrel']; subst.
    inversion Hev as [|first ? rest ? Hfirst Hrest]; subst.
    cbn [arg_rel'] in Hr0. destruct Hr0 as (Hw0 & _ & _ & Hmapped).
    destruct Hmapped as (Hm0 & Hcont & Helems); [apply Nat.ltb_lt in Hmec; lia|]. subst m0.
    (* the remaining arguments are plain *)
    assert (Htl0 : Forall (fun x => arg_map_each_count x = 0%nat) al').
    { apply Forall_forall. intros x Hx. rewrite forallb_forall in Htl. apply Nat.eqb_eq. now apply Htl. }
    assert (Hrest_plain : map snd ds' = rs' /\
              forall e, has_type e tx0 = true -> typed_args d ret (S (length al')) (VOk e :: rs')).
    { unfold typed_args. destruct (fn_variadic_same d).
      - inversion Hsig as [|? ? Hx0 Hsig']; subst. assert (tx0 = ret) by congruence. subst tx0.
        destruct (plain_args_variadic al' rs' ds' ret Hrel' Htl0 Hsig') as (Hr1 & Hr2 & _).
        split; [exact Hr1|]. intros e He. constructor; [exact He|exact Hr2].
      - cbn [length firstn] in Hsig. destruct (sig_of d) as [|[k0 t0'] sg]; [inversion Hsig|].
        cbn [firstn] in Hsig. inversion Hsig as [|? ? ? ? Hx0 Hsig']; subst. cbn [snd] in Hx0.
        assert (tx0 = t0') by congruence. subst t0'.
        destruct (plain_args_fixed al' rs' ds' _ Hrel' Htl0 Hsig') as (Hr1 & Hr2 & _).
        split; [exact Hr1|]. intros e He. cbn [firstn]. constructor; [exact He|exact Hr2]. }
    destruct Hrest_plain as (Hsnd & Htyped).
    cbn [length] in *.
    assert (Hex : S (length rs') = S (length al')) by (cbn in Hlrs; lia).
    (* whichever of the three closures is chosen, it computes [compute] with the evaluated extras *)
    assert (Hcomp : forall extra, (forall e, extra e = Some rs') ->
              exists base,
                compute r0 ret callf extra = Some (res_of base (TArray ret)) /\
                (forall v, base = Some v -> has_type v (TArray ret) = true) /\
                match vres_elems r0 with
                | None => base = None
                | Some elts =>
                    exists os, all_some (map (fun x => fn_impl d (VOk x :: rs' ++ defs_of d (S (length al')))) elts) = Some os /\
                               base = Some (VArray ret (filter_map_opt (fun r => r) os))
                end).
    { intros extra Hextra.
      apply (compute_spec ret callf d (S (length al')) r0 rs' extra tx0); auto. }
    assert (Hclosure : exists call base,
              match rest with
              | [] => Some (fun c0 => f <- first c0;; compute f ret callf (fun _ => Some []))
              | _ :: _ =>
                  if existsb arg_expensive al'
                  then Some (fun c0 => ex <- mapM (fun g => g c0) rest;; f <- first c0;;
                                       compute f ret callf (fun _ => Some ex))
                  else Some (fun c0 => f <- first c0;;
                                       compute f ret callf (fun _ => mapM (fun g => g c0) rest))
              end = Some call /\
              call c = Some (res_of base (TArray ret)) /\
              (forall v, base = Some v -> has_type v (TArray ret) = true) /\
              match vres_elems r0 with
              | None => base = None
              | Some elts =>
                  exists os, all_some (map (fun x => fn_impl d (VOk x :: rs' ++ defs_of d (S (length al')))) elts) = Some os /\
                             base = Some (VArray ret (filter_map_opt (fun r => r) os))
              end).
    { destruct rest as [|g rest'].
      - assert (Hnil : rs' = []) by (inversion Hrest; reflexivity).
        destruct (Hcomp (fun _ => Some [])) as (base & H1 & H2 & H3); [intros _; now rewrite Hnil|].
        eexists; exists base. split; [reflexivity|]. cbn beta. rewrite Hfirst. auto.
      - destruct (existsb arg_expensive al').
        + destruct (Hcomp (fun _ => Some rs') (fun _ => eq_refl)) as (base & H1 & H2 & H3).
          eexists; exists base. split; [reflexivity|]. cbn beta.
          rewrite (mapM_evals c (g :: rest') rs' Hrest), Hfirst. auto.
        + destruct (Hcomp (fun _ => mapM (fun g0 => g0 c) (g :: rest')) (fun _ => mapM_evals c (g :: rest') rs' Hrest))
            as (base & H1 & H2 & H3).
          eexists; exists base. split; [reflexivity|]. cbn beta. rewrite Hfirst. auto. }
    destruct Hclosure as (call & base & Hcl & Hcall & Hbt & Hspec).
    exists call, base. split; [exact Hcl|]. split; [exact Hcall|]. split; [exact Hbt|].
    (* the specification side *)
    cbn [map snd tl]. rewrite Hsnd.
    assert (Hl : length (r0' :: rs') = S (length al')) by (cbn; cbn in Hlrs; lia).
    rewrite (spec_defaults d (S (length al')) (r0' :: rs') Hl).
    destruct Hretd as [Hretd|Hretd]; [|discriminate Hretd]. rewrite Hretd.
    destruct (vres_elems r0) as [elts|].
    + destruct Hspec as (os & Hos & ->). rewrite Hos. reflexivity.
    + subst base. reflexivity.
  - (* plain call *)
    destruct (Hplain eq_refl) as (call & base & Hcl & Hcall & Hbt & (Hsnd & Hm0) & Himpl).
    exists call, base. split; [exact Hcl|]. split; [exact Hcall|]. split; [exact Hbt|].
    rewrite Hsnd, Hm0.
    rewrite (spec_defaults d (length al) rs Hlrs).
    destruct Hretd as [Hretd|Hretd].
    + rewrite Hretd, Himpl. reflexivity.
    + (* no argument at all *)
      rewrite Hretd in *. inversion Hrel; subst.
      unfold arity_ok in Har. destruct (fn_variadic_same d) eqn:Ev.
      * (* a variadic definition called without arguments is not well-typed: excluded by [ty_ret] *)
        unfold ty_ret in Hret. rewrite Ed, Ev in Hret. fold al in Hret.
        destruct a; [discriminate Hret|discriminate Hretd].
      * destruct Har as (_ & ->). cbn in Himpl |- *. rewrite Himpl. reflexivity.
Qed.

Lemma P_call fn a idx : P_args a -> P_iexpr (ICall fn a idx).
Proof.
  intros IH t Hwt. cbn [wt_iexpr] in Hwt.
  destruct (fn_of sch fn) as [d|] eqn:Ed; [|discriminate].
  destruct (negb (forallb (fun x => Nat.eqb (arg_map_each_count x) 0) (tl (args_to_list a)))) eqn:Etl; [discriminate|].
  apply negb_false_iff in Etl.
  match type of Hwt with match ?X with _ => _ end = _ => destruct X as [ret|] eqn:Eret; [|discriminate] end.
  set (al := args_to_list a) in *.
  assert (Hfacts : arity_ok d ret (length al) /\
                   (forall x, In x al -> exists tx, wt_arg sch x = Some tx) /\
                   (if fn_variadic_same d then Forall (fun x => wt_arg sch x = Some ret) al /\ al <> []
                    else Forall2 (fun x (kt : arg_kind * ty) => wt_arg sch x = Some (snd kt)) al
                                 (firstn (length al) (sig_of d)))).
  { unfold arity_ok. destruct (fn_variadic_same d) eqn:Ev.
    - destruct (wt_args_same sch a) as [[[tt|] n]|] eqn:Es; try discriminate Eret.
      destruct (wt_args_same_spec a _ _ Es) as (Hn & Hne & Hall). fold al in Hn, Hne, Hall.
      destruct (Nat.leb 2 n && match tt with TArray _ | TBytes => true | _ => false end)%bool eqn:Ec; [|discriminate].
      injection Eret as <-. apply andb_true_iff in Ec. destruct Ec as [_ Ec].
      split; [destruct tt; try discriminate Ec; exact I|]. split.
      + intros x Hx. rewrite Forall_forall in Hall. eauto.
      + split; assumption.
    - match type of Eret with (if ?C then _ else _) = _ => destruct C eqn:Ec; [|discriminate] end.
      injection Eret as <-. apply andb_true_iff in Ec. destruct Ec as [Ec Hs].
      apply andb_true_iff in Ec. destruct Ec as [E1 E2]. apply Nat.leb_le in E1, E2. fold al in E1, E2.
      destruct (wt_args_sig_spec a _ Hs) as (Hl & Hall). fold al in Hl, Hall.
      split; [split; [rewrite sig_length; lia|reflexivity]|]. split; [|exact Hall].
      intros x Hx. clear -Hall Hx. induction Hall as [|y kt ys kts Hy _ IHa]; [destruct Hx|].
      destruct Hx as [<-|Hx]; eauto. }
  destruct Hfacts as (Har & Hall & Hsig).
  destruct (IH Hall) as (cvs & ds & Hcargs & Hdargs & Hrel).
  destruct (rel_extract _ _ _ Hrel) as (rs & Hev & Hrel').
  assert (Hfirst : fn_variadic_same d = true -> ty_args_first sch a = Some ret).
  { intros Ev. rewrite Ev in Hsig. destruct Hsig as (Hw & Hne).
    destruct a as [|x0 r0]; [now elim Hne|]. cbn [ty_args_first]. cbn [args_to_list] in al. subst al.
    inversion Hrel' as [|? r [[m tx] r'] ? ? ? Hr _]; subst. cbn [arg_rel'] in Hr. destruct Hr as (Hwx & Htx & _).
    inversion Hw; subst. congruence. }
  assert (Hret : ty_ret sch fn a = Some ret).
  { unfold ty_ret. rewrite Ed. unfold arity_ok in Har. destruct (fn_variadic_same d); [auto|]. destruct Har as (_ & ->). reflexivity. }
  assert (Hsig' : if fn_variadic_same d then Forall (fun x => wt_arg sch x = Some ret) al
                  else Forall2 (fun x (kt : arg_kind * ty) => wt_arg sch x = Some (snd kt)) al (firstn (length al) (sig_of d)))
    by (destruct (fn_variadic_same d); [exact (proj1 Hsig)|exact Hsig]).
  destruct (call_eval fn a d ret cvs rs ds idx Ed Hret Har Hev Hrel' Hdargs Etl Hsig') as (call & base & Hcall & Hcc & Hbt & Hden).
  fold al in Hden, Hcc, Hbt.
  set (mapped := match al with a0 :: _ => Nat.ltb 0 (arg_map_each_count a0) | [] => false end) in *.
  set (t0 := if mapped then TArray ret else ret) in *.
  assert (Htc : ty_call_of sch fn a (ty_args_first sch a) = Some t0).
  { unfold ty_call_of. rewrite Ed.
    assert (Hr' : (if fn_variadic_same d then ty_args_first sch a else Some (fn_ret d)) = Some ret).
    { unfold arity_ok in Har. destruct (fn_variadic_same d); [auto|]. destruct Har as (_ & ->). reflexivity. }
    rewrite Hr'. unfold t0, mapped, al. destruct a as [|x0 r0]; cbn [args_to_list]; [reflexivity|].
    destruct (Nat.ltb 0 (arg_map_each_count x0)); reflexivity. }
  cbn [ty_iexpr iexpr_idx]. rewrite Htc, <- ty_index_ok_eq. split; [exact Hwt|].
  exists base, t0, (src_call call). split; [exact Hden|]. split; [exact Hwt|]. split; [exact Hbt|].
  cbn [ident_src]. rewrite Hcargs, Hcall. split; [reflexivity|].
  split; [unfold src_call; rewrite Hcc; destruct base; reflexivity|].
  cbn [compile_iexpr_value]. unfold ty_call. rewrite Htc, Hcargs, Hcall.
  apply (compile_index_value_spec c true call base t0 t0 idx t); auto.
Qed.

(* ---- the mutual induction ---- *)
Theorem full_correct_mut :
  (forall e, P_lexpr e) /\ (forall l, P_lexprs l) /\ (forall e, P_iexpr e) /\
  (forall a, P_args a) /\ (forall a, P_arg a).
Proof.
  apply ast_mutind.
  - intros op items IH. now apply P_combining.
  - intros lhs IH op. now apply P_comparison.
  - intros e IH. now apply P_paren.
  - intros e IH. now apply P_not.
  - intros q a IH. now apply P_quant_index.
  - intros q a IH. now apply P_quant_logical.
  - exact P_lnil.
  - intros e IHe r IHr. now apply P_lcons.
  - intros f idx. apply P_field.
  - intros fn a IH idx. now apply P_call.
  - exact P_anil.
  - intros x IHx r IHr. now apply P_acons.
  - intros e IH. now apply P_aindex.
  - intros r. apply P_alit.
  - intros e IH. now apply P_alogical.
Qed.

End Main.

(* ---- the statements used by the property files ---- *)

Theorem filter_exec_is_denote sch e c :
  wt_filter sch e = true -> ctx_ok sch c = true -> fns_ok sch ->
  exists b, run_filter sch e c = Some b /\ denote_filter sch e c = Some b.
Proof.
  intros Hwt Hc Hf. unfold wt_filter in Hwt.
  destruct (wt_lexpr sch e) as [[| | | | |]|] eqn:Et; try discriminate Hwt.
  destruct (full_correct_mut sch c Hc Hf) as (H & _).
  destruct (H e TBool Et) as (_ & ce & r & H1 & H2 & H3 & H4).
  destruct r as [b|l]; [|destruct H4]. destruct ce as [f|f]; [|destruct H3]. cbn in H3.
  exists b. unfold run_filter, denote_filter. rewrite H1, H2. auto.
Qed.

(* a value expression yields a value of its static type or a typed absence *)
Theorem value_exec_is_denote sch e c t :
  wt_value sch e = Some t -> ctx_ok sch c = true -> fns_ok sch ->
  exists r, run_value sch e c = Some r /\ denote_value sch e c = Some r /\
            match r with VOk v => has_type v t = true | VAbsent t' => t' = t end.
Proof.
  intros Hwt Hc Hf. unfold wt_value in Hwt.
  destruct (wt_iexpr sch e) as [t'|] eqn:Et; [|discriminate].
  destruct (Nat.eqb (map_each_count (iexpr_idx e)) 0) eqn:En; [|discriminate]. injection Hwt as ->.
  apply Nat.eqb_eq in En.
  destruct (full_correct_mut sch c Hc Hf) as (_ & _ & H & _).
  destruct (H e t Et) as (_ & base & t0 & src & Hden & Hidx & Hbase & _ & _ & cv & Hcv & Hpost).
  unfold run_value, denote_value. rewrite Hcv, Hden, ty_index_spec_eq, Hidx.
  destruct (cv c) as [r|]; [|destruct Hpost]. destruct Hpost as (Hp0 & _). destruct (Hp0 En) as (-> & Hrt).
  eexists; split; [reflexivity|]. split; [reflexivity|].
  unfold select in *. rewrite En in *. cbn [Nat.eqb] in *.
  destruct base as [v|]; [destruct (get_path v (iexpr_idx e))|]; cbn in *; auto.
Qed.
