(* C07, part 1: the serializer model produces exactly the canonical document
   of the structure of the filter; its compact printer is the JSON text writer
   of Sem/JsonText.v; the FNV-1a model is its fold specification and does not
   depend on how the text is cut into pieces. *)
From Coq Require Import List ZArith NArith Bool String Lia.
From WF Require Import Base.Bytes Base.Sexp Sem.RangeSet Lang.Types Lang.Ast Sem.TypeCodec Sem.JsonText
     Parse.Lex Sem.AstJson Spec.C07.
Import ListNotations.
Open Scope N_scope.

(* ---- an induction principle for the nested type json ---- *)
Section JsonInd.
  Variable P : json -> Prop.
  Hypothesis HNull : P JNull.
  Hypothesis HBool : forall v, P (JBool v).
  Hypothesis HNum : forall z, P (JNum z).
  Hypothesis HStr : forall x, P (JStr x).
  Hypothesis HArr : forall l, Forall P l -> P (JArr l).
  Hypothesis HObj : forall l, Forall (fun kv => P (snd kv)) l -> P (JObj l).

  Fixpoint json_ind2 (j : json) : P j :=
    match j with
    | JNull => HNull
    | JBool v => HBool v
    | JNum z => HNum z
    | JStr x => HStr x
    | JArr l =>
        HArr l ((fix go (l : list json) : Forall P l :=
                   match l with
                   | [] => Forall_nil P
                   | x :: r => Forall_cons x (json_ind2 x) (go r)
                   end) l)
    | JObj l =>
        HObj l ((fix go (l : list (bytes * json)) : Forall (fun kv => P (snd kv)) l :=
                   match l with
                   | [] => Forall_nil _
                   | kv :: r => Forall_cons kv (json_ind2 (snd kv)) (go r)
                   end) l)
    end.
End JsonInd.

(* ---- the model is the canonical document ---- *)

Lemma field_name_spec sch f : field_name sch f = name_of_field sch f.
Proof.
  unfold field_name, name_of_field. revert f.
  induction (sc_fields sch) as [|d l IH]; intros [|f]; cbn; auto.
Qed.

Lemma fn_name_spec sch f : fn_name sch f = name_of_fn sch f.
Proof.
  unfold fn_name, name_of_fn. revert f.
  induction (sc_functions sch) as [|d l IH]; intros [|f]; cbn; auto.
Qed.

Lemma json_bytes_doc x f : json_bytes_expr x f = doc_bytes x f.
Proof. unfold json_bytes_expr, doc_bytes, shown_as_text, json_u8_seq, nums. destruct f; reflexivity. Qed.

Lemma json_rhs_doc r : json_rhs r = doc_rhs r.
Proof. destruct r as [z|x f|a]; cbn; [reflexivity|apply json_bytes_doc|reflexivity]. Qed.

Lemma json_ip_item_doc it : json_ip_item it = doc_ip_item it.
Proof. destruct it; reflexivity. Qed.

Lemma json_index_doc i : json_index i = doc_index i.
Proof. destruct i; reflexivity. Qed.

Lemma with_indexes_doc j idx : with_indexes j idx = doc_indexed j idx.
Proof.
  destruct idx as [|i r]; reflexivity.
Qed.

Lemma json_cmpop_doc lhs op :
  ser_struct ((jkey "lhs", lhs) :: json_cmpop_fields op)
  = match doc_cmpop op with
    | (name, Some r) => obj [("lhs", lhs); ("op", txt name); ("rhs", r)]%string
    | (name, None) => obj [("lhs", lhs); ("op", txt name)]%string
    end.
Proof.
  destruct op as [|o r|z|p f|pat raw|st p f|l|l|l|li name]; cbn [json_cmpop_fields doc_cmpop op_rhs].
  - reflexivity.
  - rewrite json_rhs_doc. destruct o; reflexivity.
  - reflexivity.
  - rewrite json_bytes_doc. reflexivity.
  - reflexivity.
  - rewrite json_bytes_doc. destruct st; reflexivity.
  - reflexivity.
  - reflexivity.
  - rewrite (map_ext _ _ (fun p => json_bytes_doc (fst p) (snd p))). reflexivity.
  - reflexivity.
Qed.

Lemma json_is_doc_mut sch :
  (forall e, json_of_lexpr sch e = doc sch e) /\
  (forall l, json_of_lexprs sch l = doc_list sch l) /\
  (forall e, json_of_iexpr sch e = doc_i sch e) /\
  (forall a, json_of_args sch a = doc_args sch a) /\
  (forall a, json_of_arg sch a = doc_arg sch a).
Proof.
  apply ast_mutind.
  - intros op items IH. cbn [json_of_lexpr doc]. rewrite IH. destruct op; reflexivity.
  - intros lhs IH op. cbn [json_of_lexpr doc]. rewrite json_cmpop_doc, IH. reflexivity.
  - intros e IH. exact IH.
  - intros e IH. cbn [json_of_lexpr doc]. rewrite IH. reflexivity.
  - intros q a IH. cbn [json_of_lexpr doc]. rewrite IH. destruct q; reflexivity.
  - intros q a IH. cbn [json_of_lexpr doc]. rewrite IH. destruct q; reflexivity.
  - reflexivity.
  - intros e IHe r IHr. cbn [json_of_lexprs doc_list]. now rewrite IHe, IHr.
  - intros f idx. cbn [json_of_iexpr doc_i]. now rewrite with_indexes_doc, field_name_spec.
  - intros fn a IH idx. cbn [json_of_iexpr doc_i]. now rewrite with_indexes_doc, fn_name_spec, IH.
  - reflexivity.
  - intros x IHx r IHr. cbn [json_of_args doc_args]. now rewrite IHx, IHr.
  - intros e IH. cbn [json_of_arg doc_arg]. now rewrite IH.
  - intros r. cbn [json_of_arg doc_arg]. now rewrite json_rhs_doc.
  - intros e IH. cbn [json_of_arg doc_arg]. now rewrite IH.
Qed.

Lemma json_is_doc sch e : json_of_lexpr sch e = doc sch e.
Proof. exact (proj1 (json_is_doc_mut sch) e). Qed.

(* the document depends on the structure only *)
Lemma shown_erase x f : shown_as_text x (erase_fmt x f) = shown_as_text x f.
Proof.
  unfold erase_fmt. destruct (shown_as_text x f) eqn:E; [|reflexivity].
  unfold shown_as_text in *. destruct f; try discriminate; exact E.
Qed.

Lemma doc_bytes_erase x f : doc_bytes x (erase_fmt x f) = doc_bytes x f.
Proof. unfold doc_bytes. now rewrite shown_erase. Qed.

Lemma doc_rhs_erase r : doc_rhs (erase_rhs r) = doc_rhs r.
Proof. destruct r; cbn; [reflexivity|apply doc_bytes_erase|reflexivity]. Qed.

Lemma doc_cmpop_erase op : doc_cmpop (erase_cmpop op) = doc_cmpop op.
Proof.
  destruct op as [|o r|z|p f|pat raw|st p f|l|l|l|li name]; cbn [erase_cmpop doc_cmpop]; try reflexivity.
  - rewrite doc_rhs_erase. reflexivity.
  - now rewrite doc_bytes_erase.
  - now rewrite doc_bytes_erase.
  - rewrite map_map. cbn [fst snd].
    replace (map (fun x => doc_bytes (fst x) (erase_fmt (fst x) (snd x))) l)
      with (map (fun p => doc_bytes (fst p) (snd p)) l)
      by (apply map_ext; intro; now rewrite doc_bytes_erase).
    reflexivity.
Qed.

Lemma doc_erase_mut sch :
  (forall e, doc sch (erase e) = doc sch e) /\
  (forall l, doc_list sch (erase_list l) = doc_list sch l) /\
  (forall e, doc_i sch (erase_i e) = doc_i sch e) /\
  (forall a, doc_args sch (erase_args a) = doc_args sch a) /\
  (forall a, doc_arg sch (erase_arg a) = doc_arg sch a).
Proof.
  apply ast_mutind.
  - intros op items IH. cbn [erase doc]. now rewrite IH.
  - intros lhs IH op. cbn [erase doc]. now rewrite doc_cmpop_erase, IH.
  - intros e IH. exact IH.
  - intros e IH. cbn [erase doc]. now rewrite IH.
  - intros q a IH. cbn [erase doc]. now rewrite IH.
  - intros q a IH. cbn [erase doc]. now rewrite IH.
  - reflexivity.
  - intros e IHe r IHr. cbn [erase_list doc_list]. now rewrite IHe, IHr.
  - reflexivity.
  - intros fn a IH idx. cbn [erase_i doc_i]. now rewrite IH.
  - reflexivity.
  - intros x IHx r IHr. cbn [erase_args doc_args]. now rewrite IHx, IHr.
  - intros e IH. cbn [erase_arg doc_arg]. now rewrite IH.
  - intros r. cbn [erase_arg doc_arg]. now rewrite doc_rhs_erase.
  - intros e IH. cbn [erase_arg doc_arg]. now rewrite IH.
Qed.

Theorem json_is_canon_doc sch e : json_of_lexpr sch e = canon_doc sch e.
Proof. unfold canon_doc. rewrite (proj1 (doc_erase_mut sch)). apply json_is_doc. Qed.

(* structurally equal filters have the same document *)
Theorem struct_eq_same_doc sch e1 e2 : struct_eq e1 e2 -> json_of_lexpr sch e1 = json_of_lexpr sch e2.
Proof. unfold struct_eq. intro H. rewrite !json_is_canon_doc. unfold canon_doc. now rewrite H. Qed.

(* erasing twice is erasing once: the structure is a normal form *)
Lemma erase_fmt_idem x f : erase_fmt x (erase_fmt x f) = erase_fmt x f.
Proof. unfold erase_fmt at 1. rewrite shown_erase. reflexivity. Qed.

Lemma erase_idem_mut :
  (forall e, erase (erase e) = erase e) /\
  (forall l, erase_list (erase_list l) = erase_list l) /\
  (forall e, erase_i (erase_i e) = erase_i e) /\
  (forall a, erase_args (erase_args a) = erase_args a) /\
  (forall a, erase_arg (erase_arg a) = erase_arg a).
Proof.
  apply ast_mutind; cbn [erase erase_list erase_i erase_args erase_arg]; try congruence.
  - intros lhs IH op. rewrite IH. f_equal.
    destruct op as [|o r|z|p f|pat raw|st p f|l|l|l|li name]; cbn [erase_cmpop]; try reflexivity.
    + destruct r; cbn [erase_rhs]; try reflexivity. now rewrite erase_fmt_idem.
    + now rewrite erase_fmt_idem.
    + now rewrite erase_fmt_idem.
    + rewrite map_map. cbn [fst snd]. f_equal. apply map_ext. intro. now rewrite erase_fmt_idem.
  - intros r. destruct r; cbn [erase_rhs]; try reflexivity. now rewrite erase_fmt_idem.
Qed.

(* ---- the printer is serde_json's compact writer of Sem/JsonText.v ---- *)

Lemma join_sep_cons sep g r : join_sep sep (g :: r) = g ++ match r with [] => [] | _ => sep :: join_sep sep r end.
Proof. destruct r; cbn [join_sep]; [now rewrite app_nil_r|reflexivity]. Qed.

Lemma jprint_is_json_print : forall j, jprint j = json_print j.
Proof.
  induction j as [| v | z | x | l IH | l IH] using json_ind2; try reflexivity.
  - cbn [jprint json_print]. f_equal.
    assert (G : forall first,
      (fix go (l : list json) (first : bool) {struct l} : bytes :=
         match l with
         | [] => [93]
         | x :: l' => (if first then [] else [44]) ++ json_print x ++ go l' false
         end) l first
      = (match l with [] => [] | _ => if first then [] else [44] end) ++ join_sep 44 (map jprint l) ++ [93]).
    { induction IH as [|x r Hx Hr IHr]; intro first; [reflexivity|].
      rewrite IHr. cbn [map]. rewrite join_sep_cons, <- Hx. destruct r as [|y r'].
      - cbn [map join_sep]. now rewrite !app_nil_r, app_nil_l.
      - cbn [map]. rewrite <- !app_assoc. reflexivity. }
    rewrite G. now destruct l.
  - cbn [jprint json_print]. f_equal.
    assert (G : forall first,
      (fix go (l : list (bytes * json)) (first : bool) {struct l} : bytes :=
         match l with
         | [] => [125]
         | (k, v) :: l' => (if first then [] else [44]) ++ print_jstr k ++ 58 :: json_print v ++ go l' false
         end) l first
      = (match l with [] => [] | _ => if first then [] else [44] end)
        ++ join_sep 44 (map (fun kv => match kv with (k, v) => jprint_member k (jprint v) end) l) ++ [125]).
    { induction IH as [|[k v] r Hx Hr IHr]; intro first; [reflexivity|].
      rewrite IHr. cbn [map]. rewrite join_sep_cons. cbn [snd] in Hx. rewrite <- Hx. unfold jprint_member.
      destruct r as [|y r'].
      - cbn [map join_sep app]. rewrite !app_nil_r. rewrite <- !app_assoc. reflexivity.
      - cbn [map app]. rewrite <- !app_assoc. cbn [app]. rewrite <- ?app_assoc. reflexivity. }
    rewrite G. now destruct l.
Qed.

Theorem filter_text_is_canon_text sch e : filter_json_text sch e = canon_text sch e.
Proof. unfold filter_json_text, canon_text. now rewrite jprint_is_json_print, json_is_canon_doc. Qed.

(* ---- FNV-1a ---- *)

Lemma fnv_step_model h c : N.land (FNV_PRIME * N.lxor h c) U64_MASK = fnv_step h c.
Proof.
  unfold fnv_step. change U64_MASK with (N.ones 64). rewrite N.land_ones.
  unfold FNV_PRIME. now rewrite N.mul_comm.
Qed.

Lemma fnv_write_fold text : forall h, fnv_write h text = fold_left fnv_step text h.
Proof. induction text as [|c r IH]; intro h; cbn [fnv_write fold_left]; [reflexivity|]. now rewrite fnv_step_model, IH. Qed.

Theorem fnv_model_is_spec text : fnv1a64 text = fnv1a_spec text.
Proof. apply fnv_write_fold. Qed.

Lemma fnv_write_app a : forall h c, fnv_write h (a ++ c) = fnv_write (fnv_write h a) c.
Proof. induction a as [|x r IH]; intros h c; cbn [fnv_write app]; [reflexivity|apply IH]. Qed.

(* however serde_json cuts the text into write calls, the hash is that of the whole text *)
Theorem fnv_chunking_irrelevant chunks : forall h, fnv_write_all h chunks = fnv_write h (List.concat chunks).
Proof.
  induction chunks as [|c r IH]; intro h; cbn [fnv_write_all List.concat]; [reflexivity|].
  now rewrite IH, fnv_write_app.
Qed.

Lemma fnv_step_lt h c : fnv_step h c < 2 ^ 64.
Proof. unfold fnv_step. apply N.mod_lt. discriminate. Qed.

(* the hash is a u64 *)
Theorem fnv_range text : fnv1a_spec text < 2 ^ 64.
Proof.
  unfold fnv1a_spec. set (h0 := 14695981039346656037).
  assert (H0 : h0 < 2 ^ 64) by (now vm_compute).
  clearbody h0. revert h0 H0. induction text as [|c r IH]; intros h0 H0; cbn [fold_left]; [exact H0|].
  apply IH, fnv_step_lt.
Qed.

Theorem filter_hash_is_canon_hash sch e : filter_hash sch e = canon_hash sch e.
Proof. unfold filter_hash, canon_hash. now rewrite fnv_model_is_spec, filter_text_is_canon_text. Qed.

(* equal structure: equal document, equal text, equal hash *)
Theorem struct_eq_same_hash sch e1 e2 :
  struct_eq e1 e2 ->
  filter_json_text sch e1 = filter_json_text sch e2 /\ filter_hash sch e1 = filter_hash sch e2.
Proof.
  intro H. unfold filter_hash, filter_json_text. rewrite (struct_eq_same_doc sch e1 e2 H). split; reflexivity.
Qed.
