(* The text form of an address (Display, Sem/CtxSerde.v) is read back by the
   model of IpAddr::from_str (Parse/Lex.v) as the same address: every IPv4 and
   every IPv6 address, whatever its zero groups. *)
From Coq Require Import List NArith ZArith Bool Lia Arith.
From WF Require Import Base.Bytes Base.Sexp Sem.RangeSet Parse.Lex Sem.CtxSerde.
Import ListNotations.
Open Scope N_scope.

(* ---- splitting a text at a separator ---- *)

Definition free_of (sep : N) (s : bytes) : Prop := forallb (fun b => negb (b =? sep)) s = true.

Lemma split_on_free sep s : forall cur, free_of sep s -> split_on sep s cur = [rev cur ++ s].
Proof.
  induction s as [|b s IH]; intros cur H; cbn [split_on].
  - now rewrite app_nil_r.
  - unfold free_of in H. cbn [forallb] in H. apply andb_true_iff in H. destruct H as [Hb Hs].
    apply negb_true_iff in Hb. rewrite Hb. rewrite (IH (b :: cur) Hs). cbn [rev]. now rewrite <- app_assoc.
Qed.

Lemma split_on_sep sep s t : forall cur,
  free_of sep s -> split_on sep (s ++ sep :: t) cur = (rev cur ++ s) :: split_on sep t [].
Proof.
  induction s as [|b s IH]; intros cur H; cbn [split_on app].
  - rewrite N.eqb_refl. now rewrite app_nil_r.
  - unfold free_of in H. cbn [forallb] in H. apply andb_true_iff in H. destruct H as [Hb Hs].
    apply negb_true_iff in Hb. rewrite Hb. rewrite (IH (b :: cur) Hs). cbn [rev]. now rewrite <- app_assoc.
Qed.

Lemma free_of_app sep a b : free_of sep a -> free_of sep b -> free_of sep (a ++ b).
Proof. unfold free_of. intros Ha Hb. now rewrite forallb_app, Ha, Hb. Qed.

(* ---- IPv4 ---- *)

Definition octets : list N := map N.of_nat (seq 0 256).

Definition octet_ok (o : N) : bool :=
  match dec_octet (print_N o) with Some z => (z =? Z.of_N o)%Z | None => false end
  && forallb (fun b => negb (b =? 46)) (print_N o)
  && forallb (fun b => negb (b =? 58)) (print_N o)
  && negb (forallb is_hexdigit (print_N o ++ [46])).

Lemma octets_ok : forallb octet_ok octets = true.
Proof. vm_compute. reflexivity. Qed.

Lemma octet_in o : o < 256 -> In o octets.
Proof.
  intros H. unfold octets. rewrite <- (N2Nat.id o). apply in_map. apply in_seq. lia.
Qed.

Lemma octet_facts o : o < 256 ->
  dec_octet (print_N o) = Some (Z.of_N o) /\ free_of 46 (print_N o) /\ free_of 58 (print_N o).
Proof.
  intros H. pose proof octets_ok as Hall. rewrite forallb_forall in Hall.
  specialize (Hall o (octet_in o H)). unfold octet_ok in Hall.
  repeat (apply andb_true_iff in Hall; destruct Hall as [Hall ?]).
  destruct (dec_octet (print_N o)) as [z|]; [|discriminate].
  apply Z.eqb_eq in Hall. subst z. repeat split; assumption.
Qed.

Lemma octet_lt a i : octet a i < 256.
Proof.
  unfold octet. pose proof (Z.mod_pos_bound (a / 256 ^ i) 256 ltac:(lia)). lia.
Qed.

Lemma octet_Z a i : Z.of_N (octet a i) = ((a / 256 ^ i) mod 256)%Z.
Proof.
  unfold octet. pose proof (Z.mod_pos_bound (a / 256 ^ i) 256 ltac:(lia)). lia.
Qed.

Lemma v4_value a : (0 <= a < 2 ^ 32)%Z ->
  ((((a / 256 ^ 3) mod 256 * 256 + (a / 256 ^ 2) mod 256) * 256 + (a / 256 ^ 1) mod 256) * 256
   + (a / 256 ^ 0) mod 256 = a)%Z.
Proof.
  intros H. change (256 ^ 3)%Z with (256 * 256 * 256)%Z. change (256 ^ 2)%Z with (256 * 256)%Z.
  change (256 ^ 1)%Z with 256%Z. change (256 ^ 0)%Z with 1%Z. change (2 ^ 32)%Z with 4294967296%Z in H.
  rewrite Z.div_1_r. rewrite <- !Z.div_div by lia.
  pose proof (Z.div_mod a 256 ltac:(lia)). pose proof (Z.mod_pos_bound a 256 ltac:(lia)).
  set (q1 := (a / 256)%Z) in *.
  pose proof (Z.div_mod q1 256 ltac:(lia)). pose proof (Z.mod_pos_bound q1 256 ltac:(lia)).
  set (q2 := (q1 / 256)%Z) in *.
  pose proof (Z.div_mod q2 256 ltac:(lia)). pose proof (Z.mod_pos_bound q2 256 ltac:(lia)).
  set (q3 := (q2 / 256)%Z) in *.
  assert (0 <= q3 < 256)%Z by lia.
  rewrite (Z.mod_small q3 256) by lia. lia.
Qed.

Theorem parse_show_v4 a : (0 <= a < 2 ^ 32)%Z -> parse_v4 (show_v4 a) = Some a.
Proof.
  intros H. unfold parse_v4, show_v4.
  destruct (octet_facts _ (octet_lt a 3)) as (D3 & F3 & _).
  destruct (octet_facts _ (octet_lt a 2)) as (D2 & F2 & _).
  destruct (octet_facts _ (octet_lt a 1)) as (D1 & F1 & _).
  destruct (octet_facts _ (octet_lt a 0)) as (D0 & F0 & _).
  cbn [app].
  rewrite (split_on_sep 46 _ _ [] F3). rewrite (split_on_sep 46 _ _ [] F2). rewrite (split_on_sep 46 _ _ [] F1).
  rewrite (split_on_free 46 _ [] F0). cbn [rev app].
  rewrite D3, D2, D1, D0. rewrite !octet_Z. f_equal. apply v4_value. exact H.
Qed.

Lemma show_v4_free58 a : free_of 58 (show_v4 a).
Proof.
  unfold show_v4.
  destruct (octet_facts _ (octet_lt a 3)) as (_ & _ & F3).
  destruct (octet_facts _ (octet_lt a 2)) as (_ & _ & F2).
  destruct (octet_facts _ (octet_lt a 1)) as (_ & _ & F1).
  destruct (octet_facts _ (octet_lt a 0)) as (_ & _ & F0).
  repeat apply free_of_app; try assumption; reflexivity.
Qed.

Lemma show_v4_not_hex a : forallb is_hexdigit (show_v4 a) = false.
Proof.
  unfold show_v4. rewrite forallb_app. cbn [app forallb].
  replace (is_hexdigit 46) with false by reflexivity. cbn [andb]. apply andb_false_r.
Qed.

(* ---- IPv6: groups ---- *)

Definition nibbles : list N := map N.of_nat (seq 0 16).

Definition hex16_ok (n : N) : bool :=
  let g := Z.of_N n in
  match hex_group (show_hex16 g) with Some z => (z =? g)%Z | None => false end
  && forallb (fun b => negb (b =? 58)) (show_hex16 g)
  && match show_hex16 g with [] => false | _ => true end
  && forallb (fun b => negb (b =? 46)) (show_hex16 g).

Lemma hex16_all :
  forallb (fun d3 => forallb (fun d2 => forallb (fun d1 => forallb (fun d0 =>
    hex16_ok (d3 * 4096 + d2 * 256 + d1 * 16 + d0)) nibbles) nibbles) nibbles) nibbles = true.
Proof. vm_compute. reflexivity. Qed.

Lemma nibble_in d : d < 16 -> In d nibbles.
Proof. intros H. unfold nibbles. rewrite <- (N2Nat.id d). apply in_map. apply in_seq. lia. Qed.

Lemma hex16_facts g : (0 <= g < 65536)%Z ->
  hex_group (show_hex16 g) = Some g /\ free_of 58 (show_hex16 g) /\ show_hex16 g <> [] /\ free_of 46 (show_hex16 g).
Proof.
  intros H. remember (Z.to_N g) as n eqn:En. assert (Hn : n < 65536) by lia. assert (Hg : g = Z.of_N n) by lia. clear En.
  assert (B3 : n / 4096 < 16) by (apply N.div_lt_upper_bound; lia).
  assert (B2 : (n / 256) mod 16 < 16) by (apply N.mod_lt; lia).
  assert (B1 : (n / 16) mod 16 < 16) by (apply N.mod_lt; lia).
  assert (B0 : n mod 16 < 16) by (apply N.mod_lt; lia).
  pose proof hex16_all as Hall. rewrite forallb_forall in Hall.
  specialize (Hall _ (nibble_in _ B3)). rewrite forallb_forall in Hall.
  specialize (Hall _ (nibble_in _ B2)). rewrite forallb_forall in Hall.
  specialize (Hall _ (nibble_in _ B1)). rewrite forallb_forall in Hall.
  specialize (Hall _ (nibble_in _ B0)).
  assert (E : n / 4096 * 4096 + (n / 256) mod 16 * 256 + (n / 16) mod 16 * 16 + n mod 16 = n).
  { pose proof (N.div_mod n 16 ltac:(lia)). pose proof (N.mod_lt n 16 ltac:(lia)).
    set (q1 := n / 16) in *.
    pose proof (N.div_mod q1 16 ltac:(lia)). pose proof (N.mod_lt q1 16 ltac:(lia)).
    assert (E2 : n / 256 = q1 / 16) by (unfold q1; rewrite N.div_div by lia; reflexivity).
    assert (E3 : n / 4096 = q1 / 16 / 16) by (unfold q1; rewrite !N.div_div by lia; reflexivity).
    rewrite E2, E3. set (q2 := q1 / 16) in *.
    pose proof (N.div_mod q2 16 ltac:(lia)). pose proof (N.mod_lt q2 16 ltac:(lia)). lia. }
  rewrite E in Hall. unfold hex16_ok in Hall. rewrite <- Hg in Hall.
  apply andb_true_iff in Hall. destruct Hall as [Hall H46].
  apply andb_true_iff in Hall. destruct Hall as [Hall Hne].
  apply andb_true_iff in Hall. destruct Hall as [Hhex Hfree].
  destruct (hex_group (show_hex16 g)) as [z|]; [|discriminate]. apply Z.eqb_eq in Hhex. subst z.
  repeat split; [exact Hfree| |exact H46]. intros E0. rewrite E0 in Hne. discriminate.
Qed.

Definition is_group (g : Z) : Prop := (0 <= g < 65536)%Z.

(* the text of a run of groups: no "::", does not end with ':' *)
Lemma join_cons x l : l <> [] -> join_colon (x :: l) = x ++ 58 :: join_colon l.
Proof. destruct l; [congruence|reflexivity]. Qed.

Lemma parts_of_join (l : list bytes) :
  Forall (fun p => free_of 58 p /\ p <> []) l -> parts_of (join_colon l) = l.
Proof.
  intros H. destruct l as [|x l]; [reflexivity|].
  assert (Hne : join_colon (x :: l) <> []).
  { inversion H as [|? ? [_ Hx] _]; subst. destruct l; cbn [join_colon]; [exact Hx|]. destruct x; [congruence|discriminate]. }
  unfold parts_of. destruct (join_colon (x :: l)) eqn:E; [congruence|]. rewrite <- E. clear E Hne.
  revert x H. induction l as [|y l IH]; intros x H.
  - cbn [join_colon]. inversion H as [|? ? [Hx _] _]; subst. now rewrite (split_on_free 58 x [] Hx).
  - rewrite join_cons by discriminate. inversion H as [|? ? [Hx _] Hr]; subst.
    rewrite (split_on_sep 58 x _ [] Hx). cbn [rev app]. f_equal. apply IH. exact Hr.
Qed.

Lemma parse_groups_hex (gs : list Z) b :
  Forall is_group gs -> parse_groups (map show_hex16 gs) b = Some gs.
Proof.
  induction gs as [|g gs IH]; intros H; [reflexivity|].
  inversion H as [|? ? Hg Hr]; subst. destruct (hex16_facts g Hg) as (Hh & _ & _).
  destruct gs as [|g2 gs].
  - cbn [map parse_groups]. now rewrite Hh.
  - change (map show_hex16 (g :: g2 :: gs)) with (show_hex16 g :: map show_hex16 (g2 :: gs)).
    specialize (IH Hr). cbn [parse_groups map] in IH |- *. cbn [map] in IH. rewrite Hh.
    destruct (map show_hex16 gs) eqn:E; rewrite IH; reflexivity.
Qed.

Lemma parts_ok (gs : list Z) : Forall is_group gs -> Forall (fun p => free_of 58 p /\ p <> []) (map show_hex16 gs).
Proof.
  intros H. apply Forall_map. eapply Forall_impl; [|exact H]. intros g Hg.
  destruct (hex16_facts g Hg) as (_ & Hf & Hn & _). split; assumption.
Qed.

(* find_dcolon, one step *)
Lemma find_dcolon_step b r i :
  find_dcolon (b :: r) i =
  if (b =? 58) && match r with c :: _ => c =? 58 | [] => false end then Some i else find_dcolon r (S i).
Proof.
  destruct (N.eqb_spec b 58) as [->|Hb].
  - destruct r as [|c r']; [reflexivity|]. destruct (N.eqb_spec c 58) as [->|Hc]; [reflexivity|].
    cbn [andb]. cbn [find_dcolon].
    destruct c as [|p]; [reflexivity|].
    do 6 (destruct p as [p|p|]; try reflexivity). congruence.
  - cbn [andb]. cbn [find_dcolon].
    destruct b as [|p]; [reflexivity|].
    do 6 (destruct p as [p|p|]; try reflexivity). congruence.
Qed.

(* a text without "::" that does not end with ':' (or is empty) *)
Fixpoint plain (s : bytes) : bool :=
  match s with
  | [] => true
  | [b] => negb (b =? 58)
  | b :: ((c :: _) as r) => negb ((b =? 58) && (c =? 58)) && plain r
  end.

Lemma find_dcolon_plain s t : forall i,
  plain s = true -> find_dcolon (s ++ 58 :: 58 :: t) i = Some (i + length s)%nat.
Proof.
  induction s as [|b s IH]; intros i H.
  - cbn [app]. rewrite find_dcolon_step. cbn. f_equal. lia.
  - cbn [app]. rewrite find_dcolon_step. destruct s as [|c s'].
    + cbn [plain] in H. apply negb_true_iff in H. rewrite H. cbn [andb app].
      rewrite find_dcolon_step. cbn. f_equal. lia.
    + cbn [plain] in H. apply andb_true_iff in H. destruct H as [H1 H2]. apply negb_true_iff in H1.
      cbn [app]. rewrite H1. cbn [andb].
      change (c :: s' ++ 58 :: 58 :: t) with ((c :: s') ++ 58 :: 58 :: t).
      rewrite (IH (S i) H2). cbn [length]. f_equal. lia.
Qed.

Lemma find_dcolon_none s : forall i, plain s = true -> find_dcolon s i = None.
Proof.
  induction s as [|b s IH]; intros i H; [reflexivity|].
  rewrite find_dcolon_step. destruct s as [|c s'].
  - rewrite andb_false_r. reflexivity.
  - cbn [plain] in H. apply andb_true_iff in H. destruct H as [H1 H2]. apply negb_true_iff in H1.
    rewrite H1. apply IH. exact H2.
Qed.

Lemma plain_free p : free_of 58 p -> plain p = true.
Proof.
  induction p as [|b p IH]; intros H; [reflexivity|].
  unfold free_of in H. cbn [forallb] in H. apply andb_true_iff in H. destruct H as [Hb Hp].
  destruct p as [|c p']; cbn [plain]; [exact Hb|].
  apply negb_true_iff in Hb. rewrite Hb. cbn [andb negb]. apply IH. exact Hp.
Qed.

Lemma plain_cons2 b c r : plain (b :: c :: r) = negb ((b =? 58) && (c =? 58)) && plain (c :: r).
Proof. reflexivity. Qed.

Lemma plain_app_sep p s : free_of 58 p -> p <> [] -> plain s = true -> s <> [] ->
  (match s with c :: _ => negb (c =? 58) | [] => true end) = true -> plain (p ++ 58 :: s) = true.
Proof.
  intros Hf Hne Hs Hsne Hhd. induction p as [|b p IH]; [congruence|].
  unfold free_of in Hf. cbn [forallb] in Hf. apply andb_true_iff in Hf. destruct Hf as [Hb Hp].
  apply negb_true_iff in Hb. destruct p as [|c p'].
  - cbn [app]. rewrite plain_cons2, Hb. cbn [andb negb]. destruct s as [|c s']; [congruence|].
    rewrite plain_cons2. apply negb_true_iff in Hhd. rewrite Hhd, andb_false_r. cbn [negb andb]. exact Hs.
  - change ((b :: c :: p') ++ 58 :: s) with (b :: c :: (p' ++ 58 :: s)). rewrite plain_cons2, Hb. cbn [andb negb].
    apply IH; [exact Hp|discriminate].
Qed.

Lemma join_plain (l : list bytes) :
  Forall (fun p => free_of 58 p /\ p <> []) l ->
  plain (join_colon l) = true /\ (match join_colon l with c :: _ => negb (c =? 58) | [] => true end) = true
  /\ (l <> [] -> join_colon l <> []).
Proof.
  induction l as [|x l IH]; intros H; [repeat split; congruence|].
  inversion H as [|? ? [Hx Hxne] Hr]; subst. specialize (IH Hr). destruct IH as (IH1 & IH2 & IH3).
  assert (Hhd : forall t, (match x ++ t with c :: _ => negb (c =? 58) | [] => true end) = true).
  { intros t. destruct x as [|c x']; [congruence|]. cbn [app]. unfold free_of in Hx. cbn [forallb] in Hx.
    apply andb_true_iff in Hx. exact (proj1 Hx). }
  destruct l as [|y l].
  - cbn [join_colon]. repeat split; [apply plain_free; exact Hx| |intros _; exact Hxne].
    specialize (Hhd []). now rewrite app_nil_r in Hhd.
  - rewrite join_cons by discriminate. repeat split.
    + apply plain_app_sep; try assumption. apply IH3. discriminate.
    + apply Hhd.
    + intros _ E. destruct x; [congruence|discriminate].
Qed.

(* ---- IPv6: the zero span ---- *)

Definition zeros (G : list Z) (s l : nat) : Prop :=
  forall k, (s <= k < s + l)%nat -> nth_error G k = Some 0%Z.

Lemma zero_span_zeros gs : forall pre cs cl ls ll,
  zeros (pre ++ gs) ls ll ->
  zeros (pre ++ gs) cs cl -> (cl = 0 \/ cs + cl = length pre)%nat ->
  let r := zero_span gs (length pre) (cs, cl) (ls, ll) in zeros (pre ++ gs) (fst r) (snd r).
Proof.
  induction gs as [|g gs IH]; intros pre cs cl ls ll Hl Hc Hend; cbn [zero_span]; [exact Hl|].
  assert (Eapp : pre ++ g :: gs = (pre ++ [g]) ++ gs) by (rewrite <- app_assoc; reflexivity).
  assert (Elen : S (length pre) = length (pre ++ [g])) by (rewrite app_length; cbn; lia).
  destruct (Z.eqb_spec g 0) as [->|Hg].
  - cbn [fst snd].
    assert (Hcur : zeros (pre ++ 0%Z :: gs) (if Nat.eqb cl 0 then length pre else cs) (S cl)).
    { intros k Hk. destruct (Nat.eqb_spec cl 0) as [->|Hcl].
      - assert (k = length pre) by lia. subst k. rewrite nth_error_app2 by lia. now rewrite Nat.sub_diag.
      - destruct Hend as [?|Hend]; [lia|]. destruct (Nat.eq_dec k (length pre)) as [->|Hk'].
        + rewrite nth_error_app2 by lia. now rewrite Nat.sub_diag.
        + apply Hc. lia. }
    rewrite Elen. rewrite Eapp in *. 
    destruct (Nat.ltb ll (S cl)); apply IH; try assumption; rewrite <- Elen; right;
      destruct (Nat.eqb_spec cl 0); destruct Hend; lia.
  - rewrite Elen. rewrite Eapp in *. apply IH; [exact Hl| |left; reflexivity].
    intros k Hk. lia.
Qed.

Lemma zeros_split : forall s l (G : list Z), zeros G s l -> G = firstn s G ++ repeat 0%Z l ++ skipn (s + l) G.
Proof.
  induction s as [|s IHs].
  - induction l as [|l IHl]; intros G H; [reflexivity|].
    destruct G as [|x G]; [specialize (H 0%nat ltac:(lia)); discriminate|].
    pose proof (H 0%nat ltac:(lia)) as H0. cbn in H0. injection H0 as ->.
    cbn [firstn repeat app plus skipn]. f_equal. apply (IHl G). intros k Hk.
    specialize (H (S k) ltac:(lia)). exact H.
  - intros l G H. destruct G as [|x G].
    + destruct l; [reflexivity|]. specialize (H (S s) ltac:(lia)). discriminate.
    + cbn [firstn plus skipn app]. f_equal. apply IHs. intros k Hk. specialize (H (S k) ltac:(lia)). exact H.
Qed.

Lemma zeros_bound G s l : zeros G s l -> (0 < l)%nat -> (s + l <= length G)%nat.
Proof.
  intros H Hl. specialize (H (s + l - 1)%nat ltac:(lia)).
  assert (nth_error G (s + l - 1) <> None) by congruence. apply nth_error_Some in H0. lia.
Qed.

(* ---- IPv6: the whole address ---- *)

Lemma groups_val_app a : forall b acc, groups_val (a ++ b) acc = groups_val b (groups_val a acc).
Proof. induction a as [|x a IH]; intros b acc; [reflexivity|]. cbn [app groups_val]. apply IH. Qed.

Lemma group_is_group a i : is_group (group a i).
Proof. unfold is_group, group. apply Z.mod_pos_bound. lia. Qed.

Lemma groups_of_groups a : Forall is_group (groups_of a).
Proof. unfold groups_of. repeat constructor; apply group_is_group. Qed.

Lemma groups_val_of a : (0 <= a < 2 ^ 128)%Z -> groups_val (groups_of a) 0%Z = a.
Proof.
  intros H. unfold groups_of, group. cbn [groups_val].
  change (65536 ^ 7)%Z with (65536 * 65536 * 65536 * 65536 * 65536 * 65536 * 65536)%Z.
  change (65536 ^ 6)%Z with (65536 * 65536 * 65536 * 65536 * 65536 * 65536)%Z.
  change (65536 ^ 5)%Z with (65536 * 65536 * 65536 * 65536 * 65536)%Z.
  change (65536 ^ 4)%Z with (65536 * 65536 * 65536 * 65536)%Z.
  change (65536 ^ 3)%Z with (65536 * 65536 * 65536)%Z.
  change (65536 ^ 2)%Z with (65536 * 65536)%Z.
  change (65536 ^ 1)%Z with 65536%Z. change (65536 ^ 0)%Z with 1%Z.
  change (2 ^ 128)%Z with 340282366920938463463374607431768211456%Z in H.
  rewrite Z.div_1_r. rewrite <- !Z.div_div by lia.
  pose proof (Z.div_mod a 65536 ltac:(lia)). pose proof (Z.mod_pos_bound a 65536 ltac:(lia)).
  set (q1 := (a / 65536)%Z) in *.
  pose proof (Z.div_mod q1 65536 ltac:(lia)). pose proof (Z.mod_pos_bound q1 65536 ltac:(lia)).
  set (q2 := (q1 / 65536)%Z) in *.
  pose proof (Z.div_mod q2 65536 ltac:(lia)). pose proof (Z.mod_pos_bound q2 65536 ltac:(lia)).
  set (q3 := (q2 / 65536)%Z) in *.
  pose proof (Z.div_mod q3 65536 ltac:(lia)). pose proof (Z.mod_pos_bound q3 65536 ltac:(lia)).
  set (q4 := (q3 / 65536)%Z) in *.
  pose proof (Z.div_mod q4 65536 ltac:(lia)). pose proof (Z.mod_pos_bound q4 65536 ltac:(lia)).
  set (q5 := (q4 / 65536)%Z) in *.
  pose proof (Z.div_mod q5 65536 ltac:(lia)). pose proof (Z.mod_pos_bound q5 65536 ltac:(lia)).
  set (q6 := (q5 / 65536)%Z) in *.
  pose proof (Z.div_mod q6 65536 ltac:(lia)). pose proof (Z.mod_pos_bound q6 65536 ltac:(lia)).
  set (q7 := (q6 / 65536)%Z) in *.
  assert (0 <= q7 < 65536)%Z by lia.
  rewrite (Z.mod_small q7 65536) by lia. lia.
Qed.

Lemma parse_groups_join (gs : list Z) b :
  Forall is_group gs -> parse_groups (parts_of (join_colon (map show_hex16 gs))) b = Some gs.
Proof.
  intros H. rewrite parts_of_join by (apply parts_ok; exact H). apply parse_groups_hex. exact H.
Qed.

Lemma Forall_firstn {A} (P : A -> Prop) n (l : list A) : Forall P l -> Forall P (firstn n l).
Proof. intros H. rewrite <- (firstn_skipn n l) in H. apply Forall_app in H. exact (proj1 H). Qed.

Lemma Forall_skipn {A} (P : A -> Prop) n (l : list A) : Forall P l -> Forall P (skipn n l).
Proof. intros H. rewrite <- (firstn_skipn n l) in H. apply Forall_app in H. exact (proj2 H). Qed.

Theorem parse_show_v6 a : (0 <= a < 2 ^ 128)%Z -> parse_v6 (show_v6 a) = Some a.
Proof.
  intros H. pose proof (groups_val_of a H) as Hval. pose proof (groups_of_groups a) as HG.
  unfold show_v6. destruct (is_v4_mapped a) eqn:Em.
  - (* ::ffff:a.b.c.d *)
    unfold is_v4_mapped in Em. repeat (apply andb_true_iff in Em; destruct Em as [Em ?]).
    repeat match goal with E : (_ =? _)%Z = true |- _ => apply Z.eqb_eq in E end.
    pose proof (group_is_group a 1) as Hg1. pose proof (group_is_group a 0) as Hg0. unfold is_group in Hg1, Hg0.
    set (v := (group a 1 * 65536 + group a 0)%Z).
    assert (Hv : (0 <= v < 2 ^ 32)%Z) by (change (2 ^ 32)%Z with 4294967296%Z; unfold v; lia).
    unfold parse_v6. change (n_v4mapped ++ show_v4 v) with (58 :: 58 :: [102; 102; 102; 102] ++ 58 :: show_v4 v).
    rewrite find_dcolon_step. cbn [N.eqb Pos.eqb andb firstn skipn plus parts_of parse_groups].
    change (parts_of ([102; 102; 102; 102] ++ 58 :: show_v4 v))
      with (split_on 58 ([102; 102; 102; 102] ++ 58 :: show_v4 v) []).
    rewrite (split_on_sep 58 [102; 102; 102; 102] (show_v4 v) [] eq_refl).
    rewrite (split_on_free 58 _ [] (show_v4_free58 v)). cbn [rev app].
    cbn [parse_groups]. change (hex_group [102; 102; 102; 102]) with (Some 65535%Z).
    unfold hex_group at 1. rewrite show_v4_not_hex, andb_false_r.
    destruct (show_v4 v) eqn:Es.
    { exfalso. pose proof (parse_show_v4 v Hv) as Hp. rewrite Es in Hp. discriminate. }
    rewrite <- Es. rewrite (parse_show_v4 v Hv). cbn [length plus Nat.leb Nat.sub repeat app].
    f_equal. rewrite <- Hval. unfold groups_of. cbn [groups_val].
    replace (v / 65536)%Z with (group a 1) by (unfold v; rewrite Z.div_add_l by lia; rewrite Z.div_small by lia; lia).
    replace (v mod 65536)%Z with (group a 0)
      by (unfold v; rewrite Z.add_comm, Z.mod_add by lia; rewrite Z.mod_small by lia; reflexivity).
    repeat match goal with E : group a _ = _ |- _ => rewrite E end. reflexivity.
  - (* the general form *)
    set (G := groups_of a) in *.
    pose proof (zero_span_zeros G [] 0 0 0 0) as Hz. cbn [app length fst snd] in Hz.
    specialize (Hz ltac:(intros k Hk; lia) ltac:(intros k Hk; lia) ltac:(left; reflexivity)).
    destruct (zero_span G 0 (0%nat, 0%nat) (0%nat, 0%nat)) as [s l]. cbn [fst snd] in Hz.
    destruct (Nat.ltb_spec 1 l) as [Hl|Hl].
    + pose proof (zeros_bound G s l Hz ltac:(lia)) as Hb. assert (HlenG : length G = 8%nat) by reflexivity.
      pose proof (zeros_split s l G Hz) as Hsplit.
      pose proof (Forall_firstn _ s G HG) as Hh. pose proof (Forall_skipn _ (s + l) G HG) as Ht.
      unfold parse_v6. change [58; 58] with ([58; 58] ++ []). 
      destruct (join_plain _ (parts_ok _ Hh)) as (Hp1 & _ & _).
      cbn [app]. rewrite (find_dcolon_plain _ _ 0 Hp1). cbn [plus].
      rewrite firstn_app, Nat.sub_diag, firstn_all, app_nil_r. cbn [firstn].
      replace (length (join_colon (map show_hex16 (firstn s G))) + 2)%nat
        with (length (join_colon (map show_hex16 (firstn s G)) ++ [58; 58]))
        by (rewrite app_length; reflexivity).
      change (join_colon (map show_hex16 (firstn s G)) ++ 58 :: 58 :: join_colon (map show_hex16 (skipn (s + l) G)))
        with (join_colon (map show_hex16 (firstn s G)) ++ [58; 58] ++ join_colon (map show_hex16 (skipn (s + l) G))).
      rewrite app_assoc, skipn_app, Nat.sub_diag, skipn_all. cbn [skipn app].
      rewrite (parse_groups_join _ false Hh), (parse_groups_join _ true Ht).
      rewrite firstn_length, skipn_length, HlenG.
      replace (Nat.min s 8 + (8 - (s + l)))%nat with (8 - l)%nat by lia.
      destruct (Nat.leb_spec (8 - l) 7) as [_|Hbad]; [|lia].
      replace (8 - (8 - l))%nat with l by lia. rewrite <- Hsplit. f_equal. exact Hval.
    + unfold parse_v6. destruct (join_plain _ (parts_ok _ HG)) as (Hp1 & _ & _).
      rewrite (find_dcolon_none _ 0 Hp1). rewrite (parse_groups_join _ true HG).
      change (length G) with 8%nat. cbn [Nat.eqb]. f_equal. exact Hval.
Qed.

Lemma free46_join (l : list bytes) : Forall (free_of 46) l -> free_of 46 (join_colon l).
Proof.
  induction l as [|x l IH]; intros H; [reflexivity|]. inversion H as [|? ? Hx Hr]; subst.
  destruct l as [|y l]; [exact Hx|]. rewrite join_cons by discriminate.
  apply free_of_app; [exact Hx|]. unfold free_of. cbn [forallb]. change (negb (58 =? 46)) with true. cbn [andb].
  apply IH. exact Hr.
Qed.

Lemma free46_groups (gs : list Z) : Forall is_group gs -> Forall (free_of 46) (map show_hex16 gs).
Proof.
  intros H. apply Forall_map. eapply Forall_impl; [|exact H]. intros g Hg.
  destruct (hex16_facts g Hg) as (_ & _ & _ & Hf). exact Hf.
Qed.

Lemma parse_v4_free s : free_of 46 s -> parse_v4 s = None.
Proof. intros H. unfold parse_v4. rewrite (split_on_free 46 s [] H). reflexivity. Qed.

(* an IPv6 text is never four dotted octets *)
Lemma parse_v4_show_v6 a : parse_v4 (show_v6 a) = None.
Proof.
  pose proof (groups_of_groups a) as HG. unfold show_v6. destruct (is_v4_mapped a).
  - set (v := (group a 1 * 65536 + group a 0)%Z). unfold parse_v4, show_v4.
    destruct (octet_facts _ (octet_lt v 3)) as (_ & F3 & _).
    destruct (octet_facts _ (octet_lt v 2)) as (_ & F2 & _).
    destruct (octet_facts _ (octet_lt v 1)) as (_ & F1 & _).
    destruct (octet_facts _ (octet_lt v 0)) as (_ & F0 & _).
    rewrite app_assoc. cbn [app].
    rewrite (split_on_sep 46 (n_v4mapped ++ print_N (octet v 3)) _ []) by (apply free_of_app; [reflexivity|exact F3]).
    cbn [app]. rewrite (split_on_sep 46 _ _ [] F2). rewrite (split_on_sep 46 _ _ [] F1).
    rewrite (split_on_free 46 _ [] F0). cbn [rev app].
    assert (E : dec_octet (n_v4mapped ++ print_N (octet v 3)) = None).
    { change (n_v4mapped ++ print_N (octet v 3)) with (58 :: 58 :: 102 :: ([102; 102; 102; 58] ++ print_N (octet v 3))).
      unfold dec_octet. cbn [forallb]. change (is_digit 58) with false. cbn [andb]. rewrite andb_false_r. reflexivity. }
    rewrite E. reflexivity.
  - apply parse_v4_free. destruct (zero_span (groups_of a) 0 (0%nat, 0%nat) (0%nat, 0%nat)) as [s l].
    destruct (Nat.ltb 1 l).
    + repeat apply free_of_app; try reflexivity; apply free46_join, free46_groups;
        [apply Forall_firstn|apply Forall_skipn]; exact HG.
    + apply free46_join, free46_groups. exact HG.
Qed.

Theorem parse_show_ip (a : ip) :
  match a with V4 x => (0 <= x < 2 ^ 32)%Z | V6 x => (0 <= x < 2 ^ 128)%Z end ->
  parse_addr (show_ip a) = Some a.
Proof.
  destruct a as [x|x]; intros H; unfold parse_addr, show_ip.
  - now rewrite (parse_show_v4 x H).
  - rewrite parse_v4_show_v6. now rewrite (parse_show_v6 x H).
Qed.
