(* C01 at AST level: for scalar filters the compiled closures return exactly
   the denotation, and never panic, on every well-formed context. *)
From Coq Require Import List ZArith NArith Bool Lia ZifyBool.
From WF Require Import Base.Bytes Sem.RangeSet Sem.Matchers Spec.C09 Lang.Types Lang.Ast Lang.Context
     Sem.Compile Spec.Denote Spec.Typing Proofs.RangeSetProofs Proofs.C09Proofs.
Import ListNotations.

(* ---- contains ---- *)
Lemma is_prefix_firstn p : forall h, is_prefix p h = bytes_eqb (firstn (length p) h) p.
Proof.
  induction p as [|x p IH]; intros h; cbn [is_prefix length firstn]; [reflexivity|].
  destruct h as [|y h]; cbn [firstn bytes_eqb]; [reflexivity|].
  rewrite IH, (N.eqb_sym x y). reflexivity.
Qed.

Lemma occurs_eq p : forall h, occurs p h = occurs_spec p h.
Proof.
  induction h as [|y h IH]; cbn [occurs occurs_spec]; rewrite is_prefix_firstn; [reflexivity|].
  now rewrite IH.
Qed.

(* ---- ordering operators ---- *)
Lemma int_op_spec o a z : int_op o a z = ord_holds o (Some (a ?= z)%Z).
Proof.
  destruct o; cbn [int_op ord_holds]; destruct (Z.compare_spec a z); cbn; lia.
Qed.

Lemma bytes_op_spec o a b : bytes_op o a b = ord_holds o (Some (bytes_compare a b)).
Proof. destruct o; cbn [bytes_op ord_holds]; destruct (bytes_compare a b); reflexivity. Qed.

Lemma ord_mask_spec o c : ord_matches o c = ord_holds o (Some c).
Proof. destruct o, c; reflexivity. Qed.

Lemma ip_op_spec o x a : ord_matches_opt o (ip_strict_cmp x a) = ord_holds o (ip_compare x a).
Proof.
  destruct x as [x|x], a as [a|a]; cbn [ip_strict_cmp ip_compare ord_matches_opt];
    try apply ord_mask_spec; destruct o; reflexivity.
Qed.

(* ---- typing facts ---- *)
Lemma ip_item_wfb_ok it : ip_item_wfb it = true -> ip_item_wf it.
Proof.
  destruct it as [a b|a b|a n|a n]; cbn; intros H; auto;
    repeat (apply andb_true_iff in H; destruct H as [H ?]); lia.
Qed.

Lemma forallb_ip_wf l : forallb ip_item_wfb l = true -> Forall ip_item_wf l.
Proof.
  intros H. apply Forall_forall. intros it Hit. apply ip_item_wfb_ok.
  rewrite forallb_forall in H. now apply H.
Qed.

Lemma list_index_from_bound l t : forall i li,
  list_index_from l t i = Some li -> (i <= li < i + length l)%nat.
Proof.
  induction l as [|[t' k] r IH]; intros i li H; cbn in H; [discriminate|].
  destruct (ty_eqb t t').
  - injection H as <-. cbn. lia.
  - apply IH in H. cbn. lia.
Qed.

Lemma list_index_bound sch t li : list_index sch t = Some li -> (li < length (sc_lists sch))%nat.
Proof. intros H. apply list_index_from_bound in H. lia. Qed.

Lemma ty_eqb_refl t : ty_eqb t t = true.
Proof. induction t; cbn; auto. Qed.

Lemma ty_eqb_eq a : forall b, ty_eqb a b = true -> a = b.
Proof.
  induction a; destruct b; cbn; intros H; try discriminate; auto; f_equal; auto.
Qed.

Lemma cmp_match_prim {A} t (op : cmpop) (X Y : A) :
  is_prim t = true ->
  match op, t with
  | CIsTrue, (TArray TBool | TMap TBool) => X
  | _, _ => Y
  end = Y.
Proof. destruct t; try discriminate; destruct op; reflexivity. Qed.

Section WithScheme.
Variable sch : scheme.

(* the comparer chosen for [op] agrees with the specification on a value of the left type *)
Lemma cmp_fn_spec t op v c :
  is_prim t = true -> op_ok sch t op = true -> has_type v t = true ->
  length (cx_lists c) = length (sc_lists sch) ->
  exists b, fst (cmp_fn sch op) v c = Some b /\ cmp_holds sch op c v = Some b.
Proof.
  intros Hp Hop Hv Hl. unfold has_type in Hv. apply andb_true_iff in Hv. destruct Hv as [Hty _].
  apply ty_eqb_eq in Hty.
  destruct t; try discriminate Hp; destruct v as [vb|vs|vz|va|vt vl|vt vl]; try discriminate Hty; clear Hty Hp;
    destruct op as [|o r|z|p pf|pat raw|strict pat pf|l|l|l|li name]; try discriminate Hop;
    try (destruct r; try discriminate Hop);
    try solve [ (* matches *)
                unfold op_ok in Hop; cbn [cmp_fn cmp_holds];
                destruct (regex_compile pat) as [re|]; [|cbn in Hop; discriminate Hop];
                cbn [fst cast_bytes option_map]; eexists; split; reflexivity ];
    try solve [ (* wildcard *)
                unfold op_ok in Hop; cbn [cmp_fn cmp_holds]; unfold wildcard_match;
                destruct (wparse pat) as [t|]; [|cbn in Hop; discriminate Hop];
                cbn [fst cast_bytes option_map]; eexists; split; reflexivity ];
    cbn [cmp_fn fst cmp_holds cast_bool cast_int cast_bytes cast_ip].
  - eexists; split; reflexivity.
  - (* bytes ord *) eexists; split; [reflexivity|]. now rewrite bytes_op_spec.
  - (* contains *) eexists; split; [reflexivity|]. now rewrite occurs_eq.
  - (* bytes in {} *)
    eexists; split; [reflexivity|]. cbn [spec_in_bytes]. f_equal.
    clear. induction l as [|[i fi] l IH]; cbn; [reflexivity|]. now rewrite IH, bytes_eqb_sym.
  - (* bytes in $list *)
    cbn in Hop. destruct (list_index sch TBytes) as [i|] eqn:Ei; [|discriminate].
    apply Nat.eqb_eq in Hop. subst i. cbn [type_of]. rewrite Ei.
    pose proof (list_index_bound _ _ _ Ei) as Hb. rewrite <- Hl in Hb.
    destruct (nth_error (cx_lists c) li) as [m|] eqn:Em; [|apply nth_error_None in Em; lia].
    eexists; split; reflexivity.
  - (* int ord *) eexists; split; [reflexivity|]. now rewrite int_op_spec.
  - (* band *) eexists; split; reflexivity.
  - (* int in {} *)
    rewrite rangeset_contains_spec. eexists; split; reflexivity.
  - cbn in Hop. destruct (list_index sch TInt) as [i|] eqn:Ei; [|discriminate].
    apply Nat.eqb_eq in Hop. subst i. cbn [type_of]. rewrite Ei.
    pose proof (list_index_bound _ _ _ Ei) as Hb. rewrite <- Hl in Hb.
    destruct (nth_error (cx_lists c) li) as [m|] eqn:Em; [|apply nth_error_None in Em; lia].
    eexists; split; reflexivity.
  - (* ip ord *) eexists; split; [reflexivity|]. now rewrite ip_op_spec.
  - (* ip in {} *)
    cbn in Hop. apply forallb_ip_wf in Hop.
    pose proof (oneof_ip_spec l (Some va) Hop) as H. cbn [oneof_ip] in H.
    eexists; split; [exact H|reflexivity].
  - cbn in Hop. destruct (list_index sch TIp) as [i|] eqn:Ei; [|discriminate].
    apply Nat.eqb_eq in Hop. subst i. cbn [type_of]. rewrite Ei.
    pose proof (list_index_bound _ _ _ Ei) as Hb. rewrite <- Hl in Hb.
    destruct (nth_error (cx_lists c) li) as [m|] eqn:Em; [|apply nth_error_None in Em; lia].
    eexists; split; reflexivity.
Qed.

(* compile_with's default flag is the nil rule *)
Lemma cmp_fn_default op : snd (cmp_fn sch op) = nil_result sch op.
Proof.
  destruct op as [|o r|z|p pf|pat raw|strict pat pf|l|l|l|li name]; try reflexivity;
    try (destruct r, o; reflexivity); cbn [cmp_fn nil_result];
    try (destruct (regex_compile pat); reflexivity); try (destruct (wparse pat); reflexivity).
Qed.

(* reading a field of a well-formed context *)
Lemma slots_field fds : forall vals f fd,
  slots_ok fds vals = true -> nth_error fds f = Some fd ->
  exists o, nth_error vals f = Some o /\ slot_ok fd o = true.
Proof.
  induction fds as [|d fds IH]; intros vals f fd Hs Hf; [destruct f; discriminate|].
  destruct vals as [|o vals]; [discriminate|]. cbn in Hs. apply andb_true_iff in Hs. destruct Hs as [H1 H2].
  destruct f as [|f]; cbn in Hf |- *.
  - injection Hf as <-. eauto.
  - eauto.
Qed.

Lemma field_value_ok c f t :
  ctx_ok sch c = true -> field_ty sch f = Some t ->
  exists o, field_value sch f c = Some o /\ field_lookup f c = Some o /\
            match o with Some v => has_type v t = true | None => True end.
Proof.
  unfold ctx_ok, field_ty, field_value, field_lookup, field_optional. intros Hc Ht.
  apply andb_true_iff in Hc. destruct Hc as [Hs _].
  destruct (nth_error (sc_fields sch) f) as [fd|] eqn:Ef; [|discriminate]. cbn in Ht. injection Ht as <-.
  destruct (slots_field _ _ _ _ Hs Ef) as (o & Ho & Hok). rewrite Ho. cbn [option_map].
  destruct o as [v|]; cbn in Hok.
  - exists (Some v). auto.
  - rewrite Hok. exists None. auto.
Qed.

(* ---- chains ---- *)
Definition evals (c : ctx) (fs : list cone) (bs : list bool) : Prop :=
  Forall2 (fun f b => f c = Some b) fs bs.

Lemma run_and_spec c fs bs : evals c fs bs -> run_and fs c = Some (forallb (fun b => b) bs).
Proof. induction 1 as [|f b fs bs Hf _ IH]; cbn; [reflexivity|]. rewrite Hf. destruct b; auto. Qed.
Lemma run_or_spec c fs bs : evals c fs bs -> run_or fs c = Some (existsb (fun b => b) bs).
Proof. induction 1 as [|f b fs bs Hf _ IH]; cbn; [reflexivity|]. rewrite Hf. destruct b; auto. Qed.
Lemma run_xor_spec c fs bs : forall acc, evals c fs bs -> run_xor acc fs c = Some (fold_left xorb bs acc).
Proof. intros acc H. revert acc. induction H as [|f b fs bs Hf _ IH]; intros acc; cbn; [reflexivity|]. now rewrite Hf, IH. Qed.

Lemma fold_and bs : forall acc, fold_left andb bs acc = acc && forallb (fun b => b) bs.
Proof. induction bs as [|b bs IH]; intros acc; cbn; [now rewrite andb_true_r|]. rewrite IH. now destruct acc, b. Qed.
Lemma fold_or bs : forall acc, fold_left orb bs acc = acc || existsb (fun b => b) bs.
Proof. induction bs as [|b bs IH]; intros acc; cbn; [now rewrite orb_false_r|]. rewrite IH. now destruct acc, b. Qed.

Lemma combine_one_spec op c first fs b0 bs :
  first c = Some b0 -> evals c fs bs ->
  combine_one op first fs c = Some (fold_left (lop_spec op) bs b0).
Proof.
  intros H0 H. destruct op; cbn [combine_one lop_spec]; rewrite H0.
  - change (fun a b => a || b) with orb. rewrite fold_or. destruct b0; cbn; [reflexivity|]. now apply run_or_spec.
  - change (fun a b => xorb a b) with xorb. now apply run_xor_spec.
  - change (fun a b => a && b) with andb. rewrite fold_and. destruct b0; cbn; [|reflexivity]. now apply run_and_spec.
Qed.

(* the denotation of a chain of plain booleans is the left fold *)
Definition denotes_ones (c : ctx) (l : lexprs) (bs : list bool) : Prop :=
  Forall2 (fun e b => denote sch e c = Some (ROne b)) (lexprs_to_list l) bs.

Lemma denote_fold_ones op c l bs : forall acc,
  denotes_ones c l bs -> denote_fold sch op (ROne acc) l c = Some (ROne (fold_left (lop_spec op) bs acc)).
Proof.
  unfold denotes_ones. revert bs. induction l as [|e r IH]; intros bs acc H; cbn [lexprs_to_list] in H.
  - inversion H; subst. reflexivity.
  - inversion H as [|? b ? bs' Hd Hrest]; subst. cbn [denote_fold fold_left]. rewrite Hd.
    cbn [combine_spec]. apply IH. exact Hrest.
Qed.

Lemma all_one_map fs : all_one (map COne fs) = Some fs.
Proof. induction fs as [|f fs IH]; cbn; [reflexivity|]. now rewrite IH. Qed.

Definition P_lexpr (c : ctx) (e : lexpr) : Prop :=
  scalar sch e = true ->
  exists f b, compile_lexpr sch e = Some (COne f) /\ f c = Some b /\ denote sch e c = Some (ROne b).
Definition P_lexprs (c : ctx) (l : lexprs) : Prop :=
  scalars sch l = true ->
  exists fs bs, compile_lexprs sch l = Some (map COne fs) /\ evals c fs bs /\ denotes_ones c l bs.

Lemma scalar_correct_mut c :
  ctx_ok sch c = true ->
  (forall e, P_lexpr c e) /\ (forall l, P_lexprs c l) /\
  (forall e : iexpr, True) /\ (forall a : args, True) /\ (forall a : arg, True).
Proof.
  intros Hc. apply ast_mutind; unfold P_lexpr, P_lexprs; try (intros; exact I).
  - (* Combining *)
    intros op items IH Hs. cbn [scalar] in Hs. destruct items as [|e0 rest]; [discriminate|].
    destruct (IH Hs) as (fs & bs & Hcomp & Hev & Hden).
    destruct fs as [|f0 fs]; [cbn in Hcomp; destruct (compile_lexpr sch e0); try discriminate;
                              destruct (compile_lexprs sch rest); discriminate|].
    inversion Hev as [|? b0 ? bs' Hf0 Hev']; subst.
    unfold denotes_ones in Hden. cbn [lexprs_to_list] in Hden. inversion Hden as [|? ? ? ? Hd0 Hden']; subst.
    exists (combine_one op f0 fs), (fold_left (lop_spec op) bs' b0).
    cbn [compile_lexpr]. rewrite Hcomp. cbn [map]. rewrite all_one_map. split; [reflexivity|]. split.
    + now apply combine_one_spec.
    + cbn [denote]. rewrite Hd0. now apply denote_fold_ones.
  - (* Comparison *)
    intros lhs _ op Hs. cbn [scalar] in Hs.
    destruct lhs as [f idx|]; [|discriminate]. destruct idx; [|discriminate].
    destruct (field_ty sch f) as [t|] eqn:Et; [|discriminate].
    apply andb_true_iff in Hs. destruct Hs as [Hp Hop].
    destruct (field_value_ok c f t Hc Et) as (o & Hfv & Hfl & Ho).
    assert (Hl : length (cx_lists c) = length (sc_lists sch)).
    { unfold ctx_ok in Hc. apply andb_true_iff in Hc. destruct Hc as [_ Hc]. now apply Nat.eqb_eq in Hc. }
    assert (Hcomp : exists g, compile_lexpr sch (EComparison (IField f []) op) =
                              Some (COne (compile_one_with (src_field sch f) [] g (fst (cmp_fn sch op)))) /\
                              (o = None -> g = nil_result sch op)).
    { cbn [compile_lexpr]. destruct (cmp_fn sch op) as [comp default] eqn:Ecf. cbn [fst].
      destruct op; try (eexists; split; [reflexivity|intros _; rewrite <- cmp_fn_default, Ecf; reflexivity]).
      (* IsTrue *)
      cbn [ty_iexpr ty_index]. rewrite Et. cbn.
      destruct t; try discriminate Hop. cbn [compile_with map_each_count filter length].
      eexists; split; [reflexivity|]. intros _. reflexivity. }
    destruct Hcomp as (g & Hcomp & Hg). rewrite Hcomp.
    cbn [denote denote_ident]. rewrite Hfl, Et. cbn [ty_index_spec].
    assert (Hsel : match t, op with
                   | (TArray TBool | TMap TBool), CIsTrue => False
                   | _, _ => True end).
    { destruct t; try discriminate Hp; destruct op; exact I. }
    unfold compile_one_with, src_field. cbn [simplify_indexes].
    destruct o as [v|].
    + destruct (cmp_fn_spec t op v c Hp Hop Ho Hl) as (b & Hb1 & Hb2).
      exists (fun c0 => o0 <- field_value sch f c0;;
                        match o0 with
                        | Some v0 => o' <- get_nested v0 [];;
                                     match o' with Some x => fst (cmp_fn sch op) x c0 | None => Some g end
                        | None => Some g
                        end), b.
      split; [reflexivity|]. split.
      * rewrite Hfv. cbn [get_nested]. exact Hb1.
      * cbn [ty_index_spec]. unfold select.
        destruct t; try discriminate Hp; destruct op; try discriminate Hop;
          cbn [map_each_count filter length Nat.eqb get_path]; rewrite Hb2; reflexivity.
    + exists (fun c0 => o0 <- field_value sch f c0;;
                        match o0 with
                        | Some v0 => o' <- get_nested v0 [];;
                                     match o' with Some x => fst (cmp_fn sch op) x c0 | None => Some g end
                        | None => Some g
                        end), (nil_result sch op).
      split; [reflexivity|]. split.
      * rewrite Hfv. now rewrite Hg.
      * cbn [ty_index_spec]. unfold select.
        destruct t; try discriminate Hp; destruct op; try discriminate Hop;
          cbn [map_each_count filter length Nat.eqb]; reflexivity.
  - (* Paren *)
    intros e IH Hs. cbn [scalar] in Hs. destruct (IH Hs) as (f & b & H1 & H2 & H3).
    exists f, b. cbn [compile_lexpr denote]. auto.
  - (* Not *)
    intros e IH Hs. cbn [scalar] in Hs. destruct (IH Hs) as (f & b & H1 & H2 & H3).
    exists (fun c0 => b0 <- f c0;; Some (negb b0)), (negb b). cbn [compile_lexpr denote]. rewrite H1, H3.
    split; [reflexivity|]. split; [now rewrite H2|reflexivity].
  - (* QuantIndex *) intros q a _ Hs. discriminate.
  - (* QuantLogical *) intros q a _ Hs. discriminate.
  - (* LNil *) intros _. exists [], []. repeat split; constructor.
  - (* LCons *)
    intros e IHe r IHr Hs. cbn [scalars] in Hs. apply andb_true_iff in Hs. destruct Hs as [H1 H2].
    destruct (IHe H1) as (f & b & Hc1 & Hf & Hd). destruct (IHr H2) as (fs & bs & Hc2 & Hev & Hds).
    exists (f :: fs), (b :: bs). cbn [compile_lexprs]. rewrite Hc1, Hc2. split; [reflexivity|]. split.
    + constructor; auto.
    + unfold denotes_ones. cbn [lexprs_to_list]. constructor; auto.
Qed.

Theorem scalar_exec_is_denote e c :
  scalar sch e = true -> ctx_ok sch c = true ->
  exists b, run_filter sch e c = Some b /\ denote_filter sch e c = Some b.
Proof.
  intros Hs Hc. destruct (scalar_correct_mut c Hc) as (H & _). destruct (H e Hs) as (f & b & H1 & H2 & H3).
  exists b. unfold run_filter, denote_filter. rewrite H1, H3. auto.
Qed.

End WithScheme.
