(* The parser model's precedence-climbing functions ([lex_more] / [lex_inner] of Parse/Parser.v, the
   mirror of LogicalExpr::lex_more_with_precedence) refine the relational loop [More] / [Inner] of
   Parse/Climb.v: on a text that reads as a chain  s1 op1 s2 op2 ...  of simple expressions they
   return what the relations return.  With [Climb.climb_is_stratified] this gives the stratified tree
   (and > xor > or, same-operator runs flattened) for whole texts: [logical_chain_parses].

   Fuel: every statement has the form "the answer is LFuel or the expected LOk" ([okf]); the closed
   theorems use FuelProofs.parse_filter_terminates to exclude LFuel. *)
From Coq Require Import List Arith NArith Lia Bool.
From WF Require Import Base.Bytes Lang.Types Lang.Ast Parse.Lex Sem.Compile Parse.Parser Parse.Climb Spec.Grammar.
Import ListNotations.
Local Notation length := List.length (only parsing).

Definition okf {A} (r : lres A) (a : A) (rest : bytes) : Prop := r = LFuel \/ r = LOk a rest.

Lemma okf_bind {A B} (r : lres A) a rest (k : A -> bytes -> lres B) b rest' :
  okf r a rest -> okf (k a rest) b rest' -> okf (lbind r k) b rest'.
Proof. intros [->| ->] H; cbn [lbind]; [now left|exact H]. Qed.

Definition cvo (o : option op) : option logop := option_map cv o.

Lemma interp_comb o items : interp (Comb o items) = ECombining (cv o) (lexprs_of_list (map interp items)).
Proof. cbn [interp]. f_equal. induction items as [|x r IH]; cbn [map lexprs_of_list]; [reflexivity|now rewrite IH]. Qed.

Lemma to_of_list l : lexprs_to_list (lexprs_of_list l) = l.
Proof. induction l as [|x r IH]; cbn; [reflexivity|now rewrite IH]. Qed.

Definition not_combining (a : lexpr) : Prop := match a with ECombining _ _ => False | _ => True end.
Definition top_nc (e : @expr lexpr) : Prop := match e with Atom a => not_combining a | Comb _ _ => True end.

Lemma same_logop_cv a b : same_logop (cv a) (cv b) = op_eqb a b.
Proof. destruct a, b; reflexivity. Qed.

Lemma combine_interp lhs o rhs : top_nc lhs ->
  Parser.combine (interp lhs) (cv o) (interp rhs) = interp (Climb.combine lhs o rhs).
Proof.
  intros Hn. destruct lhs as [a|o' items].
  - cbn [Climb.combine]. rewrite interp_comb. cbn [map lexprs_of_list interp].
    destruct a; cbn in Hn; try contradiction; reflexivity.
  - cbn [Climb.combine]. rewrite interp_comb. cbn [Parser.combine]. rewrite same_logop_cv.
    destruct (op_eqb o' o).
    + rewrite interp_comb, to_of_list, map_app. reflexivity.
    + rewrite !interp_comb. cbn [map lexprs_of_list]. rewrite ?interp_comb. reflexivity.
Qed.

Lemma lvl_lt a b : Nat.ltb (Parser.lvl (cvo a)) (Parser.lvl (cvo b)) = olt a b.
Proof. destruct a as [[]|], b as [[]|]; reflexivity. Qed.
Lemma lvl_le a o : Nat.leb (Parser.lvl (cvo a)) (Parser.lvl (Some (cv o))) = ole a (Some o).
Proof. destruct a as [[]|], o; reflexivity. Qed.

Section Sim.
Variables (sch : scheme) (st : settings) (d : N).
(* the class of types the chain lives in: plain booleans, or boolean arrays *)
Variable cls : ty -> bool.
Hypothesis cls_combinable : forall a b, cls a = true -> cls b = true -> types_combinable a b = true.

Definition wt (e : @expr lexpr) : Prop := exists t, ty_lexpr sch (interp e) = Some t /\ cls t = true.

Lemma wt_combine lhs o rhs : wt lhs -> wt (Climb.combine lhs o rhs).
Proof.
  intros (t & Ht & Hc). exists t. split; [|exact Hc].
  destruct lhs as [a|o' items]; cbn [Climb.combine].
  - rewrite interp_comb. cbn [map lexprs_of_list ty_lexpr]. exact Ht.
  - rewrite interp_comb in Ht. destruct items as [|x r]; [discriminate Ht|].
    destruct (op_eqb o' o); rewrite interp_comb.
    + cbn [app map lexprs_of_list ty_lexpr] in Ht |- *. exact Ht.
    + cbn [map lexprs_of_list ty_lexpr]. rewrite interp_comb. cbn [map lexprs_of_list ty_lexpr]. exact Ht.
Qed.

(* [t] is the text right after a simple expression; it reads as the chain [c] and ends at [tend] *)
Fixpoint ChainRep (c : @chain lexpr) (t tend : bytes) : Prop :=
  match c with
  | [] => t = tend /\ lex_combining_op tend = (None, tend)
  | (o, s) :: tl =>
      exists t1 t2,
        lex_combining_op t = (Some (cv o), t1) /\
        (forall f, okf (lex_simple sch st f d t1) (interp s) t2) /\
        top_nc s /\ wt s /\ ChainRep tl t2 tend
  end.

Lemma chain_hd c t tend : ChainRep c t tend -> fst (lex_combining_op t) = cvo (hd_op c).
Proof.
  destruct c as [|[o s] tl]; cbn [ChainRep hd_op].
  - intros [-> H]. now rewrite H.
  - intros (t1 & t2 & H & _). now rewrite H.
Qed.

Definition P_more (lhs : @expr lexpr) (minp : option op) (c : chain) (res : expr * chain) : Prop :=
  forall t tend, ChainRep c t tend -> top_nc lhs -> wt lhs ->
  exists t', ChainRep (snd res) t' tend /\ top_nc (fst res) /\ wt (fst res) /\
    forall f, okf (lex_more sch st f d (interp lhs) (cvo minp) (lex_combining_op t)) (interp (fst res)) t'.

Definition P_inner (rhs : @expr lexpr) (o : op) (c : chain) (res : expr * chain) : Prop :=
  forall t tend, ChainRep c t tend -> top_nc rhs -> wt rhs ->
  exists t', ChainRep (snd res) t' tend /\ top_nc (fst res) /\ wt (fst res) /\
    forall f, okf (lex_inner sch st f d (interp rhs) t (cv o)) (interp (fst res), lex_combining_op t') t'.

Scheme More_mind := Minimality for More Sort Prop
  with Inner_mind := Minimality for Inner Sort Prop.
Combined Scheme more_inner_ind from More_mind, Inner_mind.

Lemma top_nc_combine (lhs : @expr lexpr) o rhs : top_nc (Climb.combine lhs o rhs).
Proof. destruct lhs as [a|o' items]; cbn [Climb.combine]; [exact I|destruct (op_eqb o' o); exact I]. Qed.

(* one iteration of lex_more up to the recursive call *)
Lemma more_step lhs minp o s tl t tend rhs tl' :
  ChainRep ((o, s) :: tl) t tend -> top_nc lhs -> wt lhs ->
  P_inner s o tl (rhs, tl') ->
  exists t', ChainRep tl' t' tend /\ top_nc rhs /\ wt rhs /\
    forall f,
    (lex_more sch st (S f) d (interp lhs) (cvo minp) (lex_combining_op t) = LFuel \/
     lex_more sch st (S f) d (interp lhs) (cvo minp) (lex_combining_op t) =
       lex_more sch st f d (interp (Climb.combine lhs o rhs)) (cvo minp)
         (if olt (hd_op tl') minp then (None, t') else lex_combining_op t')).
Proof.
  intros HC Hn Hw HI. cbn [ChainRep] in HC. destruct HC as (t1 & t2 & Hla & Hs & Hns & Hws & HC).
  destruct (HI t2 tend HC Hns Hws) as (t' & HC' & Hn' & Hw' & Hin). cbn [fst snd] in *.
  exists t'. repeat split; try assumption.
  intros f. cbn [lex_more]. rewrite Hla. cbn [fst snd].
  destruct (Hs f) as [E|E]; rewrite E; cbn [lbind]; [now left|].
  destruct (Hin f) as [E2|E2]; rewrite E2; [now left|].
  destruct Hw as (tl0 & Htl & Hcl). destruct Hw' as (tr0 & Htr & Hcr).
  rewrite Htl, Htr. rewrite (cls_combinable _ _ Hcl Hcr).
  right. rewrite combine_interp by assumption. cbn [fst snd].
  rewrite (chain_hd _ _ _ HC'). rewrite lvl_lt. reflexivity.
Qed.

Theorem climb_sim :
  (forall lhs minp c res, More lhs minp c res -> P_more lhs minp c res) /\
  (forall rhs o c res, Inner rhs o c res -> P_inner rhs o c res).
Proof.
  apply more_inner_ind.
  - (* M_nil *)
    intros lhs minp t tend [-> Hend] Hn Hw. exists tend. cbn [fst snd ChainRep]. repeat split; try assumption.
    intros [|f]; [now left|]. right. cbn [lex_more]. rewrite Hend. reflexivity.
  - (* M_stop *)
    intros lhs minp o s tl rhs tl' _ IHi Holt t tend HC Hn Hw.
    destruct (more_step lhs minp o s tl t tend rhs tl' HC Hn Hw IHi) as (t' & HC' & Hn' & Hw' & Hstep).
    exists t'. cbn [fst snd]. repeat split; [exact HC'|apply top_nc_combine|now apply wt_combine|].
    intros [|f]; [now left|]. destruct (Hstep f) as [E|E]; rewrite E; [now left|]. rewrite Holt.
    destruct f as [|f]; [now left|]. right. reflexivity.
  - (* M_cont *)
    intros lhs minp o s tl rhs tl' r _ IHi Holt _ IHm t tend HC Hn Hw.
    destruct (more_step lhs minp o s tl t tend rhs tl' HC Hn Hw IHi) as (t' & HC' & Hn' & Hw' & Hstep).
    destruct (IHm t' tend HC' (top_nc_combine _ _ _) (wt_combine _ o rhs Hw)) as (t'' & HC'' & Hn'' & Hw'' & Hm).
    exists t''. repeat split; try assumption.
    intros [|f]; [now left|]. destruct (Hstep f) as [E|E]; rewrite E; [now left|]. rewrite Holt. apply Hm.
  - (* I_break *)
    intros rhs o tl Hole t tend HC Hn Hw. exists t. cbn [fst snd]. repeat split; try assumption.
    intros [|f]; [now left|]. right. cbn [lex_inner]. rewrite (chain_hd _ _ _ HC), lvl_le, Hole. reflexivity.
  - (* I_rec *)
    intros rhs o tl rhs' tl' r Hole _ IHm _ IHi t tend HC Hn Hw.
    destruct (IHm t tend HC Hn Hw) as (t' & HC' & Hn' & Hw' & Hm). cbn [fst snd] in *.
    destruct (IHi t' tend HC' Hn' Hw') as (t'' & HC'' & Hn'' & Hw'' & Hi).
    exists t''. repeat split; try assumption.
    intros [|f]; [now left|]. cbn [lex_inner]. rewrite (chain_hd _ _ _ HC), lvl_le, Hole.
    rewrite <- (chain_hd _ _ _ HC).
    destruct (Hm f) as [E|E].
    + left. rewrite (chain_hd _ _ _ HC) in *. rewrite E. reflexivity.
    + rewrite (chain_hd _ _ _ HC) in *. rewrite E. apply Hi.
Qed.

(* ---- whole logical expressions: first simple expression, then the chain ---- *)
Theorem logical_chain_parses (x : @orl lexpr) t0 t tend :
  simple_orl x ->
  (forall f, okf (lex_simple sch st f d t0) (interp (first_or x)) t) ->
  top_nc (first_or x) -> wt (first_or x) ->
  ChainRep (rest_or x) t tend ->
  (forall f, okf (lex_logical sch st f d t0) (interp (build_or x)) tend) /\
  lex_combining_op tend = (None, tend) /\ wt (build_or x).
Proof.
  intros Hx Hs Hn Hw HC.
  destruct (proj1 climb_sim _ _ _ _ (climb_is_stratified x Hx) t tend HC Hn Hw) as (t' & HC' & _ & Hw' & Hm).
  cbn [fst snd ChainRep] in *. destruct HC' as [-> Hend]. repeat split; try assumption.
  intros [|f]; [now left|]. cbn [lex_logical].
  eapply okf_bind; [apply Hs|]. apply (Hm f).
Qed.

End Sim.
