(* C06: IP address literals, CIDR blocks, explicit ranges. *)
From Coq Require Import List ZArith NArith Bool Lia Arith.
From Coq Require Import ZifyBool.
From WF Require Import Base.Bytes Sem.RangeSet Lang.Ast Parse.Lex Spec.C06 Proofs.LexBase.
Import ListNotations.
Open Scope Z_scope.

(* ================= generic list lemmas ================= *)
Lemma split_on_seg : forall sep ds s cur, Forall (fun b => b <> sep) ds ->
  split_on sep (ds ++ sep :: s) cur = (rev cur ++ ds) :: split_on sep s [].
Proof.
  intros sep ds. induction ds as [|b ds IH]; intros s cur H; cbn [app split_on].
  - rewrite N.eqb_refl, app_nil_r. reflexivity.
  - inversion H as [|? ? Hb Hd]; subst. replace (b =? sep)%N with false by lia.
    rewrite IH by assumption. cbn [rev]. rewrite <- app_assoc. reflexivity.
Qed.
Lemma split_on_last : forall sep ds cur, Forall (fun b => b <> sep) ds ->
  split_on sep ds cur = [rev cur ++ ds].
Proof.
  intros sep ds. induction ds as [|b ds IH]; intros cur H; cbn [split_on].
  - rewrite app_nil_r. reflexivity.
  - inversion H as [|? ? Hb Hd]; subst. replace (b =? sep)%N with false by lia.
    rewrite IH by assumption. cbn [rev]. rewrite <- app_assoc. reflexivity.
Qed.

Lemma rfind_none : forall c s i acc, Forall (fun b => b <> c) s -> rfind_byte c s i acc = acc.
Proof.
  intros c s. induction s as [|b s IH]; intros i acc H; cbn [rfind_byte]; [reflexivity|].
  inversion H as [|? ? Hb Hs]; subst. replace (b =? c)%N with false by lia. apply IH. assumption.
Qed.
Lemma rfind_app : forall c a b i acc,
  rfind_byte c (a ++ b) i acc = rfind_byte c b (i + length a)%nat (rfind_byte c a i acc).
Proof.
  intros c a. induction a as [|x a IH]; intros b i acc; cbn [app rfind_byte length].
  - rewrite Nat.add_0_r. reflexivity.
  - rewrite IH. f_equal. lia.
Qed.

Notation DD := [46%N; 46%N].
Lemma find_dd_unfold : forall s i,
  find_sub DD s i = match starts_with DD s with
                    | Some _ => Some i
                    | None => match s with [] => None | _ :: r => find_sub DD r (S i) end
                    end.
Proof. intros s i. destruct s; reflexivity. Qed.

Lemma find_dd_shift : forall s i j, find_sub DD s i = None -> find_sub DD s j = None.
Proof.
  induction s as [|b s IH]; intros i j H; rewrite find_dd_unfold in *.
  - cbn in *. reflexivity.
  - destruct (starts_with DD (b :: s)); [discriminate|]. eapply IH. exact H.
Qed.

(* a text without ".." that does not end with a dot, followed by ".." *)
Lemma find_dd_first : forall t s i, find_sub DD t i = None -> last t 0%N <> 46%N ->
  find_sub DD (t ++ 46%N :: 46%N :: s) i = Some (i + length t)%nat.
Proof.
  induction t as [|b t IH]; intros s i Hn Hl.
  - cbn [app]. rewrite find_dd_unfold, !starts_with_cons, !N.eqb_refl, starts_with_nil. cbn [length]. f_equal. lia.
  - rewrite find_dd_unfold in Hn. destruct (starts_with DD (b :: t)) eqn:Es; [discriminate|].
    cbn [app]. rewrite find_dd_unfold.
    assert (E : starts_with DD (b :: t ++ 46%N :: 46%N :: s) = None).
    { rewrite starts_with_cons in *. destruct (46 =? b)%N eqn:Eb; [|reflexivity].
      destruct t as [|c t]; [exfalso; cbn in Hl; lia|]. cbn [app]. rewrite starts_with_cons in *.
      destruct (46 =? c)%N; [rewrite starts_with_nil in Es; discriminate|reflexivity]. }
    rewrite E. rewrite IH; [cbn [length]; f_equal; lia|assumption|].
    destruct t; [cbn [last]; discriminate|exact Hl].
Qed.

(* a text without ".." followed by something that does not start with a dot *)
Lemma find_dd_app : forall t s i, find_sub DD t i = None ->
  (forall r, s <> 46%N :: r) ->
  find_sub DD (t ++ s) i = find_sub DD s (i + length t)%nat.
Proof.
  induction t as [|b t IH]; intros s i Hn Hs.
  - cbn [app length]. rewrite Nat.add_0_r. reflexivity.
  - rewrite find_dd_unfold in Hn. destruct (starts_with DD (b :: t)) eqn:Es; [discriminate|].
    cbn [app]. rewrite find_dd_unfold.
    assert (E : starts_with DD (b :: t ++ s) = None).
    { rewrite starts_with_cons in *. destruct (46 =? b)%N eqn:Eb; [|reflexivity].
      destruct t as [|c t]; cbn [app].
      - destruct s as [|x s]; [reflexivity|]. rewrite starts_with_cons.
        destruct (46 =? x)%N eqn:Ex; [|reflexivity]. exfalso. apply (Hs s). f_equal. lia.
      - rewrite starts_with_cons in *. destruct (46 =? c)%N; [rewrite starts_with_nil in Es; discriminate|reflexivity]. }
    rewrite E. rewrite IH by assumption. cbn [length]. f_equal. lia.
Qed.

Lemma find_dd_nodot : forall s i, Forall (fun b => b <> 46%N) s -> find_sub DD s i = None.
Proof.
  induction s as [|b s IH]; intros i H; rewrite find_dd_unfold; [reflexivity|].
  inversion H as [|? ? Hb Hs]; subst. rewrite starts_with_cons. replace (46 =? b)%N with false by lia.
  apply IH. assumption.
Qed.

(* no two adjacent dots, as a scanner *)
Fixpoint nodd (s : bytes) : bool :=
  match s with
  | [] => true
  | b :: r => match r with [] => true | c :: _ => negb ((b =? 46)%N && (c =? 46)%N) && nodd r end
  end.
Lemma find_dd_nodd : forall s i, nodd s = true -> find_sub DD s i = None.
Proof.
  induction s as [|b s IH]; intros i H; rewrite find_dd_unfold; [reflexivity|].
  cbn [nodd] in H. destruct s as [|c s].
  - rewrite starts_with_cons. destruct (46 =? b)%N; reflexivity.
  - apply andb_prop in H. destruct H as [H1 H2]. rewrite !starts_with_cons, starts_with_nil.
    destruct (46 =? b)%N eqn:Eb; [|apply IH; assumption].
    destruct (46 =? c)%N eqn:Ec; [exfalso; lia|apply IH; assumption].
Qed.
Lemma nodd_seg : forall ds s, Forall (fun b => b <> 46%N) ds -> nodd (ds ++ s) = nodd s.
Proof.
  induction ds as [|b ds IH]; intros s H; [reflexivity|]. inversion H as [|? ? Hb Hd]; subst.
  cbn [app nodd]. rewrite IH by assumption.
  destruct (ds ++ s) as [|c r] eqn:E.
  - destruct ds; destruct s; cbn in E; try discriminate. reflexivity.
  - replace (b =? 46)%N with false by lia. reflexivity.
Qed.
Lemma nodd_dot_seg : forall ds s, ds <> [] -> Forall (fun b => b <> 46%N) ds -> nodd (46%N :: ds ++ s) = nodd s.
Proof.
  intros ds s Hne H. destruct ds as [|c t]; [contradiction|]. inversion H as [|? ? Hc Ht]; subst.
  change (nodd (46%N :: (c :: t) ++ s)) with (negb ((46 =? 46)%N && (c =? 46)%N) && nodd ((c :: t) ++ s)).
  replace (c =? 46)%N with false by lia. rewrite nodd_seg by assumption. reflexivity.
Qed.

Lemma last_app_ne : forall (a b : bytes) d, b <> [] -> last (a ++ b) d = last b d.
Proof.
  induction a as [|x a IH]; intros b d Hb; [reflexivity|]. cbn [app].
  destruct (a ++ b) eqn:E; [destruct a; destruct b; cbn in E; congruence|]. rewrite <- E. cbn [last].
  rewrite E. rewrite <- E. apply IH. assumption.
Qed.

(* ================= what the theorems need to know about a text ================= *)
Definition ipc (b : N) : bool := is_ascii b && is_ip_char b.
Record ip_text (t : bytes) : Prop := {
  it_ne : t <> [];
  it_chars : Forall (fun b => ipc b = true) t;
  it_nodd : find_sub DD t 0 = None;
  it_noslash : Forall (fun b => b <> 47%N) t;
  it_last : last t 0%N <> 46%N }.

Lemma ip_follow_stops : forall rest, ip_follow_ok rest -> stops is_ip_char rest.
Proof.
  intros [|b r] H; [exact I|]. cbn in *. unfold ip_byte, is_ip_char, is_hexdigit, Lex.is_digit, hex_digit_byte in *.
  destruct (is_ascii b); [|reflexivity]. cbn [andb]. exact H.
Qed.

Lemma match_chunk : forall t rest, t <> [] -> Forall (fun b => ipc b = true) t -> ip_follow_ok rest ->
  match_addr_or_cidr (t ++ rest) = LOk t rest.
Proof.
  intros t rest Hne Hc Hr. unfold match_addr_or_cidr. apply take_while_app; [assumption|exact Hc|].
  apply ip_follow_stops. assumption.
Qed.

Theorem lex_ip_text : forall t a rest, ip_text t -> parse_addr t = Some a -> ip_follow_ok rest ->
  lex_ip (t ++ rest) = LOk a rest.
Proof.
  intros t a rest Ht Hp Hr. unfold lex_ip. rewrite match_chunk by (apply Ht || assumption).
  cbn [lbind]. rewrite Hp. reflexivity.
Qed.

(* ---- prefix lengths ---- *)
Definition plen_facts (n : Z) : bool :=
  let t := print_dec n in
  match parse_prefix_len t with Some v => v =? n | None => false end &&
  forallb (fun b => ipc b && negb (b =? 46)%N && negb (b =? 47)%N) t &&
  match t with [] => false | _ => true end.
Lemma plen_facts_all : forall n, 0 <= n < 256 -> plen_facts n = true.
Proof. intros n H. apply (Zforall_below plen_facts 256); [vm_compute; reflexivity|lia]. Qed.

Lemma plen_text : forall n, 0 <= n < 256 ->
  let t := print_dec n in
  parse_prefix_len t = Some n /\ Forall (fun b => ipc b = true) t /\ Forall (fun b => b <> 46%N) t /\
  Forall (fun b => b <> 47%N) t /\ t <> [].
Proof.
  intros n H. cbn zeta. pose proof (plen_facts_all n H) as F. unfold plen_facts in F. cbn zeta in F.
  apply andb_prop in F. destruct F as [F F3]. apply andb_prop in F. destruct F as [F1 F2].
  rewrite forallb_forall in F2.
  split; [destruct (parse_prefix_len (print_dec n)); [f_equal; lia|discriminate]|].
  split; [apply Forall_forall; intros b Hb; specialize (F2 b Hb); lia|].
  split; [apply Forall_forall; intros b Hb; specialize (F2 b Hb); lia|].
  split; [apply Forall_forall; intros b Hb; specialize (F2 b Hb); lia|].
  destruct (print_dec n); [discriminate|discriminate].
Qed.

(* ---- CIDR blocks ---- *)
Definition cidr_result (a : ip) (n : Z) (t dn rest : bytes) : lres ip_item :=
  if ip_bits a <? n then LErr EParseNetwork (t ++ 47%N :: dn ++ rest) (length (t ++ 47%N :: dn))
  else if ip_num a mod 2 ^ (ip_bits a - n) =? 0 then LOk (cidr_item a n) rest
  else LErr EParseNetwork (t ++ 47%N :: dn ++ rest) (length t).

Lemma find_slash_first : forall t s i, Forall (fun b => b <> 47%N) t ->
  find_sub [47%N] (t ++ 47%N :: s) i = Some (i + length t)%nat.
Proof.
  induction t as [|b t IH]; intros s i H.
  - cbn [app find_sub]. rewrite starts_with_cons, N.eqb_refl, starts_with_nil. cbn [length]. f_equal. lia.
  - inversion H as [|? ? Hb Ht]; subst. cbn [app find_sub]. rewrite starts_with_cons.
    replace (47 =? b)%N with false by lia. rewrite IH by assumption. cbn [length]. f_equal. lia.
Qed.

Theorem lex_cidr_text : forall t a n rest, ip_text t -> parse_addr t = Some a -> 0 <= n < 256 ->
  ip_follow_ok rest ->
  lex_ip_range (t ++ 47%N :: print_dec n ++ rest) = cidr_result a n t (print_dec n) rest.
Proof.
  intros t a n rest Ht Hp Hn Hr. destruct (plen_text n Hn) as (Hpl & Hc & Hnd & Hns & Hne).
  set (dn := print_dec n) in *. unfold lex_ip_range.
  replace (t ++ 47%N :: dn ++ rest) with ((t ++ 47%N :: dn) ++ rest) by (rewrite <- app_assoc; reflexivity).
  rewrite match_chunk; [| destruct t; discriminate | | assumption].
  2:{ apply Forall_app. split; [apply Ht|]. constructor; [reflexivity|assumption]. }
  cbn [lbind].
  assert (Edd : find_sub DD (t ++ 47%N :: dn) 0 = None).
  { rewrite find_dd_app; [|apply Ht|intros r; discriminate].
    rewrite find_dd_unfold, starts_with_cons. cbn [N.eqb Pos.eqb]. apply find_dd_nodot. assumption. }
  rewrite Edd. unfold parse_cidr.
  assert (Erf : rfind_byte 47 (t ++ 47%N :: dn) 0 None = Some (length t)).
  { rewrite rfind_app. rewrite (rfind_none 47 t 0 None) by apply Ht. cbn [rfind_byte]. rewrite N.eqb_refl.
    cbn [Nat.add]. apply rfind_none. assumption. }
  rewrite Erf.
  rewrite firstn_app, Nat.sub_diag, firstn_all. cbn [firstn]. rewrite app_nil_r.
  assert (Esk : skipn (S (length t)) (t ++ 47%N :: dn) = dn).
  { rewrite skipn_app. replace (S (length t) - length t)%nat with 1%nat by lia.
    rewrite skipn_all2 by lia. reflexivity. }
  rewrite Esk. unfold parse_loose_ip. rewrite Hp, Hpl. unfold cidr_result.
  rewrite (find_slash_first t dn 0) by apply Ht. cbn [Nat.add].
  replace ((t ++ 47%N :: dn) ++ rest) with (t ++ 47%N :: dn ++ rest) by (rewrite <- app_assoc; reflexivity).
  destruct a as [v|v]; cbn [ip_bits ip_num cidr_item].
  - destruct (32 <? n); [reflexivity|]. destruct (v mod 2 ^ (32 - n) =? 0); reflexivity.
  - destruct (128 <? n); [reflexivity|]. destruct (v mod 2 ^ (128 - n) =? 0); reflexivity.
Qed.

(* an address alone in a list is a host block *)
Theorem lex_host_text : forall t a rest, ip_text t -> parse_addr t = Some a -> ip_follow_ok rest ->
  lex_ip_range (t ++ rest) = LOk (cidr_item a (ip_bits a)) rest.
Proof.
  intros t a rest Ht Hp Hr. unfold lex_ip_range. rewrite match_chunk by (apply Ht || assumption).
  cbn [lbind]. rewrite (it_nodd t Ht). unfold parse_cidr. rewrite rfind_none by apply Ht.
  unfold parse_loose_ip. rewrite Hp. destruct a; reflexivity.
Qed.

(* ---- explicit ranges ---- *)
Definition range_result (a b : ip) (t1 t2 rest : bytes) : lres ip_item :=
  if same_family a b && (ip_num a <=? ip_num b) then LOk (range_item a b) rest
  else LErr EIncompatibleRangeBounds (t1 ++ DD ++ t2 ++ rest) (length (t1 ++ DD ++ t2)).

Theorem lex_range_text : forall t1 t2 a b rest, ip_text t1 -> ip_text t2 ->
  parse_addr t1 = Some a -> parse_addr t2 = Some b -> ip_follow_ok rest ->
  lex_ip_range (t1 ++ DD ++ t2 ++ rest) = range_result a b t1 t2 rest.
Proof.
  intros t1 t2 a b rest H1 H2 Ha Hb Hr. unfold lex_ip_range.
  replace (t1 ++ DD ++ t2 ++ rest) with ((t1 ++ DD ++ t2) ++ rest)
    by (rewrite <- !app_assoc; reflexivity).
  rewrite match_chunk; [| destruct t1; discriminate | | assumption].
  2:{ apply Forall_app. split; [apply H1|]. cbn [app]. constructor; [reflexivity|].
      constructor; [reflexivity|apply H2]. }
  cbn [lbind]. cbn [app]. rewrite find_dd_first by apply H1. cbn [Nat.add].
  rewrite firstn_app, Nat.sub_diag, firstn_all. cbn [firstn]. rewrite app_nil_r, Ha.
  assert (Esk : skipn (length t1 + 2) (t1 ++ 46%N :: 46%N :: t2) = t2).
  { rewrite skipn_app. replace (length t1 + 2 - length t1)%nat with 2%nat by lia.
    rewrite skipn_all2 by lia. reflexivity. }
  rewrite Esk, Hb. unfold range_result.
  replace ((t1 ++ 46%N :: 46%N :: t2) ++ rest) with (t1 ++ DD ++ t2 ++ rest)
    by (rewrite <- !app_assoc; reflexivity).
  destruct a as [x|x], b as [y|y]; cbn [same_family ip_num range_item andb];
    try reflexivity; destruct (x <=? y); reflexivity.
Qed.

(* ================= IPv4 texts ================= *)
Definition octet_facts (o : Z) : bool :=
  let t := print_dec o in
  match dec_octet t with Some v => v =? o | None => false end &&
  forallb (fun b => ipc b && negb (b =? 46)%N && negb (b =? 47)%N && negb (b =? 58)%N) t &&
  match t with [] => false | _ => true end.
Lemma octet_facts_all : forall o, octet o -> octet_facts o = true.
Proof. intros o H. apply (Zforall_below octet_facts 256); [vm_compute; reflexivity|exact H]. Qed.

Lemma octet_text : forall o, octet o ->
  let t := print_dec o in
  dec_octet t = Some o /\ Forall (fun b => ipc b = true) t /\ Forall (fun b => b <> 46%N) t /\
  Forall (fun b => b <> 47%N) t /\ Forall (fun b => b <> 58%N) t /\ t <> [].
Proof.
  intros o H. cbn zeta. pose proof (octet_facts_all o H) as F. unfold octet_facts in F. cbn zeta in F.
  apply andb_prop in F. destruct F as [F F3]. apply andb_prop in F. destruct F as [F1 F2].
  rewrite forallb_forall in F2.
  split; [destruct (dec_octet (print_dec o)); [f_equal; lia|discriminate]|].
  split; [apply Forall_forall; intros b Hb; specialize (F2 b Hb); lia|].
  split; [apply Forall_forall; intros b Hb; specialize (F2 b Hb); lia|].
  split; [apply Forall_forall; intros b Hb; specialize (F2 b Hb); lia|].
  split; [apply Forall_forall; intros b Hb; specialize (F2 b Hb); lia|].
  destruct (print_dec o); [discriminate|discriminate].
Qed.

Lemma parse_v4_print : forall a b c d, octet a -> octet b -> octet c -> octet d ->
  parse_v4 (print_v4 a b c d) = Some (v4_of a b c d).
Proof.
  intros a b c d Ha Hb Hc Hd.
  destruct (octet_text a Ha) as (Ea & _ & Na & _). destruct (octet_text b Hb) as (Eb & _ & Nb & _).
  destruct (octet_text c Hc) as (Ec & _ & Nc & _). destruct (octet_text d Hd) as (Ed & _ & Nd & _).
  unfold parse_v4, print_v4. rewrite !split_on_seg by assumption. rewrite split_on_last by assumption.
  cbn [rev app]. rewrite Ea, Eb, Ec, Ed. reflexivity.
Qed.

Lemma forall_ne_last : forall (t : bytes) x, t <> [] -> Forall (fun b => b <> x) t -> last t 0%N <> x.
Proof.
  induction t as [|b t IH]; intros x Hne H; [contradiction|]. inversion H as [|? ? Hb Ht]; subst.
  destruct t as [|c t]; [exact Hb|]. change (last (b :: c :: t) 0%N) with (last (c :: t) 0%N).
  apply IH; [discriminate|assumption].
Qed.

Lemma v4_ip_text : forall a b c d, octet a -> octet b -> octet c -> octet d -> ip_text (print_v4 a b c d).
Proof.
  intros a b c d Ha Hb Hc Hd.
  destruct (octet_text a Ha) as (_ & Ca & Da & Sa & _ & Na). destruct (octet_text b Hb) as (_ & Cb & Db & Sb & _ & Nb).
  destruct (octet_text c Hc) as (_ & Cc & Dc & Sc & _ & Nc). destruct (octet_text d Hd) as (_ & Cd & Dd & Sd & _ & Nd).
  unfold print_v4. constructor.
  - destruct (print_dec a); [contradiction|discriminate].
  - repeat (apply Forall_app; split; [assumption|]; constructor; [reflexivity|]). assumption.
  - apply find_dd_nodd. rewrite nodd_seg by assumption. rewrite !nodd_dot_seg by assumption.
    rewrite <- (app_nil_r (print_dec d)), nodd_dot_seg by assumption. reflexivity.
  - repeat (apply Forall_app; split; [assumption|]; constructor; [discriminate|]). assumption.
  - rewrite last_app_ne by discriminate. change (46%N :: print_dec b ++ 46%N :: print_dec c ++ 46%N :: print_dec d)
      with ([46%N] ++ print_dec b ++ [46%N] ++ print_dec c ++ [46%N] ++ print_dec d).
    rewrite !last_app_ne; try assumption; try (destruct (print_dec d); [contradiction|discriminate]);
      try (destruct (print_dec c); discriminate); try (destruct (print_dec b); discriminate).
    apply forall_ne_last; assumption.
Qed.

Lemma parse_addr_v4 : forall a b c d, octet a -> octet b -> octet c -> octet d ->
  parse_addr (print_v4 a b c d) = Some (V4 (v4_of a b c d)).
Proof. intros. unfold parse_addr. rewrite parse_v4_print by assumption. reflexivity. Qed.

(* ================= IPv6 texts: groups ================= *)
Definition group_facts (g : Z) : bool :=
  forallb (fun u : bool =>
    let t := print_radix 16 g u in
    match hex_group t with Some v => v =? g | None => false end &&
    forallb (fun b => ipc b && negb (b =? 46)%N && negb (b =? 47)%N && negb (b =? 58)%N) t &&
    match t with [] => false | _ => true end) [true; false].
Definition group_facts_hi (h : Z) : bool :=
  forallb (fun l => group_facts (256 * h + l)) (map Z.of_nat (seq 0 256)).
Lemma group_facts_hi_all : forall h, 0 <= h < 256 -> group_facts_hi h = true.
Proof. intros h H. apply (Zforall_below group_facts_hi 256); [vm_compute; reflexivity|exact H]. Qed.
Lemma group_facts_all : forall g, group16 g -> group_facts g = true.
Proof.
  intros g [H0 H1].
  assert (Hh : 0 <= g / 256 < 256) by (split; [apply Z.div_pos; lia|apply Z.div_lt_upper_bound; lia]).
  pose proof (group_facts_hi_all _ Hh) as F. unfold group_facts_hi in F.
  pose proof (Zforall_below (fun l => group_facts (256 * (g / 256) + l)) 256 F (g mod 256)) as G.
  cbn beta in G. rewrite <- Z.div_mod in G by lia. apply G. apply Z.mod_pos_bound. lia.
Qed.

Lemma group_text : forall u g, group16 g ->
  let t := print_radix 16 g u in
  hex_group t = Some g /\ Forall (fun b => ipc b = true) t /\ Forall (fun b => b <> 46%N) t /\
  Forall (fun b => b <> 47%N) t /\ Forall (fun b => b <> 58%N) t /\ t <> [].
Proof.
  intros u g H. cbn zeta. pose proof (group_facts_all g H) as F. unfold group_facts in F.
  assert (Fu : (let t := print_radix 16 g u in
    match hex_group t with Some v => v =? g | None => false end &&
    forallb (fun b => ipc b && negb (b =? 46)%N && negb (b =? 47)%N && negb (b =? 58)%N) t &&
    match t with [] => false | _ => true end) = true).
  { rewrite forallb_forall in F. apply F. destruct u; cbn; auto. }
  cbn zeta in Fu. clear F.
  apply andb_prop in Fu. destruct Fu as [F F3]. apply andb_prop in F. destruct F as [F1 F2].
  rewrite forallb_forall in F2.
  split; [destruct (hex_group (print_radix 16 g u)); [f_equal; lia|discriminate]|].
  split; [apply Forall_forall; intros b Hb; specialize (F2 b Hb); lia|].
  split; [apply Forall_forall; intros b Hb; specialize (F2 b Hb); lia|].
  split; [apply Forall_forall; intros b Hb; specialize (F2 b Hb); lia|].
  split; [apply Forall_forall; intros b Hb; specialize (F2 b Hb); lia|].
  destruct (print_radix 16 g u); [discriminate|discriminate].
Qed.

Lemma print_groups_cons2 : forall u g g' r,
  print_groups u (g :: g' :: r) = print_radix 16 g u ++ 58%N :: print_groups u (g' :: r).
Proof. reflexivity. Qed.

Lemma print_groups_forall : forall (P : N -> Prop) u gs, P 58%N ->
  Forall (fun g => Forall P (print_radix 16 g u)) gs -> Forall P (print_groups u gs).
Proof.
  intros P u gs H58. induction gs as [|g gs IH]; intros H; [constructor|].
  inversion H as [|? ? Hg Hgs]; subst. destruct gs as [|g' r]; [exact Hg|].
  rewrite print_groups_cons2. apply Forall_app. split; [assumption|]. constructor; [assumption|].
  apply IH. assumption.
Qed.

Lemma print_groups_ne : forall u gs, gs <> [] -> Forall group16 gs -> print_groups u gs <> [].
Proof.
  intros u gs Hne H. destruct gs as [|g gs]; [contradiction|]. inversion H as [|? ? Hg _]; subst.
  destruct (group_text u g Hg) as (_ & _ & _ & _ & _ & N0).
  destruct gs; [exact N0|]. rewrite print_groups_cons2. destruct (print_radix 16 g u); [contradiction|discriminate].
Qed.

Lemma split_groups : forall u gs, gs <> [] -> Forall group16 gs ->
  split_on 58 (print_groups u gs) [] = map (fun g => print_radix 16 g u) gs.
Proof.
  intros u gs. induction gs as [|g gs IH]; intros Hne H; [contradiction|].
  inversion H as [|? ? Hg Hgs]; subst. destruct (group_text u g Hg) as (_ & _ & _ & _ & N58 & _).
  destruct gs as [|g' r].
  - cbn [print_groups map]. rewrite split_on_last by assumption. reflexivity.
  - rewrite print_groups_cons2, split_on_seg by assumption. cbn [rev app map]. f_equal.
    apply IH; [discriminate|assumption].
Qed.

Lemma parse_groups_map : forall u allow gs, gs <> [] -> Forall group16 gs ->
  parse_groups (map (fun g => print_radix 16 g u) gs) allow = Some gs.
Proof.
  intros u allow gs. induction gs as [|g gs IH]; intros Hne H; [contradiction|].
  inversion H as [|? ? Hg Hgs]; subst. destruct (group_text u g Hg) as (Eg & _).
  destruct gs as [|g' r].
  - cbn [map parse_groups]. rewrite Eg. reflexivity.
  - cbn [map]. cbn [map] in IH. change (parse_groups (?p :: ?q :: ?l) allow)
      with (match hex_group p, parse_groups (q :: l) allow with
            | Some g, Some gs => Some (g :: gs) | _, _ => None end).
    rewrite Eg, IH by (discriminate || assumption). reflexivity.
Qed.

Lemma fdc_cons : forall b r i, b <> 58%N -> find_dcolon (b :: r) i = find_dcolon r (S i).
Proof.
  intros b r i H. cbn [find_dcolon]. destruct b as [|p]; [reflexivity|].
  do 6 (try (destruct p as [p|p|]); try reflexivity); congruence.
Qed.
Lemma fdc_colon : forall c r i, c <> 58%N -> find_dcolon (58%N :: c :: r) i = find_dcolon (c :: r) (S i).
Proof.
  intros c r i H. cbn [find_dcolon]. destruct c as [|p]; [reflexivity|].
  do 6 (try (destruct p as [p|p|]); try reflexivity); congruence.
Qed.
Lemma fdc_found : forall r i, find_dcolon (58%N :: 58%N :: r) i = Some i.
Proof. reflexivity. Qed.
Lemma fdc_seg : forall ds s i, Forall (fun b => b <> 58%N) ds ->
  find_dcolon (ds ++ s) i = find_dcolon s (i + length ds)%nat.
Proof.
  induction ds as [|b ds IH]; intros s i H; cbn [app length].
  - rewrite Nat.add_0_r. reflexivity.
  - inversion H as [|? ? Hb Hd]; subst. rewrite fdc_cons by assumption. rewrite IH by assumption. f_equal. lia.
Qed.

Lemma find_dcolon_groups : forall u gs i, Forall group16 gs -> find_dcolon (print_groups u gs) i = None.
Proof.
  intros u gs. induction gs as [|g gs IH]; intros i H; [reflexivity|].
  inversion H as [|? ? Hg Hgs]; subst. destruct (group_text u g Hg) as (_ & _ & _ & _ & N58 & _).
  destruct gs as [|g' r].
  - cbn [print_groups]. rewrite <- (app_nil_r (print_radix 16 g u)), fdc_seg by assumption. reflexivity.
  - rewrite print_groups_cons2, fdc_seg by assumption.
    inversion Hgs as [|? ? Hg' _]; subst. destruct (group_text u g' Hg') as (_ & _ & _ & _ & N58' & Nne').
    assert (E : exists c t, print_groups u (g' :: r) = c :: t /\ c <> 58%N).
    { destruct r as [|g'' r'].
      - cbn [print_groups]. destruct (print_radix 16 g' u) as [|c t]; [contradiction|].
        inversion N58'; subst. eexists _, _. split; [reflexivity|assumption].
      - rewrite print_groups_cons2. destruct (print_radix 16 g' u) as [|c t]; [contradiction|].
        inversion N58'; subst. eexists _, _. split; [reflexivity|assumption]. }
    destruct E as (c & t & Ec & Hc). rewrite Ec, fdc_colon by assumption. rewrite <- Ec. apply IH. assumption.
Qed.

Lemma groups_val_v6_of : forall gs acc, groups_val gs acc = v6_of gs acc.
Proof. induction gs as [|g gs IH]; intros acc; [reflexivity|]. cbn. apply IH. Qed.

Lemma v6_full_facts : forall u gs, gs <> [] -> Forall group16 gs ->
  let t := print_groups u gs in
  Forall (fun b => ipc b = true) t /\ Forall (fun b => b <> 46%N) t /\ Forall (fun b => b <> 47%N) t /\ t <> [].
Proof.
  intros u gs Hne H. cbn zeta.
  split; [apply print_groups_forall; [reflexivity|]|split; [apply print_groups_forall; [discriminate|]|
    split; [apply print_groups_forall; [discriminate|]|apply print_groups_ne; assumption]]];
    (eapply Forall_impl; [|exact H]; intros g Hg; cbn beta; apply (group_text u g Hg)).
Qed.

Lemma parse_v6_full : forall u gs, length gs = 8%nat -> Forall group16 gs ->
  parse_v6 (print_v6_full u gs) = Some (v6_of gs 0).
Proof.
  intros u gs Hlen H. assert (Hne : gs <> []) by (destruct gs; [discriminate|discriminate]).
  unfold parse_v6, print_v6_full. rewrite find_dcolon_groups by assumption.
  unfold parts_of. pose proof (print_groups_ne u gs Hne H) as Hn.
  destruct (print_groups u gs) as [|c t] eqn:E; [contradiction|]. rewrite <- E.
  rewrite split_groups, parse_groups_map by assumption. rewrite Hlen. cbn [Nat.eqb].
  rewrite groups_val_v6_of. reflexivity.
Qed.

Lemma parse_addr_v6_full : forall u gs, length gs = 8%nat -> Forall group16 gs ->
  parse_addr (print_v6_full u gs) = Some (V6 (v6_of gs 0)).
Proof.
  intros u gs Hlen H. assert (Hne : gs <> []) by (destruct gs; [discriminate|discriminate]).
  destruct (v6_full_facts u gs Hne H) as (_ & Hd & _ & _).
  unfold parse_addr. unfold parse_v4 at 1. unfold print_v6_full. rewrite split_on_last by assumption. cbn [rev app].
  fold (print_v6_full u gs). rewrite parse_v6_full by assumption. reflexivity.
Qed.

Lemma v6_full_ip_text : forall u gs, length gs = 8%nat -> Forall group16 gs -> ip_text (print_v6_full u gs).
Proof.
  intros u gs Hlen H. assert (Hne : gs <> []) by (destruct gs; [discriminate|discriminate]).
  destruct (v6_full_facts u gs Hne H) as (Hc & Hd & Hs & Hn). unfold print_v6_full. constructor.
  - assumption.
  - assumption.
  - apply find_dd_nodot. assumption.
  - assumption.
  - apply forall_ne_last; assumption.
Qed.

(* ================= IPv6 texts: the `::` form ================= *)
Lemma print_groups_head : forall u g r, group16 g ->
  exists c t, print_groups u (g :: r) = c :: t /\ c <> 58%N.
Proof.
  intros u g r Hg. destruct (group_text u g Hg) as (_ & _ & _ & _ & N58 & Nne).
  destruct r as [|g' r'].
  - cbn [print_groups]. destruct (print_radix 16 g u) as [|c t]; [contradiction|].
    inversion N58; subst. eexists _, _. split; [reflexivity|assumption].
  - rewrite print_groups_cons2. destruct (print_radix 16 g u) as [|c t]; [contradiction|].
    inversion N58; subst. eexists _, _. split; [reflexivity|assumption].
Qed.

Lemma find_dcolon_head : forall u hs s i, Forall group16 hs ->
  find_dcolon (print_groups u hs ++ 58%N :: 58%N :: s) i = Some (i + length (print_groups u hs))%nat.
Proof.
  intros u hs. induction hs as [|g hs IH]; intros s i H.
  - cbn [print_groups app length]. rewrite fdc_found. f_equal. lia.
  - inversion H as [|? ? Hg Hgs]; subst. destruct (group_text u g Hg) as (_ & _ & _ & _ & N58 & _).
    destruct hs as [|g' r].
    + cbn [print_groups]. rewrite fdc_seg by assumption. rewrite fdc_found. reflexivity.
    + rewrite print_groups_cons2, <- app_assoc, fdc_seg by assumption. cbn [app].
      inversion Hgs as [|? ? Hg' _]; subst.
      destruct (print_groups_head u g' r Hg') as (c & t & Ec & Hc).
      rewrite Ec. cbn [app]. rewrite fdc_colon by assumption.
      change (c :: t ++ 58%N :: 58%N :: s) with ((c :: t) ++ 58%N :: 58%N :: s). rewrite <- Ec.
      rewrite IH by assumption. f_equal. rewrite app_length. cbn [length]. lia.
Qed.

Lemma parse_parts : forall u allow gs, Forall group16 gs ->
  parse_groups (parts_of (print_groups u gs)) allow = Some gs.
Proof.
  intros u allow gs H. destruct gs as [|g r]; [reflexivity|].
  assert (Hne : g :: r <> []) by discriminate.
  unfold parts_of. pose proof (print_groups_ne u (g :: r) Hne H) as Hn.
  destruct (print_groups u (g :: r)) as [|c t] eqn:E; [contradiction|]. rewrite <- E.
  rewrite split_groups, parse_groups_map by assumption. reflexivity.
Qed.

Lemma v6_compressed_facts : forall u hs ts, Forall group16 hs -> Forall group16 ts ->
  let t := print_v6_compressed u hs ts in
  Forall (fun b => ipc b = true) t /\ Forall (fun b => b <> 46%N) t /\ Forall (fun b => b <> 47%N) t /\ t <> [].
Proof.
  intros u hs ts Hh Ht. cbn zeta. unfold print_v6_compressed.
  assert (G : forall (P : N -> Prop) gs, P 58%N -> Forall group16 gs ->
              (forall g, group16 g -> Forall P (print_radix 16 g u)) -> Forall P (print_groups u gs)).
  { intros P gs H58 Hg HP. apply print_groups_forall; [assumption|].
    eapply Forall_impl; [|exact Hg]. intros g Hgg. apply HP. assumption. }
  split; [|split; [|split]].
  - apply Forall_app. split; [apply G; [reflexivity|assumption|intros g Hg; apply (group_text u g Hg)]|].
    cbn [app]. constructor; [reflexivity|]. constructor; [reflexivity|].
    apply G; [reflexivity|assumption|intros g Hg; apply (group_text u g Hg)].
  - apply Forall_app. split; [apply G; [discriminate|assumption|intros g Hg; apply (group_text u g Hg)]|].
    cbn [app]. constructor; [discriminate|]. constructor; [discriminate|].
    apply G; [discriminate|assumption|intros g Hg; apply (group_text u g Hg)].
  - apply Forall_app. split; [apply G; [discriminate|assumption|intros g Hg; apply (group_text u g Hg)]|].
    cbn [app]. constructor; [discriminate|]. constructor; [discriminate|].
    apply G; [discriminate|assumption|intros g Hg; apply (group_text u g Hg)].
  - destruct (print_groups u hs); discriminate.
Qed.

Lemma parse_v6_compressed : forall u hs ts, (length hs + length ts <= 7)%nat ->
  Forall group16 hs -> Forall group16 ts ->
  parse_v6 (print_v6_compressed u hs ts) =
  Some (v6_of (hs ++ repeat 0 (8 - (length hs + length ts)) ++ ts) 0).
Proof.
  intros u hs ts Hn Hh Ht. unfold parse_v6, print_v6_compressed. cbn [app].
  rewrite find_dcolon_head by assumption. cbn [Nat.add].
  rewrite firstn_app, Nat.sub_diag, firstn_all. cbn [firstn]. rewrite app_nil_r.
  assert (Esk : skipn (length (print_groups u hs) + 2) (print_groups u hs ++ 58%N :: 58%N :: print_groups u ts)
                = print_groups u ts).
  { rewrite skipn_app. replace (length (print_groups u hs) + 2 - length (print_groups u hs))%nat with 2%nat by lia.
    rewrite skipn_all2 by lia. reflexivity. }
  rewrite Esk, !parse_parts by assumption.
  replace (Nat.leb (length hs + length ts) 7) with true by (symmetry; apply Nat.leb_le; lia).
  rewrite groups_val_v6_of. reflexivity.
Qed.

Lemma parse_addr_v6_compressed : forall u hs ts, (length hs + length ts <= 7)%nat ->
  Forall group16 hs -> Forall group16 ts ->
  parse_addr (print_v6_compressed u hs ts) =
  Some (V6 (v6_of (hs ++ repeat 0 (8 - (length hs + length ts)) ++ ts) 0)).
Proof.
  intros u hs ts Hn Hh Ht. destruct (v6_compressed_facts u hs ts Hh Ht) as (_ & Hd & _ & _).
  unfold parse_addr. unfold parse_v4 at 1. rewrite split_on_last by assumption. cbn [rev app].
  rewrite parse_v6_compressed by assumption. reflexivity.
Qed.

Lemma v6_compressed_ip_text : forall u hs ts, Forall group16 hs -> Forall group16 ts ->
  ip_text (print_v6_compressed u hs ts).
Proof.
  intros u hs ts Hh Ht. destruct (v6_compressed_facts u hs ts Hh Ht) as (Hc & Hd & Hs & Hn). constructor.
  - assumption.
  - assumption.
  - apply find_dd_nodot. assumption.
  - assumption.
  - apply forall_ne_last; assumption.
Qed.

(* ================= IPv6 texts: embedded IPv4 tail (uncompressed: six groups + a.b.c.d) ================= *)
Lemma dec_octet_long : forall s, (3 < length s)%nat -> dec_octet s = None.
Proof.
  intros s H. destruct s as [|c [|c2 t]]; cbn [length] in H; try lia.
  unfold dec_octet.
  replace (Nat.leb (length (c :: c2 :: t)) 3) with false by (symmetry; apply Nat.leb_gt; cbn [length]; lia).
  destruct c as [|p]; [reflexivity|].
  do 6 (try (destruct p as [p|p|]); try reflexivity).
Qed.

Lemma hex_group_long : forall s, (4 < length s)%nat -> hex_group s = None.
Proof.
  intros s H. unfold hex_group. destruct s as [|c t]; [reflexivity|].
  replace (Nat.leb (length (c :: t)) 4) with false by (symmetry; apply Nat.leb_gt; lia). reflexivity.
Qed.

Lemma print_dec_len : forall o, octet o -> (1 <= length (print_dec o))%nat.
Proof. intros o H. destruct (octet_text o H) as (_ & _ & _ & _ & _ & N). destruct (print_dec o); [contradiction|cbn; lia]. Qed.

Lemma print_v4_len : forall a b c d, octet a -> octet b -> octet c -> octet d -> (7 <= length (print_v4 a b c d))%nat.
Proof.
  intros a b c d Ha Hb Hc Hd. unfold print_v4.
  pose proof (print_dec_len a Ha). pose proof (print_dec_len b Hb). pose proof (print_dec_len c Hc).
  pose proof (print_dec_len d Hd). repeat (rewrite ?app_length; cbn [length]). lia.
Qed.

Lemma v4_no_colon : forall a b c d, octet a -> octet b -> octet c -> octet d ->
  Forall (fun x => x <> 58%N) (print_v4 a b c d).
Proof.
  intros a b c d Ha Hb Hc Hd.
  destruct (octet_text a Ha) as (_ & _ & _ & _ & Ca & _). destruct (octet_text b Hb) as (_ & _ & _ & _ & Cb & _).
  destruct (octet_text c Hc) as (_ & _ & _ & _ & Cc & _). destruct (octet_text d Hd) as (_ & _ & _ & _ & Cd & _).
  unfold print_v4. repeat (apply Forall_app; split; [assumption|]; constructor; [discriminate|]). assumption.
Qed.

Lemma v4_head : forall a b c d, octet a -> octet b -> octet c -> octet d ->
  exists x t, print_v4 a b c d = x :: t /\ x <> 58%N /\ x <> 46%N.
Proof.
  intros a b c d Ha Hb Hc Hd. destruct (octet_text a Ha) as (_ & _ & Da & _ & Ca & Na).
  unfold print_v4. destruct (print_dec a) as [|x t]; [contradiction|]. inversion Da; inversion Ca; subst.
  eexists _, _. split; [reflexivity|split; assumption].
Qed.

Lemma v4_split16 : forall a b c d, octet a -> octet b -> octet c -> octet d ->
  v4_of a b c d / 65536 = a * 256 + b /\ v4_of a b c d mod 65536 = c * 256 + d.
Proof.
  intros a b c d Ha Hb Hc Hd. unfold v4_of, octet in *.
  replace (((a * 256 + b) * 256 + c) * 256 + d) with ((c * 256 + d) + (a * 256 + b) * 65536) by lia.
  split; [rewrite Z.div_add by lia; rewrite Z.div_small by lia; lia|
          rewrite Z.mod_add by lia; apply Z.mod_small; lia].
Qed.

Lemma split_groups_v4 : forall u gs w, gs <> [] -> Forall group16 gs -> Forall (fun x => x <> 58%N) w ->
  split_on 58 (print_groups u gs ++ 58%N :: w) [] = map (fun g => print_radix 16 g u) gs ++ [w].
Proof.
  intros u gs w. induction gs as [|g gs IH]; intros Hne H Hw; [contradiction|].
  inversion H as [|? ? Hg Hgs]; subst. destruct (group_text u g Hg) as (_ & _ & _ & _ & N58 & _).
  destruct gs as [|g' r].
  - cbn [print_groups map app]. rewrite split_on_seg by assumption. rewrite split_on_last by assumption. reflexivity.
  - rewrite print_groups_cons2, <- app_assoc. cbn [app]. rewrite split_on_seg by assumption. cbn [rev app map]. f_equal.
    apply IH; [discriminate|assumption|assumption].
Qed.

Lemma parse_groups_v4 : forall u gs a b c d, Forall group16 gs -> octet a -> octet b -> octet c -> octet d ->
  parse_groups (map (fun g => print_radix 16 g u) gs ++ [print_v4 a b c d]) true =
  Some (gs ++ [a * 256 + b; c * 256 + d]).
Proof.
  intros u gs a b c d H Ha Hb Hc Hd. induction gs as [|g gs IH].
  - cbn [map app parse_groups]. pose proof (print_v4_len a b c d Ha Hb Hc Hd).
    rewrite hex_group_long by lia. rewrite parse_v4_print by assumption.
    destruct (v4_split16 a b c d Ha Hb Hc Hd) as [E1 E2]. rewrite E1, E2. reflexivity.
  - inversion H as [|? ? Hg Hgs]; subst. destruct (group_text u g Hg) as (Eg & _).
    cbn [map app]. specialize (IH Hgs).
    destruct (map (fun g0 => print_radix 16 g0 u) gs ++ [print_v4 a b c d]) as [|q l] eqn:E.
    { destruct gs; discriminate. }
    change (parse_groups (print_radix 16 g u :: q :: l) true)
      with (match hex_group (print_radix 16 g u), parse_groups (q :: l) true with
            | Some g0, Some gs0 => Some (g0 :: gs0) | _, _ => None end).
    rewrite Eg, IH. reflexivity.
Qed.

Lemma find_dcolon_embedded : forall u gs w i, gs <> [] -> Forall group16 gs -> Forall (fun x => x <> 58%N) w ->
  w <> [] -> find_dcolon (print_groups u gs ++ 58%N :: w) i = None.
Proof.
  intros u gs w. induction gs as [|g gs IH]; intros i Hne H Hw Hwne; [contradiction|].
  inversion H as [|? ? Hg Hgs]; subst. destruct (group_text u g Hg) as (_ & _ & _ & _ & N58 & _).
  destruct gs as [|g' r].
  - cbn [print_groups]. rewrite fdc_seg by assumption. destruct w as [|x t]; [contradiction|].
    inversion Hw; subst. rewrite fdc_colon by assumption.
    rewrite <- (app_nil_r (x :: t)), fdc_seg by (constructor; assumption). reflexivity.
  - rewrite print_groups_cons2, <- app_assoc, fdc_seg by assumption. cbn [app].
    inversion Hgs as [|? ? Hg' _]; subst. destruct (print_groups_head u g' r Hg') as (c & t & Ec & Hc).
    rewrite Ec. cbn [app]. rewrite fdc_colon by assumption.
    change (c :: t ++ 58%N :: w) with ((c :: t) ++ 58%N :: w). rewrite <- Ec.
    apply IH; [discriminate|assumption|assumption|assumption].
Qed.

Lemma embedded_facts : forall u gs a b c d, gs <> [] -> Forall group16 gs ->
  octet a -> octet b -> octet c -> octet d ->
  let t := print_v6_embedded u gs a b c d in
  Forall (fun x => ipc x = true) t /\ Forall (fun x => x <> 47%N) t /\ t <> [] /\
  find_sub DD t 0 = None /\ last t 0%N <> 46%N.
Proof.
  intros u gs a b c d Hne H Ha Hb Hc Hd. cbn zeta. unfold print_v6_embedded.
  destruct (v6_full_facts u gs Hne H) as (Gc & Gd & Gs & Gn).
  pose proof (v4_ip_text a b c d Ha Hb Hc Hd) as V.
  split; [apply Forall_app; split; [assumption|constructor; [reflexivity|apply V]]|].
  split; [apply Forall_app; split; [assumption|constructor; [discriminate|apply V]]|].
  split; [destruct (print_groups u gs); [contradiction|discriminate]|].
  split.
  - rewrite find_dd_app; [|apply find_dd_nodot; assumption|intros r; discriminate].
    rewrite find_dd_unfold, starts_with_cons. cbn [N.eqb Pos.eqb]. eapply find_dd_shift. apply V.
  - rewrite last_app_ne by discriminate.
    change (58%N :: print_v4 a b c d) with ([58%N] ++ print_v4 a b c d).
    rewrite last_app_ne by apply V. apply V.
Qed.

Lemma parse_addr_v6_embedded : forall u gs a b c d, length gs = 6%nat -> Forall group16 gs ->
  octet a -> octet b -> octet c -> octet d ->
  parse_addr (print_v6_embedded u gs a b c d) = Some (V6 (v6_of (gs ++ [a * 256 + b; c * 256 + d]) 0)).
Proof.
  intros u gs a b c d Hlen H Ha Hb Hc Hd.
  assert (Hne : gs <> []) by (destruct gs; discriminate).
  destruct (v6_full_facts u gs Hne H) as (_ & Gd & _ & Gn).
  destruct (octet_text a Ha) as (_ & _ & Da & _ & _ & Na). destruct (octet_text b Hb) as (_ & _ & Db & _).
  destruct (octet_text c Hc) as (_ & _ & Dc & _). destruct (octet_text d Hd) as (_ & _ & Dd & _).
  pose proof (v4_no_colon a b c d Ha Hb Hc Hd) as W58.
  destruct (v4_head a b c d Ha Hb Hc Hd) as (x & tl & Ex & Hx58 & _).
  unfold parse_addr.
  assert (E4 : parse_v4 (print_v6_embedded u gs a b c d) = None).
  { unfold parse_v4, print_v6_embedded, print_v4.
    replace (print_groups u gs ++ 58%N :: print_dec a ++ 46%N :: print_dec b ++ 46%N :: print_dec c ++ 46%N :: print_dec d)
      with ((print_groups u gs ++ 58%N :: print_dec a) ++ 46%N :: print_dec b ++ 46%N :: print_dec c ++ 46%N :: print_dec d)
      by (rewrite <- app_assoc; reflexivity).
    assert (Hfirst : Forall (fun x0 => x0 <> 46%N) (print_groups u gs ++ 58%N :: print_dec a)).
    { apply Forall_app. split; [assumption|]. constructor; [discriminate|assumption]. }
    rewrite split_on_seg by assumption.
    rewrite !split_on_seg by assumption. rewrite split_on_last by assumption. cbn [rev app].
    rewrite dec_octet_long; [reflexivity|].
    assert (5 <= length (print_groups u gs))%nat.
    { clear -Hlen H. destruct gs as [|g1 [|g2 [|g3 [|g4 [|g5 [|g6 [|? ?]]]]]]]; try discriminate.
      rewrite !print_groups_cons2. repeat (rewrite ?app_length; cbn [length]). lia. }
    repeat (rewrite ?app_length; cbn [length]). lia. }
  rewrite E4. unfold parse_v6, print_v6_embedded.
  rewrite find_dcolon_embedded; [|assumption|assumption|assumption|rewrite Ex; discriminate].
  unfold parts_of. destruct (print_groups u gs ++ 58%N :: print_v4 a b c d) as [|y tt] eqn:E.
  { destruct (print_groups u gs); discriminate. }
  rewrite <- E. rewrite split_groups_v4, parse_groups_v4 by assumption.
  rewrite app_length, Hlen. cbn [length Nat.add Nat.eqb]. rewrite groups_val_v6_of. reflexivity.
Qed.

Lemma v6_embedded_ip_text : forall u gs a b c d, length gs = 6%nat -> Forall group16 gs ->
  octet a -> octet b -> octet c -> octet d -> ip_text (print_v6_embedded u gs a b c d).
Proof.
  intros u gs a b c d Hlen H Ha Hb Hc Hd. assert (Hne : gs <> []) by (destruct gs; discriminate).
  destruct (embedded_facts u gs a b c d Hne H Ha Hb Hc Hd) as (F1 & F2 & F3 & F4 & F5).
  constructor; assumption.
Qed.

(* ================= IPv6 texts: `::` together with a dotted tail ================= *)
Lemma dec_octet_nondigit : forall s, (2 <= length s)%nat -> forallb Lex.is_digit s = false -> dec_octet s = None.
Proof.
  intros s Hl Hf. destruct s as [|c [|c2 t]]; cbn [length] in Hl; try lia.
  unfold dec_octet.
  destruct c as [|p]; [rewrite Hf, andb_false_r; reflexivity|].
  do 6 (try (destruct p as [p|p|])); try reflexivity; cbv match beta; rewrite Hf, andb_false_r; reflexivity.
Qed.

Definition ce_tail (u : bool) (ts : list Z) (a b c d : Z) : bytes :=
  match ts with [] => print_v4 a b c d | _ => print_groups u ts ++ 58%N :: print_v4 a b c d end.

Lemma ce_tail_parts : forall u ts a b c d, Forall group16 ts -> octet a -> octet b -> octet c -> octet d ->
  parse_groups (parts_of (ce_tail u ts a b c d)) true = Some (ts ++ [a * 256 + b; c * 256 + d]).
Proof.
  intros u ts a b c d Ht Ha Hb Hc Hd. pose proof (v4_no_colon a b c d Ha Hb Hc Hd) as W.
  destruct (v4_head a b c d Ha Hb Hc Hd) as (x & tl & Ex & _).
  unfold ce_tail, parts_of. destruct ts as [|g r].
  - destruct (print_v4 a b c d) as [|y yt] eqn:E; [discriminate|]. rewrite <- E in *.
    rewrite split_on_last by assumption. cbn [rev app].
    apply (parse_groups_v4 u [] a b c d); (assumption || constructor).
  - destruct (print_groups u (g :: r) ++ 58%N :: print_v4 a b c d) as [|y tt] eqn:E.
    { destruct (print_groups u (g :: r)); discriminate. }
    rewrite <- E. rewrite split_groups_v4 by (discriminate || assumption).
    apply parse_groups_v4; assumption.
Qed.

Lemma ce_tail_facts : forall u ts a b c d, Forall group16 ts -> octet a -> octet b -> octet c -> octet d ->
  let t := ce_tail u ts a b c d in
  Forall (fun x => ipc x = true) t /\ Forall (fun x => x <> 47%N) t /\ t <> [] /\
  find_sub DD t 0 = None /\ last t 0%N <> 46%N /\ (forall r, t <> 46%N :: r).
Proof.
  intros u ts a b c d Ht Ha Hb Hc Hd. cbn zeta. unfold ce_tail.
  pose proof (v4_ip_text a b c d Ha Hb Hc Hd) as V.
  destruct (v4_head a b c d Ha Hb Hc Hd) as (x & tl & Ex & _ & Hx46).
  destruct ts as [|g r].
  - split; [apply V|]. split; [apply V|]. split; [apply V|]. split; [apply V|]. split; [apply V|].
    intros r0 E. rewrite Ex in E. inversion E. congruence.
  - assert (Hne : g :: r <> []) by discriminate.
    destruct (embedded_facts u (g :: r) a b c d Hne Ht Ha Hb Hc Hd) as (F1 & F2 & F3 & F4 & F5).
    unfold print_v6_embedded in *. repeat (split; [assumption|]).
    intros r0 E. inversion Ht as [|? ? Hg _]; subst. destruct (group_text u g Hg) as (_ & _ & D46 & _ & _ & Nn).
    destruct r as [|g' r'].
    + cbn [print_groups] in E. destruct (print_radix 16 g u) as [|y yt]; [contradiction|].
      inversion D46; subst. inversion E. congruence.
    + rewrite print_groups_cons2 in E. destruct (print_radix 16 g u) as [|y yt]; [contradiction|].
      inversion D46; subst. inversion E. congruence.
Qed.

Lemma ce_text_eq : forall u hs ts a b c d,
  print_v6_compressed_embedded u hs ts a b c d = print_groups u hs ++ 58%N :: 58%N :: ce_tail u ts a b c d.
Proof. reflexivity. Qed.

Lemma ce_facts : forall u hs ts a b c d, Forall group16 hs -> Forall group16 ts ->
  octet a -> octet b -> octet c -> octet d -> ip_text (print_v6_compressed_embedded u hs ts a b c d).
Proof.
  intros u hs ts a b c d Hh Ht Ha Hb Hc Hd. rewrite ce_text_eq.
  destruct (ce_tail_facts u ts a b c d Ht Ha Hb Hc Hd) as (T1 & T2 & T3 & T4 & T5 & T6).
  assert (G : forall (P : N -> Prop), P 58%N ->
              (forall g, group16 g -> Forall P (print_radix 16 g u)) -> Forall P (print_groups u hs)).
  { intros P H58 HP. apply print_groups_forall; [assumption|].
    eapply Forall_impl; [|exact Hh]. intros g Hgg. apply HP. assumption. }
  constructor.
  - destruct (print_groups u hs); discriminate.
  - apply Forall_app. split; [apply G; [reflexivity|intros g Hg; apply (group_text u g Hg)]|].
    constructor; [reflexivity|]. constructor; [reflexivity|assumption].
  - rewrite find_dd_app; [|apply find_dd_nodot; apply G; [discriminate|intros g Hg; apply (group_text u g Hg)]
                          |intros r; discriminate].
    rewrite find_dd_unfold, starts_with_cons. cbn [N.eqb Pos.eqb].
    rewrite find_dd_unfold, starts_with_cons. cbn [N.eqb Pos.eqb]. eapply find_dd_shift. exact T4.
  - apply Forall_app. split; [apply G; [discriminate|intros g Hg; apply (group_text u g Hg)]|].
    constructor; [discriminate|]. constructor; [discriminate|assumption].
  - rewrite last_app_ne by discriminate.
    change (58%N :: 58%N :: ce_tail u ts a b c d) with ([58%N; 58%N] ++ ce_tail u ts a b c d).
    rewrite last_app_ne by assumption. assumption.
Qed.

Lemma parse_addr_ce : forall u hs ts a b c d, (length hs + length ts <= 5)%nat ->
  Forall group16 hs -> Forall group16 ts -> octet a -> octet b -> octet c -> octet d ->
  parse_addr (print_v6_compressed_embedded u hs ts a b c d) =
  Some (V6 (v6_of (hs ++ repeat 0 (6 - (length hs + length ts)) ++ ts ++ [a * 256 + b; c * 256 + d]) 0)).
Proof.
  intros u hs ts a b c d Hn Hh Ht Ha Hb Hc Hd.
  pose proof (ce_facts u hs ts a b c d Hh Ht Ha Hb Hc Hd) as I.
  unfold parse_addr.
  assert (E4 : parse_v4 (print_v6_compressed_embedded u hs ts a b c d) = None).
  { (* the text up to the first dot contains a colon: not an octet *)
    unfold parse_v4.
    destruct (octet_text a Ha) as (_ & _ & Da & _ & _ & Na). destruct (octet_text b Hb) as (_ & _ & Db & _).
    destruct (octet_text c Hc) as (_ & _ & Dc & _). destruct (octet_text d Hd) as (_ & _ & Dd & _).
    assert (Hpre : exists pre, print_v6_compressed_embedded u hs ts a b c d =
                     (pre ++ print_dec a) ++ 46%N :: print_dec b ++ 46%N :: print_dec c ++ 46%N :: print_dec d
                     /\ Forall (fun x => x <> 46%N) pre /\ In 58%N pre /\ (2 <= length pre)%nat).
    { assert (Gd : forall gs, Forall group16 gs -> Forall (fun x => x <> 46%N) (print_groups u gs)).
      { intros gs Hg. apply print_groups_forall; [discriminate|].
        eapply Forall_impl; [|exact Hg]. intros g Hgg. apply (group_text u g Hgg). }
      rewrite ce_text_eq. unfold ce_tail, print_v4. destruct ts as [|g r].
      - exists (print_groups u hs ++ [58%N; 58%N]). split; [repeat (rewrite <- app_assoc); cbn [app]; reflexivity|].
        split; [apply Forall_app; split; [apply Gd; assumption|repeat constructor; discriminate]|].
        split; [apply in_or_app; right; left; reflexivity|rewrite app_length; cbn [length]; lia].
      - exists (print_groups u hs ++ [58%N; 58%N] ++ print_groups u (g :: r) ++ [58%N]).
        split; [repeat (rewrite <- app_assoc); cbn [app]; repeat (rewrite <- app_assoc); cbn [app]; reflexivity|].
        split; [apply Forall_app; split; [apply Gd; assumption|];
                constructor; [discriminate|]; constructor; [discriminate|];
                apply Forall_app; split; [apply Gd; assumption|repeat constructor; discriminate]|].
        split; [apply in_or_app; right; left; reflexivity|rewrite !app_length; cbn [length]; lia]. }
    destruct Hpre as (pre & -> & P46 & P58 & Pl).
    rewrite split_on_seg by (apply Forall_app; split; assumption).
    rewrite !split_on_seg by assumption. rewrite split_on_last by assumption. cbn [rev app].
    rewrite dec_octet_nondigit; [reflexivity|rewrite app_length; lia|].
    rewrite forallb_app. replace (forallb Lex.is_digit pre) with false; [reflexivity|].
    symmetry. apply not_true_is_false. intro Hall. rewrite forallb_forall in Hall.
    specialize (Hall _ P58). discriminate. }
  rewrite E4. unfold parse_v6. rewrite ce_text_eq.
  rewrite find_dcolon_head by assumption. cbn [Nat.add].
  rewrite firstn_app, Nat.sub_diag, firstn_all. cbn [firstn]. rewrite app_nil_r.
  assert (Esk : skipn (length (print_groups u hs) + 2)
                  (print_groups u hs ++ 58%N :: 58%N :: ce_tail u ts a b c d) = ce_tail u ts a b c d).
  { rewrite skipn_app. replace (length (print_groups u hs) + 2 - length (print_groups u hs))%nat with 2%nat by lia.
    rewrite skipn_all2 by lia. reflexivity. }
  rewrite Esk, parse_parts, ce_tail_parts by assumption.
  rewrite app_length. cbn [length].
  replace (Nat.leb (length hs + (length ts + 2)) 7) with true by (symmetry; apply Nat.leb_le; lia).
  rewrite groups_val_v6_of.
  replace (8 - (length hs + (length ts + 2)))%nat with (6 - (length hs + length ts))%nat by lia.
  reflexivity.
Qed.

(* the canonical texts of Spec/C06.v *)
Lemma addr_text_facts : forall t a, addr_text t a -> ip_text t /\ parse_addr t = Some a.
Proof.
  intros t a H. destruct H as [a b c d Ha Hb Hc Hd|u gs Hlen Hg|u hs ts Hn Hh Ht|u gs a b c d Hlen Hg Ha Hb Hc Hd|u hs ts a b c d Hn Hh Ht Ha Hb Hc Hd].
  - split; [apply v4_ip_text; assumption|apply parse_addr_v4; assumption].
  - split; [apply v6_full_ip_text; assumption|apply parse_addr_v6_full; assumption].
  - split; [apply v6_compressed_ip_text; assumption|apply parse_addr_v6_compressed; assumption].
  - split; [apply v6_embedded_ip_text; assumption|apply parse_addr_v6_embedded; assumption].
  - split; [apply ce_facts; assumption|apply parse_addr_ce; assumption].
Qed.
