(* Proofs for C17: `in $list` delegates to the context's matcher for the type,
   the list-name lexer accepts exactly the permitted names, the parser model
   rejects `in $name` without a registered list, and the context's matcher
   slots refine the abstract, type-keyed matcher state for every history. *)
From Coq Require Import List ZArith NArith Bool Lia Arith.
From WF Require Import Base.Bytes Sem.RangeSet Sem.Matchers Lang.Types Lang.Ast Lang.Context
     Sem.Compile Spec.Denote Spec.Typing Proofs.ScalarProofs Proofs.ValueProofs Proofs.IndexProofs
     Proofs.ExecProofs Proofs.CallProofs Proofs.FullProofs
     Parse.Lex Parse.Parser Proofs.ParserProofs Proofs.ParserClosed
     Sem.ListState Spec.C17.
Import ListNotations.
Local Notation length := List.length (only parsing).

(* ================================================================== *)
(* (a) delegation                                                      *)
(* ================================================================== *)

Definition list_ty (t : ty) : Prop := t = TInt \/ t = TBytes \/ t = TIp.

Lemma list_ty_prim t : list_ty t -> is_prim t = true.
Proof. intros [->|[->| ->]]; reflexivity. Qed.

(* the specification's comparison on a value of a list type is the matcher's answer *)
Lemma cmp_holds_inlist sch c li name tl v :
  list_ty tl -> has_type v tl = true ->
  cmp_holds sch (CInList li name) c v = option_map (fun m => match_value m name v) (ctx_matcher sch c tl).
Proof.
  intros Hl Hv. pose proof (has_type_prim_inv v tl Hv) as Hinv. unfold ctx_matcher.
  destruct Hl as [->|[->| ->]]; destruct Hinv as [x ->]; cbn [cmp_holds type_of];
    destruct (list_index sch _) as [i|]; reflexivity.
Qed.

Lemma all_some_map_some {A B} (f : A -> option B) (g : A -> B) (l : list A) :
  Forall (fun x => f x = Some (g x)) l -> all_some (map f l) = Some (map g l).
Proof.
  induction 1 as [|x l Hx _ IH]; cbn [map all_some]; [reflexivity|]. rewrite Hx, IH. reflexivity.
Qed.

(* the values a well-typed path selects have the path's static type *)
Lemma select_typed base t0 idx t :
  (forall v, base = Some v -> has_type v t0 = true) -> ty_index_ok t0 idx = Some t ->
  match select base idx with
  | SAbsent => True
  | SOne x => has_type x t = true
  | SMany l => Forall (fun x => has_type x t = true) l
  end.
Proof.
  intros Hb Hi. unfold select. destruct base as [v|].
  - specialize (Hb v eq_refl). destruct (Nat.eqb (map_each_count idx) 0) eqn:En.
    + apply Nat.eqb_eq in En. destruct (get_nested_typed idx v t0 t Hb Hi En) as (_ & Hx).
      destruct (get_path v idx) as [x|]; [now apply Hx|exact I].
    + now apply (flatten_typed idx v t0 t).
  - destruct (Nat.eqb (map_each_count idx) 0); [exact I|constructor].
Qed.

Lemma wt_inlist_inv sch lhs li name t :
  wt_lexpr sch (EComparison lhs (CInList li name)) = Some t ->
  exists tl, wt_iexpr sch lhs = Some tl /\ list_ty tl /\ list_index sch tl = Some li /\
             t = (if Nat.eqb (map_each_count (iexpr_idx lhs)) 0 then TBool else TArray TBool).
Proof.
  cbn [wt_lexpr]. destruct (wt_iexpr sch lhs) as [tl|]; [|discriminate].
  intros H. exists tl.
  assert (Hop : forall tl', tl' = tl -> list_ty tl' ->
            (if is_prim tl' && op_ok sch tl' (CInList li name)
             then Some (if Nat.eqb (map_each_count (iexpr_idx lhs)) 0 then TBool else TArray TBool) else None) = Some t ->
            list_index sch tl' = Some li /\
            t = (if Nat.eqb (map_each_count (iexpr_idx lhs)) 0 then TBool else TArray TBool)).
  { intros tl' _ Hl H'. rewrite (list_ty_prim tl' Hl) in H'. cbn [andb] in H'.
    destruct (op_ok sch tl' (CInList li name)) eqn:Eo; [|discriminate]. injection H' as <-.
    split; [|reflexivity].
    destruct Hl as [->|[->| ->]]; cbn [op_ok] in Eo; destruct (list_index sch _) as [i|]; try discriminate;
      apply Nat.eqb_eq in Eo; now subst. }
  destruct tl as [| | | |e|e]; try discriminate H.
  - destruct (Hop TBytes eq_refl (or_intror (or_introl eq_refl)) H) as [H1 H2].
    split; [reflexivity|]. split; [right; left; reflexivity|]. split; assumption.
  - destruct (Hop TInt eq_refl (or_introl eq_refl) H) as [H1 H2].
    split; [reflexivity|]. split; [left; reflexivity|]. split; assumption.
  - destruct (Hop TIp eq_refl (or_intror (or_intror eq_refl)) H) as [H1 H2].
    split; [reflexivity|]. split; [right; right; reflexivity|]. split; assumption.
  - destruct e; discriminate H.
  - destruct e; discriminate H.
Qed.

Lemma ctx_ok_lists sch c : ctx_ok sch c = true -> length (cx_lists c) = length (sc_lists sch).
Proof. unfold ctx_ok. intros H. apply andb_true_iff in H. destruct H as [_ H]. now apply Nat.eqb_eq in H. Qed.

Lemma ctx_matcher_some sch c tl li :
  ctx_ok sch c = true -> list_index sch tl = Some li -> exists m, ctx_matcher sch c tl = Some m.
Proof.
  intros Hc Hl. unfold ctx_matcher. rewrite Hl. pose proof (list_index_bound _ _ _ Hl) as Hb.
  rewrite <- (ctx_ok_lists sch c Hc) in Hb.
  destruct (nth_error (cx_lists c) li) as [m|] eqn:E; [eauto|]. apply nth_error_None in E. lia.
Qed.

(* the denotation of `lhs in $name` is the specification built from the matcher's answers *)
Lemma denote_inlist sch c lhs li name tl m base t0 :
  list_ty tl -> ctx_matcher sch c tl = Some m ->
  denote_ident sch lhs c = Some (base, t0, iexpr_idx lhs) ->
  ty_index_ok t0 (iexpr_idx lhs) = Some tl ->
  (forall v, base = Some v -> has_type v t0 = true) ->
  denote sch (EComparison lhs (CInList li name)) c =
  Some (in_list_spec (match_value m name) (select base (iexpr_idx lhs))).
Proof.
  intros Hl Hm Hden Hidx Hbase. rewrite denote_cmp_eq, Hden, ty_index_spec_eq, Hidx.
  rewrite (cmp_denote_prim sch c _ tl base _ (list_ty_prim tl Hl)). unfold cmp_plain.
  pose proof (select_typed base t0 (iexpr_idx lhs) tl Hbase Hidx) as Ht.
  destruct (select base (iexpr_idx lhs)) as [|x|l]; cbn [in_list_spec].
  - reflexivity.
  - rewrite (cmp_holds_inlist sch c li name tl x Hl Ht), Hm. reflexivity.
  - rewrite (all_some_map_some _ (match_value m name)); [reflexivity|].
    eapply Forall_impl; [|exact Ht]. intros x Hx. cbv beta.
    rewrite (cmp_holds_inlist sch c li name tl x Hl Hx), Hm. reflexivity.
Qed.

Theorem inlist_delegates sch c lhs li name t :
  ctx_ok sch c = true -> fns_ok sch ->
  wt_lexpr sch (EComparison lhs (CInList li name)) = Some t ->
  exists tl m base t0 ce,
    wt_iexpr sch lhs = Some tl /\ list_ty tl /\ list_index sch tl = Some li /\
    ctx_matcher sch c tl = Some m /\
    denote_ident sch lhs c = Some (base, t0, iexpr_idx lhs) /\
    compile_lexpr sch (EComparison lhs (CInList li name)) = Some ce /\
    runs c ce (in_list_spec (match_value m name) (select base (iexpr_idx lhs))).
Proof.
  intros Hc Hf Hwt. destruct (wt_inlist_inv sch lhs li name t Hwt) as (tl & Htl & Hl & Hli & _).
  destruct (ctx_matcher_some sch c tl li Hc Hli) as (m & Hm).
  destruct (full_correct_mut sch c Hc Hf) as (PL & _ & PI & _).
  destruct (PI lhs tl Htl) as (_ & base & t0 & src & Hden & Hidx & Hbase & _).
  destruct (PL _ t Hwt) as (_ & ce & r & Hce & Hr & Hruns & _).
  rewrite (denote_inlist sch c lhs li name tl m base t0 Hl Hm Hden Hidx Hbase) in Hr. injection Hr as <-.
  exists tl, m, base, t0, ce. repeat split; assumption.
Qed.

(* without [*]: a filter by itself *)
Corollary inlist_filter_delegates sch c lhs li name :
  ctx_ok sch c = true -> fns_ok sch ->
  wt_filter sch (EComparison lhs (CInList li name)) = true ->
  exists tl m base t0,
    wt_iexpr sch lhs = Some tl /\ list_ty tl /\ ctx_matcher sch c tl = Some m /\
    denote_ident sch lhs c = Some (base, t0, iexpr_idx lhs) /\
    run_filter sch (EComparison lhs (CInList li name)) c =
    Some (match select base (iexpr_idx lhs) with SOne v => match_value m name v | _ => false end).
Proof.
  intros Hc Hf Hwt. unfold wt_filter in Hwt.
  destruct (wt_lexpr sch (EComparison lhs (CInList li name))) as [t|] eqn:Et; [|discriminate].
  destruct t; try discriminate Hwt.
  destruct (inlist_delegates sch c lhs li name TBool Hc Hf Et)
    as (tl & m & base & t0 & ce & H1 & H2 & H3 & H4 & H5 & H6 & H7).
  destruct (wt_inlist_inv sch lhs li name TBool Et) as (tl' & Htl' & _ & _ & Hshape).
  exists tl, m, base, t0. repeat split; try assumption.
  unfold run_filter. rewrite H6.
  destruct (Nat.eqb (map_each_count (iexpr_idx lhs)) 0) eqn:En; [|discriminate Hshape].
  unfold select in *. rewrite En in *.
  destruct base as [v|]; [destruct (get_path v (iexpr_idx lhs))|]; cbn [in_list_spec] in H7;
    destruct ce as [f|f]; cbn [runs] in H7; try contradiction; exact H7.
Qed.

(* ================================================================== *)
(* (b) the built-in lists                                              *)
(* ================================================================== *)

Lemma always_matches_all : always_answers MAlways.
Proof. intros name v. reflexivity. Qed.

Lemma never_matches_none : never_answers MNever.
Proof. intros name v. reflexivity. Qed.

Lemma in_list_spec_always name x :
  in_list_spec (match_value MAlways name) x =
  match x with SAbsent => ROne false | SOne _ => ROne true | SMany l => RVec (map (fun _ => true) l) end.
Proof. destruct x; reflexivity. Qed.

Lemma in_list_spec_never name x :
  in_list_spec (match_value MNever name) x =
  match x with SAbsent | SOne _ => ROne false | SMany l => RVec (map (fun _ => false) l) end.
Proof. destruct x; reflexivity. Qed.

(* ================================================================== *)
(* (c) list names                                                      *)
(* ================================================================== *)

Lemma listname_char_eq b : is_ascii b && is_listname_char b = name_char b.
Proof.
  unfold is_ascii, is_listname_char, is_digit, name_char.
  destruct (N.ltb_spec b 128) as [Hlt|Hge]; cbn [andb]; [reflexivity|].
  symmetry. repeat (apply orb_false_iff; split); try (apply andb_false_iff; right; apply N.leb_gt; lia);
    apply N.eqb_neq; lia.
Qed.

Lemma take_while_split s : forall name rest,
  name_split s name rest -> take_while_go is_listname_char s = (name, rest).
Proof.
  induction s as [|b s IH]; intros name rest (Hs & Hn & Hr).
  - destruct name; [|discriminate Hs]. cbn in Hs. subst rest. reflexivity.
  - destruct name as [|x name].
    + cbn in Hs. subst rest. cbn [take_while_go]. rewrite listname_char_eq, Hr. reflexivity.
    + cbn in Hs. injection Hs as <- Hs. cbn [forallb] in Hn. apply andb_true_iff in Hn. destruct Hn as [Hb Hn].
      cbn [take_while_go]. rewrite listname_char_eq, Hb.
      rewrite (IH name rest); [reflexivity|]. repeat split; assumption.
Qed.

Lemma name_run_split s : name_split s (name_run s) (skipn (length (name_run s)) s).
Proof.
  induction s as [|b s IH]; cbn [name_run].
  - repeat split.
  - destruct (name_char b) eqn:Eb.
    + destruct IH as (H1 & H2 & H3). cbn [length skipn]. repeat split.
      * cbn. f_equal. exact H1.
      * cbn [forallb]. now rewrite Eb, H2.
      * exact H3.
    + cbn. repeat split. exact Eb.
Qed.

Lemma name_split_unique s : forall name rest, name_split s name rest -> name = name_run s.
Proof.
  induction s as [|b s IH]; intros name rest (Hs & Hn & Hr).
  - destruct name; [reflexivity|discriminate Hs].
  - destruct name as [|x name].
    + cbn in Hs. subst rest. cbn [name_run]. now rewrite Hr.
    + cbn in Hs. injection Hs as <- Hs. cbn [forallb] in Hn. apply andb_true_iff in Hn. destruct Hn as [Hb Hn].
      cbn [name_run]. rewrite Hb. f_equal. apply (IH name rest). repeat split; assumption.
Qed.

(* ListName::lex after `$`: the longest run of name characters is read; it is
   accepted exactly when it is a permitted name *)
Theorem lex_list_name_spec s name rest :
  name_split s name rest ->
  lex_list_name (36 :: s)%N =
  if permitted_name name then LOk name rest else LErr EInvalidListName s (length s).
Proof.
  intros Hsp. unfold lex_list_name. cbn [starts_with]. rewrite N.eqb_refl.
  rewrite (take_while_split s name rest Hsp). destruct Hsp as (_ & Hn & _).
  destruct name as [|x name]; [reflexivity|].
  unfold permitted_name. rewrite Hn. cbn [andb hd].
  destruct (x =? 46)%N; cbn [negb orb andb]; [reflexivity|].
  destruct (last (x :: name) 0 =? 46)%N; reflexivity.
Qed.

Theorem lex_list_name_no_dollar i :
  starts_with [36]%N i = None -> lex_list_name i = LErr EExpectedLiteral i (length i).
Proof. intros H. unfold lex_list_name. now rewrite H. Qed.

(* both directions, for every input *)
Corollary lex_list_name_accepts i name rest :
  lex_list_name i = LOk name rest <->
  exists s, i = (36 :: s)%N /\ name_split s name rest /\ permitted_name name = true.
Proof.
  split.
  - intros H. destruct (starts_with [36]%N i) as [s|] eqn:Es.
    + apply starts_with_app in Es. cbn in Es. subst i. exists s. split; [reflexivity|].
      pose proof (name_run_split s) as Hsp. rewrite (lex_list_name_spec s _ _ Hsp) in H.
      destruct (permitted_name (name_run s)) eqn:Ep; [|discriminate H]. injection H as <- <-. split; assumption.
    + rewrite (lex_list_name_no_dollar i Es) in H. discriminate H.
  - intros (s & -> & Hsp & Hp). rewrite (lex_list_name_spec s name rest Hsp), Hp. reflexivity.
Qed.

Corollary lex_list_name_rejects s :
  permitted_name (name_run s) = false -> lex_list_name (36 :: s)%N = LErr EInvalidListName s (length s).
Proof. intros H. rewrite (lex_list_name_spec s _ _ (name_run_split s)), H. reflexivity. Qed.

(* what a permitted name is, spelled out *)
Lemma permitted_name_iff n :
  permitted_name n = true <->
  n <> [] /\ Forall (fun b => name_char b = true) n /\ hd 0%N n <> 46%N /\ last n 0%N <> 46%N.
Proof.
  unfold permitted_name. destruct n as [|b n].
  - split; [discriminate|]. intros (H & _). congruence.
  - rewrite !andb_true_iff, !negb_true_iff, !N.eqb_neq, forallb_forall, Forall_forall. cbn [hd].
    split; [intros [[H1 H2] H3]|intros (_ & H1 & H2 & H3)]; repeat split; auto; discriminate.
Qed.

(* ---- ComparisonExpr::lex_with_lhs, the `in $name` branch ---- *)

Theorem with_lhs_in_list sch st f d input lhs t after_op s :
  ty_iexpr sch lhs = Some t -> list_ty t ->
  lex_alts comparison_ops (skip_space input) = Some (OpIn, after_op) ->
  skip_space after_op = (36 :: s)%N ->
  lex_with_lhs sch st (S f) d input lhs =
  match lex_list_name (36 :: s)%N with
  | LOk name rest =>
      match list_index sch t with
      | Some li => LOk (EComparison lhs (CInList li name)) rest
      | None => LErr EUnsupportedOp (skip_space input) (span_len (skip_space input) rest)
      end
  | LErr k a n => LErr k a n
  | LPanic => LPanic
  | LFuel => LFuel
  end.
Proof.
  intros Ht Hl Hop Hs. cbn [lex_with_lhs]. rewrite Ht.
  destruct Hl as [->|[->| ->]]; cbv zeta; rewrite Hop, Hs; cbn [negb starts_with]; rewrite N.eqb_refl;
    destruct (lex_list_name (36 :: s)%N); reflexivity.
Qed.

(* accepted exactly when the name read is permitted and a list is registered for the type *)
Corollary with_lhs_in_list_spec sch st f d input lhs t after_op s name rest :
  ty_iexpr sch lhs = Some t -> list_ty t ->
  lex_alts comparison_ops (skip_space input) = Some (OpIn, after_op) ->
  skip_space after_op = (36 :: s)%N -> name_split s name rest ->
  lex_with_lhs sch st (S f) d input lhs =
  if permitted_name name then
    match list_index sch t with
    | Some li => LOk (EComparison lhs (CInList li name)) rest
    | None => LErr EUnsupportedOp (skip_space input) (span_len (skip_space input) rest)
    end
  else LErr EInvalidListName s (length s).
Proof.
  intros Ht Hl Hop Hs Hsp. rewrite (with_lhs_in_list sch st f d input lhs t after_op s Ht Hl Hop Hs).
  rewrite (lex_list_name_spec s name rest Hsp). destruct (permitted_name name); reflexivity.
Qed.

Corollary no_list_rejected sch st f d input lhs t after_op s :
  ty_iexpr sch lhs = Some t -> list_ty t ->
  lex_alts comparison_ops (skip_space input) = Some (OpIn, after_op) ->
  skip_space after_op = (36 :: s)%N ->
  list_index sch t = None ->
  exists k a n, lex_with_lhs sch st (S f) d input lhs = LErr k a n /\ (k = EUnsupportedOp \/ k = EInvalidListName).
Proof.
  intros Ht Hl Hop Hs Hn.
  rewrite (with_lhs_in_list_spec sch st f d input lhs t after_op s _ _ Ht Hl Hop Hs (name_run_split s)), Hn.
  destruct (permitted_name (name_run s)); eauto 8.
Qed.

(* ================================================================== *)
(* (d) matcher state: the slots refine the type-keyed abstract state    *)
(* ================================================================== *)

(* ---- lists ---- *)
Lemma nth_error_ext {A} : forall (l1 l2 : list A), (forall i, nth_error l1 i = nth_error l2 i) -> l1 = l2.
Proof.
  induction l1 as [|x l1 IH]; intros [|y l2] H.
  - reflexivity.
  - specialize (H 0%nat). discriminate H.
  - specialize (H 0%nat). discriminate H.
  - pose proof (H 0%nat) as H0. cbn in H0. injection H0 as <-. f_equal. apply IH. intros i. exact (H (S i)).
Qed.

Lemma set_nth_length {A} (l : list A) : forall i x, length (set_nth l i x) = length l.
Proof. induction l as [|y l IH]; intros [|i] x; cbn; auto. Qed.

Lemma nth_error_set_nth {A} (l : list A) : forall i x j,
  nth_error (set_nth l i x) j =
  if Nat.eqb j i then (if Nat.ltb i (length l) then Some x else None) else nth_error l j.
Proof.
  induction l as [|y l IH]; intros i x j.
  - destruct i, j; cbn; try reflexivity; destruct (Nat.eqb j i); reflexivity.
  - destruct i as [|i], j as [|j]; cbn [set_nth nth_error Nat.eqb]; try reflexivity.
    rewrite IH. cbn [length]. change (Nat.ltb (S i) (S (length l))) with (Nat.ltb i (length l)). reflexivity.
Qed.

Lemma nth_error_seq s n : forall j, nth_error (seq s n) j = if Nat.ltb j n then Some (s + j)%nat else None.
Proof.
  revert s. induction n as [|n IH]; intros s j; cbn [seq].
  - destruct j; reflexivity.
  - destruct j as [|j]; cbn [nth_error]; [now rewrite Nat.add_0_r|].
    rewrite IH. change (Nat.ltb (S j) (S n)) with (Nat.ltb j n). now rewrite Nat.add_succ_r.
Qed.

Lemma nth_error_view {A} (g : nat -> A) n j :
  nth_error (map g (seq 0 n)) j = if Nat.ltb j n then Some (g j) else None.
Proof.
  destruct (nth_error (seq 0 n) j) as [x|] eqn:E.
  - rewrite (map_nth_error g _ _ E). rewrite nth_error_seq in E. destruct (Nat.ltb j n); [|discriminate].
    now injection E as <-.
  - rewrite nth_error_seq in E. destruct (Nat.ltb j n) eqn:El; [discriminate|].
    apply nth_error_None. rewrite map_length, seq_length. now apply Nat.ltb_ge.
Qed.

Lemma set_nth_view {A} (g : nat -> A) n f x :
  (f < n)%nat -> set_nth (map g (seq 0 n)) f x = map (upd_nat g f x) (seq 0 n).
Proof.
  intros Hf. apply nth_error_ext. intros j. rewrite nth_error_set_nth, !nth_error_view, map_length, seq_length.
  unfold upd_nat. destruct (Nat.eqb_spec j f) as [->|Hne].
  - apply Nat.ltb_lt in Hf. now rewrite Hf.
  - reflexivity.
Qed.

Lemma map_const_seq {A B} (l : list A) (x : B) : map (fun _ => x) l = map (fun _ => x) (seq 0 (length l)).
Proof.
  transitivity (repeat x (length l)).
  - induction l as [|y l IH]; cbn; [reflexivity|]. now rewrite IH.
  - generalize 0%nat. induction (length l) as [|n IH]; intros s; cbn; [reflexivity|]. now rewrite <- IH.
Qed.

Lemma in_rotate {A} k (l : list A) x : In x (rotate k l) <-> In x l.
Proof.
  unfold rotate. generalize (Nat.modulo k (length l)). intros n. rewrite in_app_iff.
  pose proof (firstn_skipn n l) as E. split; intros H.
  - rewrite <- E. apply in_app_iff. tauto.
  - rewrite <- E in H. apply in_app_iff in H. tauto.
Qed.

(* ---- the registered lists ---- *)
Lemma ty_eqb_neq a b : a <> b -> ty_eqb a b = false.
Proof. intros H. destruct (ty_eqb a b) eqn:E; [|reflexivity]. apply ty_eqb_eq in E. contradiction. Qed.

Lemma list_index_from_kind ls t : forall k0,
  match list_index_from ls t k0 with
  | Some i => exists j k, i = (k0 + j)%nat /\ nth_error ls j = Some (t, k) /\
                          option_map snd (find (fun p => ty_eqb t (fst p)) ls) = Some k
  | None => find (fun p => ty_eqb t (fst p)) ls = None
  end.
Proof.
  induction ls as [|[t' k'] ls IH]; intros k0; cbn [list_index_from find fst]; [reflexivity|].
  destruct (ty_eqb t t') eqn:E.
  - apply ty_eqb_eq in E. subst t'. exists 0%nat, k'. rewrite Nat.add_0_r. repeat split.
  - specialize (IH (S k0)). destruct (list_index_from ls t (S k0)) as [i|]; [|exact IH].
    destruct IH as (j & k & -> & Hn & Hf). exists (S j), k. repeat split; [lia|exact Hn|exact Hf].
Qed.

Lemma list_index_kind sch t :
  match list_index sch t with
  | Some i => exists k, nth_error (sc_lists sch) i = Some (t, k) /\ kind_of sch t = Some k
  | None => kind_of sch t = None
  end.
Proof.
  unfold list_index, kind_of. pose proof (list_index_from_kind (sc_lists sch) t 0) as H.
  destruct (list_index_from (sc_lists sch) t 0) as [i|].
  - destruct H as (j & k & -> & Hn & Hf). exists k. split; assumption.
  - now rewrite H.
Qed.

Lemma distinct_nth sch i j t k k' :
  lists_distinct sch -> nth_error (sc_lists sch) i = Some (t, k) -> nth_error (sc_lists sch) j = Some (t, k') -> i = j.
Proof.
  intros Hd Hi Hj. unfold lists_distinct in Hd. rewrite NoDup_nth_error in Hd. apply Hd.
  - rewrite map_length. apply nth_error_Some. congruence.
  - rewrite (map_nth_error fst _ _ Hi), (map_nth_error fst _ _ Hj). reflexivity.
Qed.

Lemma kind_of_in sch p : lists_distinct sch -> In p (sc_lists sch) -> kind_of sch (fst p) = Some (snd p).
Proof.
  intros Hd Hin. apply In_nth_error in Hin. destruct Hin as (j & Hj). destruct p as [t k]. cbn [fst snd].
  pose proof (list_index_kind sch t) as H. destruct (list_index sch t) as [i|].
  - destruct H as (k' & Hn & Hk). rewrite Hk. f_equal.
    pose proof (distinct_nth sch i j t k' k Hd Hn Hj) as ->. congruence.
  - unfold kind_of in H. destruct (find _ _) as [p|] eqn:Ef; [discriminate H|].
    apply nth_error_In in Hj. pose proof (find_none _ _ Ef _ Hj) as Hc. cbn in Hc. now rewrite ty_eqb_refl in Hc.
Qed.

(* ---- views ---- *)
Definition getm (am : ty -> option matcher) (p : ty * list_kind) : matcher :=
  match am (fst p) with Some m => m | None => MNever end.
Definition view_lists (sch : scheme) (am : ty -> option matcher) : list matcher := map (getm am) (sc_lists sch).
Definition view_vals (sch : scheme) (av : nat -> option value) : list (option value) :=
  map av (seq 0 (length (sc_fields sch))).

Lemma a_view_eq sch a : a_view sch a = {| cx_vals := view_vals sch (a_vals a); cx_lists := view_lists sch (a_match a) |}.
Proof. reflexivity. Qed.

Lemma view_lists_length sch am : length (view_lists sch am) = length (sc_lists sch).
Proof. apply map_length. Qed.

Lemma view_lists_nth sch am i t k :
  nth_error (sc_lists sch) i = Some (t, k) ->
  nth_error (view_lists sch am) i = Some (match am t with Some m => m | None => MNever end).
Proof. intros H. unfold view_lists. now rewrite (map_nth_error _ _ _ H). Qed.

(* writing slot i = updating the state of the type registered at i *)
Lemma set_nth_view_lists sch am i t k m :
  lists_distinct sch -> nth_error (sc_lists sch) i = Some (t, k) ->
  set_nth (view_lists sch am) i m = view_lists sch (upd_ty am t (Some m)).
Proof.
  intros Hd Hi. apply nth_error_ext. intros j. rewrite nth_error_set_nth, view_lists_length.
  assert (Hlt : Nat.ltb i (length (sc_lists sch)) = true).
  { apply Nat.ltb_lt. apply nth_error_Some. congruence. }
  rewrite Hlt. destruct (Nat.eqb_spec j i) as [->|Hne].
  - rewrite (view_lists_nth _ _ _ _ _ Hi). unfold upd_ty. now rewrite ty_eqb_refl.
  - unfold view_lists. destruct (nth_error (sc_lists sch) j) as [[t' k']|] eqn:Ej.
    + rewrite !(map_nth_error _ _ _ Ej). f_equal. unfold getm, upd_ty. cbn [fst].
      rewrite ty_eqb_neq; [reflexivity|]. intros ->. apply Hne. eapply distinct_nth; eauto.
    + apply nth_error_None in Ej. transitivity (@None matcher); [|symmetry]; apply nth_error_None; now rewrite map_length.
Qed.

(* ---- invariant of the abstract state ---- *)
Definition mkind (m : matcher) : list_kind :=
  match m with MAlways => LkAlways | MNever => LkNever | MSet _ => LkSet end.

Definition am_ok (sch : scheme) (am : ty -> option matcher) : Prop :=
  forall t, match kind_of sch t with
            | Some k => exists m, am t = Some m /\ mkind m = k
            | None => am t = None
            end.

Definition av_ok (sch : scheme) (av : nat -> option value) : Prop :=
  forall f v, av f = Some v -> exists fd, nth_error (sc_fields sch) f = Some fd /\ has_type v (fd_ty fd) = true.

Definition a_ok (sch : scheme) (a : astate) : Prop := am_ok sch (a_match a) /\ av_ok sch (a_vals a).

Lemma am_ok_new sch : am_ok sch (a_match (a_new sch)).
Proof.
  intros t. cbn [a_new a_match]. destruct (kind_of sch t) as [k|]; [|reflexivity].
  exists (fresh_matcher k). split; [reflexivity|]. destruct k; reflexivity.
Qed.

Lemma am_ok_upd sch am t k m :
  am_ok sch am -> kind_of sch t = Some k -> mkind m = k -> am_ok sch (upd_ty am t (Some m)).
Proof.
  intros H Hk Hm t'. unfold upd_ty. destruct (ty_eqb t' t) eqn:E.
  - apply ty_eqb_eq in E. subst t'. rewrite Hk. eauto.
  - apply H.
Qed.

Lemma deserialize_kind k d m : deserialize_matcher k d = Some m -> mkind m = k.
Proof. destruct k, d; cbn; intros H; try discriminate H; injection H as <-; reflexivity. Qed.

Lemma deserialize_own m : deserialize_matcher (mkind m) (mdata_of m) = Some m.
Proof. destruct m; reflexivity. Qed.

(* ---- reading "$lists" ---- *)
Lemma de_lists_view sch es : lists_distinct sch -> forall cur,
  de_lists sch (view_lists sch cur) es =
  match a_entries sch cur es with inl m => Ok (view_lists sch m) | inr e => Err e end.
Proof.
  intros Hd. induction es as [|[t d] es IH]; intros cur; cbn [de_lists a_entries]; [reflexivity|].
  pose proof (list_index_kind sch t) as Hk. destruct (list_index sch t) as [i|].
  - destruct Hk as (k & Hn & Hk). rewrite Hn, Hk. destruct (deserialize_matcher k d) as [m|]; [|reflexivity].
    rewrite view_lists_length.
    assert (Hlt : Nat.ltb i (length (sc_lists sch)) = true).
    { apply Nat.ltb_lt. apply nth_error_Some. congruence. }
    rewrite Hlt, (set_nth_view_lists sch cur i t k m Hd Hn). apply IH.
  - now rewrite Hk.
Qed.

Lemma a_entries_ok sch es : forall cur m, am_ok sch cur -> a_entries sch cur es = inl m -> am_ok sch m.
Proof.
  induction es as [|[t d] es IH]; intros cur m Hc H; cbn [a_entries] in H.
  - now injection H as <-.
  - destruct (kind_of sch t) as [k|] eqn:Ek; [|discriminate H].
    destruct (deserialize_matcher k d) as [x|] eqn:Ed; [|discriminate H].
    apply (IH _ _ (am_ok_upd sch cur t k x Hc Ek (deserialize_kind _ _ _ Ed)) H).
Qed.

(* entries written from the state [am]: reading them back installs [am] at their types *)
Lemma a_entries_faithful sch am es :
  (forall t d, In (t, d) es -> exists k m, kind_of sch t = Some k /\ am t = Some m /\ mkind m = k /\ d = mdata_of m) ->
  forall cur, exists cur', a_entries sch cur es = inl cur' /\
    forall t, cur' t = if existsb (ty_eqb t) (map fst es) then am t else cur t.
Proof.
  induction es as [|[t d] es IH]; intros Hes cur; cbn [a_entries map existsb fst].
  - exists cur. split; reflexivity.
  - destruct (Hes t d (or_introl eq_refl)) as (k & m & Hk & Hm & Hmk & ->). rewrite Hk. subst k.
    rewrite deserialize_own.
    destruct (IH (fun t' d' H' => Hes t' d' (or_intror H')) (upd_ty cur t (Some m))) as (cur' & Hc & Hv).
    exists cur'. split; [exact Hc|]. intros t'. rewrite Hv. unfold upd_ty.
    destruct (existsb (ty_eqb t') (map fst es)); [now rewrite orb_true_r|]. rewrite orb_false_r.
    destruct (ty_eqb t' t) eqn:E; [|reflexivity]. apply ty_eqb_eq in E. now subst t'.
Qed.

Lemma ser_lists_view (G : ty * list_kind -> matcher) ms : forall ls i,
  (forall j p, nth_error ls j = Some p -> nth_error ms (i + j) = Some (G p)) ->
  ser_lists ls i ms = Some (map (fun p => (fst p, mdata_of (G p))) ls).
Proof.
  induction ls as [|[t k] ls IH]; intros i H; cbn [ser_lists map fst]; [reflexivity|].
  pose proof (H 0%nat (t, k) eq_refl) as H0. rewrite Nat.add_0_r in H0. rewrite H0.
  rewrite (IH (S i)); [reflexivity|]. intros j p Hj. rewrite Nat.add_succ_comm. exact (H (S j) p Hj).
Qed.

(* ---- reading the field entries ---- *)
Definition field_entries (av : nat -> option value) (i len : nat) : list (nat * value) :=
  flat_map (fun j => match av j with Some v => [(j, v)] | None => [] end) (seq i len).

Lemma ser_fields_view (av : nat -> option value) n : forall fds i,
  (i + length fds <= n)%nat -> ser_fields fds i (map av (seq 0 n)) = field_entries av i (length fds).
Proof.
  induction fds as [|fd fds IH]; intros i Hi; cbn [ser_fields length]; [reflexivity|].
  cbn [length] in Hi. unfold field_entries. cbn [seq flat_map]. rewrite nth_error_view.
  assert (Hlt : Nat.ltb i n = true) by (apply Nat.ltb_lt; lia). rewrite Hlt.
  fold (field_entries av (S i) (length fds)). rewrite <- (IH (S i)) by lia.
  destruct (av i); reflexivity.
Qed.

Definition put_entry (acc : nat -> option value) (e : nat * value) : nat -> option value :=
  upd_nat acc (fst e) (Some (snd e)).

Lemma de_fields_view sch es : forall cur,
  (forall f v, In (f, v) es -> exists fd, nth_error (sc_fields sch) f = Some fd /\ ty_eqb (fd_ty fd) (type_of v) = true) ->
  de_fields sch (view_vals sch cur) es = Ok (view_vals sch (fold_left put_entry es cur)).
Proof.
  induction es as [|[f v] es IH]; intros cur Hes; cbn [de_fields fold_left]; [reflexivity|].
  destruct (Hes f v (or_introl eq_refl)) as (fd & Hfd & Hty). rewrite Hfd, Hty.
  assert (Hf : (f < length (sc_fields sch))%nat) by (apply nth_error_Some; congruence).
  unfold view_vals at 1. rewrite map_length, seq_length. apply Nat.ltb_lt in Hf. rewrite Hf. apply Nat.ltb_lt in Hf.
  unfold view_vals at 1. rewrite (set_nth_view cur _ f (Some v) Hf).
  apply (IH (put_entry cur (f, v))). intros f' v' H'. apply Hes. now right.
Qed.

Lemma fold_field_entries av : forall len i cur j,
  fold_left put_entry (field_entries av i len) cur j =
  if Nat.leb i j && Nat.ltb j (i + len) then (match av j with Some v => Some v | None => cur j end) else cur j.
Proof.
  induction len as [|len IH]; intros i cur j; unfold field_entries; cbn [seq flat_map fold_left].
  - rewrite Nat.add_0_r. destruct (Nat.leb_spec i j), (Nat.ltb_spec j i); cbn; try reflexivity; lia.
  - rewrite fold_left_app. fold (field_entries av (S i) len). rewrite IH.
    set (cur1 := fold_left put_entry (match av i with Some v => [(i, v)] | None => [] end) cur).
    assert (Hc1 : cur1 j = if Nat.eqb j i then (match av i with Some v => Some v | None => cur i end) else cur j).
    { unfold cur1. destruct (av i) as [v|]; cbn [fold_left].
      - unfold put_entry, upd_nat. cbn [fst snd]. reflexivity.
      - destruct (Nat.eqb_spec j i) as [->|]; reflexivity. }
    rewrite Hc1. destruct (Nat.eqb_spec j i) as [->|Hne].
    + assert (E1 : Nat.leb (S i) i = false) by (apply Nat.leb_gt; lia). rewrite E1. cbn [andb].
      assert (E2 : Nat.leb i i && Nat.ltb i (i + S len) = true).
      { apply andb_true_iff. split; [apply Nat.leb_le|apply Nat.ltb_lt]; lia. }
      rewrite E2. destruct (av i); reflexivity.
    + assert (E : Nat.leb (S i) j && Nat.ltb j (S i + len) = Nat.leb i j && Nat.ltb j (i + S len)).
      { destruct (Nat.leb_spec (S i) j), (Nat.leb_spec i j), (Nat.ltb_spec j (S i + len)), (Nat.ltb_spec j (i + S len));
          cbn; try reflexivity; lia. }
      rewrite E. reflexivity.
Qed.

Lemma field_entries_in av i len f v : In (f, v) (field_entries av i len) -> av f = Some v.
Proof.
  unfold field_entries. rewrite in_flat_map. intros (j & _ & Hj). destruct (av j) as [x|] eqn:E; [|destruct Hj].
  destruct Hj as [Hj|[]]. injection Hj as <- <-. exact E.
Qed.

(* ---- the round trip ---- *)
Lemma roundtrip_identity sch a k :
  lists_distinct sch -> a_ok sch a ->
  exists d, serialize sch (a_view sch a) = Some d /\
    deserialize_into sch (new_ctx sch)
      {| cd_fields := cd_fields d; cd_lists := option_map (rotate k) (cd_lists d) |} = Ok (a_view sch a).
Proof.
  intros Hd [Hm Hv]. rewrite a_view_eq.
  set (n := length (sc_fields sch)).
  assert (Hnew_v : cx_vals (new_ctx sch) = view_vals sch (fun _ => None)).
  { cbn [new_ctx cx_vals]. unfold view_vals. apply map_const_seq. }
  assert (Hnew_l : cx_lists (new_ctx sch) = view_lists sch (a_match (a_new sch))).
  { cbn [new_ctx cx_lists]. unfold view_lists. apply map_ext_in. intros p Hp. unfold getm. cbn [a_new a_match].
    rewrite (kind_of_in sch p Hd Hp). cbn. destruct (snd p); reflexivity. }
  assert (Hsf : ser_fields (sc_fields sch) 0 (view_vals sch (a_vals a)) = field_entries (a_vals a) 0 n).
  { unfold view_vals. apply ser_fields_view. cbn. fold n. lia. }
  assert (Hfields : de_fields sch (cx_vals (new_ctx sch)) (field_entries (a_vals a) 0 n) = Ok (view_vals sch (a_vals a))).
  { rewrite Hnew_v, de_fields_view.
    - f_equal. unfold view_vals. apply map_ext_in. intros j Hj. apply in_seq in Hj. rewrite fold_field_entries.
      assert (E : Nat.leb 0 j && Nat.ltb j (0 + n) = true).
      { apply andb_true_iff. split; [reflexivity|apply Nat.ltb_lt]. fold n in Hj. lia. }
      rewrite E. destruct (a_vals a j); reflexivity.
    - intros f v Hin. apply field_entries_in in Hin. destruct (Hv f v Hin) as (fd & Hfd & Hty).
      exists fd. split; [exact Hfd|]. unfold has_type in Hty. apply andb_true_iff in Hty. destruct Hty as [Hty _].
      apply ty_eqb_eq in Hty. rewrite Hty. apply ty_eqb_refl. }
  unfold serialize. cbn [cx_lists cx_vals]. rewrite Hsf.
  destruct (view_lists sch (a_match a)) as [|m0 ms0] eqn:Evl.
  - (* no list registered *)
    eexists. split; [reflexivity|]. cbn [cd_fields cd_lists option_map]. unfold deserialize_into. cbn [cd_fields cd_lists].
    rewrite Hfields. f_equal. f_equal.
    assert (El : sc_lists sch = []).
    { unfold view_lists in Evl. destruct (sc_lists sch); [reflexivity|discriminate Evl]. }
    cbn [new_ctx cx_lists]. now rewrite El.
  - rewrite <- Evl. clear Evl m0 ms0.
    rewrite (ser_lists_view (getm (a_match a)) (view_lists sch (a_match a)) (sc_lists sch) 0).
    2:{ intros j p Hj. cbn [Nat.add]. unfold view_lists. now rewrite (map_nth_error _ _ _ Hj). }
    eexists. split; [reflexivity|]. cbn [cd_fields cd_lists option_map]. unfold deserialize_into. cbn [cd_fields cd_lists].
    rewrite Hfields, Hnew_l, (de_lists_view sch _ Hd).
    set (es := rotate k (map (fun p => (fst p, mdata_of (getm (a_match a) p))) (sc_lists sch))).
    destruct (a_entries_faithful sch (a_match a) es) with (cur := a_match (a_new sch)) as (cur' & Hc & Hcv).
    { intros t d Hin. apply in_rotate in Hin. apply in_map_iff in Hin. destruct Hin as (p & Hp & Hin).
      injection Hp as <- <-. pose proof (kind_of_in sch p Hd Hin) as Hk. pose proof (Hm (fst p)) as Hmp.
      rewrite Hk in Hmp. destruct Hmp as (m & Hmm & Hmk). exists (snd p), m. unfold getm. rewrite Hmm. auto. }
    rewrite Hc. f_equal. f_equal. unfold view_lists. apply map_ext_in. intros p Hp. unfold getm. rewrite Hcv.
    assert (E : existsb (ty_eqb (fst p)) (map fst es) = true).
    { apply existsb_exists. exists (fst p). split; [|apply ty_eqb_refl].
      apply in_map_iff. exists (fst p, mdata_of (getm (a_match a) p)). split; [reflexivity|].
      apply in_rotate. apply in_map_iff. exists p. split; [reflexivity|exact Hp]. }
    now rewrite E.
Qed.

(* ---- a new context is the view of the new abstract state ---- *)
Lemma new_ctx_view sch : lists_distinct sch -> new_ctx sch = a_view sch (a_new sch).
Proof.
  intros Hd. rewrite a_view_eq. unfold new_ctx. f_equal.
  - unfold view_vals. cbn [a_new a_vals]. apply map_const_seq.
  - unfold view_lists. apply map_ext_in. intros p Hp. unfold getm. cbn [a_new a_match].
    rewrite (kind_of_in sch p Hd Hp). cbn. destruct (snd p); reflexivity.
Qed.

Lemma a_ok_new sch : a_ok sch (a_new sch).
Proof. split; [apply am_ok_new|]. intros f v H. discriminate H. Qed.

(* ---- the view of a well-formed abstract state is a well-formed context ---- *)
Lemma slots_ok_view sch av : all_optional sch -> av_ok sch av ->
  forall fds k, (forall i fd, nth_error fds i = Some fd -> nth_error (sc_fields sch) (k + i) = Some fd) ->
  slots_ok fds (map av (seq k (length fds))) = true.
Proof.
  intros Hopt Hv. induction fds as [|fd fds IH]; intros k H; cbn [length seq map slots_ok]; [reflexivity|].
  apply andb_true_iff. split.
  - pose proof (H 0%nat fd eq_refl) as H0. rewrite Nat.add_0_r in H0. unfold slot_ok.
    destruct (av k) as [v|] eqn:E.
    + destruct (Hv k v E) as (fd' & Hfd' & Hty). congruence.
    + apply Hopt. eapply nth_error_In; eauto.
  - apply IH. intros i fd' Hi. rewrite Nat.add_succ_comm. exact (H (S i) fd' Hi).
Qed.

Lemma ctx_ok_view sch a : all_optional sch -> a_ok sch a -> ctx_ok sch (a_view sch a) = true.
Proof.
  intros Hopt [_ Hv]. unfold ctx_ok. apply andb_true_iff. split.
  - cbn [a_view cx_vals]. apply (slots_ok_view sch (a_vals a) Hopt Hv (sc_fields sch) 0). intros i fd Hi. exact Hi.
  - cbn [a_view cx_lists]. rewrite map_length. apply Nat.eqb_refl.
Qed.

Ltac same_state := split; [reflexivity|split; [assumption|split; discriminate]].

Lemma mutate_refines sch a t f :
  lists_distinct sch -> a_ok sch a ->
  with_set_matcher sch (a_view sch a) t f = (a_view sch (fst (a_mutate a t f)), snd (a_mutate a t f)) /\
  a_ok sch (fst (a_mutate a t f)) /\ snd (a_mutate a t f) <> BPanic /\ snd (a_mutate a t f) <> BUndef.
Proof.
  intros Hd Ha. pose proof Ha as [Hm Hv]. unfold with_set_matcher, a_mutate. pose proof (list_index_kind sch t) as Hk.
  pose proof (Hm t) as Hmt. destruct (list_index sch t) as [i|].
  - destruct Hk as (k & Hn & Hk). rewrite Hk in Hmt. destruct Hmt as (m & Hmm & Hmk).
    rewrite a_view_eq. cbn [cx_lists cx_vals]. rewrite (view_lists_nth sch _ i t k Hn), Hmm.
    destruct m as [| |s]; cbn [fst snd]; try same_state.
    rewrite (set_nth_view_lists sch _ i t k _ Hd Hn).
    split; [reflexivity|]. split; [|split; discriminate].
    split; [|exact Hv]. cbn [a_match]. eapply am_ok_upd; eauto.
  - rewrite Hk in Hmt. rewrite Hmt. cbn [fst snd]. same_state.
Qed.

Lemma query_refines sch a t (g : matcher -> lobs) :
  a_ok sch a ->
  match list_index sch t with
  | None => (a_view sch a, BNoList)
  | Some i => match nth_error (cx_lists (a_view sch a)) i with Some m => (a_view sch a, g m) | None => (a_view sch a, BPanic) end
  end = (a_view sch a, match a_match a t with Some m => g m | None => BNoList end).
Proof.
  intros [Hm _]. pose proof (list_index_kind sch t) as Hk. pose proof (Hm t) as Hmt.
  destruct (list_index sch t) as [i|].
  - destruct Hk as (k & Hn & Hk). rewrite Hk in Hmt. destruct Hmt as (m & Hmm & _).
    rewrite a_view_eq. cbn [cx_lists]. rewrite (view_lists_nth sch _ i t k Hn), Hmm. reflexivity.
  - rewrite Hk in Hmt. now rewrite Hmt.
Qed.

Lemma step_refines sch a o :
  lists_distinct sch -> all_optional sch -> fns_ok sch -> a_ok sch a -> lop_wf o = true ->
  l_step sch (a_view sch a) o = (a_view sch (fst (a_step sch a o)), snd (a_step sch a o)) /\
  a_ok sch (fst (a_step sch a o)) /\ snd (a_step sch a o) <> BPanic /\ snd (a_step sch a o) <> BUndef.
Proof.
  intros Hd Hopt Hf Ha Hwf. destruct o as [t name v|t name v|f v| |k|d|t|t name v|e]; cbn [l_step a_step].
  - now apply mutate_refines.
  - now apply mutate_refines.
  - (* set a value *)
    destruct (nth_error (sc_fields sch) f) as [fd|] eqn:Efd; cbn [fst snd]; [|same_state].
    destruct (ty_eqb (fd_ty fd) (type_of v)) eqn:Ety; cbn [fst snd]; [|same_state].
    assert (Hlt : (f < length (sc_fields sch))%nat) by (apply nth_error_Some; congruence).
    rewrite a_view_eq. cbn [cx_vals cx_lists]. unfold view_vals at 1. rewrite map_length, seq_length.
    apply Nat.ltb_lt in Hlt. rewrite Hlt. apply Nat.ltb_lt in Hlt.
    unfold view_vals at 1. rewrite (set_nth_view _ _ f (Some v) Hlt).
    split; [reflexivity|]. split; [|split; discriminate]. split; [exact (proj1 Ha)|].
    intros f' v'. cbn [a_vals]. unfold upd_nat. destruct (Nat.eqb_spec f' f) as [->|Hne].
    + intros [= <-]. exists fd. split; [exact Efd|]. unfold has_type. cbn [lop_wf] in Hwf. rewrite Hwf.
      apply ty_eqb_eq in Ety. rewrite Ety. now rewrite ty_eqb_refl.
    + apply (proj2 Ha).
  - (* clear *)
    cbn [fst snd]. split; [|split; [|split; discriminate]].
    + rewrite !a_view_eq. cbn [cx_vals cx_lists a_vals a_match]. f_equal. f_equal.
      * unfold view_vals. rewrite map_map. reflexivity.
      * unfold view_lists. rewrite map_map. apply map_ext. intros p. unfold getm.
        destruct (a_match a (fst p)) as [[| |s]|]; reflexivity.
    + split.
      * intros t. cbn [a_match]. pose proof (proj1 Ha t) as Ht. destruct (kind_of sch t) as [k|].
        -- destruct Ht as (m & -> & Hk). exists (emptied m). split; [reflexivity|]. destruct m; exact Hk.
        -- now rewrite Ht.
      * intros f v H. discriminate H.
  - (* round trip *)
    destruct (roundtrip_identity sch a k Hd Ha) as (d & Hs & Hde). rewrite Hs, Hde. cbn [fst snd]. same_state.
  - (* load *)
    unfold deserialize_into. cbn [cd_fields cd_lists de_fields].
    assert (Hnl : cx_lists (new_ctx sch) = view_lists sch (a_match (a_new sch))).
    { rewrite (new_ctx_view sch Hd). reflexivity. }
    rewrite Hnl, (de_lists_view sch d Hd).
    destruct (a_entries sch (a_match (a_new sch)) d) as [m|e] eqn:Ee; cbn [fst snd]; [|same_state].
    split; [|split; [|split; discriminate]].
    + rewrite a_view_eq. cbn [a_vals a_match]. f_equal. rewrite (new_ctx_view sch Hd). reflexivity.
    + split.
      * cbn [a_match]. eapply a_entries_ok; [apply am_ok_new|exact Ee].
      * intros f v H. discriminate H.
  - (* dump *)
    rewrite (query_refines sch a t BDump Ha). destruct (a_match a t); cbn [fst snd]; same_state.
  - (* probe *)
    rewrite (query_refines sch a t (fun m => BBool (match_value m name v)) Ha).
    destruct (a_match a t); cbn [fst snd]; same_state.
  - (* execute *)
    destruct (wt_filter sch e) eqn:Ewt; cbn [fst snd]; [|same_state].
    destruct (filter_exec_is_denote sch e (a_view sch a) Ewt (ctx_ok_view sch a Hopt Ha) Hf) as (b & Hr & Hden).
    rewrite Hr, Hden. same_state.
Qed.

(* ---- every history ---- *)
Theorem history_refines sch : lists_distinct sch -> all_optional sch -> fns_ok sch ->
  forall ops a, a_ok sch a -> forallb lop_wf ops = true ->
  l_run_from sch (a_view sch a) ops = a_run_from sch a ops /\
  ~ In BPanic (a_run_from sch a ops) /\ ~ In BUndef (a_run_from sch a ops).
Proof.
  intros Hd Hopt Hf. induction ops as [|o ops IH]; intros a Ha Hwf; cbn [l_run_from a_run_from].
  - repeat split; intros [].
  - cbn [forallb] in Hwf. apply andb_true_iff in Hwf. destruct Hwf as [Ho Hops].
    destruct (step_refines sch a o Hd Hopt Hf Ha Ho) as (Hs & Ha' & Hp & Hu).
    rewrite Hs. cbn [fst snd]. destruct (IH _ Ha' Hops) as (IH1 & IH2 & IH3). rewrite IH1.
    repeat split; cbn [In]; intros [H|H]; auto.
Qed.

Theorem matcher_state_history sch ops :
  lists_distinct sch -> all_optional sch -> fns_ok sch -> forallb lop_wf ops = true ->
  l_run sch ops = a_run sch ops /\ ~ In BPanic (l_run sch ops).
Proof.
  intros Hd Hopt Hf Hwf. unfold l_run, a_run. rewrite (new_ctx_view sch Hd).
  destruct (history_refines sch Hd Hopt Hf ops (a_new sch) (a_ok_new sch) Hwf) as (H1 & H2 & _).
  split; [exact H1|]. now rewrite H1.
Qed.

(* the three clauses of the property, read off the abstract machine *)
Lemma clear_empties sch a t :
  match a_match (fst (a_step sch a LClear)) t with
  | Some (MSet s) => s = []
  | Some m => a_match a t = Some m
  | None => a_match a t = None
  end.
Proof.
  cbn [a_step fst a_match]. destruct (a_match a t) as [[| |s]|]; reflexivity.
Qed.

(* ================================================================== *)
(* the queries a comparison sends to its matcher                        *)
(* ================================================================== *)

Lemma prefix_absent_empty base idx :
  prefix_absent base idx = true -> map_each_count idx <> 0%nat -> select base idx = SMany [].
Proof.
  intros Hp Hn. unfold select. apply Nat.eqb_neq in Hn. rewrite Hn. destruct base as [v|]; [|reflexivity].
  cbn [prefix_absent] in Hp.
  destruct (Nat.eqb (map_each_count idx) 1 && index_is_each (last idx (IArr 0))) eqn:E; [|discriminate Hp].
  apply andb_true_iff in E. destruct E as [E1 E2]. apply Nat.eqb_eq in E1.
  destruct (get_path v (removelast idx)) as [x|] eqn:Eg; [discriminate Hp|].
  assert (Hne : idx <> []) by (intros ->; discriminate E1).
  rewrite (app_removelast_last (IArr 0) Hne) in E1 |- *.
  destruct (last idx (IArr 0)); try discriminate E2.
  rewrite mec_app in E1. cbn in E1.
  rewrite flatten_prefix_each by lia. now rewrite Eg.
Qed.

Theorem lhs_values_spec sch c lhs tl :
  ctx_ok sch c = true -> fns_ok sch -> wt_iexpr sch lhs = Some tl ->
  exists base t0, denote_ident sch lhs c = Some (base, t0, iexpr_idx lhs) /\
    lhs_values sch lhs c = Some (in_list_queries (select base (iexpr_idx lhs))).
Proof.
  intros Hc Hf Hwt. destruct (full_correct_mut sch c Hc Hf) as (_ & _ & PI & _).
  destruct (PI lhs tl Hwt) as (_ & base & t0 & src & Hden & Hidx & Hbase & _ & _ & cv & Hcv & Hpost).
  exists base, t0. split; [exact Hden|]. unfold lhs_values. rewrite Hcv.
  destruct (cv c) as [r|]; [|destruct Hpost]. destruct Hpost as [H0 H1].
  destruct (Nat.eqb (map_each_count (iexpr_idx lhs)) 0) eqn:En.
  - pose proof En as En'. apply Nat.eqb_eq in En'. destruct (H0 En') as [-> _]. unfold select. rewrite En.
    destruct base as [v|]; [destruct (get_path v (iexpr_idx lhs))|]; cbn [sel_vres in_list_queries]; now rewrite ?En.
  - pose proof En as En'. apply Nat.eqb_neq in En'. specialize (H1 En').
    destruct (select base (iexpr_idx lhs)) as [|x|l] eqn:Es; try contradiction.
    destruct H1 as (He & _ & Hcont). destruct r as [v|ta]; cbn [vres_elems] in He.
    + destruct (prefix_absent base (iexpr_idx lhs)); [discriminate He|]. injection He as <-.
      destruct v; cbn in Hcont; try contradiction; reflexivity.
    + destruct (prefix_absent base (iexpr_idx lhs)) eqn:Ep; [|discriminate He].
      rewrite (prefix_absent_empty _ _ Ep En') in Es. injection Es as <-. reflexivity.
Qed.

(* ================================================================== *)
(* corollaries used by the property file                                *)
(* ================================================================== *)

(* the state reached by a history *)
Definition a_after (sch : scheme) (ops : list lop) : astate :=
  fold_left (fun a o => fst (a_step sch a o)) ops (a_new sch).

Lemma a_after_ok sch : lists_distinct sch -> all_optional sch -> fns_ok sch ->
  forall ops, forallb lop_wf ops = true -> a_ok sch (a_after sch ops).
Proof.
  intros Hd Hopt Hf ops. unfold a_after. generalize (a_ok_new sch). generalize (a_new sch).
  induction ops as [|o ops IH]; intros a Ha Hwf; cbn [fold_left]; [exact Ha|].
  cbn [forallb] in Hwf. apply andb_true_iff in Hwf. destruct Hwf as [Ho Hops].
  apply IH; [|exact Hops]. exact (proj1 (proj2 (step_refines sch a o Hd Hopt Hf Ha Ho))).
Qed.

(* whatever the history, the slot of a built-in list holds the built-in matcher *)
Theorem builtin_lists_fixed sch ops t :
  lists_distinct sch -> all_optional sch -> fns_ok sch -> forallb lop_wf ops = true ->
  (kind_of sch t = Some LkAlways -> ctx_matcher sch (a_view sch (a_after sch ops)) t = Some MAlways) /\
  (kind_of sch t = Some LkNever -> ctx_matcher sch (a_view sch (a_after sch ops)) t = Some MNever).
Proof.
  intros Hd Hopt Hf Hwf. pose proof (a_after_ok sch Hd Hopt Hf ops Hwf) as [Hm _].
  set (a := a_after sch ops) in *. unfold ctx_matcher.
  pose proof (list_index_kind sch t) as Hk. pose proof (Hm t) as Hmt.
  destruct (list_index sch t) as [i|].
  - destruct Hk as (k & Hn & Hk). rewrite Hk in *. destruct Hmt as (m & Hmm & Hmk).
    rewrite a_view_eq. cbn [cx_lists]. rewrite (view_lists_nth sch _ i t k Hn), Hmm.
    split; intros [= ->]; destruct m; try discriminate Hmk; reflexivity.
  - rewrite Hk. split; discriminate.
Qed.

(* `x in $name` against the always-list / the never-list *)
Theorem always_list_exec sch c lhs li name t tl :
  ctx_ok sch c = true -> fns_ok sch ->
  wt_lexpr sch (EComparison lhs (CInList li name)) = Some t ->
  wt_iexpr sch lhs = Some tl -> ctx_matcher sch c tl = Some MAlways ->
  exists base t0 ce,
    denote_ident sch lhs c = Some (base, t0, iexpr_idx lhs) /\
    compile_lexpr sch (EComparison lhs (CInList li name)) = Some ce /\
    runs c ce (match select base (iexpr_idx lhs) with
               | SAbsent => ROne false
               | SOne _ => ROne true
               | SMany l => RVec (map (fun _ => true) l)
               end).
Proof.
  intros Hc Hf Hwt Htl Hm.
  destruct (inlist_delegates sch c lhs li name t Hc Hf Hwt)
    as (tl' & m & base & t0 & ce & H1 & H2 & H3 & H4 & H5 & H6 & H7).
  assert (tl' = tl) by congruence. subst tl'. assert (m = MAlways) by congruence. subst m.
  exists base, t0, ce. rewrite in_list_spec_always in H7. auto.
Qed.

Theorem never_list_exec sch c lhs li name t tl :
  ctx_ok sch c = true -> fns_ok sch ->
  wt_lexpr sch (EComparison lhs (CInList li name)) = Some t ->
  wt_iexpr sch lhs = Some tl -> ctx_matcher sch c tl = Some MNever ->
  exists base t0 ce,
    denote_ident sch lhs c = Some (base, t0, iexpr_idx lhs) /\
    compile_lexpr sch (EComparison lhs (CInList li name)) = Some ce /\
    runs c ce (match select base (iexpr_idx lhs) with
               | SAbsent | SOne _ => ROne false
               | SMany l => RVec (map (fun _ => false) l)
               end).
Proof.
  intros Hc Hf Hwt Htl Hm.
  destruct (inlist_delegates sch c lhs li name t Hc Hf Hwt)
    as (tl' & m & base & t0 & ce & H1 & H2 & H3 & H4 & H5 & H6 & H7).
  assert (tl' = tl) by congruence. subst tl'. assert (m = MNever) by congruence. subst m.
  exists base, t0, ce. rewrite in_list_spec_never in H7. auto.
Qed.

(* through the whole parser: an accepted `lhs in $name` refers to the list registered for lhs's type *)
Theorem parsed_inlist_registered sch st text lhs li name rest :
  parse_filter sch st text = LOk (EComparison lhs (CInList li name)) rest ->
  exists tl, wt_iexpr sch lhs = Some tl /\ list_ty tl /\ list_index sch tl = Some li.
Proof.
  intros H. pose proof (parse_filter_post sch st text) as P. rewrite H in P.
  destruct P as [[Hwt _] _]. unfold wt_filter in Hwt.
  destruct (wt_lexpr sch (EComparison lhs (CInList li name))) as [t|] eqn:Et; [|discriminate Hwt].
  destruct (wt_inlist_inv sch lhs li name t Et) as (tl & H1 & H2 & H3 & _). eauto.
Qed.
