(* Values along index paths: the panicking accessors of the model agree with
   the total accessors of the specification on well-typed values, typing is
   preserved, and the MapEachIterator stack machine computes [flatten]. *)
From Coq Require Import List ZArith NArith Bool Lia Arith.
From WF Require Import Base.Bytes Sem.RangeSet Lang.Types Lang.Ast Lang.Context
     Sem.Compile Spec.Denote Spec.Typing Proofs.ScalarProofs.
Import ListNotations.

Lemma nth_N_eq {A} (l : list A) : forall n, nth_N l n = nth_N' l n.
Proof. induction l as [|x l IH]; intros n; cbn; [reflexivity|]. destruct (n =? 0)%N; auto. Qed.

Lemma nth_N_In {A} (l : list A) : forall n x, nth_N l n = Some x -> In x l.
Proof.
  induction l as [|y l IH]; intros n x H; cbn in H; [discriminate|].
  destruct (n =? 0)%N; [injection H as <-; now left|right; eauto].
Qed.

Lemma assoc_bytes_In {A} k (l : list (bytes * A)) x : assoc_bytes k l = Some x -> exists k', In (k', x) l.
Proof.
  induction l as [|[k' y] l IH]; cbn; intros H; [discriminate|].
  destruct (bytes_eqb k k'); [injection H as <-; eexists; now left|].
  destruct (IH H) as (k'' & Hin). eexists; right; eauto.
Qed.

(* ---- inversion of has_type ---- *)
Lemma has_type_array v t : has_type v (TArray t) = true ->
  exists l, v = VArray t l /\ Forall (fun x => has_type x t = true) l.
Proof.
  unfold has_type. intros H. apply andb_true_iff in H. destruct H as [Ht Hw].
  apply ty_eqb_eq in Ht. destruct v; try discriminate Ht. cbn in Ht. injection Ht as ->.
  eexists; split; [reflexivity|]. cbn in Hw. apply Forall_forall. intros x Hx.
  rewrite forallb_forall in Hw. now apply Hw.
Qed.

Lemma has_type_map v t : has_type v (TMap t) = true ->
  exists l, v = VMap t l /\ Forall (fun kv => has_type (snd kv) t = true) l.
Proof.
  unfold has_type. intros H. apply andb_true_iff in H. destruct H as [Ht Hw].
  apply ty_eqb_eq in Ht. destruct v; try discriminate Ht. cbn in Ht. injection Ht as ->.
  eexists; split; [reflexivity|]. cbn in Hw. apply andb_true_iff in Hw. destruct Hw as [Hw _].
  apply Forall_forall. intros x Hx. rewrite forallb_forall in Hw. now apply Hw.
Qed.

Lemma has_type_prim_inv v t : has_type v t = true ->
  match t with
  | TBool => exists b, v = VBool b
  | TBytes => exists b, v = VBytes b
  | TInt => exists z, v = VInt z
  | TIp => exists a, v = VIp a
  | _ => True
  end.
Proof.
  unfold has_type. intros H. apply andb_true_iff in H. destruct H as [Ht _]. apply ty_eqb_eq in Ht.
  destruct t; auto; destruct v; try discriminate Ht; eauto.
Qed.

(* ---- elements of a container ---- *)
Lemma elems_typed v t t' :
  has_type v t = true -> ty_next t = Some t' ->
  v_iter v = Some (elems v) /\ Forall (fun x => has_type x t' = true) (elems v).
Proof.
  intros Hv Hn. destruct t; try discriminate Hn; unfold ty_next in Hn; inversion Hn; subst.
  - destruct (has_type_array _ _ Hv) as (l & -> & Hl). cbn. auto.
  - destruct (has_type_map _ _ Hv) as (l & -> & Hl). cbn. split; [reflexivity|].
    apply Forall_forall. intros x Hx. apply in_map_iff in Hx. destruct Hx as (kv & <- & Hin).
    rewrite Forall_forall in Hl. now apply Hl.
Qed.

(* ---- one access ---- *)
Lemma v_get_typed v t i t' :
  has_type v t = true -> ty_index_ok t [i] = Some t' -> index_is_each i = false ->
  v_get v i = Some (get1 v i) /\ (forall x, get1 v i = Some x -> has_type x t' = true).
Proof.
  intros Hv Hi He. destruct t, i; cbn in Hi, He; try discriminate Hi; try discriminate He; injection Hi as ->.
  - destruct (has_type_array _ _ Hv) as (l & -> & Hl). cbn. rewrite nth_N_eq. split; [reflexivity|].
    intros x Hx. rewrite <- nth_N_eq in Hx. apply nth_N_In in Hx. rewrite Forall_forall in Hl. auto.
  - destruct (has_type_map _ _ Hv) as (l & -> & Hl). cbn. split; [reflexivity|].
    intros x Hx. apply assoc_bytes_In in Hx. destruct Hx as (k' & Hin). rewrite Forall_forall in Hl.
    apply (Hl (k', x) Hin).
Qed.

Lemma ty_index_ok_cons t i r t' :
  ty_index_ok t (i :: r) = Some t' -> exists s, ty_index_ok t [i] = Some s /\ ty_index_ok s r = Some t'.
Proof.
  cbn. destruct t; try (destruct i; discriminate); destruct i; try discriminate; intros H; eauto.
Qed.

Lemma ty_index_ok_app t a : forall b t',
  ty_index_ok t (a ++ b) = Some t' -> exists s, ty_index_ok t a = Some s /\ ty_index_ok s b = Some t'.
Proof.
  revert t. induction a as [|i a IH]; intros t b t' H; cbn [app] in H; [eexists; split; [reflexivity|exact H]|].
  apply ty_index_ok_cons in H. destruct H as (s & H1 & H2). destruct (IH _ _ _ H2) as (s' & H3 & H4).
  exists s'. split; auto. cbn in H1 |- *. destruct t; try (destruct i; discriminate H1); destruct i; try discriminate H1;
    injection H1 as ->; exact H3.
Qed.

Lemma ty_index_ok_eq t idx : ty_index_ok t idx = ty_index t idx.
Proof. revert t. induction idx as [|i r IH]; intros t; cbn; [reflexivity|]. destruct t, i; auto. Qed.

Lemma ty_index_spec_eq t idx : ty_index_spec t idx = ty_index_ok t idx.
Proof. revert t. induction idx as [|i r IH]; intros t; cbn; [reflexivity|]. destruct t, i; auto. Qed.

Lemma mec_cons i r : map_each_count (i :: r) = ((if index_is_each i then 1 else 0) + map_each_count r)%nat.
Proof. unfold map_each_count. cbn. destruct (index_is_each i); reflexivity. Qed.

(* ---- nested access without [*] ---- *)
Lemma get_nested_typed idx : forall v t t',
  has_type v t = true -> ty_index_ok t idx = Some t' -> map_each_count idx = 0%nat ->
  get_nested v idx = Some (get_path v idx) /\ (forall x, get_path v idx = Some x -> has_type x t' = true).
Proof.
  induction idx as [|i r IH]; intros v t t' Hv Hi Hn.
  - cbn in *. injection Hi as <-. split; [reflexivity|]. intros x [= <-]. exact Hv.
  - rewrite mec_cons in Hn. destruct (index_is_each i) eqn:Ee; [discriminate|].
    apply ty_index_ok_cons in Hi. destruct Hi as (s & H1 & H2).
    destruct (v_get_typed v t i s Hv H1 Ee) as (Hg & Hx).
    cbn [get_nested get_path]. rewrite Hg. destruct (get1 v i) as [x|] eqn:E1.
    + apply (IH x s t'); auto.
    + split; [reflexivity|discriminate].
Qed.

(* ---- flattening ---- *)
Lemma step_vals_spec v i :
  step_vals v i = match i with
                  | IEach => elems v
                  | _ => match get1 v i with Some x => [x] | None => [] end
                  end.
Proof.
  destruct i, v; cbn; try reflexivity; now rewrite nth_N_eq.
Qed.

Lemma flatten_step i r v : flatten (i :: r) v = flat_map (flatten r) (step_vals v i).
Proof.
  rewrite step_vals_spec. destruct i; cbn [flatten]; try reflexivity;
    destruct (get1 v _); cbn; now rewrite ?app_nil_r.
Qed.

Lemma step_vals_typed v t i s :
  has_type v t = true -> ty_index_ok t [i] = Some s ->
  Forall (fun x => has_type x s = true) (step_vals v i) /\
  fiter_new v i = Some (match i, v with
                        | IArr n, VArray _ l => FArr (Some (l, n))
                        | IKey k, VMap _ l => FKey (Some (l, k))
                        | IEach, VArray _ l => FEach l
                        | IEach, VMap _ l => FEach (map snd l)
                        | _, _ => FEach []
                        end).
Proof.
  intros Hv Hi. rewrite step_vals_spec.
  destruct (index_is_each i) eqn:Ee.
  - destruct i; try discriminate Ee.
    assert (Hn : ty_next t = Some s) by (destruct t; try discriminate Hi; cbn in *; congruence).
    destruct (elems_typed v t s Hv Hn) as (_ & Hall). split; [exact Hall|].
    destruct t; try discriminate Hn.
    + destruct (has_type_array _ _ Hv) as (l & -> & _). reflexivity.
    + destruct (has_type_map _ _ Hv) as (l & -> & _). reflexivity.
  - destruct (v_get_typed v t i s Hv Hi Ee) as (Hg & Hx). split.
    + destruct i; try discriminate Ee; destruct (get1 v _) eqn:E; constructor; auto.
    + destruct t; try (destruct i; discriminate Hi); destruct i; try discriminate Hi; try discriminate Ee.
      * destruct (has_type_array _ _ Hv) as (l & -> & _). reflexivity.
      * destruct (has_type_map _ _ Hv) as (l & -> & _). reflexivity.
Qed.

Lemma flatten_typed idx : forall v t t',
  has_type v t = true -> ty_index_ok t idx = Some t' ->
  Forall (fun x => has_type x t' = true) (flatten idx v).
Proof.
  induction idx as [|i r IH]; intros v t t' Hv Hi.
  - cbn in *. injection Hi as <-. constructor; auto.
  - apply ty_index_ok_cons in Hi. destruct Hi as (s & H1 & H2). rewrite flatten_step.
    destruct (step_vals_typed v t i s Hv H1) as (Hall & _).
    induction Hall as [|x l Hx _ IHl]; cbn; [constructor|]. apply Forall_app. split; eauto.
Qed.

(* a path ending in a single [*]: the elements of the container before it *)
Lemma flatten_prefix_each p : forall v,
  map_each_count p = 0%nat ->
  flatten (p ++ [IEach]) v = match get_path v p with Some x => elems x | None => [] end.
Proof.
  induction p as [|i p IH]; intros v Hn.
  - cbn [app flatten get_path]. induction (elems v) as [|x l IHl]; cbn; [reflexivity|]. now rewrite IHl.
  - rewrite mec_cons in Hn. destruct (index_is_each i) eqn:Ee; [discriminate|].
    destruct i; try discriminate Ee; cbn [app flatten get_path]; destruct (get1 v _); auto.
Qed.

(* ---- the MapEachIterator machine ---- *)
Definition pending (it : fiter) : list value :=
  match it with
  | FArr (Some (l, n)) => match nth_N l n with Some x => [x] | None => [] end
  | FArr None => []
  | FKey (Some (l, k)) => match assoc_bytes k l with Some x => [x] | None => [] end
  | FKey None => []
  | FEach rest => rest
  end.

Lemma fiter_next_pending it :
  match fiter_next it with
  | (Some x, it') => pending it = x :: pending it'
  | (None, it') => pending it = [] /\ pending it' = []
  end.
Proof.
  destruct it as [[[l n]|]|[[l k]|]|[|x r]]; cbn; auto.
  - destruct (nth_N l n); cbn; auto.
  - destruct (assoc_bytes k l); cbn; auto.
Qed.

Fixpoint stack_out (idx : list index) (stack : list fiter) : list value :=
  match stack with
  | [] => []
  | it :: below => flat_map (flatten (skipn (length stack) idx)) (pending it) ++ stack_out idx below
  end.

Fixpoint stack_cost (idx : list index) (stack : list fiter) : nat :=
  match stack with
  | [] => 0
  | it :: below => mei_cost (skipn (length stack) idx) (pending it) + stack_cost idx below
  end.

Fixpoint stack_wf (t0 : ty) (idx : list index) (stack : list fiter) : Prop :=
  match stack with
  | [] => True
  | it :: below =>
      (length stack <= length idx)%nat /\
      (exists T, ty_index_ok t0 (firstn (length stack) idx) = Some T /\
                 Forall (fun x => has_type x T = true) (pending it)) /\
      stack_wf t0 idx below
  end.

Lemma mei_cost_cons r x p :
  mei_cost r (x :: p) = (mei_cost r p + S (match r with [] => O | i :: r' => mei_cost r' (step_vals x i) end))%nat.
Proof. destruct r; cbn; lia. Qed.

Lemma mei_cost_nil r : mei_cost r [] = 1%nat.
Proof. destruct r; reflexivity. Qed.

Lemma skipn_nth {A} (l : list A) k : (k < length l)%nat ->
  exists x, nth_error l k = Some x /\ skipn k l = x :: skipn (S k) l.
Proof.
  revert k. induction l as [|y l IH]; intros k Hk; cbn in Hk; [lia|].
  destruct k; [eexists; split; reflexivity|]. destruct (IH k) as (x & H1 & H2); [lia|]. eauto.
Qed.

Lemma firstn_S_nth {A} (l : list A) k x : nth_error l k = Some x -> firstn (S k) l = firstn k l ++ [x].
Proof.
  revert k. induction l as [|y l IH]; intros k H; [destruct k; discriminate|].
  destruct k; cbn in *; [now injection H as ->|]. f_equal. auto.
Qed.

Lemma mei_run_spec t0 idx tf :
  ty_index_ok t0 idx = Some tf ->
  forall fuel stack acc,
    stack_wf t0 idx stack -> (stack_cost idx stack < fuel)%nat ->
    mei_run fuel idx stack acc = Some (rev acc ++ stack_out idx stack).
Proof.
  intros Hidx. induction fuel as [|fuel IH]; intros stack acc Hwf Hfuel; [lia|].
  destruct stack as [|top below]; cbn [mei_run].
  - cbn. now rewrite app_nil_r.
  - destruct Hwf as (Hlen & (T & HT & Hpend) & Hbelow).
    cbn [length] in *. set (k := S (length below)) in *.
    destruct (Nat.ltb (length idx) k) eqn:Elt; [apply Nat.ltb_lt in Elt; lia|].
    pose proof (fiter_next_pending top) as Hnext. destruct (fiter_next top) as [[x|] top'].
    + (* the top iterator yields x *)
      cbn [stack_out stack_cost length] in *. fold k in Hfuel |- *. rewrite Hnext in *.
      inversion Hpend as [|? ? Hx Hpend']; subst.
      destruct (Nat.eqb k (length idx)) eqn:Ek.
      * (* leaf level: return x *)
        apply Nat.eqb_eq in Ek.
        assert (Hskip : skipn k idx = []) by (rewrite Ek; apply skipn_all).
        rewrite Hskip in *. rewrite mei_cost_cons in Hfuel.
        rewrite IH.
        -- cbn [rev stack_out length flat_map flatten]. fold k. rewrite Hskip.
           rewrite <- !app_assoc. reflexivity.
        -- cbn [stack_wf length]. fold k. split; [lia|]. split; [exists T; split; assumption|assumption].
        -- cbn [stack_cost length]. fold k. rewrite Hskip. lia.
      * (* inner level: push an iterator for x *)
        apply Nat.eqb_neq in Ek. assert (Hk : (k < length idx)%nat) by lia.
        destruct (skipn_nth idx k Hk) as (i & Hnth & Hskip). rewrite Hnth.
        assert (HTi : exists s, ty_index_ok T [i] = Some s /\ ty_index_ok t0 (firstn (S k) idx) = Some s).
        { rewrite (firstn_S_nth _ _ _ Hnth).
          assert (Hsplit : idx = firstn k idx ++ skipn k idx) by (symmetry; apply firstn_skipn).
          rewrite Hsplit, Hskip in Hidx. apply ty_index_ok_app in Hidx. destruct Hidx as (s0 & Hs0 & Hrest).
          rewrite HT in Hs0. injection Hs0 as <-.
          apply ty_index_ok_cons in Hrest. destruct Hrest as (s & Hs & _).
          exists s. split; [exact Hs|].
          assert (Hgoal : forall a t1 t2 t3, ty_index_ok t1 a = Some t2 -> ty_index_ok t2 [i] = Some t3 ->
                                             ty_index_ok t1 (a ++ [i]) = Some t3).
          { induction a as [|j a IHa]; intros t1 t2 t3 H1 H2; cbn [app]; [cbn in H1; injection H1 as <-; exact H2|].
            apply ty_index_ok_cons in H1. destruct H1 as (u & Hu & Hu').
            cbn in Hu |- *. destruct t1; try (destruct j; discriminate Hu); destruct j; try discriminate Hu;
              injection Hu as ->; eapply IHa; eauto. }
          eapply Hgoal; eauto. }
        destruct HTi as (s & Hs & Hs').
        destruct (step_vals_typed x T i s Hx Hs) as (Hall & Hnew). rewrite Hnew.
        rewrite mei_cost_cons, Hskip in Hfuel.
        rewrite IH.
        -- f_equal. cbn [stack_out length]. fold k.
           assert (Hpn : pending (match i, x with
                                  | IArr n, VArray _ l => FArr (Some (l, n))
                                  | IKey k0, VMap _ l => FKey (Some (l, k0))
                                  | IEach, VArray _ l => FEach l
                                  | IEach, VMap _ l => FEach (map snd l)
                                  | _, _ => FEach []
                                  end) = step_vals x i).
           { destruct i, x; reflexivity. }
           rewrite Hpn, Hskip. cbn [flat_map]. rewrite flatten_step. rewrite <- !app_assoc. reflexivity.
        -- cbn [stack_wf length]. fold k. split; [lia|]. split.
           ++ exists s. split; [exact Hs'|]. destruct i, x; exact Hall.
           ++ split; [lia|]. split; [exists T; split; assumption|assumption].
        -- cbn [stack_cost length]. fold k.
           assert (Hpn : pending (match i, x with
                                  | IArr n, VArray _ l => FArr (Some (l, n))
                                  | IKey k0, VMap _ l => FKey (Some (l, k0))
                                  | IEach, VArray _ l => FEach l
                                  | IEach, VMap _ l => FEach (map snd l)
                                  | _, _ => FEach []
                                  end) = step_vals x i).
           { destruct i, x; reflexivity. }
           rewrite Hpn, Hskip. lia.
    + (* the top iterator is exhausted: pop *)
      destruct Hnext as (Hp & _). cbn [stack_out stack_cost length] in *. fold k in Hfuel |- *.
      rewrite Hp in *. cbn [flat_map app]. rewrite mei_cost_nil in Hfuel.
      apply IH; [exact Hbelow|lia].
Qed.

Theorem mei_collect_is_flatten idx v t t' :
  idx <> [] -> has_type v t = true -> ty_index_ok t idx = Some t' ->
  mei_collect idx v = Some (flatten idx v).
Proof.
  intros Hne Hv Hi. destruct idx as [|i r]; [congruence|]. unfold mei_collect.
  pose proof Hi as Hi0. apply ty_index_ok_cons in Hi. destruct Hi as (s & Hs & Hr).
  destruct (step_vals_typed v t i s Hv Hs) as (Hall & Hnew). rewrite Hnew.
  assert (Hpn : pending (match i, v with
                         | IArr n, VArray _ l => FArr (Some (l, n))
                         | IKey k0, VMap _ l => FKey (Some (l, k0))
                         | IEach, VArray _ l => FEach l
                         | IEach, VMap _ l => FEach (map snd l)
                         | _, _ => FEach []
                         end) = step_vals v i).
  { destruct i, v; reflexivity. }
  rewrite (mei_run_spec t (i :: r) t' Hi0).
  - cbn [rev app stack_out length skipn]. rewrite Hpn, app_nil_r. now rewrite flatten_step.
  - cbn [stack_wf length]. split; [cbn; lia|]. split; [|exact I].
    exists s. split; [exact Hs|]. rewrite Hpn. exact Hall.
  - cbn [stack_cost length skipn]. rewrite Hpn. lia.
Qed.
