(* The parser model accepts only well-typed filters whose nesting is within the
   configured limit, never panics, and every error span it reports lies inside
   the input.  One induction on the fuel over the nine mutually recursive
   functions of Parse/Parser.v.  The facts needed about the character-level
   lexers of Parse/Lex.v are collected in [lex_facts]; they are proved in
   Proofs/LexProofs.v and the closed statements are in Proofs/ParserClosed.v. *)
From Coq Require Import List ZArith NArith Bool Lia Arith.
From WF Require Import Base.Bytes Sem.RangeSet Sem.Matchers Lang.Types Lang.Ast Lang.Context
     Sem.Compile Spec.Typing Spec.C13 Parse.Lex Parse.Parser
     Proofs.ScalarProofs Proofs.ValueProofs Proofs.TypingProofs.
Import ListNotations.
Local Notation length := List.length (only parsing).

(* ---- suffixes and postconditions ---- *)
Definition suffix (x y : bytes) : Prop := exists p, y = p ++ x.

Lemma suffix_refl x : suffix x x. Proof. now exists []. Qed.
Lemma suffix_trans x y z : suffix x y -> suffix y z -> suffix x z.
Proof. intros [p ->] [q ->]. exists (q ++ p). now rewrite app_assoc. Qed.
Lemma suffix_cons b x : suffix x (b :: x). Proof. now exists [b]. Qed.
Lemma suffix_skipn n x : suffix (skipn n x) x.
Proof. exists (firstn n x). now rewrite firstn_skipn. Qed.
Lemma suffix_length x y : suffix x y -> (length x <= length y)%nat.
Proof. intros [p ->]. rewrite app_length. lia. Qed.

Lemma starts_with_app p : forall s r, starts_with p s = Some r -> s = p ++ r.
Proof.
  induction p as [|x p IH]; intros s r H; cbn in H.
  - now injection H as <-.
  - destruct s as [|y s]; [discriminate|]. destruct (N.eqb_spec x y) as [->|]; [|discriminate].
    cbn. f_equal. now apply IH.
Qed.
Lemma starts_with_suffix p s r : starts_with p s = Some r -> suffix r s.
Proof. intros H. exists p. now apply starts_with_app. Qed.

Lemma skip_space_suffix s : suffix (skip_space s) s.
Proof.
  induction s as [|b r IH]; cbn; [apply suffix_refl|].
  destruct (is_space b); [|apply suffix_refl]. eapply suffix_trans; [exact IH|apply suffix_cons].
Qed.

(* [whole] is the complete (trimmed) input; every span must lie inside it *)
Definition lpost {A} (whole : bytes) (P : A -> Prop) (r : lres A) : Prop :=
  match r with
  | LOk a rest => P a /\ suffix rest whole
  | LErr _ at_ n => suffix at_ whole /\ (n <= length at_)%nat
  | LPanic => False
  | LFuel => True
  end.

Lemma lpost_weaken {A} (i w : bytes) (P Q : A -> Prop) r :
  lpost i P r -> suffix i w -> (forall a, P a -> Q a) -> lpost w Q r.
Proof.
  destruct r as [a rest|k at_ n| |]; cbn; auto.
  - intros [H1 H2] Hs HPQ. split; [auto|]. eapply suffix_trans; eauto.
  - intros [H1 H2] Hs _. split; [|exact H2]. eapply suffix_trans; eauto.
Qed.

Lemma lpost_bind {A B} w (P : A -> Prop) (Q : B -> Prop) r k :
  lpost w P r -> (forall a rest, P a -> suffix rest w -> lpost w Q (k a rest)) -> lpost w Q (lbind r k).
Proof. destruct r as [a rest|k0 at_ n| |]; cbn; auto. intros [H1 H2] Hk. now apply Hk. Qed.

Lemma lpost_map {A B} w (P : A -> Prop) (Q : B -> Prop) (f : A -> B) r :
  lpost w P r -> (forall a, P a -> Q (f a)) -> lpost w Q (lmap f r).
Proof. intros H HPQ. unfold lmap. eapply lpost_bind; [exact H|]. intros a rest Ha Hs. cbn. auto. Qed.

Lemma lpost_err {A} w (P : A -> Prop) k at_ n :
  suffix at_ w -> (n <= length at_)%nat -> lpost w P (LErr k at_ n).
Proof. cbn; auto. Qed.

Lemma expect_post s i : lpost i (fun _ : unit => True) (expect s i).
Proof.
  unfold expect. destruct (starts_with s i) eqn:E; cbn.
  - split; [exact I|]. eapply starts_with_suffix; eauto.
  - split; [apply suffix_refl|lia].
Qed.

Lemma span_len_le i r : (span_len i r <= length i)%nat.
Proof. unfold span_len. lia. Qed.

Lemma lex_alts_suffix {A} (alts : list (bytes * A)) : forall i a r, lex_alts alts i = Some (a, r) -> suffix r i.
Proof.
  induction alts as [|[t x] alts IH]; intros i a r H; cbn in H; [discriminate|].
  destruct (starts_with t i) eqn:E.
  - injection H as <- <-. eapply starts_with_suffix; eauto.
  - eauto.
Qed.

Lemma combining_suffix i : suffix (snd (lex_combining_op i)) i.
Proof.
  unfold lex_combining_op. destruct (lex_alts logical_ops (skip_space i)) as [[op r]|] eqn:E; cbn.
  - eapply suffix_trans; [apply skip_space_suffix|].
    eapply suffix_trans; [eapply lex_alts_suffix; eauto|apply skip_space_suffix].
  - apply suffix_refl.
Qed.

Lemma quant_call_suffix i q r : lex_quant_call i = Some (q, r) -> suffix r i.
Proof.
  unfold lex_quant_call. destruct (lex_alts quant_ops i) as [[q' r']|] eqn:E; [|discriminate].
  destruct (starts_with [40] (skip_space r')); [|discriminate]. intros H. injection H as <- <-.
  eapply lex_alts_suffix; eauto.
Qed.

(* ---- the facts about the character-level lexers ---- *)
Record lex_facts : Prop := {
  lf_int : forall i, lpost i (fun _ => True) (lex_int i);
  lf_bytes : forall i, lpost i (fun _ => True) (lex_bytes i);
  lf_ip : forall i, lpost i (fun _ => True) (lex_ip i);
  lf_int_range : forall i, lpost i (fun _ => True) (lex_int_range i);
  lf_ip_range : forall i, lpost i (fun x => ip_item_wfb x = true) (lex_ip_range i);
  lf_list_name : forall i, lpost i (fun _ => True) (lex_list_name i);
  lf_ident_name : forall i, lpost i (fun n => (length n <= length i)%nat) (lex_ident_name i);
  lf_field_index : forall i, lpost i (fun _ => True) (lex_field_index i);
  lf_raw_str : forall i, lpost i (fun _ => True) (lex_raw_string_as_str i);
  lf_quoted_or_raw : forall i, lpost i (fun _ => True) (lex_quoted_or_raw_string i);
}.

(* ---- scheme lookup ---- *)
Lemma find_field_some name l : forall k i, find_field name l k = Some i -> (k <= i)%nat /\ nth_error l (i - k) <> None.
Proof.
  induction l as [|f r IH]; intros k i H; cbn in H; [discriminate|].
  destruct (bytes_eqb name (fd_name f)).
  - injection H as <-. rewrite Nat.sub_diag. cbn. split; [lia|discriminate].
  - destruct (IH _ _ H) as [H1 H2]. split; [lia|]. replace (i - k)%nat with (S (i - S k)) by lia. exact H2.
Qed.
Lemma find_fn_some name l : forall k i, find_fn name l k = Some i -> (k <= i)%nat /\ nth_error l (i - k) <> None.
Proof.
  induction l as [|[n f] r IH]; intros k i H; cbn in H; [discriminate|].
  destruct (bytes_eqb name n).
  - injection H as <-. rewrite Nat.sub_diag. cbn. split; [lia|discriminate].
  - destruct (IH _ _ H) as [H1 H2]. split; [lia|]. replace (i - k)%nat with (S (i - S k)) by lia. exact H2.
Qed.

Lemma scheme_get_field sch name i : scheme_get sch name = Some (IdField i) -> field_ty sch i <> None.
Proof.
  unfold scheme_get, field_ty. destruct (find_field name (sc_fields sch) 0) as [j|] eqn:E.
  - intros H. injection H as <-. destruct (find_field_some _ _ _ _ E) as [_ H]. rewrite Nat.sub_0_r in H.
    destruct (nth_error (sc_fields sch) j); [discriminate|contradiction].
  - destruct (find_fn name (sc_functions sch) 0); discriminate.
Qed.
Lemma scheme_get_fn sch name i : scheme_get sch name = Some (IdFn i) -> fn_of sch i <> None.
Proof.
  unfold scheme_get, fn_of. destruct (find_field name (sc_fields sch) 0) as [j|] eqn:E; [discriminate|].
  destruct (find_fn name (sc_functions sch) 0) as [j|] eqn:E2; [|discriminate].
  intros H. injection H as <-. destruct (find_fn_some _ _ _ _ E2) as [_ H]. rewrite Nat.sub_0_r in H.
  destruct (nth_error (sc_functions sch) j); [discriminate|contradiction].
Qed.

(* ---- index suffixes ---- *)
Lemma index_step_ok t i t' : index_step t i = Some t' -> ty_index_ok t [index_of_raw i] = Some t'.
Proof. destruct i, t; cbn; intros H; try discriminate H; exact H. Qed.

Lemma ty_index_ok_app_intro a : forall t b s t',
  ty_index_ok t a = Some s -> ty_index_ok s b = Some t' -> ty_index_ok t (a ++ b) = Some t'.
Proof.
  induction a as [|i a IH]; intros t b s t' H1 H2; cbn [app ty_index_ok] in *.
  - injection H1 as ->. exact H2.
  - destruct t; try discriminate H1; destruct i; try discriminate H1; eapply IH; eauto.
Qed.

Lemma lex_indexes_post (F : lex_facts) sch st w t0 fuel : forall input t acc,
  suffix input w -> ty_index_ok t0 (rev acc) = Some t ->
  lpost w (fun idx => exists t', ty_index_ok t0 idx = Some t') (lex_indexes sch st fuel input t acc).
Proof.
  induction fuel as [|f IH]; intros input t acc Hs Hacc; cbn [lex_indexes]; [exact I|].
  destruct (starts_with [91] input) as [rest|] eqn:E.
  - pose proof (starts_with_suffix _ _ _ E) as Hr.
    eapply lpost_bind.
    { eapply lpost_weaken; [apply (lf_field_index F)| |intros a Ha; exact Ha].
      eapply suffix_trans; [apply skip_space_suffix|]. eapply suffix_trans; eauto. }
    intros idx rest1 _ Hs1. eapply lpost_bind.
    { eapply lpost_weaken; [apply expect_post| |intros a Ha; exact Ha].
      eapply suffix_trans; [apply skip_space_suffix|exact Hs1]. }
    intros _ rest2 _ Hs2. destruct (index_step t idx) as [t'|] eqn:Ei.
    + apply IH; [exact Hs2|]. cbn [rev]. eapply ty_index_ok_app_intro; [exact Hacc|]. now apply index_step_ok.
    + apply lpost_err; [exact Hs|apply span_len_le].
  - cbn. split; [eauto|exact Hs].
Qed.

(* ---- brace lists ---- *)
Lemma brace_items_post {A} (P : A -> Prop) (lex1 : bytes -> lres A) w :
  (forall i, lpost i P (lex1 i)) ->
  forall fuel input acc, suffix input w -> Forall P acc ->
    lpost w (Forall P) (brace_items fuel lex1 input acc).
Proof.
  intros H1. induction fuel as [|f IH]; intros input acc Hs Hacc; cbn [brace_items]; [exact I|].
  pose proof (suffix_trans _ _ _ (skip_space_suffix input) Hs) as Hs'.
  destruct (starts_with [125] (skip_space input)) as [rest|] eqn:E.
  - cbn. split; [now apply Forall_rev|]. eapply suffix_trans; [eapply starts_with_suffix; eauto|exact Hs'].
  - eapply lpost_bind.
    { eapply lpost_weaken; [apply H1|exact Hs'|intros a Ha; exact Ha]. }
    intros x rest Hx Hr. apply IH; [exact Hr|]. constructor; assumption.
Qed.

Lemma brace_list_post {A} (P : A -> Prop) (lex1 : bytes -> lres A) w input :
  (forall i, lpost i P (lex1 i)) -> suffix input w ->
  lpost w (Forall P) (lex_brace_list lex1 input).
Proof.
  intros H1 Hs. unfold lex_brace_list. eapply lpost_bind.
  { eapply lpost_weaken; [apply expect_post|exact Hs|intros a Ha; exact Ha]. }
  intros _ rest _ Hr. apply brace_items_post; auto.
Qed.

(* ---- regex and wildcard literals ---- *)
Local Arguments regex_compile : simpl never.
Local Arguments wildcard_compile : simpl never.
Lemma next_char_suffix s c r : next_char s = Some (c, r) -> suffix r s.
Proof.
  unfold next_char. destruct s as [|b s']; [discriminate|]. intros H. injection H as <- <-. apply suffix_skipn.
Qed.

Lemma regex_scan_go_shorter n : forall s ic p rest, (List.length s <= n)%nat ->
  regex_scan_go s ic = Some (p, rest) -> suffix rest s /\ (List.length rest < List.length s)%nat.
Proof.
  induction n as [|n IH]; intros s ic p rest Hn H.
  - destruct s; [discriminate|cbn in Hn; lia].
  - destruct s as [|c s1]; [discriminate|]. cbn [regex_scan_go] in H. cbn [List.length] in Hn.
    destruct (c =? 92)%N.
    + destruct s1 as [|c2 s2]; [discriminate|]. cbn [List.length] in Hn.
      destruct (regex_scan_go s2 ic) as [[p' rest']|] eqn:E; [|discriminate]. injection H as _ <-.
      destruct (IH s2 ic p' rest' ltac:(lia) E) as [H1 H2]. split.
      * eapply suffix_trans; [exact H1|]. now exists [c; c2].
      * cbn [List.length]. lia.
    + destruct ((c =? 34)%N && negb ic).
      * injection H as _ <-. split; [apply suffix_cons|cbn; lia].
      * match type of H with match regex_scan_go s1 ?ic' with _ => _ end = _ =>
          destruct (regex_scan_go s1 ic') as [[p' rest']|] eqn:E; [|discriminate];
          destruct (IH s1 ic' p' rest' ltac:(lia) E) as [H1 H2] end.
        injection H as _ <-. split; [eapply suffix_trans; [exact H1|apply suffix_cons]|cbn [List.length]; lia].
Qed.

Lemma lex_regex_post (F : lex_facts) i :
  lpost i (fun p : bytes * option N => regex_compile (fst p) <> None) (lex_regex i).
Proof.
  unfold lex_regex. destruct i as [|b r]; [cbn; split; [apply suffix_refl|lia]|].
  assert (Hdef : lpost (b :: r) (fun p : bytes * option N => regex_compile (fst p) <> None)
                   (LErr EExpectedName (b :: r) (length (b :: r)))).
  { cbn. split; [apply suffix_refl|lia]. }
  destruct (N.eq_dec b 34) as [->|N34].
  { destruct (regex_scan_go r false) as [[pat rest]|] eqn:Es.
    - destruct (regex_scan_go_shorter _ _ _ _ _ (le_n _) Es) as [H1 H2].
      destruct (regex_compile pat) eqn:Ec; cbn.
      + split; [rewrite Ec; discriminate|]. eapply suffix_trans; [exact H1|apply suffix_cons].
      + split; [apply suffix_cons|lia].
    - cbn. split; [apply suffix_cons|lia]. }
  destruct (N.eq_dec b 114) as [->|N114].
  { eapply lpost_bind.
    { eapply lpost_weaken; [apply (lf_raw_str F)|apply suffix_cons|intros a Ha; exact Ha]. }
    intros p rest _ Hr. destruct (regex_compile (fst p)) eqn:Ec; cbn.
    - split; [rewrite Ec; discriminate|exact Hr].
    - split; [exact Hr|lia]. }
  destruct b as [|p]; [exact Hdef|].
  repeat (destruct p as [p|p|]; try exact Hdef; try contradiction).
Qed.

Lemma wildcard_compile_ok lim p t :
  wildcard_compile lim p = Some t -> wparse p = Some t /\ has_double_star t = false.
Proof.
  unfold wildcard_compile. destruct (wparse p) as [t'|]; [|discriminate].
  destruct (match lim with Some l => _ | None => false end); [discriminate|].
  destruct (has_double_star t') eqn:E; [discriminate|]. intros H. injection H as <-. auto.
Qed.

Lemma lex_wildcard_post (F : lex_facts) st i :
  lpost i (fun p : bytes * bytes_format =>
             exists t, wparse (fst p) = Some t /\ has_double_star t = false) (lex_wildcard st i).
Proof.
  unfold lex_wildcard. eapply lpost_bind; [apply (lf_quoted_or_raw F)|].
  intros p rest _ Hr. destruct (wildcard_compile (st_star_limit st) (fst p)) as [t|] eqn:E; cbn.
  - split; [|exact Hr]. exists t. eapply wildcard_compile_ok; eauto.
  - split; [apply suffix_refl|lia].
Qed.

Lemma lex_rhs_post (F : lex_facts) t i :
  t = TInt \/ t = TBytes \/ t = TIp ->
  lpost i (fun r => rhs_ty r = t) (lex_rhs t i).
Proof.
  intros [->|[->| ->]]; unfold lex_rhs.
  - eapply lpost_map; [apply (lf_int F)|]. reflexivity.
  - eapply lpost_map; [apply (lf_bytes F)|]. reflexivity.
  - eapply lpost_map; [apply (lf_ip F)|]. reflexivity.
Qed.

(* ---- chains ---- *)
Lemma depth_lexprs_app l e :
  depth_lexprs (lexprs_of_list (l ++ [e])) = Nat.max (depth_lexprs (lexprs_of_list l)) (depth_lexpr e).
Proof.
  induction l as [|x l IH]; cbn [app lexprs_of_list depth_lexprs]; [lia|]. rewrite IH. lia.
Qed.

Lemma depth_combine lhs op rhs :
  depth_lexpr (combine lhs op rhs) = Nat.max (depth_lexpr lhs) (depth_lexpr rhs).
Proof.
  unfold combine. destruct lhs as [o items| | | | |]; cbn [depth_lexpr depth_lexprs]; try lia.
  destruct (same_logop o op); cbn [depth_lexpr depth_lexprs]; [|lia].
  rewrite depth_lexprs_app, lexprs_of_to_list. reflexivity.
Qed.

Lemma wt_combine sch lhs op rhs t :
  wt_lexpr sch lhs = Some t -> wt_lexpr sch rhs = Some t -> wt_lexpr sch (combine lhs op rhs) = Some t.
Proof.
  intros Hl Hr.
  assert (Hpair : wt_lexpr sch (ECombining op (LCons lhs (LCons rhs LNil))) = Some t).
  { cbn [wt_lexpr wt_lexprs]. rewrite Hl, Hr, ty_eqb_refl. reflexivity. }
  unfold combine. destruct lhs as [o items| | | | |]; try exact Hpair.
  destruct (same_logop o op); [|exact Hpair].
  cbn [wt_lexpr] in Hl |- *. destruct items as [|e0 rest]; [discriminate|].
  cbn [lexprs_to_list app lexprs_of_list].
  destruct (wt_lexpr sch e0) as [t0|]; [|discriminate].
  destruct (wt_lexprs sch t0 rest) eqn:Er; [|discriminate]. injection Hl as ->.
  rewrite wt_lexprs_app; [reflexivity| |exact Hr]. now rewrite lexprs_of_to_list.
Qed.

Lemma combinable_eq a b :
  (a = TBool \/ a = TArray TBool) -> (b = TBool \/ b = TArray TBool) -> types_combinable a b = true -> a = b.
Proof. intros [->| ->] [->| ->]; cbn; intros H; try discriminate H; reflexivity. Qed.

(* ---- comparisons ---- *)
Lemma wt_cmp_prim sch lhs t op :
  wt_iexpr sch lhs = Some t -> (t = TInt \/ t = TBytes \/ t = TIp) -> op_ok sch t op = true ->
  exists t', wt_lexpr sch (EComparison lhs op) = Some t'.
Proof.
  intros Hl Ht Hop. cbn [wt_lexpr]. rewrite Hl.
  destruct Ht as [->|[->| ->]]; cbn [is_prim andb]; rewrite Hop; eauto.
Qed.

(* ---- function calls ---- *)
Definition sig_full (d : fn_def) : list (arg_kind * ty) :=
  fn_params d ++ map (fun p => (fst p, type_of (snd p))) (fn_opt_params d).

Lemma kind_matches_ok k a : kind_matches k a = true -> kind_ok k a = true.
Proof. destruct k, a; cbn; auto. Qed.

(* the loop invariant of the argument loop *)
Definition acc_inv (sch : scheme) (def : fn_def) (acc : list arg) : Prop :=
  Forall (fun a => arg_map_each_count a = 0%nat) (tl acc) /\
  if fn_variadic_same def then
    match acc with
    | [] => True
    | p0 :: _ => exists t0, match t0 with TArray _ | TBytes => True | _ => False end /\
                            Forall (fun a => wt_arg sch a = Some t0) acc
    end
  else
    (length acc <= length (sig_full def))%nat /\
    Forall2 (fun a (kt : arg_kind * ty) => kind_ok (fst kt) a = true /\ wt_arg sch a = Some (snd kt))
            acc (firstn (length acc) (sig_full def)).

Lemma firstn_S_nth {A} (l : list A) n x : nth_error l n = Some x -> firstn (S n) l = firstn n l ++ [x].
Proof.
  revert n. induction l as [|y l IH]; intros [|n] H; cbn in H; try discriminate.
  - now injection H as ->.
  - change (firstn (S (S n)) (y :: l)) with (y :: firstn (S n) l). rewrite (IH n H). reflexivity.
Qed.

Lemma check_param_sig sch def acc a t :
  fn_variadic_same def = false -> check_param sch def acc a t = PcOk ->
  exists k, nth_error (sig_full def) (length acc) = Some (k, t) /\ kind_ok k a = true.
Proof.
  intros Hv. unfold check_param, sig_full. rewrite Hv.
  destruct (nth_error (fn_params def) (length acc)) as [[k pt]|] eqn:E.
  - destruct (kind_matches k a) eqn:Ek; cbn [negb]; [|discriminate].
    destruct (ty_eqb t pt) eqn:Et; [|discriminate]. intros _. apply ty_eqb_eq in Et. subst pt.
    exists k. split; [|now apply kind_matches_ok]. rewrite nth_error_app1; [exact E|].
    apply nth_error_Some. rewrite E. discriminate.
  - destruct (nth_error (fn_opt_params def) (length acc - length (fn_params def))) as [[k dv]|] eqn:E2; [|discriminate].
    destruct (kind_matches k a) eqn:Ek; cbn [negb]; [|discriminate].
    destruct (ty_eqb t (type_of dv)) eqn:Et; [|discriminate]. intros _. apply ty_eqb_eq in Et. subst t.
    exists k. split; [|now apply kind_matches_ok]. apply nth_error_None in E.
    rewrite nth_error_app2 by exact E. rewrite (map_nth_error _ _ _ E2). reflexivity.
Qed.

Lemma acc_inv_step sch def acc a t :
  acc_inv sch def acc -> wt_arg sch a = Some t ->
  (arg_map_each_count a = 0%nat \/ acc = []) ->
  check_param sch def acc a t = PcOk ->
  acc_inv sch def (acc ++ [a]).
Proof.
  intros [Htl Hinv] Ha Hm Hc. split.
  { destruct acc as [|p0 acc']; cbn [app tl]; [constructor|]. cbn [tl] in Htl.
    apply Forall_app. split; [exact Htl|]. constructor; [|constructor]. destruct Hm as [Hm|Hm]; [exact Hm|discriminate]. }
  destruct (fn_variadic_same def) eqn:Hv.
  - unfold check_param in Hc. rewrite Hv in Hc. destruct acc as [|p0 acc']; cbn [app].
    + exists t. split; [destruct t; try discriminate Hc; exact I|]. constructor; [exact Ha|constructor].
    + destruct Hinv as (t0 & Ht0 & Hall). exists t0. split; [exact Ht0|].
      change (p0 :: acc' ++ [a]) with ((p0 :: acc') ++ [a]). apply Forall_app. split; [exact Hall|].
      constructor; [|constructor]. inversion Hall as [|? ? Hp0 _]; subst.
      rewrite (wt_ty_arg sch p0 t0 Hp0) in Hc. destruct (ty_eqb t t0) eqn:Et; [|discriminate].
      apply ty_eqb_eq in Et. now subst t0.
  - destruct Hinv as [Hlen Hf2]. destruct (check_param_sig sch def acc a t Hv Hc) as (k & Hn & Hk).
    assert (Hlt : (length acc < length (sig_full def))%nat) by (apply nth_error_Some; rewrite Hn; discriminate).
    rewrite app_length. cbn [length]. split; [lia|].
    replace (length acc + 1)%nat with (S (length acc)) by lia. rewrite (firstn_S_nth _ _ _ Hn).
    apply Forall2_app; [exact Hf2|]. constructor; [|constructor]. cbn [fst snd]. auto.
Qed.

Lemma args_to_of_list l : args_to_list (args_of_list l) = l.
Proof. induction l as [|x l IH]; cbn; [reflexivity|now rewrite IH]. Qed.

Lemma depth_args_of_list l n :
  Forall (fun a => (depth_arg a <= n)%nat) l -> (depth_args (args_of_list l) <= n)%nat.
Proof. induction 1 as [|x l Hx _ IH]; cbn [args_of_list depth_args]; lia. Qed.

Lemma wt_args_sig_of sch acc : forall sig,
  Forall2 (fun a (kt : arg_kind * ty) => kind_ok (fst kt) a = true /\ wt_arg sch a = Some (snd kt))
          acc (firstn (length acc) sig) ->
  (length acc <= length sig)%nat ->
  wt_args_sig sch sig (args_of_list acc) = true.
Proof.
  induction acc as [|a acc IH]; intros sig H Hl; cbn [args_of_list wt_args_sig]; [reflexivity|].
  destruct sig as [|[k t] sig']; [cbn in Hl; lia|]. cbn [length firstn] in H.
  inversion H as [|? ? ? ? [Hk Ht] Hrest]; subst. cbn [fst snd] in *. rewrite Hk, Ht, ty_eqb_refl. cbn.
  apply IH; [exact Hrest|cbn in Hl; lia].
Qed.

Lemma wt_args_same_of sch t acc :
  acc <> [] -> Forall (fun a => wt_arg sch a = Some t) acc ->
  wt_args_same sch (args_of_list acc) = Some (Some t, length acc).
Proof.
  induction acc as [|a acc IH]; intros Hne Hall; [contradiction|].
  inversion Hall as [|? ? Ha Hr]; subst. cbn [args_of_list wt_args_same length]. rewrite Ha.
  destruct acc as [|b acc'].
  - reflexivity.
  - rewrite IH by (try discriminate; exact Hr). rewrite ty_eqb_refl. reflexivity.
Qed.

Lemma acc_inv_final sch fn def acc :
  fn_of sch fn = Some def -> acc_inv sch def acc ->
  ((if fn_variadic_same def then 2 else length (fn_params def)) <= length acc)%nat ->
  exists t, wt_iexpr sch (ICall fn (args_of_list acc) []) = Some t.
Proof.
  intros Hfn [Htl Hinv] Hcount. cbn [wt_iexpr]. rewrite Hfn, args_to_of_list.
  assert (Hm : forallb (fun x => Nat.eqb (arg_map_each_count x) 0) (tl acc) = true).
  { apply forallb_forall. intros x Hx. rewrite Forall_forall in Htl. rewrite (Htl x Hx). reflexivity. }
  rewrite Hm. cbn [negb ty_index_ok].
  destruct (fn_variadic_same def).
  - destruct acc as [|p0 acc']; [cbn in Hcount; lia|]. destruct Hinv as (t0 & Ht0 & Hall).
    rewrite (wt_args_same_of sch t0 (p0 :: acc')) by (try discriminate; exact Hall).
    apply Nat.leb_le in Hcount. rewrite Hcount.
    destruct t0; try contradiction; cbn [andb]; eauto.
  - destruct Hinv as [Hlen Hf2]. unfold sig_full in *.
    rewrite (wt_args_sig_of sch acc _ Hf2 Hlen).
    apply Nat.leb_le in Hcount. rewrite Hcount. rewrite app_length, map_length in Hlen.
    apply Nat.leb_le in Hlen. rewrite Hlen. cbn [andb]. eauto.
Qed.

Lemma wt_call_idx sch fn a idx t t' :
  wt_iexpr sch (ICall fn a []) = Some t -> ty_index_ok t idx = Some t' ->
  wt_iexpr sch (ICall fn a idx) = Some t'.
Proof.
  cbn [wt_iexpr]. destruct (fn_of sch fn) as [d|]; [|discriminate].
  destruct (negb _); [discriminate|].
  match goal with |- match ?X with _ => _ end = _ -> _ => destruct X as [ret|] end; [|discriminate].
  cbn [ty_index_ok]. intros H. injection H as ->. auto.
Qed.

Lemma wt_call_ty sch fn a t : wt_iexpr sch (ICall fn a []) = Some t -> ty_call sch fn a = Some t.
Proof.
  intros H. apply wt_ty_iexpr in H. cbn [ty_iexpr] in H. unfold ty_call.
  destruct (ty_call_of sch fn a (ty_args_first sch a)) as [t0|]; [|discriminate]. exact H.
Qed.

(* ================= the main induction ================= *)
Section Main.
Variable sch : scheme.
Variable st : settings.
Variable w : bytes.
Variable F : lex_facts.
Local Notation M := (N.to_nat (st_max_depth st)).
Local Notation maxd := (st_max_depth st).

Definition okL (d : N) (e : lexpr) : Prop :=
  (exists t, wt_lexpr sch e = Some t) /\ (N.to_nat d + depth_lexpr e <= M)%nat.
Definition okI (d : N) (e : iexpr) : Prop :=
  (exists t, wt_iexpr sch e = Some t) /\ (N.to_nat d + depth_iexpr e <= M)%nat.
Definition okA (d : N) (a : arg) : Prop :=
  (exists t, wt_arg sch a = Some t) /\ (N.to_nat d + depth_arg a <= M)%nat.
Definition okC (d : N) (fn : nat) (a : args) : Prop :=
  (exists t, wt_iexpr sch (ICall fn a []) = Some t) /\ (N.to_nat d + depth_args a <= M)%nat.
Definition okAs (d : N) (def : fn_def) (l : list arg) : Prop :=
  acc_inv sch def l /\ Forall (fun a => (N.to_nat d + depth_arg a <= M)%nat) l.
Definition mandatory (def : fn_def) : nat :=
  if fn_variadic_same def then 2%nat else length (fn_params def).

Record IHs (f : nat) : Prop := {
  ih_logical : forall d input, (d <= maxd)%N -> suffix input w ->
      lpost w (okL d) (lex_logical sch st f d input);
  ih_more : forall d lhs minp la, (d <= maxd)%N -> okL d lhs -> suffix (snd la) w ->
      lpost w (okL d) (lex_more sch st f d lhs minp la);
  ih_inner : forall d rhs rest op, (d <= maxd)%N -> okL d rhs -> suffix rest w ->
      lpost w (fun p : lexpr * (option logop * bytes) => okL d (fst p) /\ suffix (snd (snd p)) w)
            (lex_inner sch st f d rhs rest op);
  ih_simple : forall d input, (d <= maxd)%N -> suffix input w ->
      lpost w (okL d) (lex_simple sch st f d input);
  ih_with_lhs : forall d input lhs, okI d lhs -> suffix input w ->
      lpost w (okL d) (lex_with_lhs sch st f d input lhs);
  ih_index : forall d input, (d <= maxd)%N -> suffix input w ->
      lpost w (okI d) (lex_index_expr sch st f d input);
  ih_call : forall d input fn, (d <= maxd)%N -> fn_of sch fn <> None -> suffix input w ->
      lpost w (okC d fn) (lex_call sch st f d input fn);
  ih_call_args : forall d input def acc, (d <= maxd)%N -> okAs d def acc -> suffix input w ->
      lpost w (fun l => okAs d def l /\ (mandatory def <= length l)%nat)
            (lex_call_args sch st f d input def acc);
  ih_arg : forall d input, (d <= maxd)%N -> suffix input w ->
      lpost w (okA d) (lex_arg sch st f d input);
}.

Lemma IHs_0 : IHs 0.
Proof. constructor; intros; exact I. Qed.

Ltac sfx :=
  repeat first
    [ assumption
    | apply suffix_refl
    | match goal with
      | |- suffix (skip_space _) _ => eapply suffix_trans; [apply skip_space_suffix|]
      | H : starts_with _ ?i = Some ?r |- suffix ?r _ => eapply suffix_trans; [exact (starts_with_suffix _ _ _ H)|]
      | H : lex_alts _ ?i = Some (_, ?r) |- suffix ?r _ => eapply suffix_trans; [exact (lex_alts_suffix _ _ _ _ H)|]
      | H : lex_quant_call ?i = Some (_, ?r) |- suffix ?r _ => eapply suffix_trans; [exact (quant_call_suffix _ _ _ H)|]
      | |- suffix (snd (lex_combining_op _)) _ => eapply suffix_trans; [apply combining_suffix|]
      end ].

Lemma increase_post d at_ (Q : N -> Prop) :
  suffix at_ w -> (forall d', d' = (d + 1)%N -> (d < maxd)%N -> Q d') -> lpost w Q (increase st d at_).
Proof.
  intros Hs HQ. unfold increase. destruct (N.leb_spec maxd d); cbn.
  - split; [exact Hs|lia].
  - split; [apply HQ; [reflexivity|assumption]|]. now exists w; rewrite app_nil_r.
Qed.

Lemma step_logical f : IHs f -> forall d input, (d <= maxd)%N -> suffix input w ->
  lpost w (okL d) (lex_logical sch st (S f) d input).
Proof.
  intros H d input Hd Hs. cbn [lex_logical].
  eapply lpost_bind; [apply (ih_simple f H); assumption|].
  intros lhs rest Hl Hr. apply (ih_more f H); [assumption|assumption|sfx].
Qed.

Lemma step_more f : IHs f -> forall d lhs minp la, (d <= maxd)%N -> okL d lhs -> suffix (snd la) w ->
  lpost w (okL d) (lex_more sch st (S f) d lhs minp la).
Proof.
  intros H d lhs minp la Hd Hl Hs. cbn [lex_more]. destruct (fst la) as [op|].
  2:{ cbn. split; assumption. }
  eapply lpost_bind; [apply (ih_simple f H); assumption|].
  intros rhs rhs_rest Hrhs Hrr.
  pose proof (ih_inner f H d rhs rhs_rest op Hd Hrhs Hrr) as Hin.
  destruct (lex_inner sch st f d rhs rhs_rest op) as [[rhs' la'] rr'|k a n| |]; cbn [lpost] in Hin |- *; auto.
  destruct Hin as [[Hrhs' Hla'] Hrr']. cbn [fst snd] in *.
  destruct Hl as [[tl Htl] Hdl]. destruct Hrhs' as [[tr Htr] Hdr].
  rewrite (wt_ty_lexpr sch lhs tl Htl), (wt_ty_lexpr sch rhs' tr Htr).
  destruct (types_combinable tl tr) eqn:Ec.
  - apply combinable_eq in Ec; [|eapply wt_lres; eauto|eapply wt_lres; eauto]. subst tr.
    apply (ih_more f H); [assumption| |].
    + split; [exists tl; now apply wt_combine|rewrite depth_combine; lia].
    + destruct (Nat.ltb _ _); cbn [snd]; assumption.
  - apply lpost_err; [assumption|lia].
Qed.

Lemma step_inner f : IHs f -> forall d rhs rest op, (d <= maxd)%N -> okL d rhs -> suffix rest w ->
  lpost w (fun p : lexpr * (option logop * bytes) => okL d (fst p) /\ suffix (snd (snd p)) w)
        (lex_inner sch st (S f) d rhs rest op).
Proof.
  intros H d rhs rest op Hd Hrhs Hs. cbn [lex_inner]. cbv zeta.
  destruct (Nat.leb _ _).
  - cbn. split; [split; [assumption|sfx]|assumption].
  - pose proof (ih_more f H d rhs (fst (lex_combining_op rest)) (lex_combining_op rest) Hd Hrhs) as Hm.
    destruct (lex_more sch st f d rhs (fst (lex_combining_op rest)) (lex_combining_op rest)) as [rhs' rest'|k a n| |];
      cbn [lpost] in Hm |- *; try (apply Hm; sfx).
    destruct Hm as [H1 H2]; [sfx|]. apply (ih_inner f H); assumption.
Qed.

Lemma Nsucc_nat d : N.to_nat (d + 1) = S (N.to_nat d).
Proof. lia. Qed.

Lemma step_simple f : IHs f -> forall d input, (d <= maxd)%N -> suffix input w ->
  lpost w (okL d) (lex_simple sch st (S f) d input).
Proof.
  intros H d input Hd Hs. cbn [lex_simple].
  destruct (starts_with [40] input) as [rest|] eqn:E1.
  { (* parenthesis *)
    apply lpost_bind with (P := fun d' => d' = (d + 1)%N /\ (d < maxd)%N).
    { apply increase_post; [assumption|auto]. }
    intros d' _ [-> Hlt] _.
    eapply lpost_bind; [apply (ih_logical f H); [lia|sfx]|].
    intros e rest1 [[t Ht] Hdep] Hr1.
    eapply lpost_bind; [eapply lpost_weaken; [apply expect_post|sfx|intros a Ha; exact Ha]|].
    intros _ rest2 _ Hr2. cbn. split; [|assumption]. split; [exists t; exact Ht|].
    cbn [depth_lexpr]. rewrite Nsucc_nat in Hdep. lia. }
  destruct (lex_alts unary_ops input) as [[u rest]|] eqn:E2.
  { apply lpost_bind with (P := fun d' => d' = (d + 1)%N /\ (d < maxd)%N).
    { apply increase_post; [assumption|auto]. }
    intros d' _ [-> Hlt] _.
    eapply lpost_bind; [apply (ih_simple f H); [lia|sfx]|].
    intros e rest1 [[t Ht] Hdep] Hr1. cbn. split; [|assumption]. split; [exists t; exact Ht|].
    cbn [depth_lexpr]. rewrite Nsucc_nat in Hdep. lia. }
  destruct (lex_quant_call input) as [[q rest]|] eqn:E3.
  { apply lpost_bind with (P := fun d' => d' = (d + 1)%N /\ (d < maxd)%N).
    { apply increase_post; [sfx|auto]. }
    intros d' _ [-> Hlt] _.
    eapply lpost_bind; [eapply lpost_weaken; [apply expect_post|sfx|intros a Ha; exact Ha]|].
    intros _ rest1 _ Hr1. cbv zeta.
    assert (Hai : suffix (skip_space rest1) w) by sfx.
    pose proof (ih_arg f H (d + 1)%N (skip_space rest1) ltac:(lia) Hai) as Ha.
    destruct (lex_arg sch st f (d + 1) (skip_space rest1)) as [a rest2|k at_ n| |]; cbn [lpost] in Ha |- *; auto.
    destruct Ha as [[[t Ht] Hdep] Hr2]. rewrite Nsucc_nat in Hdep.
    assert (Hdone : forall e, okL d e ->
              lpost w (okL d) (lbind (expect [41] (skip_space rest2)) (fun _ rest3 => LOk e rest3))).
    { intros e He. eapply lpost_bind; [eapply lpost_weaken; [apply expect_post|sfx|intros x Hx; exact Hx]|].
      intros _ rest3 _ Hr3. cbn. auto. }
    destruct a as [ie|r|le]; cbn [wt_arg depth_arg] in Ht, Hdep.
    - destruct (Nat.ltb 0 (map_each_count (iexpr_idx ie))) eqn:Em; [apply lpost_err; [assumption|apply span_len_le]|].
      rewrite (wt_ty_iexpr sch ie t Ht).
      destruct t as [| | | |[]|]; try (apply lpost_err; [assumption|apply span_len_le]).
      apply Hdone. split; [|cbn [depth_lexpr]; lia]. exists TBool. cbn [wt_lexpr]. rewrite Ht.
      apply Nat.ltb_ge in Em. replace (map_each_count (iexpr_idx ie)) with 0%nat by lia. reflexivity.
    - apply lpost_err; [assumption|apply span_len_le].
    - rewrite (wt_ty_lexpr sch le t Ht).
      destruct t as [| | | |[]|]; try (apply lpost_err; [assumption|apply span_len_le]).
      apply Hdone. split; [|cbn [depth_lexpr]; lia]. exists TBool. cbn [wt_lexpr]. rewrite Ht. reflexivity. }
  eapply lpost_bind; [apply (ih_index f H); assumption|].
  intros lhs rest Hl Hr. apply (ih_with_lhs f H); assumption.
Qed.

Lemma step_index f : IHs f -> forall d input, (d <= maxd)%N -> suffix input w ->
  lpost w (okI d) (lex_index_expr sch st (S f) d input).
Proof.
  intros H d input Hd Hs. cbn [lex_index_expr].
  pose proof (lf_ident_name F input) as Hn.
  destruct (lex_ident_name input) as [name rest|k at_ n| |]; cbn [lpost] in Hn |- *;
    [|destruct Hn; split; [sfx; eapply suffix_trans; eauto|assumption]|contradiction|exact I].
  destruct Hn as [Hlen Hr]. assert (Hrw : suffix rest w) by (eapply suffix_trans; eauto).
  destruct (scheme_get sch name) as [[i|i]|] eqn:Eg.
  - pose proof (scheme_get_field _ _ _ Eg) as Hf. destruct (field_ty sch i) as [t|] eqn:Et; [|contradiction].
    eapply lpost_map; [apply (lex_indexes_post F sch st w t); [exact Hrw|reflexivity]|].
    intros idx [t' Ht']. split; [|cbn [depth_iexpr]; lia]. exists t'. cbn [wt_iexpr]. rewrite Et. exact Ht'.
  - pose proof (scheme_get_fn _ _ _ Eg) as Hf.
    unfold increase. destruct (N.leb_spec maxd d) as [Hge|Hlt].
    { cbn. split; [sfx|lia]. }
    pose proof (ih_call f H (d + 1)%N rest i ltac:(lia) Hf Hrw) as Hc.
    destruct (lex_call sch st f (d + 1) rest i) as [a rest1|k at_ n| |]; cbn [lpost] in Hc |- *; auto.
    destruct Hc as [[[t Ht] Hdep] Hr1]. rewrite (wt_call_ty sch i a t Ht).
    eapply lpost_map; [apply (lex_indexes_post F sch st w t); [exact Hr1|reflexivity]|].
    intros idx [t' Ht']. split; [exists t'; eapply wt_call_idx; eauto|].
    cbn [depth_iexpr]. rewrite Nsucc_nat in Hdep. lia.
  - cbn. split; [assumption|exact Hlen].
Qed.

Lemma step_call f : IHs f -> forall d input fn, (d <= maxd)%N -> fn_of sch fn <> None -> suffix input w ->
  lpost w (okC d fn) (lex_call sch st (S f) d input fn).
Proof.
  intros H d input fn Hd Hfn Hs. cbn [lex_call]. destruct (fn_of sch fn) as [def|] eqn:Ef; [|contradiction].
  eapply lpost_bind; [eapply lpost_weaken; [apply expect_post|sfx|intros a Ha; exact Ha]|].
  intros _ rest _ Hr. eapply lpost_map.
  { apply (ih_call_args f H d (skip_space rest) def []); [assumption| |sfx].
    split; [|constructor]. split; [constructor|]. destruct (fn_variadic_same def); [exact I|].
    split; [cbn; lia|constructor]. }
  intros l [[Hinv Hdep] Hcount]. split.
  - eapply acc_inv_final; eauto.
  - assert (Hx : (depth_args (args_of_list l) <= M - N.to_nat d)%nat).
    { apply depth_args_of_list. eapply Forall_impl; [|exact Hdep]. cbn. intros a Ha. lia. }
    assert (N.to_nat d <= M)%nat by lia. lia.
Qed.

Lemma step_call_args f : IHs f -> forall d input def acc, (d <= maxd)%N -> okAs d def acc -> suffix input w ->
  lpost w (fun l => okAs d def l /\ (mandatory def <= length l)%nat)
        (lex_call_args sch st (S f) d input def acc).
Proof.
  intros H d input def acc Hd Hacc Hs. cbn [lex_call_args]. cbv zeta.
  assert (Hfin : forall i, suffix i w ->
     lpost w (fun l => okAs d def l /\ (mandatory def <= length l)%nat)
       (if Nat.ltb (length acc) (if fn_variadic_same def then 2%nat else length (fn_params def))
        then LErr EInvalidArgumentsCount i (length i)
        else lbind (expect [41] i) (fun _ rest => LOk acc rest))).
  { intros i Hi. destruct (Nat.ltb_spec (length acc) (if fn_variadic_same def then 2%nat else length (fn_params def))) as [Hlt|Hge].
    - apply lpost_err; [assumption|lia].
    - eapply lpost_bind; [eapply lpost_weaken; [apply expect_post|exact Hi|intros a Ha; exact Ha]|].
      intros _ rest _ Hr. cbn. split; [|assumption]. split; [assumption|exact Hge]. }
  assert (Hgo : forall i, suffix i w ->
     lpost w (fun l => okAs d def l /\ (mandatory def <= length l)%nat)
      (lbind (if Nat.eqb (length acc) 0 then LOk tt i else expect [44] i)
        (fun _ input1 =>
           match lex_arg sch st f d (skip_space input1) with
           | LOk a rest =>
               if Nat.ltb 0 (arg_map_each_count a) && negb (Nat.eqb (length acc) 0)
               then LErr EInvalidMapEachAccess (skip_space input1) (span_len (skip_space input1) rest)
               else if negb (fn_variadic_same def)
                       && Nat.leb (length (fn_params def) + length (fn_opt_params def)) (length acc)
               then LErr EInvalidArgumentsCount (skip_space input1) (length (skip_space input1))
               else
                 match ty_arg sch a with
                 | None => LPanic
                 | Some t =>
                     match check_param sch def acc a t with
                     | PcOk => lex_call_args sch st f d (skip_space rest) def (acc ++ [a])
                     | PcKind => LErr EInvalidArgumentKind (skip_space input1) (span_len (skip_space input1) rest)
                     | PcType => LErr EInvalidArgumentType (skip_space input1) (span_len (skip_space input1) rest)
                     | PcUnreachable => LPanic
                     end
                 end
           | LErr k a n => LErr k a n
           | LPanic => LPanic
           | LFuel => LFuel
           end))).
  { intros i Hi. apply lpost_bind with (P := fun _ : unit => True).
    { destruct (Nat.eqb (length acc) 0); [cbn; auto|].
      eapply lpost_weaken; [apply expect_post|exact Hi|intros a Ha; exact Ha]. }
    intros _ input1 _ Hi1. assert (Hi2 : suffix (skip_space input1) w) by sfx.
    pose proof (ih_arg f H d (skip_space input1) Hd Hi2) as Ha.
    destruct (lex_arg sch st f d (skip_space input1)) as [a rest|k at_ n| |]; cbn [lpost] in Ha |- *; auto.
    destruct Ha as [[[t Ht] Hdep] Hr].
    destruct (Nat.ltb 0 (arg_map_each_count a) && negb (Nat.eqb (length acc) 0)) eqn:Em;
      [apply lpost_err; [assumption|apply span_len_le]|].
    destruct (negb (fn_variadic_same def)
              && Nat.leb (length (fn_params def) + length (fn_opt_params def)) (length acc)) eqn:Ecount;
      [apply lpost_err; [assumption|lia]|].
    rewrite (wt_ty_arg sch a t Ht).
    assert (Hmm : arg_map_each_count a = 0%nat \/ acc = []).
    { apply andb_false_iff in Em. destruct Em as [Em|Em].
      - left. apply Nat.ltb_ge in Em. lia.
      - right. apply negb_false_iff, Nat.eqb_eq in Em. now destruct acc. }
    destruct Hacc as [Hinv Hdeps].
    destruct (check_param sch def acc a t) eqn:Ecp; try (apply lpost_err; [assumption|apply span_len_le]).
    - apply (ih_call_args f H); [assumption| |sfx]. split.
      + eapply acc_inv_step; eauto.
      + apply Forall_app. split; [assumption|]. constructor; [exact Hdep|constructor].
    - (* PcUnreachable cannot happen *)
      exfalso. unfold check_param in Ecp. destruct Hinv as [Htl Hinv].
      destruct (fn_variadic_same def) eqn:Hv.
      + destruct acc as [|p0 acc']; [destruct t; discriminate Ecp|].
        destruct Hinv as (t0 & _ & Hall). inversion Hall as [|? ? Hp0 _]; subst.
        rewrite (wt_ty_arg sch p0 t0 Hp0) in Ecp. destruct (ty_eqb t t0); discriminate Ecp.
      + cbn [negb andb] in Ecount. apply Nat.leb_gt in Ecount.
        destruct (nth_error (fn_params def) (length acc)) as [[k pt]|] eqn:E1.
        { destruct (negb (kind_matches k a)); [discriminate|]. destruct (ty_eqb t pt); discriminate. }
        destruct (nth_error (fn_opt_params def) (length acc - length (fn_params def))) as [[k dv]|] eqn:E2.
        { destruct (negb (kind_matches k a)); [discriminate|]. destruct (ty_eqb t (type_of dv)); discriminate. }
        apply nth_error_None in E1, E2. lia. }
  destruct input as [|b r]; [apply Hfin; assumption|].
  destruct (N.eq_dec b 41) as [->|N41]; [apply Hfin; assumption|].
  destruct b as [|p]; [apply Hgo; assumption|].
  repeat (destruct p as [p|p|]; try (apply Hgo; assumption); try contradiction).
Qed.

Local Arguments regex_compile : simpl never.
Local Arguments wparse : simpl never.

Lemma lex_rhs_int i : lpost i (fun r => rhs_ty r = TInt) (lex_rhs TInt i).
Proof. apply (lex_rhs_post F); auto. Qed.
Lemma lex_rhs_bytes i : lpost i (fun r => rhs_ty r = TBytes) (lex_rhs TBytes i).
Proof. apply (lex_rhs_post F); auto. Qed.
Lemma lex_rhs_ip i : lpost i (fun r => rhs_ty r = TIp) (lex_rhs TIp i).
Proof. apply (lex_rhs_post F); auto. Qed.

Ltac err := apply lpost_err; [sfx|first [apply span_len_le|lia]].
Ltac bindL lem :=
  eapply lpost_bind; [eapply lpost_weaken; [apply lem|sfx|intros ? Hx; exact Hx]|];
  intros ?x ?rest ?Hx ?Hrest.

Lemma step_with_lhs f : IHs f -> forall d input lhs, okI d lhs -> suffix input w ->
  lpost w (okL d) (lex_with_lhs sch st (S f) d input lhs).
Proof.
  intros H d input lhs [[t Ht] Hdep] Hs. cbn [lex_with_lhs]. rewrite (wt_ty_iexpr sch lhs t Ht). cbv zeta.
  assert (HokT : forall op, (exists t', wt_lexpr sch (EComparison lhs op) = Some t') -> okL d (EComparison lhs op)).
  { intros op Hw. split; [exact Hw|exact Hdep]. }
  assert (Hprim : forall op rest, (t = TInt \/ t = TBytes \/ t = TIp) -> op_ok sch t op = true -> suffix rest w ->
             lpost w (okL d) (LOk (EComparison lhs op) rest)).
  { intros op rest Hp Hop Hr. cbn [lpost]. split; [|assumption]. apply HokT. eapply wt_cmp_prim; eauto. }
  assert (Hinit : suffix (skip_space input) w) by sfx.
  assert (Hlist : forall i, suffix i w -> (t = TInt \/ t = TBytes \/ t = TIp) ->
            lpost w (okL d)
              (lbind (lex_list_name i) (fun name rest =>
                 match list_index sch t with
                 | Some li => LOk (EComparison lhs (CInList li name)) rest
                 | None => LErr EUnsupportedOp (skip_space input) (span_len (skip_space input) rest)
                 end))).
  { intros i Hi Hp. bindL (lf_list_name F). destruct (list_index sch t) as [li|] eqn:El; [|err].
    apply Hprim; [assumption| |assumption].
    destruct Hp as [->|[->| ->]]; cbn [op_ok]; rewrite El, Nat.eqb_refl; reflexivity. }
  destruct t as [| | | |e|e].
  - (* Bool *)
    cbn. split; [|assumption]. apply HokT. cbn [wt_lexpr]. rewrite Ht. eauto.
  - (* Bytes *)
    destruct (lex_alts comparison_ops (skip_space input)) as [[op after_op]|] eqn:Eop; [|err].
    assert (Hao : suffix (skip_space after_op) w) by sfx.
    destruct op; cbn [negb]; try err.
    + destruct (starts_with [36] (skip_space after_op)); [apply Hlist; auto|].
      eapply lpost_bind; [apply brace_list_post; [apply (lf_bytes F)|assumption]|].
      intros l rest _ Hr. apply Hprim; [auto|reflexivity|assumption].
    + bindL lex_rhs_bytes. apply Hprim; [auto| |assumption]. destruct x; try discriminate; reflexivity.
    + bindL (lf_bytes F). apply Hprim; [auto|reflexivity|assumption].
    + bindL (lex_regex_post F). apply Hprim; [auto| |assumption]. cbn [op_ok]. destruct (regex_compile (fst x)) eqn:Erx; [reflexivity|exfalso; exact (Hx Erx)].
    + bindL (lex_wildcard_post F st). apply Hprim; [auto| |assumption]. destruct Hx as (t' & H1 & H2). cbn [op_ok]. rewrite H1, H2. reflexivity.
    + bindL (lex_wildcard_post F st). apply Hprim; [auto| |assumption]. destruct Hx as (t' & H1 & H2). cbn [op_ok]. rewrite H1, H2. reflexivity.
  - (* Int *)
    destruct (lex_alts comparison_ops (skip_space input)) as [[op after_op]|] eqn:Eop; [|err].
    assert (Hao : suffix (skip_space after_op) w) by sfx.
    destruct op; cbn [negb]; try err.
    + destruct (starts_with [36] (skip_space after_op)); [apply Hlist; auto|].
      eapply lpost_bind; [apply brace_list_post; [apply (lf_int_range F)|assumption]|].
      intros l rest _ Hr. apply Hprim; [auto|reflexivity|assumption].
    + bindL lex_rhs_int. apply Hprim; [auto| |assumption]. destruct x; try discriminate; reflexivity.
    + bindL (lf_int F). apply Hprim; [auto|reflexivity|assumption].
  - (* Ip *)
    destruct (lex_alts comparison_ops (skip_space input)) as [[op after_op]|] eqn:Eop; [|err].
    assert (Hao : suffix (skip_space after_op) w) by sfx.
    destruct op; cbn [negb]; try err.
    + destruct (starts_with [36] (skip_space after_op)); [apply Hlist; auto|].
      eapply lpost_bind; [apply brace_list_post; [apply (lf_ip_range F)|assumption]|].
      intros l rest Hl Hr. apply Hprim; [auto| |assumption]. cbn [op_ok]. apply forallb_forall. rewrite Forall_forall in Hl. exact Hl.
    + bindL lex_rhs_ip. apply Hprim; [auto| |assumption]. destruct x; try discriminate; reflexivity.
  - (* Array *)
    destruct e;
      try (destruct (lex_alts comparison_ops (skip_space input)) as [[op after_op]|] eqn:Eop; [|err];
           destruct op; cbn [negb]; err).
    destruct (Nat.ltb 0 (map_each_count (iexpr_idx lhs))) eqn:Em; [err|].
    cbn. split; [|assumption]. apply HokT. cbn [wt_lexpr]. rewrite Ht.
    apply Nat.ltb_ge in Em. replace (map_each_count (iexpr_idx lhs)) with 0%nat by lia. cbn. eauto.
  - (* Map *)
    destruct e;
      try (destruct (lex_alts comparison_ops (skip_space input)) as [[op after_op]|] eqn:Eop; [|err];
           destruct op; cbn [negb]; err).
    destruct (Nat.ltb 0 (map_each_count (iexpr_idx lhs))) eqn:Em; [err|].
    cbn. split; [|assumption]. apply HokT. cbn [wt_lexpr]. rewrite Ht.
    apply Nat.ltb_ge in Em. replace (map_each_count (iexpr_idx lhs)) with 0%nat by lia. cbn. eauto.
Qed.

Lemma okA_lit d r : (d <= maxd)%N -> okA d (ALit r).
Proof. intros Hd. split; [exists (rhs_ty r); reflexivity|]. cbn [depth_arg]. lia. Qed.

Lemma step_arg f : IHs f -> forall d input, (d <= maxd)%N -> suffix input w ->
  lpost w (okA d) (lex_arg sch st (S f) d input).
Proof.
  intros H d input Hd Hs. cbn [lex_arg]. destruct (first_chars input) as [[c1 c2] c3]. cbv zeta.
  assert (Hlit : lpost w (okA d)
    (match lex_ip input with
     | LOk a rest => LOk (ALit (RIp a)) rest
     | LPanic => LPanic
     | LFuel => LFuel
     | LErr _ _ _ =>
         match lex_int input with
         | LOk z rest => LOk (ALit (RInt z)) rest
         | LPanic => LPanic
         | LFuel => LFuel
         | LErr _ _ _ =>
             match lex_bytes input with
             | LOk p rest => LOk (ALit (RBytes (fst p) (snd p))) rest
             | LPanic => LPanic
             | LFuel => LFuel
             | LErr _ _ _ => LErr EEOF input (length input)
             end
         end
     end)).
  { pose proof (lpost_weaken _ w _ (fun _ => True) _ (lf_ip F input) Hs (fun _ _ => I)) as H1.
    destruct (lex_ip input); cbn [lpost] in H1 |- *; auto.
    { destruct H1. split; [now apply okA_lit|assumption]. }
    pose proof (lpost_weaken _ w _ (fun _ => True) _ (lf_int F input) Hs (fun _ _ => I)) as H2.
    destruct (lex_int input); cbn [lpost] in H2 |- *; auto.
    { destruct H2. split; [now apply okA_lit|assumption]. }
    pose proof (lpost_weaken _ w _ (fun _ => True) _ (lf_bytes F input) Hs (fun _ _ => I)) as H3.
    destruct (lex_bytes input); cbn [lpost] in H3 |- *; auto.
    { destruct H3. split; [now apply okA_lit|assumption]. }
    all: try (split; [assumption|lia]). }
  assert (Hidx : forall propagate, lpost w (okA d)
    (match lex_index_expr sch st f d input with
     | LOk lhs rest =>
         match lex_alts comparison_ops (skip_space rest) with
         | Some _ => lmap ALogical (lex_with_lhs sch st f d rest lhs)
         | None => LOk (AIndex lhs) rest
         end
     | LErr k a n => if propagate : bool then LErr k a n else
         (match lex_ip input with
          | LOk a rest => LOk (ALit (RIp a)) rest
          | LPanic => LPanic
          | LFuel => LFuel
          | LErr _ _ _ =>
              match lex_int input with
              | LOk z rest => LOk (ALit (RInt z)) rest
              | LPanic => LPanic
              | LFuel => LFuel
              | LErr _ _ _ =>
                  match lex_bytes input with
                  | LOk p rest => LOk (ALit (RBytes (fst p) (snd p))) rest
                  | LPanic => LPanic
                  | LFuel => LFuel
                  | LErr _ _ _ => LErr EEOF input (length input)
                  end
              end
          end)
     | LPanic => LPanic
     | LFuel => LFuel
     end)).
  { intros propagate. pose proof (ih_index f H d input Hd Hs) as Hi.
    destruct (lex_index_expr sch st f d input) as [lhs rest|k a n| |]; cbn [lpost] in Hi; auto.
    - destruct Hi as [Hl Hr]. destruct (lex_alts comparison_ops (skip_space rest)).
      + eapply lpost_map; [apply (ih_with_lhs f H); assumption|]. intros e He. exact He.
      + cbn. split; [exact Hl|assumption].
    - destruct propagate; [exact Hi|exact Hlit]. }
  destruct c1 as [b1|]; [|apply (Hidx false)].
  destruct ((b1 =? 34)%N || _).
  { eapply lpost_map; [eapply lpost_weaken; [apply (lf_bytes F)|assumption|intros a Ha; exact Ha]|].
    intros p _. now apply okA_lit. }
  destruct (_ || _ || _).
  { eapply lpost_map; [apply (ih_logical f H); assumption|]. intros e He. exact He. }
  destruct (_ || _ || _); [apply (Hidx true)|apply (Hidx false)].
Qed.

Lemma IHs_S f : IHs f -> IHs (S f).
Proof.
  intros H. constructor.
  - apply step_logical; assumption.
  - apply step_more; assumption.
  - apply step_inner; assumption.
  - apply step_simple; assumption.
  - apply step_with_lhs; assumption.
  - apply step_index; assumption.
  - apply step_call; assumption.
  - apply step_call_args; assumption.
  - apply step_arg; assumption.
Qed.

Theorem parser_post f : IHs f.
Proof. induction f as [|f IH]; [apply IHs_0|now apply IHs_S]. Qed.

End Main.
